// Helpers shared by the C10 layout harness: JSON fragments for byte tuples, catalogue entries, file io.
#pragma once
#include <cstdint>
#include <cstring>
#include <string>
#include <vector>
#include <functional>
#include <fstream>
#include <sstream>
#include <algorithm>
#include "vtrace.hpp"
#include "refhash.hpp"

namespace lay {

typedef std::vector<uint8_t> Bytes;

// catalogue variant (--vseed): 0 = the baseline catalogue confronted with corpus/; other values shift the item streams so
// that further content goes through the same writer / reader checks (thorough tier)
static long long g_v = 0;
static inline long long IV(long long x) { return x + g_v * 1000003LL; }         // integer items
static inline int PV(int i) { return (int)(((long long)i * 383 + g_v * 17) % 1009); }   // distinct, unsorted values 0..1008

// JSON list of the bytes of an object in memory order (little-endian machine): 64-bit quantities are
// compared in TLA+ as 8-byte tuples, never as numbers
static inline std::string bl(const void* p, size_t n) {
  std::string s = "[";
  const uint8_t* q = static_cast<const uint8_t*>(p);
  for (size_t i = 0; i < n; i++) { if (i) s += ","; s += std::to_string((int)q[i]); }
  return s + "]";
}
template<class T> static inline std::string bv(const T& v) { return bl(&v, sizeof v); }
static inline std::string bv(const std::string& v) { return bl(v.data(), v.size()); }
template<class Bt> static inline std::string bvec(const Bt& b) { return bl(b.data(), b.size()); }

struct J {   // JSON object builder
  std::string s; bool first = true;
  J& key(const char* k) { s += first ? "{\"" : ",\""; first = false; s += k; s += "\":"; return *this; }
  // TLC integers are 32-bit: a count that does not fit (only possible when an image was mis-read) is logged as 2^31-1 and fails its clause
  static long long clamp(long long v) { return v > 2147483647LL ? 2147483647LL : (v < -2147483647LL ? -2147483647LL : v); }
  J& i(const char* k, long long v) { key(k); s += std::to_string(clamp(v)); return *this; }
  J& b(const char* k, bool v) { key(k); s += v ? "true" : "false"; return *this; }
  J& raw(const char* k, const std::string& j) { key(k); s += j; return *this; }
  J& str(const char* k, const std::string& v) { key(k); s += "\"" + v + "\""; return *this; }
  std::string done() const { return first ? "{}" : s + "}"; }
};
struct L {   // JSON list builder
  std::string s = "["; bool first = true;
  L& add(const std::string& j) { if (!first) s += ","; first = false; s += j; return *this; }
  L& addi(long long v) { return add(std::to_string(J::clamp(v))); }
  std::string done() const { return s + "]"; }
};

struct Read { std::string proj; Bytes reser; };
template<class V> static inline Bytes tob(const V& v) { return Bytes(v.begin(), v.end()); }

// both serialization paths of every class are exercised: the bytes form (serialize(header) / deserialize(ptr, size)) and the
// stream form (serialize(ostream) / deserialize(istream)) are separate code in the library
template<class F> static inline Bytes via_stream(F f) {
  std::ostringstream os(std::ios::binary); f(os); const std::string t = os.str(); return Bytes(t.begin(), t.end());
}
static inline std::istringstream in_stream(const Bytes& b) { return std::istringstream(std::string(b.begin(), b.end()), std::ios::binary); }

struct Entry {
  std::string name, family, kind;
  std::string hints;                        // JSON object: out-of-band knowledge any reader has (item size, ...)
  Bytes bytes;                              // image written by the current tree, bytes path
  Bytes sbytes;                             // image written by the current tree, stream path
  std::string proj;                         // projection of the source object through the public API
  std::function<Read(const Bytes&, bool)> reader;   // deserialize with the current tree + same projection + re-serialization
};

// ser(obj, stream) -> image; de(image, stream) -> object; pr(obj) -> projection.  The object is serialized first (some serializers
// have documented side effects), then projected; the reader closure re-serializes on the path it read from.
template<class Obj, class Ser, class De, class Pr> static inline void fill(Entry& e, Obj& o, Ser ser, De de, Pr pr) {
  e.bytes = ser(o, false); e.sbytes = ser(o, true); e.proj = pr(o);
  e.reader = [ser, de, pr](const Bytes& x, bool st) { auto r = de(x, st); Bytes rs = ser(r, st); return Read{pr(r), rs}; };
}

static inline Bytes read_file(const std::string& path, bool& ok) {
  std::ifstream f(path, std::ios::binary);
  ok = (bool)f;
  return Bytes((std::istreambuf_iterator<char>(f)), std::istreambuf_iterator<char>());
}
static inline void write_file(const std::string& path, const Bytes& b) {
  std::ofstream f(path, std::ios::binary);
  f.write((const char*)b.data(), (std::streamsize)b.size());
}
static inline Bytes from_hex(const std::string& h) {
  Bytes b; b.reserve(h.size() / 2);
  auto v = [](char c) { return c <= '9' ? c - '0' : (c | 32) - 'a' + 10; };
  for (size_t i = 0; i + 1 < h.size(); i += 2) b.push_back((uint8_t)(v(h[i]) * 16 + v(h[i + 1])));
  return b;
}

// reference seed hash: low 16 bits of MurmurHash3_x64_128(seed as 8 LE bytes, hash seed 0).h1 (published definition)
static inline int ref_seed_hash(uint64_t seed) {
  return (int)(refhash::murmur3_x64_128(&seed, 8, 0).h1 & 0xffff);
}

} // namespace lay
