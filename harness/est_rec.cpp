// C06 driver: (b) dense sweep of the shared binomial-bound functions, (c) seeded accuracy trials of Theta / HLL / CPC
// sketches and union results.  Only observations are logged; bias / spread / coverage verdicts are computed by TLC
// (spec/TraceEst.tla) in integer arithmetic.
#include <memory>
#include <theta_sketch.hpp>
#include <theta_union.hpp>
#include <hll.hpp>
#include <cpc_sketch.hpp>
#include <cpc_union.hpp>
#include <binomial_bounds.hpp>
#include <icon_estimator.hpp>
#include "vtrace.hpp"

using namespace datasketches;
using vt::Ev;

template<class S> static void trial_event(const S& s, double n, bool cpc) {
  std::vector<double> lb, ub;
  for (int k = 1; k <= 3; k++) { lb.push_back(s.get_lower_bound(k)); ub.push_back(s.get_upper_bound(k)); }
  double est = s.get_estimate();
  (void)cpc;
  Ev("Trial").i("errPpm", (long long)std::llround(1e6 * (est - n) / n)).d("nD", n).d("est", est).dl("lb", lb).dl("ub", ub).emit();
}

static void grid(vt::Rng& g, long points) {
  Ev("Begin").str("mode", "grid").emit();
  // counts: dense 0..300, then geometric; thetas: 1.0 and a spread over (0,1]
  std::vector<unsigned long long> counts;
  for (unsigned long long c = 0; c <= 300; c++) counts.push_back(c);
  for (double c = 320; c < 2e7; c *= 1.13) counts.push_back((unsigned long long)c);
  std::vector<double> thetas = {1.0, 0.999999, 0.99, 0.9, 0.75, 0.5, 0.3, 0.1, 0.03, 0.01, 1e-3, 1e-4, 1e-6, 1e-9};
  for (int j = 0; j < 12; j++) thetas.push_back(std::pow(10.0, -6.0 * g.unit()));
  long emitted = 0;
  for (double th : thetas) {
    for (size_t ci = 0; ci < counts.size(); ci++) {
      if (points > 0 && emitted >= points) break;
      unsigned long long c = counts[ci];
      if ((double)c / th > 1e15) continue;
      std::vector<double> lb, ub;
      for (unsigned k = 1; k <= 3; k++) { lb.push_back(binomial_bounds::get_lower_bound(c, th, k)); ub.push_back(binomial_bounds::get_upper_bound(c, th, k)); }
      Ev("BB").d("count", (double)c).b("thetaOne", th == 1.0).d("est", (double)c / th).dl("lb", lb).dl("ub", ub).emit();
      emitted++;
    }
  }
  // ICON estimator (CPC merged form) as a function of (lg_k, C): dense sweep in C, compared with an independent
  // evaluation of its published definition: the n for which the expected number of coupons
  // E[C](n) = sum_j k (1 - (1 - 2^-(j+1)/k)^n) equals C (bisection in doubles)
  for (int lgk = 4; lgk <= 13; lgk++) {
    const double k = (double)(1u << lgk);
    auto expected = [&](double n) { double e = 0; for (int j = 0; j < 64; j++) { double q = std::ldexp(1.0, -(j + 1)) / k; e += k * (-std::expm1(n * std::log1p(-q))); } return e; };
    uint32_t step = std::max(1u, (1u << lgk) / 64);
    bool first = true;
    for (uint32_t c = 0; c <= 12u * (1u << lgk); c += (c < 64 ? 1 : step)) {
      double est = compute_icon_estimate((uint8_t)lgk, c);
      double lo = 0, hi = 1e9;
      for (int it = 0; it < 200; it++) { double mid = 0.5 * (lo + hi); if (expected(mid) < (double)c) lo = mid; else hi = mid; }
      double exact = 0.5 * (lo + hi);
      long long dev = c == 0 ? (long long)std::llround(est * 1e6) : (long long)std::llround(1e6 * (est - exact) / exact);
      if (dev > 2000000000LL) dev = 2000000000LL; if (dev < -2000000000LL) dev = -2000000000LL;
      Ev("ICON").i("lgk", lgk).i("c", c).b("first", first).d("est", est).d("cD", (double)c).i("devPpm", dev).emit();
      first = false;
    }
  }
  // EXACT coverage of the shared binomial bounds (no sampling): a Theta sketch that saw n distinct items with sampling
  // fraction theta retains C ~ Binomial(n, theta) entries; the probability that the reported interval misses n on
  // either side is summed exactly over C (reference binomial pmf via lgamma) and judged by the specification
  {
    const double cov_thetas[] = {0.9, 0.5, 0.25, 0.1, 0.05, 0.02, 0.01, 0.003, 0.001};
    for (double th : cov_thetas) {
      const double lth = std::log(th), l1 = std::log1p(-th);
      for (long n = 1; n <= 3000; n = n < 60 ? n + 1 : (long)(n * 1.07) + 1) {
        std::vector<long long> mu, ml;
        for (unsigned k = 1; k <= 3; k++) {
          double missU = 0, missL = 0;
          for (long c = 0; c <= n; c++) {
            const double lp = std::lgamma(n + 1.0) - std::lgamma(c + 1.0) - std::lgamma(n - c + 1.0) + c * lth + (n - c) * l1;
            const double pr = std::exp(lp);
            if (pr < 1e-18) continue;
            if (binomial_bounds::get_upper_bound((unsigned long long)c, th, k) < (double)n) missU += pr;
            if (binomial_bounds::get_lower_bound((unsigned long long)c, th, k) > (double)n) missL += pr;
          }
          mu.push_back((long long)std::llround(missU * 1e6)); ml.push_back((long long)std::llround(missL * 1e6));
        }
        Ev("BBCov").i("n", n).i("thetaPpm", (long long)std::llround(th * 1e6)).il("missUbPpm", mu).il("missLbPpm", ml).emit();
      }
    }
  }
  // invalid arguments must be refused
  int refused = 0;
  try { binomial_bounds::get_lower_bound(10, 0.5, 0); } catch (const std::invalid_argument&) { refused++; }
  try { binomial_bounds::get_upper_bound(10, 0.5, 4); } catch (const std::invalid_argument&) { refused++; }
  try { binomial_bounds::get_lower_bound(10, 1.5, 2); } catch (const std::invalid_argument&) { refused++; }
  try { binomial_bounds::get_upper_bound(10, -0.1, 2); } catch (const std::invalid_argument&) { refused++; }
  Ev("BBInvalid").i("refused", refused).i("of", 4).emit();
}

// one cell = family x lgk x n, T independent streams over disjoint key ranges
static void cell(const std::string& fam, int lgk, long n, long T, uint64_t& next_key) {
  Ev("Begin").str("mode", "trials").str("family", fam).i("lgk", lgk).i("n", n).i("T", T).emit();
  for (long t = 0; t < T; t++) {
    uint64_t base = next_key; next_key += (uint64_t)n * 2 + 17;
    if (fam == "theta") {
      auto s = update_theta_sketch::builder().set_lg_k((uint8_t)lgk).build();
      for (long j = 0; j < n; j++) s.update(base + j);
      trial_event(s, (double)n, false);
    } else if (fam == "theta-union") {
      auto a = update_theta_sketch::builder().set_lg_k((uint8_t)lgk).build();
      auto b = update_theta_sketch::builder().set_lg_k((uint8_t)lgk).build();
      for (long j = 0; j < n; j++) { if (j % 2) a.update(base + j); else b.update(base + j); if (j % 4 == 0) a.update(base + j); }
      // one union object serves every trial of the cell: odd trials reuse it after reset() (its previous life must not show)
      static std::unique_ptr<theta_union> shared; static int shared_lgk = -1;
      if (!shared || shared_lgk != lgk) { shared.reset(new theta_union(theta_union::builder().set_lg_k((uint8_t)lgk).build())); shared_lgk = lgk; }
      if (t % 2) { shared->reset(); shared->update(a); shared->update(b); trial_event(shared->get_result(), (double)n, false); }
      else { auto u = theta_union::builder().set_lg_k((uint8_t)lgk).build(); u.update(a); u.update(b); trial_event(u.get_result(), (double)n, false);
             shared->update(a); }   // leaves the shared union in whatever mode this trial reaches
    } else if (fam == "hll4" || fam == "hll6" || fam == "hll8") {
      target_hll_type ty = fam == "hll4" ? HLL_4 : fam == "hll6" ? HLL_6 : HLL_8;
      hll_sketch s(lgk, ty);
      for (long j = 0; j < n; j++) s.update(base + j);
      trial_event(s, (double)n, false);
    } else if (fam == "hll-union") {
      // operand types and lg_k rotate with the trial: sources of a larger lg_k than the union (down-sampling merges of
      // every source type, cur-min > 0 at large n), both orders
      static const target_hll_type TY[] = {HLL_4, HLL_6, HLL_8};
      const int la = lgk + (int)(t % 3), lb2 = lgk + (int)((t / 3) % 2);
      hll_sketch a(la, TY[t % 3]), b(lb2, TY[(t / 3) % 3]);
      for (long j = 0; j < n; j++) { if (j % 2) a.update(base + j); else b.update(base + j); if (j % 4 == 0) a.update(base + j); }
      hll_union u(lgk);
      if ((t / 9) % 2) { u.update(b); u.update(a); } else { u.update(a); u.update(b); }
      trial_event(u.get_result(TY[(t / 2) % 3]), (double)n, false);
    } else if (fam == "cpc") {
      cpc_sketch s(lgk);
      for (long j = 0; j < n; j++) s.update(base + j);
      trial_event(s, (double)n, true);
    } else if (fam == "cpc-union") {
      // operands of different lg_k in both orders: the union starts at the larger lg_k and must reduce itself
      const int la = lgk + (int)(t % 3), lb2 = lgk + (int)((t / 3) % 2);
      cpc_sketch a(la), b(lb2);
      for (long j = 0; j < n; j++) { if (j % 2) a.update(base + j); else b.update(base + j); if (j % 4 == 0) a.update(base + j); }
      cpc_union u(lgk + 2);
      if ((t / 6) % 2) { u.update(b); u.update(a); } else { u.update(a); u.update(b); }
      trial_event(u.get_result(), (double)n, true);
    }
  }
  Ev("Verdict").emit();
}

int main(int argc, char** argv) {
  vt::install_terminate();
  uint64_t seed = (uint64_t)vt::argl(argc, argv, "--seed", 1);
  std::string mode = vt::arg(argc, argv, "--mode", "grid");
  vt::open_out(vt::arg(argc, argv, "--out", "/dev/stdout"));
  vt::Rng g(seed);
  if (mode == "grid") grid(g, vt::argl(argc, argv, "--points", 0));
  else {
    std::string fam = vt::arg(argc, argv, "--family", "theta");
    long T = vt::argl(argc, argv, "--T", 100);
    // --lgks "8,10,12"  --mults "0.5,2,16,100" (n = mult * k)
    auto split = [](const std::string& str) { std::vector<double> v; size_t p = 0; while (p < str.size()) { size_t q = str.find(',', p); if (q == std::string::npos) q = str.size(); v.push_back(atof(str.substr(p, q - p).c_str())); p = q + 1; } return v; };
    std::vector<double> lgks = split(vt::arg(argc, argv, "--lgks", "8,9,10"));
    std::vector<double> mults = split(vt::arg(argc, argv, "--mults", "0.5,2,16,100"));
    uint64_t next_key = (g.next() >> 20) << 20;
    for (double lg : lgks) {
      long k = 1L << (int)lg;
      for (double m : mults) cell(fam, (int)lg, (long)(m * k), T, next_key);
    }
  }
  vt::close_out();
  fprintf(stderr, "est_rec: %ld events\n", vt::g_events);
  return 0;
}
