// Recording driver for ebpps_sketch (C18) with serialization events (C09).
// Randomized operation histories on the real class, one ND-JSON event per public call.  The driver offers DISTINCT
// items (ids 1,2,3.. per segment, realised as int64 or std::string items) with INTEGER weights, so the
// specification (spec/Ebpps.tla through spec/TraceEbpps.tla) computes n, the cumulative weight and the expected
// sample size c = min(k, cumWt / wtMax) exactly.  Only inputs and observations are logged.
// Scalars on every event: n, k, cum = round(get_cumulative_weight()) with cumRes = residual in 1e-6 units,
// c10k = round(get_c() * 10^4).
#include <memory>
#include <sstream>
#include <algorithm>
#include <map>
#include <set>
#include <ebpps_sketch.hpp>
#include "vtrace.hpp"

using namespace datasketches;
using vt::Ev;

struct ConvI {
  typedef int64_t T;
  static T item(long id) { return (int64_t)id * 1000003LL - 77; }
  static long id(const T& v) { return (long)((v + 77) / 1000003LL); }
};
struct ConvS {
  typedef std::string T;
  static T item(long id) { return "item-" + std::to_string(id) + std::string((size_t)(id % 7), 'x'); }
  static long id(const T& v) { return v.size() > 5 ? atol(v.c_str() + 5) : -1; }
};
static std::string clean(const std::string& s) {
  std::string r; for (char c : s) r += (c == '"' || c == '\\' || (unsigned char)c < 32) ? ' ' : c; return r;
}
// every traversal idiom of the sample must show a legal sample: get_result(), explicit iterator loop, range-for, and the
// idioms that COPY iterators (container range constructor, std::copy, std::for_each, the value of it++, named
// iterators handed by value to a helper)
static const int NIDIOMS = 8;
static const char* const IDIOMS[NIDIOMS] = {"get_result", "iterator", "range-for", "range-ctor", "std::copy", "std::for_each", "postfix-value", "by-value"};
template<class It, class F> static void walk_by_value(It first, It last, F f) { for (; first != last; ++first) f(*first); }
template<class S, class F> static void traverse(const S& s, int idiom, F f) {
  typedef typename std::decay<decltype(*s.begin())>::type T;
  switch (idiom) {
    case 0: { auto r = s.get_result(); for (const auto& v : r) f(v); break; }
    case 1: { for (auto it = s.begin(); it != s.end(); ++it) f(*it); break; }
    case 2: { for (const auto& v : s) f(v); break; }
    case 3: { auto b = s.begin(); auto e = s.end(); std::vector<T> v(b, e); for (const auto& x : v) f(x); break; }
    case 4: { auto b = s.begin(); auto e = s.end(); std::vector<T> v; std::copy(b, e, std::back_inserter(v)); for (const auto& x : v) f(x); break; }
    case 5: { auto b = s.begin(); auto e = s.end(); std::for_each(b, e, f); break; }
    case 6: { auto it = s.begin(); auto e = s.end(); while (it != e) { auto cur = it++; f(*cur); } break; }
    default: { auto b = s.begin(); auto e = s.end(); walk_by_value(b, e, f); break; }
  }
}
// weight REGIME of a segment: every offered weight is (integer) * g_unit with g_unit a power of two (1/1024 .. 2^20), so that
// streams of weights all below 1 (rho = min(1/wt_max, k/cum) > 1), all above 10^6, or mixed stay exactly representable; the
// cumulative weight is logged divided by it (c = cumWt / wtMax does not depend on the unit)
static double g_unit = 1.0;
static unsigned long g_segs = 0, g_seed0 = 0;
static void next_unit() { static const double U[] = {1.0 / 64, 1.0, 1048576.0, 1.0 / 1024, 1.0, 1.0}; g_unit = U[(g_segs++ + g_seed0) % 6]; }
template<class S> static Ev& scal(Ev& e, const S& s) {
  double cw = s.get_cumulative_weight() / g_unit; long long c = -1, res = 1000000;
  if (std::fabs(cw) < 2e9) { c = std::llround(cw); double d = std::fabs(cw - (double)c) * 1e6; res = d > 1e6 ? 1000000 : std::llround(d); }
  double cc = s.get_c() * 1e4;
  e.i("n", (long long)s.get_n()).i("k", s.get_k()).i("cum", c).i("cumRes", res).i("c10k", std::fabs(cc) < 2e9 ? std::llround(cc) : -1).b("empty", s.is_empty());
  return e;
}

template<class C> struct Seg {
  typedef typename C::T T;
  typedef ebpps_sketch<T> SK;
  static const int NS = 4, NB = 4;
  static const long long CAP = 50000, MCAP = 200000;
  vt::Rng& g;
  std::unique_ptr<SK> sk[NS]; std::vector<int> ids[NS]; bool restored[NS]; int prof[NS]; long eqw[NS]; long long total[NS];
  struct Blob { bool live = false; std::vector<uint8_t> bytes; std::vector<int> ids; long long total = 0; } blob[NB];
  int nextId = 1; long maxk;
  Seg(vt::Rng& g_, long maxk_) : g(g_), maxk(maxk_) { next_unit(); for (int i = 0; i < NS; i++) { restored[i] = false; prof[i] = 0; eqw[i] = 1; total[i] = 0; } }
  Ev& tag(Ev& e, int i) { if (restored[i]) e.b("restored", true); return e; }
  long drawK() { if (g.chance(15)) return g.range(1, 2); return std::min(g.range(1, maxk), g.range(1, maxk)); }
  void drop(int i) { if (sk[i]) { sk[i].reset(); ids[i].clear(); total[i] = 0; restored[i] = false; Ev("Drop").i("id", i).emit(); } }
  void opNew(int i, long k) {
    drop(i);
    sk[i].reset(new SK((uint32_t)k));
    prof[i] = (int)g.below(7); eqw[i] = g.chance(50) ? 1 : g.range(2, 60);
    Ev e("New"); e.i("id", i).i("profile", prof[i]); scal(e, *sk[i]).emit();
  }
  void opNewInvalid() {
    int kind = (int)g.below(3);
    uint32_t k = kind == 0 ? 0u : kind == 1 ? 0x7fffffffu : 0xffffffffu;
    bool refused = false; std::string other;
    try { SK s(k); } catch (std::invalid_argument&) { refused = true; } catch (std::exception& ex) { other = clean(ex.what()); }
    Ev e("NewInvalid"); e.str("kind", kind == 0 ? "zero" : kind == 1 ? "max_k+1" : "2^32-1").b("refused", refused);
    if (!other.empty()) e.str("other", other);
    e.emit();
  }
  long drawW(int i) {
    long w = 1;
    switch (prof[i]) {
      case 0: w = eqw[i]; break;                                 // all equal
      case 1: w = g.range(1, 9); break;
      case 2: w = g.range(1, 100); break;
      case 3: { static const long P[] = {1, 2, 4}; w = P[g.below(3)]; break; }
      case 4: w = g.chance(3) ? 100 : 1; break;                  // rare heavy item
      case 5: w = 256L << g.below(5); break;                     // heavy regime: 256..4096 (few items, see canUpdate)
      case 6: w = 1000 * g.range(1, 4); break;                   // heavy regime: 1000..4000
    }
    if (total[i] + w > CAP) w = 1;
    return w;
  }
  bool canUpdate(int i) { return sk[i] && total[i] + 1 <= MCAP && ids[i].size() < (prof[i] >= 5 ? 12u : 2500u); }
  void opUpdate(int i, long w, bool rv) { opUpdateX(i, nextId++, w, rv); }
  // the same item may be offered to several objects (an original and its restored copies in lock-step)
  void opUpdateX(int i, int id, long w, bool rv) {
    T item = C::item(id);
    std::string threw;
    try { if (rv) sk[i]->update(std::move(item), (double)w * g_unit); else sk[i]->update(item, (double)w * g_unit); }
    catch (std::exception& ex) { threw = clean(ex.what()); if (threw.empty()) threw = "exception"; }
    ids[i].push_back(id); total[i] += w;
    Ev e("Update"); e.i("id", i).i("x", id).i("w", w).b("rv", rv); tag(e, i);
    if (!threw.empty()) { e.str("threw", threw).emit(); drop(i); return; }
    scal(e, *sk[i]).emit();
  }
  // an update with weight 0 is ignored: no observable may change
  void opUpdateZero(int i) {
    std::string threw; bool rv = g.chance(40); T item = C::item(2000000 + nextId);
    try { if (rv) sk[i]->update(std::move(item), 0.0); else sk[i]->update(item, 0.0); }
    catch (std::exception& ex) { threw = clean(ex.what()); if (threw.empty()) threw = "exception"; }
    Ev e("UpdateZero"); e.i("id", i).b("rv", rv); tag(e, i);
    if (!threw.empty()) { e.str("threw", threw).emit(); return; }
    scal(e, *sk[i]).emit();
  }
  void opUpdateInvalid(int i) {
    static const double BAD[] = {-1.0, -0.5, NAN, INFINITY, -INFINITY};
    static const char* NAMES[] = {"-1", "-0.5", "nan", "+inf", "-inf"};
    int kind = (int)g.below(5);
    bool refused = false; std::string other;
    try { sk[i]->update(C::item(1000000 + nextId), BAD[kind]); } catch (std::invalid_argument&) { refused = true; } catch (std::exception& ex) { other = clean(ex.what()); }
    Ev e("UpdateInvalid"); e.i("id", i).str("kind", NAMES[kind]).b("refused", refused); tag(e, i);
    if (!other.empty()) e.str("other", other);
    scal(e, *sk[i]).emit();
  }
  void opGetResult(int i) {
    std::vector<long> xs; std::string threw;
    try { auto r = sk[i]->get_result(); for (auto& it : r) xs.push_back(C::id(it)); }
    catch (std::exception& ex) { threw = clean(ex.what()); if (threw.empty()) threw = "exception"; }
    Ev e("GetResult"); e.i("id", i).str("via", "get_result"); tag(e, i);
    if (!threw.empty()) { e.str("threw", threw).emit(); return; }
    e.il("items", xs); scal(e, *sk[i]).emit();
  }
  void opIterate(int i) {
    std::vector<long> xs; std::string threw; int idiom = 1 + (int)g.below(NIDIOMS - 1);
    try { traverse(*sk[i], idiom, [&xs](const T& v) { if (xs.size() < 100000) xs.push_back(C::id(v)); }); }
    catch (std::exception& ex) { threw = clean(ex.what()); if (threw.empty()) threw = "exception"; }
    Ev e("GetResult"); e.i("id", i).str("via", IDIOMS[idiom]); tag(e, i);
    if (!threw.empty()) { e.str("threw", threw).emit(); return; }
    e.il("items", xs); scal(e, *sk[i]).emit();
  }
  bool disjoint(int i, int j) { std::set<int> a(ids[i].begin(), ids[i].end()); for (int id : ids[j]) if (a.count(id)) return false; return true; }
  void opMerge(int i, int j, bool rv) {
    std::string threw;
    Ev e("Merge"); e.i("dst", i).i("src", j).b("rv", rv).b("srcLarger", total[j] > total[i]); tag(e, i); if (restored[j] && !restored[i]) e.b("restored", true);
    try { if (rv) sk[i]->merge(std::move(*sk[j])); else sk[i]->merge(*sk[j]); }
    catch (std::exception& ex) { threw = clean(ex.what()); if (threw.empty()) threw = "exception"; }
    ids[i].insert(ids[i].end(), ids[j].begin(), ids[j].end()); total[i] += total[j]; if (restored[j]) restored[i] = true;
    if (!threw.empty()) { e.str("threw", threw).emit(); drop(i); if (rv) drop(j); return; }
    scal(e, *sk[i]).emit();
    if (rv) drop(j);      // the argument was moved from (and possibly swapped)
  }
  void opCopy(int i, int j) {
    int how = (int)g.below(3);
    if (how == 0 || !sk[j]) { how = 0; sk[j].reset(new SK(*sk[i])); }
    else if (how == 1) *sk[j] = *sk[i];
    else { SK tmp(*sk[i]); *sk[j] = std::move(tmp); }
    ids[j] = ids[i]; total[j] = total[i]; restored[j] = restored[i]; prof[j] = prof[i]; eqw[j] = eqw[i];
    Ev e("Copy"); e.i("src", i).i("dst", j).str("how", how == 0 ? "ctor" : how == 1 ? "assign" : "move-assign"); tag(e, j); scal(e, *sk[j]).emit();
  }
  void opReset(int i) {
    sk[i]->reset(); ids[i].clear(); total[i] = 0;
    Ev e("Reset"); e.i("id", i); tag(e, i); scal(e, *sk[i]).emit();
  }
  void opSer(int i, int b) {
    static const unsigned HS[] = {0, 0, 1, 7, 8, 13, 64};
    unsigned hdr = HS[g.below(7)];
    std::string threw; std::vector<uint8_t> bytes; std::string st; size_t adv = 0;
    try {
      auto v = sk[i]->serialize(hdr); bytes.assign(v.begin(), v.end());
      std::ostringstream os; sk[i]->serialize(os); st = os.str();
      adv = sk[i]->get_serialized_size_bytes();
    } catch (std::exception& ex) { threw = clean(ex.what()); if (threw.empty()) threw = "exception"; }
    Ev e("Ser"); e.i("id", i).i("blob", b).i("hdr", hdr); tag(e, i);
    if (!threw.empty()) { e.str("threw", threw).emit(); return; }
    blob[b].live = true; blob[b].bytes.assign(bytes.begin() + std::min((size_t)hdr, bytes.size()), bytes.end()); blob[b].ids = ids[i]; blob[b].total = total[i];
    e.i("total", (long long)bytes.size()).i("size", (long long)blob[b].bytes.size()).i("advertised", (long long)adv)
     .bytes("img", blob[b].bytes.data(), blob[b].bytes.size()).bytes("simg", st.data(), st.size()).emit();
  }
  void opDeser(int b, int j, int path = -1) {
    bool stream = path < 0 ? g.chance(50) : path == 1;
    std::string threw; long long consumed = -1; std::unique_ptr<SK> r; std::vector<uint8_t> re;
    try {
      if (stream) {
        std::string in((const char*)blob[b].bytes.data(), blob[b].bytes.size()); in += std::string(16, '\x5a');
        std::istringstream is(in);
        r.reset(new SK(SK::deserialize(is)));
        consumed = (long long)is.tellg();
      } else {
        r.reset(new SK(SK::deserialize(blob[b].bytes.data(), blob[b].bytes.size())));
        consumed = (long long)blob[b].bytes.size();
      }
      auto v = r->serialize(); re.assign(v.begin(), v.end());
    } catch (std::exception& ex) { threw = clean(ex.what()); if (threw.empty()) threw = "exception"; }
    Ev e("Deser"); e.i("blob", b).i("dst", j).str("path", stream ? "stream" : "bytes").b("restored", true);
    if (!threw.empty()) { e.str("threw", threw).emit(); return; }
    drop(j);
    sk[j] = std::move(r); restored[j] = true; ids[j] = blob[b].ids; total[j] = blob[b].total; prof[j] = (int)g.below(5); eqw[j] = g.range(1, 9);
    e.i("consumed", consumed).bytes("reimg", re.data(), re.size()); scal(e, *sk[j]).emit();
  }
  // damaged images (C11 clauses inside this family's driver): C made negative, or the image truncated: must be refused
  void opDeserBad(int b) {
    const std::vector<uint8_t>& img = blob[b].bytes;
    if (img.size() < 48 || (img[0] & 0x3f) != 5) return;
    std::vector<uint8_t> bad(img); long cut = -1; const char* what = "negative-c";
    int kind = (int)g.below(4);           // 0 negative C bytes, 1 negative C stream, 2 truncated bytes, 3 truncated stream
    if (kind <= 1) bad[47] |= 0x80;       // sign bit of C (offset 40..47 of a non-empty image)
    else { what = "truncated"; cut = g.range(9, (long)img.size() - 1); bad.resize((size_t)cut); }
    bool refused = false; std::string ex;
    try {
      if (kind % 2 == 0) { SK r = SK::deserialize(bad.data(), bad.size()); (void)r; }
      else { std::istringstream is(std::string((const char*)bad.data(), bad.size())); SK r = SK::deserialize(is); (void)r; }
    } catch (std::exception& e) { refused = true; ex = clean(e.what()); }
    Ev("DeserBad").i("blob", b).str("what", what).str("path", kind % 2 == 0 ? "bytes" : "stream").i("cut", cut).i("size", (long long)img.size())
      .b("refused", refused).str("ex", ex.substr(0, 80)).emit();
  }
  void run(long events, int serde_pct) {
    opNew(0, drawK());
    for (long n = 0; n < events; n++) {
      int i = (int)g.below(NS);
      if (!sk[i]) { if (g.chance(35)) { opNew(i, drawK()); continue; } i = 0; if (!sk[0]) { opNew(0, drawK()); continue; } }
      int op = (int)g.below(100);
      int upd = 100 - 30 - 2 * serde_pct;
      if (op < upd) { if (canUpdate(i) && total[i] < CAP) opUpdate(i, drawW(i), g.chance(40)); else if (g.chance(50)) opReset(i); else opGetResult(i); }
      else if (op < upd + 8) opGetResult(i);
      else if (op < upd + 14) opIterate(i);
      else if (op < upd + 15) { if (g.chance(50)) opUpdateInvalid(i); else { opUpdateZero(i); if (g.chance(30)) { int b = (int)g.below(NB); opSer(i, b); if (blob[b].live) opDeser(b, (int)g.below(NS)); } } }
      else if (op < upd + 16) { if (g.chance(40)) opNewInvalid(); else if (g.chance(30)) opReset(i); }
      else if (op < upd + 18) { int j = (int)g.below(NS); if (j != i) opCopy(i, j); }
      else if (op < upd + 20) { int j = (int)g.below(NS); opNew(j, drawK()); }
      else if (op < upd + 30) {
        int j = (int)g.below(NS);
        if (j != i && sk[j] && disjoint(i, j) && total[i] + total[j] <= MCAP) { opMerge(i, j, g.chance(40)); if (sk[i] && g.chance(60)) { if (g.chance(50)) opGetResult(i); else opIterate(i); } }
      } else if (op < upd + 30 + serde_pct) { opSer(i, (int)g.below(NB)); }
      else { int b = (int)g.below(NB); if (blob[b].live) { if (g.chance(30)) opDeserBad(b); int j = (int)g.below(NS); opDeser(b, j); } }
    }
    for (int i = 0; i < NS; i++) if (sk[i]) { opGetResult(i); opIterate(i); }
  }
  // C09 "restore, then continue" at the EDGE states: the empty sketch, exactly one item, and right after reset().
  // The image (bytes with a header and stream form) is restored through both readers; original (slot 0) and the two
  // restored sketches (slots 1, 2) then receive the SAME further items in lock-step (past c = k), with results and
  // iteration on all three, are serialized again, and are used as merge operands in both directions.
  void directedRestoreEdges() {
    for (int state = 0; state < 3; state++) {
      long k = state == 0 ? 3 : state == 1 ? 4 : 2;
      opNew(0, k); prof[0] = 1;
      if (state == 1) opUpdate(0, 5, false);
      if (state == 2) { for (int t = 0; t < 7; t++) opUpdate(0, 1 + t % 3, false); opGetResult(0); opReset(0); }
      opGetResult(0); opIterate(0);
      opUpdateZero(0); opSer(0, 0); if (!blob[0].live) continue;
      opDeser(0, 1, 0); opDeser(0, 2, 1);
      for (int j = 1; j <= 2; j++) if (sk[j]) { opGetResult(j); opIterate(j); }
      for (int t = 0; t < (int)k + 6; t++) {
        int id = nextId++; long w = t < 2 ? 4 : g.range(1, 9); bool rv = g.chance(40);
        for (int j = 0; j <= 2; j++) if (sk[j]) opUpdateX(j, id, w, rv);
        if (t == 0 || t == 1 || t == (int)k || t == (int)k + 5) for (int j = 0; j <= 2; j++) if (sk[j]) { opGetResult(j); opIterate(j); }
      }
      for (int j = 0; j <= 2; j++) if (sk[j]) opSer(j, 1 + j);
      // as merge operands: restored into a fresh sketch (lvalue), a fresh sketch into the other restored one (rvalue),
      // and the original into a fresh one for comparison
      if (sk[1]) { opNew(3, 5); for (int t = 0; t < 4; t++) opUpdate(3, g.range(1, 9), false); opMerge(3, 1, false); if (sk[3]) { opGetResult(3); opIterate(3); opUpdate(3, 2, false); if (sk[3]) opGetResult(3); } }
      if (sk[2]) { opNew(3, 5); for (int t = 0; t < 4; t++) opUpdate(3, g.range(1, 9), false); opMerge(2, 3, true); if (sk[2]) { opGetResult(2); opIterate(2); opUpdate(2, 2, false); if (sk[2]) opGetResult(2); } }
      if (sk[0]) { opNew(3, 5); for (int t = 0; t < 4; t++) opUpdate(3, g.range(1, 9), false); opMerge(3, 0, false); if (sk[3]) { opGetResult(3); opIterate(3); } }
      // restored right at the edge and merged before any update
      opNew(0, k); if (state == 1) opUpdate(0, 5, false);
      opSer(0, 0); if (blob[0].live) { opDeser(0, 1, state % 2); if (sk[1]) { opNew(3, 6); for (int t = 0; t < 3; t++) opUpdate(3, 2, false); opMerge(1, 3, false); if (sk[1]) { opGetResult(1); opUpdate(1, 2, false); if (sk[1]) { opGetResult(1); opIterate(1); } } } }
      for (int i = 0; i < NS; i++) drop(i);
    }
  }
  // reset() from every mode, then a full SECOND LIFE in every mode (0 empty, 1 unsaturated with fractional c, 2 saturated
  // c = k, 3 grown by a merge), with results through every traversal idiom, and the reused sketch as a merge operand
  void lifeMode(int i, int mode, long k) {
    if (mode == 0 || !sk[i]) return;
    if (mode == 1) { opUpdate(i, 4, false); for (long t = 0; t < std::max(1L, k / 2) && sk[i]; t++) opUpdate(i, g.range(1, 3), g.chance(40)); }
    if (mode == 2) for (long t = 0; t < 3 * k + 4 && sk[i]; t++) opUpdate(i, g.range(1, 9), g.chance(40));
    if (mode == 3) { for (long t = 0; t < 3 && sk[i]; t++) opUpdate(i, g.range(1, 9), false);
                     opNew(3, k + g.range(0, 2)); for (long t = 0; t < 6; t++) opUpdate(3, g.range(1, 9), false);
                     if (sk[i] && sk[3]) opMerge(i, 3, g.chance(50)); drop(3); }
  }
  void runSecondLife(long salt) {
    for (int m1 = 0; m1 < 4; m1++) for (int m2 = 0; m2 < 4; m2++) {
      long k = g.range(2, 8);
      opNew(0, k); prof[0] = 1;
      lifeMode(0, m1, k); if (!sk[0]) continue;
      opGetResult(0); opIterate(0);
      opReset(0);
      if ((m1 + m2 + salt) % 2 == 0) { opGetResult(0); opIterate(0); }
      lifeMode(0, m2, k); if (!sk[0]) continue;
      opGetResult(0); for (int t = 0; t < 3; t++) opIterate(0);
      opNew(1, k + 1); for (int t = 0; t < 5; t++) opUpdate(1, g.range(1, 9), false);
      if (sk[1]) { if ((m1 + salt) % 2) opMerge(1, 0, g.chance(50)); else opMerge(0, 1, g.chance(50)); }
      int d = sk[0] ? 0 : 1; if (sk[d]) { opGetResult(d); opIterate(d); opUpdate(d, 3, false); if (sk[d]) opGetResult(d); }
      for (int i = 0; i < NS; i++) drop(i);
    }
  }
  // directed: merging an EMPTY sketch that was configured with a smaller k (both overloads, both directions)
  // merges of operands living in strongly different weight regimes: many very light items against few heavy ones
  // (weight ratio 10^2..10^4, all integers), so that the order by n and the order by cumulative weight disagree;
  // every combination of receiver (light / heavy) and overload (lvalue / rvalue), with equal and unequal k,
  // followed by results, iteration and further updates of the merged sketch
  void runRegimes(long rounds) {
    for (long r = 0; r < rounds; r++) {
      int combo = (int)(r % 4);                       // bit 0: receiver is the light sketch; bit 1: rvalue
      long kl = g.range(2, 9), kh = g.chance(50) ? kl : g.range(2, 9);
      long nl = g.range(8, 60), nh = g.range(1, 7);   // the light sketch always has MORE items ...
      long lw = g.chance(70) ? 1 : g.range(1, 3);
      long hw = g.chance(50) ? (64L << g.below(7)) : 1000 * g.range(1, 5);   // ... and far LESS weight: 64..4096 or 1000..5000 per heavy item
      opNew(0, kl); prof[0] = 0; eqw[0] = lw;
      for (long t = 0; t < nl; t++) opUpdate(0, g.chance(85) ? lw : g.range(1, 3), g.chance(40));
      opNew(1, kh); prof[1] = 0; eqw[1] = hw;
      for (long t = 0; t < nh; t++) opUpdate(1, g.chance(80) ? hw : hw / 2 + g.range(0, 9), g.chance(40));
      if (!sk[0] || !sk[1]) continue;
      if (g.chance(30)) { opGetResult(0); opGetResult(1); }
      int dst = (combo & 1) ? 0 : 1, src = 1 - dst; bool rv = (combo & 2) != 0;
      opMerge(dst, src, rv);
      if (!sk[dst]) continue;
      opGetResult(dst); opIterate(dst); opGetResult(dst);
      long more = g.range(1, 6);
      for (long t = 0; t < more && sk[dst]; t++) { opUpdate(dst, g.chance(50) ? lw : hw, g.chance(40)); }
      if (sk[dst]) { opGetResult(dst); opIterate(dst); }
      // a second merge on top (the merged sketch against a fresh one of the other regime)
      if (sk[dst] && g.chance(50)) {
        bool heavy2 = g.chance(50); long n2 = heavy2 ? g.range(1, 4) : g.range(10, 40);
        opNew(2, g.range(2, 9)); prof[2] = 0;
        for (long t = 0; t < n2; t++) opUpdate(2, heavy2 ? hw * 2 : lw, false);
        if (sk[2] && total[dst] + total[2] <= MCAP) {
          if (g.chance(50)) opMerge(dst, 2, g.chance(50)); else { opMerge(2, dst, g.chance(50)); dst = 2; }
          if (sk[dst]) { opGetResult(dst); opIterate(dst); if (canUpdate(dst)) opUpdate(dst, lw, false); if (sk[dst]) opGetResult(dst); }
        }
      }
      for (int i = 0; i < NS; i++) drop(i);
    }
  }
  void directedEmptyMerge() {
    opNew(0, 10); prof[0] = 1; for (int t = 0; t < 30; t++) opUpdate(0, drawW(0), false);
    opNew(1, 3);
    opMerge(0, 1, false); if (sk[0]) opGetResult(0);
    opNew(2, 10); prof[2] = 1; for (int t = 0; t < 30; t++) opUpdate(2, drawW(2), false);
    opNew(3, 4);
    opMerge(3, 2, false); if (sk[3]) opGetResult(3);
    if (sk[2]) { opNew(1, 2); opMerge(2, 1, true); if (sk[2]) opGetResult(2); }
  }
};

// proportional inclusion: T seeded runs of one fixed stream, inclusion counts per item
static void stat_event(vt::Rng& g, uint64_t seed, int which, bool merge) {
  const int T = 2000;
  static const long P[] = {1, 2, 4};
  int m = (int)g.range(6, 12); std::vector<long> w(m + 1, 0); long tot = 0;
  for (int i = 1; i <= m; i++) { w[i] = P[g.below(3)]; if (tot + w[i] > 40) w[i] = 1; tot += w[i]; }
  int k = (int)g.range(2, 4), k2 = (int)g.range(2, 5); int split = (int)g.range(2, m - 2); bool viaIter = g.chance(50); (void)viaIter;
  // two regimes, alternating with file and event: saturated (c = k, an integer) and UNSATURATED with a fractional
  // c = W / wmax < k, where every result really draws the partial item
  bool unsat = ((uint64_t)which + seed) % 2 == 1;
  if (unsat) {
    for (int tries = 0; tries < 200; tries++) {
      long wmax = *std::max_element(w.begin() + 1, w.end());
      if (tot % wmax != 0 && tot <= 40) break;
      int i = 1 + (int)g.below((uint64_t)m); tot -= w[i]; w[i] = P[g.below(3)]; tot += w[i];
    }
    long wmax = *std::max_element(w.begin() + 1, w.end());
    long need = (tot + wmax - 1) / wmax;
    k = (int)(need + g.range(1, 3)); k2 = (int)(need + g.range(0, 3));
  }
  std::vector<std::vector<long long>> count(NIDIOMS, std::vector<long long>(m, 0)); std::vector<long long> sizes(NIDIOMS, 0);
  std::string threw;
  for (int t = 0; t < T && threw.empty(); t++) try {
    random_utils::override_seed(seed * 1000003ULL + (uint64_t)which * 7919ULL + (uint64_t)t);
    ebpps_sketch<int64_t> a((uint32_t)k);
    if (!merge) { for (int i = 1; i <= m; i++) a.update((int64_t)i, (double)w[i]); }
    else {
      ebpps_sketch<int64_t> b((uint32_t)k2);
      for (int i = 1; i <= split; i++) a.update((int64_t)i, (double)w[i]);
      for (int i = split + 1; i <= m; i++) b.update((int64_t)i, (double)w[i]);
      switch (t % 4) { case 0: a.merge(b); break; case 1: b.merge(a); a = b; break; case 2: a.merge(std::move(b)); break; default: b.merge(std::move(a)); a = b; }
    }
    for (int idiom = 0; idiom < NIDIOMS; idiom++) {          // each traversal draws the fractional item afresh
      std::vector<long long>& cn = count[idiom]; long long& sz = sizes[idiom];
      traverse(a, idiom, [&cn, &sz, m](const int64_t& v) { sz++; if (v >= 1 && v <= m) cn[(size_t)v - 1]++; });
    }
  } catch (std::exception& ex) { threw = clean(ex.what()); if (threw.empty()) threw = "exception"; }
  std::vector<long> ws(w.begin() + 1, w.end());
  Ev e("Stat"); if (!threw.empty()) e.str("threw", threw);
  e.str("what", merge ? "merge" : "sketch").i("T", T).i("k", k).i("k2", k2).i("split", split).b("unsaturated", unsat).il("w", ws);
  std::string cs = "[", ns = "[";
  for (int idiom = 0; idiom < NIDIOMS; idiom++) { Ev a("x"); a.s = ""; a.il("c", count[idiom]); if (idiom) { cs += ","; ns += ","; } cs += a.s.substr(a.s.find('[')); ns += "\""; ns += IDIOMS[idiom]; ns += "\""; }
  cs += "]"; ns += "]";
  e.raw("idioms", ns).raw("counts", cs).il("sizes", sizes).emit();
}

int main(int argc, char** argv) {
  vt::install_terminate();
  uint64_t seed = (uint64_t)vt::argl(argc, argv, "--seed", 1);
  long segments = vt::argl(argc, argv, "--segments", 6);
  long events = vt::argl(argc, argv, "--events", 1500);
  long maxk = vt::argl(argc, argv, "--maxk", 16);
  int serde_pct = (int)vt::argl(argc, argv, "--serde", 4);
  long stats = vt::argl(argc, argv, "--stat", 2);
  long directed = vt::argl(argc, argv, "--directed", 0);
  vt::open_out(vt::arg(argc, argv, "--out", "/dev/stdout"));
  vt::Rng g0(seed); g0.next(); vt::Rng g(g0.next() >> 1);   // consecutive seeds of vt::Rng are shifted copies of one stream: decorrelate
  random_utils::override_seed(seed);
  long segno = 0; g_seed0 = (unsigned long)seed;
  if (directed) { Ev("Begin").i("seg", segno++).str("type", "i64").str("kind", "directed-empty-merge").emit(); Seg<ConvI> s(g, maxk); s.directedEmptyMerge(); }
  if (vt::argl(argc, argv, "--edges", 1)) {
    { Ev("Begin").i("seg", segno++).str("type", "i64").str("kind", "directed-restore-edges").emit(); Seg<ConvI> s(g, maxk); s.directedRestoreEdges(); }
    { Ev("Begin").i("seg", segno++).str("type", "str").str("kind", "directed-restore-edges").emit(); Seg<ConvS> s(g, maxk); s.directedRestoreEdges(); }
  }
  if (vt::argl(argc, argv, "--lives", 1)) {
    bool str = (seed % 2) == 1;
    Ev("Begin").i("seg", segno++).str("type", str ? "str" : "i64").str("kind", "second-life").emit();
    if (str) { Seg<ConvS> s(g, maxk); s.runSecondLife((long)seed); } else { Seg<ConvI> s(g, maxk); s.runSecondLife((long)seed); }
  }
  long regimes = vt::argl(argc, argv, "--regimes", 24);
  if (regimes > 0) {
    { Ev("Begin").i("seg", segno++).str("type", "i64").str("kind", "regimes").emit(); Seg<ConvI> s(g, maxk); s.runRegimes(regimes); }
    { Ev("Begin").i("seg", segno++).str("type", "str").str("kind", "regimes").emit(); Seg<ConvS> s(g, maxk); s.runRegimes(regimes / 2); }
  }
  for (long seg = 0; seg < segments; seg++) {
    bool str = (seg % 2 == 1);
    Ev("Begin").i("seg", segno++).str("type", str ? "str" : "i64").str("kind", "random").emit();
    if (str) { Seg<ConvS> s(g, maxk); s.run(events, serde_pct); }
    else { Seg<ConvI> s(g, maxk); s.run(events, serde_pct); }
  }
  if (stats > 0) {
    Ev("Begin").i("seg", segno++).str("type", "i64").str("kind", "stat").emit();
    g_unit = 1.0;
    for (long j = 0; j < stats; j++) stat_event(g, seed, (int)j, j % 2 == 1);
  }
  vt::close_out();
  fprintf(stderr, "ebpps_rec: %ld events\n", vt::g_events);
  return 0;
}
