// X08 driver: theta/include/bit_packing.hpp - pack_bits / unpack_bits for every width 1..63 at every bit offset 0..7, and
// pack_bits_block8 / unpack_bits_block8 for every width.  Only inputs and observations are logged: values as four 16-bit limbs,
// buffers as byte lists (with canary bytes on both sides for the packers; flush against a PROT_NONE page for the unpackers, so
// that a read past the last byte the field occupies is a crash of the recording), returned offsets and pointer advances.
// Which bits must hold what is decided by spec/XBits.tla.
#include <algorithm>
#include <cstdint>
#include <vector>
#include <sys/mman.h>
#include <stdexcept>   // bit_packing.hpp uses std::logic_error / std::to_string / std::min without including their headers (see notes/X-report.md)
#include <string>
#include <bit_packing.hpp>
#include "vtrace.hpp"

using namespace datasketches;
using vt::Ev;

static std::string limbs(uint64_t v) {
  char b[64]; snprintf(b, sizeof b, "[%u,%u,%u,%u]", (unsigned)(v >> 48) & 0xffff, (unsigned)(v >> 32) & 0xffff, (unsigned)(v >> 16) & 0xffff, (unsigned)v & 0xffff);
  return b;
}
static std::string limb_list(const uint64_t* v, int n) { std::string s = "["; for (int i = 0; i < n; i++) { if (i) s += ","; s += limbs(v[i]); } return s + "]"; }

// a read/write area that ends at a PROT_NONE page
struct Guard {
  uint8_t* end = nullptr;
  Guard() {
    const size_t pg = (size_t)sysconf(_SC_PAGESIZE);
    uint8_t* m = (uint8_t*)mmap(nullptr, 3 * pg, PROT_NONE, MAP_PRIVATE | MAP_ANONYMOUS, -1, 0);
    if (m == MAP_FAILED) { perror("mmap"); _exit(3); }
    if (mprotect(m + pg, pg, PROT_READ | PROT_WRITE) != 0) { perror("mprotect"); _exit(3); }
    end = m + 2 * pg;
  }
  // copy so that the LAST byte of src is the last accessible byte
  uint8_t* place(const std::vector<uint8_t>& src) { uint8_t* p = end - src.size(); memcpy(p, src.data(), src.size()); return p; }
};
static Guard g_guard;

static const int MARGIN = 3;
static const uint8_t CANARY = 0xA5;

static std::vector<uint64_t> patterns(int eb, vt::Rng& g, int randoms) {
  const uint64_t all = eb == 64 ? ~0ULL : ((1ULL << eb) - 1);
  std::vector<uint64_t> v = {0, all, 1, 1ULL << (eb - 1), 1ULL << (eb / 2), 0x5555555555555555ULL & all, 0xAAAAAAAAAAAAAAAAULL & all, all - 1, all >> 1};
  v.push_back(1ULL << g.below((uint64_t)eb));
  for (int i = 0; i < randoms; i++) v.push_back(g.next() & all);
  std::sort(v.begin(), v.end()); v.erase(std::unique(v.begin(), v.end()), v.end());
  return v;
}

static void single(int eb, vt::Rng& g, int randoms) {
  for (int off = 0; off < 8; off++) {
    const int need = (off + eb + 7) / 8;                 // bytes the field touches
    for (uint64_t v : patterns(eb, g, randoms)) {
      for (int mode = 0; mode < 3; mode++) {
        // Z: destination zero; F: only the rest of the first byte is zero (what sequential packing leaves), later bytes are 0xFF;
        // D: the rest of the first byte is not zero (outside the documented use: the contract then only protects the neighbours)
        std::vector<uint8_t> buf(MARGIN + need + MARGIN, CANARY);
        for (int j = 0; j < need; j++) buf[MARGIN + j] = mode == 0 ? 0 : mode == 1 ? 0xFF : (uint8_t)g.next();
        const uint8_t prefix = off == 0 ? 0 : (uint8_t)((uint8_t)g.next() & (uint8_t)(0xFF << (8 - off)));
        if (mode == 0) buf[MARGIN] = 0;
        else if (mode == 1) buf[MARGIN] = prefix;
        else buf[MARGIN] = (uint8_t)(prefix | ((uint8_t)g.next() & (uint8_t)(0xFF >> off)) | (off < 8 ? 1 : 0));
        std::vector<uint8_t> before = buf;
        uint8_t* ptr = buf.data() + MARGIN;
        const uint8_t ret = pack_bits(v, (uint8_t)eb, ptr, (uint8_t)off);
        Ev("Pack").i("eb", eb).i("off", off).i("mode", mode).raw("v", limbs(v)).i("pos", MARGIN + 1).il("before", before).il("after", buf)
          .i("ret", ret).i("adv", (long long)(ptr - (buf.data() + MARGIN))).emit();
        if (mode == 2) continue;
        // round trip: unpack what was packed, from a copy that ends with the last byte of the field
        std::vector<uint8_t> exact(buf.begin(), buf.begin() + MARGIN + need);
        const uint8_t* base = g_guard.place(exact);
        const uint8_t* rp = base + MARGIN; uint64_t got = ~0ULL;
        const uint8_t uret = unpack_bits(got, (uint8_t)eb, rp, (uint8_t)off);
        Ev("Unpack").i("eb", eb).i("off", off).str("src", "packed").raw("want", limbs(v)).raw("v", limbs(got)).i("pos", MARGIN + 1).il("buf", exact)
          .i("ret", uret).i("adv", (long long)(rp - (base + MARGIN))).emit();
      }
    }
    // unpack from arbitrary bytes
    for (int t = 0; t < 3; t++) {
      std::vector<uint8_t> exact(MARGIN + need);
      for (auto& b : exact) b = t == 0 ? 0xFF : (uint8_t)g.next();
      const uint8_t* base = g_guard.place(exact);
      const uint8_t* rp = base + MARGIN; uint64_t got = ~0ULL;
      const uint8_t uret = unpack_bits(got, (uint8_t)eb, rp, (uint8_t)off);
      Ev("Unpack").i("eb", eb).i("off", off).str("src", "random").raw("want", limbs(got)).raw("v", limbs(got)).i("pos", MARGIN + 1).il("buf", exact)
        .i("ret", uret).i("adv", (long long)(rp - (base + MARGIN))).emit();
    }
  }
}

static void block8(int eb, vt::Rng& g, int rounds) {
  const uint64_t all = (1ULL << eb) - 1;
  for (int r = 0; r < rounds; r++) {
    uint64_t vals[8];
    for (int j = 0; j < 8; j++) vals[j] = r == 0 ? all : r == 1 ? 0 : r == 2 ? (1ULL << ((j * 7) % eb)) : r == 3 ? ((j & 1) ? all : 0) : (g.next() & all);
    // destination: eb bytes of 0xFF (never pre-zeroed) between canaries
    std::vector<uint8_t> buf(MARGIN + eb + MARGIN, CANARY);
    for (int j = 0; j < eb; j++) buf[MARGIN + j] = (r & 1) ? 0xFF : (uint8_t)g.next();
    std::vector<uint8_t> before = buf;
    pack_bits_block8(vals, buf.data() + MARGIN, (uint8_t)eb);
    // the same 8 values by 8 single packs from offset 0 into a zeroed buffer
    std::vector<uint8_t> seq(eb, 0); uint8_t* sp = seq.data(); uint8_t off = 0;
    for (int j = 0; j < 8; j++) off = pack_bits(vals[j], (uint8_t)eb, sp, off);
    // unpack the block from a copy that ends with its last byte; and by 8 single unpacks
    std::vector<uint8_t> exact(buf.begin(), buf.begin() + MARGIN + eb);
    const uint8_t* base = g_guard.place(exact);
    uint64_t un[8], us[8]; for (int j = 0; j < 8; j++) un[j] = us[j] = ~0ULL;
    unpack_bits_block8(un, base + MARGIN, (uint8_t)eb);
    const uint8_t* rp = base + MARGIN; uint8_t uo = 0;
    for (int j = 0; j < 8; j++) uo = unpack_bits(us[j], (uint8_t)eb, rp, uo);
    Ev("Block8").i("eb", eb).raw("vals", limb_list(vals, 8)).i("pos", MARGIN + 1).il("before", before).il("after", buf).il("seq", seq).i("seqOff", off).i("seqAdv", (long long)(sp - seq.data()))
      .raw("unp", limb_list(un, 8)).raw("unpSingle", limb_list(us, 8)).i("unpOff", uo).i("unpAdv", (long long)(rp - (base + MARGIN))).emit();
  }
}

int main(int argc, char** argv) {
  vt::install_terminate();
  uint64_t seed = (uint64_t)vt::argl(argc, argv, "--seed", 1);
  int wlo = (int)vt::argl(argc, argv, "--wlo", 1), whi = (int)vt::argl(argc, argv, "--whi", 63);
  int randoms = (int)vt::argl(argc, argv, "--randoms", 2), rounds = (int)vt::argl(argc, argv, "--rounds", 8);
  vt::open_out(vt::arg(argc, argv, "--out", "/dev/stdout"));
  vt::Rng g(seed);
  for (int eb = wlo; eb <= whi; eb++) {
    Ev("Begin").i("eb", eb).emit();
    single(eb, g, randoms);
    block8(eb, g, rounds);
  }
  vt::close_out();
  fprintf(stderr, "x_bits_rec: %ld events\n", vt::g_events);
  return 0;
}
