// C10 catalogue, quantile families: KLL, REQ, classic quantiles, t-digest.
#pragma once
#include <kll_sketch.hpp>
#include <req_sketch.hpp>
#include <quantiles_sketch.hpp>
#include <tdigest.hpp>
#include "layout_common.hpp"

namespace lay {
using namespace datasketches;

static inline int lg2(uint64_t w) { int l = 0; while ((1ULL << l) < w) l++; return l; }
template<class T> struct isz_of { static int v() { return (int)sizeof(T); } };
template<> struct isz_of<std::string> { static int v() { return 0; } };   // 0 = length-prefixed string serde

// items in iterator order (the order the image stores them: level 0 upward), and the (item, lg weight) pairs of the
// sorted view (robust against the iterator's weight bookkeeping; items are distinct by construction)
template<class S> static void quant_items(const S& s, L& items, L& wts) {
  if (s.is_empty()) return;
  for (auto it = s.begin(); it != s.end(); ++it) items.add(bv((*it).first));
  auto view = s.get_sorted_view();
  for (auto it = view.begin(); it != view.end(); ++it) wts.add(L().add(bv((*it).first)).addi(lg2(it.get_weight())).done());
}

// ------------------------------------------------------------------ KLL
template<class T> static std::string proj_kll(const kll_sketch<T>& s, int mink) {
  L items, wts; quant_items(s, items, wts);
  J j; j.i("k", s.get_k()).i("n", (long long)s.get_n()).b("empty", s.is_empty()).b("est", s.is_estimation_mode())
      .i("nret", s.get_num_retained()).i("mink", mink).raw("items", items.done()).raw("wts", wts.done());
  if (!s.is_empty()) j.raw("min", bv(s.get_min_item())).raw("max", bv(s.get_max_item()));
  return j.done();
}
template<class T> static T kll_val(int i);
template<> float kll_val<float>(int i) { return (float)i * 0.5f; }
template<> double kll_val<double>(int i) { return (double)i * 0.25 - 3.0; }
template<> int64_t kll_val<int64_t>(int i) { return (int64_t)IV((long long)i * 1000003) - 50; }
template<> std::string kll_val<std::string>(int i) { char b[16]; snprintf(b, sizeof b, "v%04d", i); return std::string(b) + std::string((size_t)(i % 3), 'x'); }

template<class T> static void cat_kll_t(std::vector<Entry>& out, const char* tname) {
  struct K { const char* kind; int k; int n; int k2; int n2; bool view; };
  const K ks[] = { {"empty", 20, 0, 0, 0, false}, {"single", 20, 1, 0, 0, false}, {"exact", 20, 7, 0, 0, false},
                   {"exact_sorted", 20, 7, 0, 0, true}, {"est", 8, 100, 0, 0, false}, {"est_k20", 20, 300, 0, 0, false},
                   {"merged_mink", 20, 60, 8, 40, false}, {"single_via_merge", 20, 0, 20, 1, false} };
  for (const K& k : ks) {
    random_utils::override_seed(1234);
    kll_sketch<T> s((uint16_t)k.k);
    // a multiplicative permutation mod 1009 gives distinct, unsorted inputs
    for (int i = 1; i <= k.n; i++) s.update(kll_val<T>(PV(i)));
    int mink = k.k;
    if (k.n2 > 0) {
      kll_sketch<T> o((uint16_t)k.k2);
      for (int i = 1; i <= k.n2; i++) o.update(kll_val<T>(1009 + PV(i)));
      s.merge(o); mink = std::min(k.k, k.k2);
    }
    if (k.view && !s.is_empty()) (void)s.get_quantile(0.5);
    Entry e; e.family = "kll"; e.kind = std::string(k.kind) + "_" + tname; e.name = "kll_" + e.kind;
    e.hints = J().i("isz", isz_of<T>::v()).done();
    fill(e, s,
      [](const kll_sketch<T>& o, bool st) { return st ? via_stream([&](std::ostream& os) { o.serialize(os); }) : tob(o.serialize()); },
      [mink](const Bytes& x, bool st) { if (!st) return kll_sketch<T>::deserialize(x.data(), x.size()); auto is = in_stream(x); return kll_sketch<T>::deserialize(is); },
      [mink](const kll_sketch<T>& o) { return proj_kll(o, mink); });
    out.push_back(e);
  }
}
static void cat_kll(std::vector<Entry>& out) {
  cat_kll_t<float>(out, "f32"); cat_kll_t<double>(out, "f64"); cat_kll_t<int64_t>(out, "i64"); cat_kll_t<std::string>(out, "str");
}

// ------------------------------------------------------------------ REQ
// the byte form for n = 2..4 carries trailing padding on the pinned tree (size function defect listed under C09,
// DESIGN section 8); the stream form is the image of record here
template<class S> static Bytes ser_stream(const S& s) {
  std::ostringstream os(std::ios::binary); s.serialize(os); std::string t = os.str(); return Bytes(t.begin(), t.end());
}
template<class T> static std::string proj_req(const req_sketch<T>& s) {
  L items;
  if (!s.is_empty()) for (auto it = s.begin(); it != s.end(); ++it) items.add(L().add(bv((*it).first)).addi(lg2((*it).second)).done());
  J j; j.i("k", s.get_k()).b("hra", s.is_HRA()).i("n", (long long)s.get_n()).b("empty", s.is_empty()).b("est", s.is_estimation_mode())
      .i("nret", s.get_num_retained()).raw("items", items.done());
  if (!s.is_empty()) j.raw("min", bv(s.get_min_item())).raw("max", bv(s.get_max_item()));
  return j.done();
}
static void cat_req(std::vector<Entry>& out) {
  struct K { const char* kind; int k; int n; bool hra; };
  const K ks[] = { {"empty", 12, 0, true}, {"single", 12, 1, true}, {"raw3", 12, 3, true}, {"raw4_lra", 12, 4, false},
                   {"exact", 12, 30, true}, {"est_hra", 4, 200, true}, {"est_lra", 4, 200, false}, {"est_k12", 12, 400, true} };
  for (const K& k : ks) {
    random_utils::override_seed(99);
    req_sketch<float> s((uint16_t)k.k, k.hra);
    for (int i = 1; i <= k.n; i++) s.update((float)(PV(i)) * 0.5f);
    Entry e; e.family = "req"; e.kind = k.kind; e.name = "req_" + e.kind; e.hints = J().i("isz", 4).done();
    fill(e, s,
      [](const req_sketch<float>& o, bool st) { return st ? via_stream([&](std::ostream& os) { o.serialize(os); }) : tob(o.serialize()); },
      [](const Bytes& x, bool st) { if (!st) return req_sketch<float>::deserialize(x.data(), x.size()); auto is = in_stream(x); return req_sketch<float>::deserialize(is); },
      [](const req_sketch<float>& o) { return proj_req(o); });
    out.push_back(e);
  }
}

// ------------------------------------------------------------------ classic quantiles
template<class T> static std::string proj_cq(const quantiles_sketch<T>& s) {
  L items;
  if (!s.is_empty()) for (auto it = s.begin(); it != s.end(); ++it) items.add(L().add(bv((*it).first)).addi(lg2((*it).second)).done());
  J j; j.i("k", s.get_k()).i("n", (long long)s.get_n()).b("empty", s.is_empty()).b("est", s.is_estimation_mode())
      .i("nret", s.get_num_retained()).raw("items", items.done());
  if (!s.is_empty()) j.raw("min", bv(s.get_min_item())).raw("max", bv(s.get_max_item()));
  return j.done();
}
template<class T> static void cat_cq_t(std::vector<Entry>& out, const char* tname) {
  struct K { const char* kind; int k; int n; };
  const K ks[] = { {"empty", 8, 0}, {"single", 8, 1}, {"exact", 8, 11}, {"full_bb", 8, 16}, {"est_sparse", 8, 37 /* pattern 0b10 */},
                   {"est", 8, 123}, {"est_k16", 16, 200} };
  for (const K& k : ks) {
    random_utils::override_seed(7);
    quantiles_sketch<T> s((uint16_t)k.k);
    for (int i = 1; i <= k.n; i++) s.update((T)((PV(i)) * 0.5));
    Entry e; e.family = "quantiles"; e.kind = std::string(k.kind) + "_" + tname; e.name = "quantiles_" + e.kind;
    e.hints = J().i("isz", (int)sizeof(T)).done();
    // serialization sorts the base buffer (documented side effect); projected afterwards
    fill(e, s,
      [](const quantiles_sketch<T>& o, bool st) { return st ? via_stream([&](std::ostream& os) { o.serialize(os); }) : tob(o.serialize()); },
      [](const Bytes& x, bool st) { if (!st) return quantiles_sketch<T>::deserialize(x.data(), x.size()); auto is = in_stream(x); return quantiles_sketch<T>::deserialize(is); },
      [](const quantiles_sketch<T>& o) { return proj_cq(o); });
    out.push_back(e);
  }
}
static void cat_cq(std::vector<Entry>& out) { cat_cq_t<double>(out, "f64"); cat_cq_t<float>(out, "f32"); }

// ------------------------------------------------------------------ t-digest
struct TdKnown { std::vector<double> buffered; bool with_buffer; };
template<class T> static std::string proj_td(const tdigest<T>& s, const TdKnown& kn) {
  J j; j.i("k", s.get_k()).b("empty", s.is_empty()).i("total", (long long)s.get_total_weight()).b("withbuf", kn.with_buffer).b("bufknown", !kn.buffered.empty());
  L buf; for (double v : kn.buffered) buf.add(bv((T)v));
  j.raw("buf", buf.done());
  if (!s.is_empty()) j.raw("min", bv((T)s.get_min_value())).raw("max", bv((T)s.get_max_value()));
  return j.done();
}
template<class T> static void cat_td_t(std::vector<Entry>& out, const char* tname) {
  struct K { const char* kind; int k; int n; bool with_buffer; };
  const K ks[] = { {"empty", 100, 0, false}, {"single", 100, 1, false}, {"buffered", 100, 9, true}, {"compressed_small", 100, 9, false},
                   {"compressed", 20, 500, false}, {"mixed", 20, 507, true} };
  for (const K& k : ks) {
    tdigest<T> s((uint16_t)k.k);
    TdKnown kn; kn.with_buffer = k.with_buffer;
    for (int i = 1; i <= k.n; i++) s.update((T)((PV(i)) * 0.5));
    Entry e; e.family = "tdigest"; e.kind = std::string(k.kind) + "_" + tname; e.name = "tdigest_" + e.kind;
    e.hints = J().i("isz", (int)sizeof(T)).done();
    // "buffered": nothing was compressed yet, so the buffer holds the inputs in arrival order (n < buffer capacity)
    if (std::string(k.kind) == "buffered") for (int i = 1; i <= k.n; i++) kn.buffered.push_back(((PV(i)) * 0.5));
    const bool wb = k.with_buffer;
    fill(e, s,
      [wb](const tdigest<T>& o, bool st) { return st ? via_stream([&](std::ostream& os) { o.serialize(os, wb); }) : tob(o.serialize(0, wb)); },
      [](const Bytes& x, bool st) { if (!st) return tdigest<T>::deserialize(x.data(), x.size()); auto is = in_stream(x); return tdigest<T>::deserialize(is); },
      [kn](const tdigest<T>& o) { return proj_td(o, kn); });
    out.push_back(e);
  }
}
static void cat_td(std::vector<Entry>& out) { cat_td_t<double>(out, "f64"); cat_td_t<float>(out, "f32"); }

} // namespace lay
