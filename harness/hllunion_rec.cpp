// Recording driver for hll_union (C04), with C06 bound observations on results and C09 round trips of input sketches.
// A segment builds 2-6 input sketches (random lg_k / type / fill level: empty, list, set, HLL, far beyond k; shared item
// universe so that inputs overlap) and a list of raw items, then presents THE SAME inputs and raw items to three fresh
// unions of the same lg_max_k in three different orders, each input by lvalue or rvalue update, with observers
// (get_result(type), estimates/bounds, is_empty) interleaved at random.  Inputs are fed in bulk (`Feed` events carrying the
// REFERENCE coupons of the items, hll_common.hpp), so the specification knows every input through the Hll contract and
// never through the library; result content is read from get_result(t) via hll_sketch(r, HLL_8).serialize_updatable().
#include "hll_common.hpp"

using namespace datasketches;
using namespace hc;
using vt::Ev;

static const int NIN = 6;          // sketch ids 0..5 inputs, 6..8 restored copies of inputs, 9 scratch
static target_hll_type tt(int t) { return t == 4 ? HLL_4 : (t == 6 ? HLL_6 : HLL_8); }
static const int T3[] = {4, 6, 8};

static void emit_new(int id, const hll_sketch& s) {
  View v = view(s, false);
  Ev("New").i("id", id).i("lgk", v.lgk).i("type", v.type).b("full", (v.flags & 32) != 0).i("mode", v.mode).b("empty", s.is_empty()).emit();
}

// feed items to a sketch in bulk events of at most 1000 coupons
static void feed(int id, hll_sketch& s, const std::vector<Item>& items) {
  size_t pos = 0;
  while (pos < items.size()) {
    std::vector<Coupon> cs;
    size_t end = std::min(items.size(), pos + 1000);
    for (; pos < end; pos++) { Coupon c; do_update(s, items[pos]); if (ref_coupon(items[pos], c)) cs.push_back(c); }
    if (cs.empty()) continue;
    View v = view(s, false);
    Ev("Feed").i("id", id).raw("cs", coupons_json(cs)).i("mode", v.mode).b("empty", s.is_empty()).emit();
  }
}

static void scalars(Ev& e, const hll_union& u) { e.i("lgk", u.get_lg_config_k()).b("empty", u.is_empty()); }

int main(int argc, char** argv) {
  refhash::self_check();
  vt::install_terminate();
  uint64_t seed = (uint64_t)vt::argl(argc, argv, "--seed", 1);
  long segments = vt::argl(argc, argv, "--segments", 10);
  long minlgk = vt::argl(argc, argv, "--minlgk", 4);
  long maxlgk = vt::argl(argc, argv, "--maxlgk", 12);
  long cap = vt::argl(argc, argv, "--cap", 6000);          // largest number of items in one input
  int serde_pct = (int)vt::argl(argc, argv, "--serde", 4);
  vt::open_out(vt::arg(argc, argv, "--out", "/dev/stdout"));
  vt::Rng g(seed);
  Pool pool; pool.build(1u << 20);
  for (long seg = 0; seg < segments; seg++) {
    Ev("Begin").i("seg", seg).emit();
    int nin = (int)g.range(2, NIN);
    uint8_t lgmax = (uint8_t)g.range(minlgk, maxlgk);
    long universe = 1L << (g.chance(50) ? 14 : 22);         // small universe: inputs share many items
    std::unique_ptr<hll_sketch> in[NIN];
    for (int i = 0; i < nin; i++) {
      // lg_k relative to lg_max_k: smaller, equal, larger all likely
      uint8_t lgk = (uint8_t)(g.chance(40) ? g.range(minlgk, maxlgk) : std::min(maxlgk, std::max(minlgk, (long)lgmax + g.range(-2, 2))));
      long k = 1L << lgk;
      int t = T3[g.below(3)];
      bool full = g.chance(10);
      in[i].reset(new hll_sketch(lgk, tt(t), full));
      emit_new(i, *in[i]);
      long n;
      switch ((int)g.below(10)) {
        case 0: n = 0; break;                                            // empty
        case 1: case 2: n = g.range(1, 7); break;                        // list
        case 3: case 4: n = lgk >= 8 ? g.range(8, std::max(9L, 3 * k / 32)) : g.range(8, k); break;   // set (or small HLL)
        case 5: case 6: n = g.range(std::max(8L, 3 * k / 32 + 1), k); break;                           // HLL
        case 7: case 8: n = g.range(k, 3 * k); break;                    // beyond k
        default: n = g.range(3 * k, 10 * k); break;                      // far beyond k
      }
      n = std::min(n, cap);
      std::vector<Item> items;
      int steer = g.chance(40) ? (int)g.range(3, 20) : 0;
      for (long j = 0; j < n; j++) items.push_back((steer && g.chance(steer)) ? pool.pick(g, 12) : draw(g, universe));
      feed(i, *in[i], items);
      Ev("Obs").raw("objs", "[" + proj(i, *in[i]) + "]").emit();
    }
    // raw items offered directly to the unions (the same set for every presentation)
    std::vector<Item> raw;
    { long nr = g.chance(30) ? 0 : (g.chance(70) ? g.range(1, 12) : g.range(12, 300)); for (long j = 0; j < nr; j++) raw.push_back(g.chance(10) ? pool.pick(g, 12) : draw(g, universe)); }
    // optional serde round trip of some inputs: the restored sketch is presented instead of the original
    int restored_of[NIN]; std::unique_ptr<hll_sketch> rs[3]; int nrs = 0;
    for (int i = 0; i < nin; i++) {
      restored_of[i] = -1;
      if (nrs < 3 && g.chance(3 * serde_pct)) {
        bool compact = g.chance(50), stream = g.chance(50);
        auto bytes = compact ? in[i]->serialize_compact() : in[i]->serialize_updatable();
        std::ostringstream os; if (compact) in[i]->serialize_compact(os); else in[i]->serialize_updatable(os);
        std::string st = os.str();
        std::vector<uint8_t> img(bytes.begin(), bytes.end());
        View v = view(*in[i], false);
        long long mx = v.type == 4 ? -1 : (long long)hll_sketch::get_max_updatable_serialization_bytes((uint8_t)v.lgk, tt(v.type));
        auto cn = canon(img);
        Ev("Ser").i("src", i).i("blob", nrs).str("form", compact ? "compact" : "updatable").i("hdr", 0).i("total", (long long)img.size())
          .i("size", (long long)img.size())
          .i("advertised", (long long)(compact ? in[i]->get_compact_serialization_bytes() : in[i]->get_updatable_serialization_bytes()))
          .i("maxsize", mx).bytes("img", img.data(), img.size()).bytes("img0", img.data(), img.size()).bytes("simg", st.data(), st.size())
          .bytes("canon", cn.data(), cn.size()).raw("p", light(i, *in[i])).emit();
        long long consumed;
        if (!stream) { rs[nrs].reset(new hll_sketch(hll_sketch::deserialize(img.data(), img.size()))); consumed = (long long)img.size(); }
        else {
          std::string inn((const char*)img.data(), img.size()); inn += std::string(16, '\x5a');
          std::istringstream is(inn);
          rs[nrs].reset(new hll_sketch(hll_sketch::deserialize(is)));
          consumed = (long long)is.tellg();
        }
        auto re = compact ? rs[nrs]->serialize_compact() : rs[nrs]->serialize_updatable();
        std::vector<uint8_t> rev(re.begin(), re.end());
        auto rcn = canon(rev);
        View dv = view(*rs[nrs], false);
        Ev("Deser").i("blob", nrs).i("dst", NIN + nrs).str("path", stream ? "stream" : "bytes").str("form", compact ? "compact" : "updatable")
          .i("type", dv.type).i("mode", dv.mode).b("empty", rs[nrs]->is_empty()).i("consumed", consumed)
          .bytes("reimg", rev.data(), rev.size()).bytes("recanon", rcn.data(), rcn.size())
          .raw("r", proj(NIN + nrs, *rs[nrs])).b("restored", true).emit();
        restored_of[i] = nrs++;
      }
    }
    bool with_reset = g.chance(12);
    std::unique_ptr<hll_union> un[3];
    for (int p = 0; p < 3; p++) {
      un[p].reset(new hll_union(lgmax));
      hll_union& u = *un[p];
      { Ev e("UNew"); e.i("u", p).i("lgmaxk", lgmax); scalars(e, u); e.emit(); }
      // presentation order: a permutation of inputs and raw items
      std::vector<int> order;                   // >= 0: input index, < 0: raw item -(j+1)
      for (int i = 0; i < nin; i++) order.push_back(i);
      for (size_t j = 0; j < raw.size(); j++) order.push_back(-(int)j - 1);
      if (p > 0 || g.chance(50)) for (size_t a = order.size(); a > 1; a--) std::swap(order[a - 1], order[g.below(a)]);
      long reset_at = with_reset ? (long)g.below(order.size() + 1) : -1;
      int obs_pct = raw.size() > 20 ? 8 : 35;
      for (size_t q = 0; q <= order.size(); q++) {
        if ((long)q == reset_at) { u.reset(); Ev e("UReset"); e.i("u", p); scalars(e, u); e.emit(); }
        // observers, at random, between any two updates (each is an event of its own: get_estimate & co. have side effects)
        while (g.chance(obs_pct)) {
          int ob = (int)g.below(10);
          if (ob < 5) {
            int t = T3[g.below(3)];
            hll_sketch r = u.get_result(tt(t));
            Ev e("UResult"); e.i("u", p).i("type", t).raw("r", proj(9, r)); scalars(e, u); e.emit();
          } else if (ob < 8) {
            Ev e("UEst"); e.i("u", p); est_fields(e, u); scalars(e, u); e.emit();
          } else {
            Ev e("UObs"); e.i("u", p); scalars(e, u); e.emit();
          }
        }
        if (q == order.size()) break;
        int o = order[q];
        if (o >= 0) {
          bool rvalue = g.chance(45);
          int sid = (restored_of[o] >= 0 && p > 0) ? NIN + restored_of[o] : o;     // presentations 1, 2 use the restored copy
          const hll_sketch& src = sid >= NIN ? *rs[sid - NIN] : *in[o];
          if (rvalue) { hll_sketch tmp(src); u.update(std::move(tmp)); } else u.update(src);
          Ev e("UUpdate"); e.i("u", p).i("src", sid).b("rvalue", rvalue); scalars(e, u);
          if (sid >= NIN) e.b("restored", true);
          e.emit();
        } else {
          const Item& it = raw[-o - 1];
          Coupon c{0, 0}; bool counted = ref_coupon(it, c);
          do_update(u, it);
          Ev e(counted ? "UItem" : "UItemIgnored"); e.i("u", p).str("ty", TYPES[it.type]);
          if (counted) e.raw("c", "[" + std::to_string(c.addr) + "," + std::to_string(c.val) + "]");
          scalars(e, u); e.emit();
        }
      }
      // final result in every type, then the estimates
      for (int t : T3) { hll_sketch r = u.get_result(tt(t)); Ev e("UResult"); e.i("u", p).i("type", t).raw("r", proj(9, r)); scalars(e, u); e.emit(); }
      { Ev e("UEst"); e.i("u", p); est_fields(e, u); scalars(e, u); e.emit(); }
    }
    // the three unions side by side: composite estimates of unions whose contract states agree must agree
    {
      std::string o = "[";
      for (int p = 0; p < 3; p++) {
        hll_sketch r = un[p]->get_result(HLL_8);
        View v = view(r, false);
        Ev x("x"); x.s = "{\"u\":" + std::to_string(p); x.i("mode", v.mode).d("cest", un[p]->get_composite_estimate()).d("rcest", r.get_composite_estimate());
        x.s += "}";
        if (p) o += ",";
        o += x.s;
      }
      Ev("UCompare").raw("objs", o + "]").emit();
    }
  }
  vt::close_out();
  fprintf(stderr, "hllunion_rec: %ld events\n", vt::g_events);
  return 0;
}
