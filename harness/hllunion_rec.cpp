// Recording driver for hll_union (C04), with C06 bound observations on results and C09 round trips of input sketches.
// A segment builds 2-6 input sketches (random lg_k / type / fill level: empty, list, set, HLL, far beyond k; shared item
// universe so that inputs overlap) and a list of raw items, then presents THE SAME inputs and raw items to three fresh
// unions of the same lg_max_k in three different orders, each input by lvalue or rvalue update, with observers
// (get_result(type), estimates/bounds, is_empty) interleaved at random.  Inputs are fed in bulk (`Feed` events carrying the
// REFERENCE coupons of the items, hll_common.hpp), so the specification knows every input through the Hll contract and
// never through the library; result content is read from get_result(t) via hll_sketch(r, HLL_8).serialize_updatable().
#include "hll_common.hpp"

using namespace datasketches;
using namespace hc;
using vt::Ev;

static const int NIN = 6;          // sketch ids 0..5 inputs, 6..8 restored copies of inputs, 9 scratch
static target_hll_type tt(int t) { return t == 4 ? HLL_4 : (t == 6 ? HLL_6 : HLL_8); }
static const int T3[] = {4, 6, 8};

static void emit_new(int id, const hll_sketch& s) {
  View v = view(s, false);
  Ev("New").i("id", id).i("lgk", v.lgk).i("type", v.type).b("full", (v.flags & 32) != 0).i("mode", v.mode).b("empty", s.is_empty()).emit();
}

// feed items to a sketch in bulk events of at most 1000 coupons
static void feed(int id, hll_sketch& s, const std::vector<Item>& items, bool restored = false) {
  size_t pos = 0;
  while (pos < items.size()) {
    std::vector<Coupon> cs;
    size_t end = std::min(items.size(), pos + 1000);
    for (; pos < end; pos++) { Coupon c; do_update(s, items[pos]); if (ref_coupon(items[pos], c)) cs.push_back(c); }
    if (cs.empty()) continue;
    View v = view(s, false);
    Ev e("Feed"); e.i("id", id).raw("cs", coupons_json(cs)).i("mode", v.mode).b("empty", s.is_empty()).raw("ph", phys(s, cs.back().addr, false));
    if (restored) e.b("restored", true);
    e.emit();
  }
}

// serialize s (sketch id src) in the given form, restore it through the given path as sketch id dst: Ser + Deser events
static std::unique_ptr<hll_sketch> round_trip(int src, const hll_sketch& s, int dst, int blob, bool compact, bool stream) {
  auto bytes = compact ? s.serialize_compact() : s.serialize_updatable();
  std::ostringstream os; if (compact) s.serialize_compact(os); else s.serialize_updatable(os);
  std::string st = os.str();
  std::vector<uint8_t> img(bytes.begin(), bytes.end());
  View v = view(s, false);
  long long mx = v.type == 4 ? -1 : (long long)hll_sketch::get_max_updatable_serialization_bytes((uint8_t)v.lgk, tt(v.type));
  auto cn = canon(img);
  Ev("Ser").i("src", src).i("blob", blob).str("form", compact ? "compact" : "updatable").i("hdr", 0).i("total", (long long)img.size())
    .i("size", (long long)img.size())
    .i("advertised", (long long)(compact ? s.get_compact_serialization_bytes() : s.get_updatable_serialization_bytes()))
    .i("maxsize", mx).bytes("img", img.data(), img.size()).bytes("img0", img.data(), img.size()).bytes("simg", st.data(), st.size())
    .bytes("canon", cn.data(), cn.size()).raw("p", light(src, s)).emit();
  long long consumed;
  std::unique_ptr<hll_sketch> r;
  if (!stream) { r.reset(new hll_sketch(hll_sketch::deserialize(img.data(), img.size()))); consumed = (long long)img.size(); }
  else {
    std::string inn((const char*)img.data(), img.size()); inn += std::string(16, '\x5a');
    std::istringstream is(inn);
    r.reset(new hll_sketch(hll_sketch::deserialize(is)));
    consumed = (long long)is.tellg();
  }
  auto re = compact ? r->serialize_compact() : r->serialize_updatable();
  std::vector<uint8_t> rev(re.begin(), re.end());
  auto rcn = canon(rev);
  View dv = view(*r, false);
  Ev("Deser").i("blob", blob).i("dst", dst).str("path", stream ? "stream" : "bytes").str("form", compact ? "compact" : "updatable")
    .i("type", dv.type).i("mode", dv.mode).b("empty", r->is_empty()).i("consumed", consumed)
    .bytes("reimg", rev.data(), rev.size()).bytes("recanon", rcn.data(), rcn.size())
    .raw("r", proj(dst, *r)).b("restored", true).emit();
  return r;
}
static void obs1(int id, const hll_sketch& s) { Ev("Obs").raw("objs", "[" + proj(id, s) + "]").emit(); }
// restored sketch next to its source: projection of the restored one, estimates of the source as reference
static void obs_restored(int id, const hll_sketch& s, int ref, const hll_sketch& rs) {
  Ev("Obs").raw("objs", "[" + proj(id, s) + "]").raw("ref", light(ref, rs)).b("restored", true).emit();
}

// state of the union's estimator as get_result(HLL_8) exposes it without side effects: mode, out-of-order flag, HIP accumulator
// (image bytes 8..15), registers
struct HipView { bool hll = false, ooo = false; double hip = 0; std::vector<uint8_t> regs; int lgk = 0; };
static HipView hip_view(const hll_union& u) {
  HipView h; h.lgk = u.get_lg_config_k();
  if (h.lgk > 12) return h;
  auto img = u.get_result(HLL_8).serialize_updatable();
  if ((img[7] & 3) != 2) return h;
  h.hll = true; h.ooo = (img[5] & 16) != 0; memcpy(&h.hip, &img[8], 8);
  h.regs.assign(img.begin() + 40, img.begin() + 40 + ((size_t)1 << img[3]));
  return h;
}
static std::string hinc_json(const HipView& a, const HipView& b) {
  double kxq = 0; for (uint8_t v : a.regs) kxq += std::ldexp(1.0, -(int)v);
  double expect = (double)a.regs.size() / kxq, got = b.hip - a.hip;
  double rel = expect > 0 ? std::fabs(got - expect) / expect * 1e9 : 0;
  Ev x("x"); x.s = "{\"z\":0";
  x.b("ooo", a.ooo).b("oooAfter", b.ooo).d("hipBefore", a.hip).d("hipAfter", b.hip).i("ppb", qint(rel));
  x.s += "}";
  return x.s;
}

static bool is_ooo(const hll_sketch& s) { return (view(s, false).flags & 16) != 0; }
// get_result in all three types from the union as it is (no estimate / bound query in between) and from a COPY of the union on
// which get_composite_estimate() was called first (the deferred KxQ / cur-min rebuild has run): the six results must describe the
// same sketch - equal composite and in-order estimates and bounds up to 10^-12 (dq: pairwise relative differences in that unit)
static void emit_results3(int p, const hll_union& u) {
  std::vector<hll_sketch> rs;
  for (int t : T3) rs.push_back(u.get_result(tt(t)));
  hll_union v(u);
  (void)v.get_composite_estimate();
  for (int t : T3) rs.push_back(v.get_result(tt(t)));
  auto rel = [](double a, double b) -> long long { double m = std::max(std::fabs(a), std::fabs(b)); if (m == 0) return 0; if (!(m == m) || std::isinf(m)) return a == b ? 0 : 2000000000LL; double d = std::fabs(a - b) / m * 1e12; return qint(d); };
  std::string o = "[", dq = "[";
  for (size_t a = 0; a < rs.size(); a++) {
    if (a) { o += ","; dq += ","; }
    o += proj(9, rs[a]);
    dq += "[";
    for (size_t b = 0; b < rs.size(); b++) {
      if (b) dq += ",";
      dq += "[" + std::to_string(rel(rs[a].get_composite_estimate(), rs[b].get_composite_estimate())) + "," + std::to_string(rel(rs[a].get_estimate(), rs[b].get_estimate()))
          + "," + std::to_string(rel(rs[a].get_lower_bound(3), rs[b].get_lower_bound(3))) + "," + std::to_string(rel(rs[a].get_upper_bound(3), rs[b].get_upper_bound(3))) + "]";
    }
    dq += "]";
  }
  Ev e("UResults3"); e.i("u", p).raw("rs", o + "]").raw("dq", dq + "]"); e.i("lgk", u.get_lg_config_k()).b("empty", u.is_empty()); e.emit();
}

static void scalars(Ev& e, const hll_union& u);
// reset() returns the union to its original state: afterwards it must be indistinguishable from a NEW union of the same
// lg_max_k - compared here through the compact images of get_result in all three types (and through everything that follows)
static void emit_ureset(int p, hll_union& u, uint8_t lgmax) {
  u.reset();
  hll_union fresh(lgmax);
  Ev e("UReset"); e.i("u", p);
  std::string a = "[", b = "[";
  for (int t : T3) {
    auto x = u.get_result(tt(t)).serialize_compact(), y = fresh.get_result(tt(t)).serialize_compact();
    Ev h("x"); h.s = ""; h.bytes("k", x.data(), x.size()); a += (a.size() > 1 ? "," : "") + h.s.substr(h.s.find(':') + 1);
    Ev f("x"); f.s = ""; f.bytes("k", y.data(), y.size()); b += (b.size() > 1 ? "," : "") + f.s.substr(f.s.find(':') + 1);
  }
  e.raw("imgs", a + "]").raw("fresh", b + "]");
  scalars(e, u); e.emit();
}
static void scalars(Ev& e, const hll_union& u) { e.i("lgk", u.get_lg_config_k()).b("empty", u.is_empty()); }

int main(int argc, char** argv) {
  refhash::self_check();
  vt::install_terminate();
  uint64_t seed = (uint64_t)vt::argl(argc, argv, "--seed", 1);
  long segments = vt::argl(argc, argv, "--segments", 10);
  long minlgk = vt::argl(argc, argv, "--minlgk", 4);
  long maxlgk = vt::argl(argc, argv, "--maxlgk", 12);
  long cap = vt::argl(argc, argv, "--cap", 6000);          // largest number of items in one input
  int serde_arg = (int)vt::argl(argc, argv, "--serde", 4);
  // high-precision segment, once per file (segment 0): lg_max_k in hilo..hihi (17..21), inputs of lg_k 17..21 that are in HLL mode
  // with a few dozen / few hundred coupons (start_full_size) plus one genuinely promoted sketch (lg_k 17, > 12288 coupons);
  // results observed sparsely (non-zero registers).  --hilo 0 disables it.
  long hilo = vt::argl(argc, argv, "--hilo", 17), hihi = vt::argl(argc, argv, "--hihi", 20);
  long promoted = vt::argl(argc, argv, "--promoted", 1);
  vt::open_out(vt::arg(argc, argv, "--out", "/dev/stdout"));
  vt::Rng g(seed);
  Pool pool; pool.build(1u << 20);
  Mined mined; mined.build(200000);
  for (long seg = 0; seg < segments; seg++) {
    Ev("Begin").i("seg", seg).emit();
    if (seg == 4) {
      // Deterministic sweep over the bounds tables (every file): for every lg_k 4..13 two in-order HLL-mode sketches (observed: the
      // in-order rows) are united in a union of that lg_k (lvalue / rvalue alternating); the result is out of order (observed in
      // two types: the out-of-order rows): ordering of the bounds and their relative half-widths against sd * RSE(lg_k)
      for (int lg = 4; lg <= 13; lg++) {
        long k = 1L << lg, promo = lg < 8 ? 8 : 3 * k / 32 + 1;
        std::unique_ptr<hll_sketch> sk[2];
        for (int i = 0; i < 2; i++) {
          sk[i].reset(new hll_sketch((uint8_t)lg, tt(T3[(lg + i + (int)seed) % 3]), (lg + i) % 2 == 0));
          emit_new(i, *sk[i]);
          std::vector<Item> items; long n = promo + g.range(20, std::max(40L, k));
          for (long j = 0; j < n; j++) items.push_back(draw(g, 1L << 22));
          feed(i, *sk[i], items);
          obs1(i, *sk[i]);
        }
        hll_union u((uint8_t)lg);
        { Ev e("UNew"); e.i("u", 0).i("lgmaxk", lg); scalars(e, u); e.emit(); }
        for (int i = 0; i < 2; i++) {
          bool rvalue = (lg + i) % 2 == 1;
          if (rvalue) { hll_sketch tmp(*sk[i]); u.update(std::move(tmp)); } else u.update(*sk[i]);
          Ev e("UUpdate"); e.i("u", 0).i("src", i).b("rvalue", rvalue).b("srcOoo", is_ooo(*sk[i])); scalars(e, u); e.emit();
        }
        for (int t : {T3[(lg + (int)seed) % 3], 8}) { hll_sketch r = u.get_result(tt(t)); Ev e("UResult"); e.i("u", 0).i("type", t).raw("r", proj(9, r)); scalars(e, u); e.emit(); }
        { Ev e("UEst"); e.i("u", 0); est_fields(e, u); scalars(e, u); e.emit(); }
      }
      continue;
    }
    bool high = seg == 0 && hilo > 16 && hihi >= hilo;
    bool prom_here = g.chance(60), smaller_here = g.chance(50);   // both pull the result down to their lg_k: not in every file
    int serde_pct = high ? 0 : serde_arg;                      // no serde of megabyte images
    int nin = high ? (int)g.range(4, NIN) : (int)g.range(2, NIN);
    uint8_t lgmax = (uint8_t)(high ? g.range(hilo, hihi) : g.range(minlgk, maxlgk));
    // directed "adoption" shape (35 % of the segments, small lg_k so that promotion is cheap): input 0 is an HLL_4 / HLL_6 sketch
    // STILL IN LIST / SET MODE with lg_k == lg_max_k and is presented first to the empty union (which adopts a copy of it), then
    // raw items carry the gadget across its promotion to HLL mode, then HLL-mode inputs of each type with lg_k >= lg_max_k follow
    // directed C09 segment (segment 3 of every file): every input is serialized at the EMPTY state, at exactly ONE item or right
    // after reset(), restored, and original and restored copy are then fed the same further items; presentations 1, 2 present the
    // restored copies.  Results of the union at its empty state, after one item and after reset() get the same treatment.
    bool rst_seg = !high && seg == 3;
    int rst_off = (int)g.below(4);          // (form, path) combination of input i: (i + rst_off) % 4, all four occur in every file
    if (rst_seg) { nin = NIN; lgmax = (uint8_t)g.range(std::max(4L, minlgk), std::max(minlgk, std::min(maxlgk, 10L))); }
    bool adopt = !high && !rst_seg && g.chance(35);
    // crafted segment (segment 2 of a file and 15 % of the others): inputs 0 and 1 are deserialized from hand-written coupon-list
    // images with coupon values 32..63; input 0 is then fed on into HLL mode, input 1 stays a list and holds a LARGER value on a
    // slot of input 0, so that merging it into an HLL-mode gadget overwrites a register >= 32 (kxq1 -=) and the deferred rebuild
    // sums registers >= 32 (kxq1 +=)
    bool crafted = !high && !adopt && !rst_seg && (seg == 2 || g.chance(15));
    if (crafted) lgmax = (uint8_t)g.range(std::max(4L, minlgk), std::max(minlgk, std::min(maxlgk, 10L)));
    std::vector<Coupon> craft0;
    if (adopt) { lgmax = (uint8_t)g.range(std::max(4L, minlgk), std::max(minlgk, std::min(maxlgk, 8L))); nin = std::max(nin, 4); }
    long universe = 1L << (g.chance(50) ? 14 : 22);         // small universe: inputs share many items
    std::unique_ptr<hll_sketch> in[NIN];
    // mined collisions (hll_common.hpp Mined): a pair of distinct coupons with the same 26-bit address, planted (0) both into
    // one input, (1) one into each of two inputs, (2) both as raw items of the unions, (3) one in an input, one raw; plus a pair
    // of distinct items with the identical coupon split over an input and the raw items
    int plan = g.chance(70) ? (int)g.below(4) : -1;
    auto mp = mined.same_addr[g.below(mined.same_addr.size())];
    if (g.chance(50)) std::swap(mp.first, mp.second);
    auto mc = mined.same_coupon[g.below(mined.same_coupon.size())];
    int pin_a = (int)g.below(nin), pin_b = (int)g.below(nin);
    if (plan == 1 && pin_a == pin_b) pin_b = (pin_a + 1) % nin;
    std::unique_ptr<hll_sketch> dsk[NIN];      // directed segment: restored copy of input i, sketch id 13 + i
    if (rst_seg) for (int i = 0; i < nin; i++) {
      uint8_t lgk = (uint8_t)std::min(maxlgk, std::max(minlgk, (long)lgmax + g.range(-1, 1)));
      long k = 1L << lgk;
      in[i].reset(new hll_sketch(lgk, tt(T3[i % 3]), i >= 3));
      emit_new(i, *in[i]);
      int state = (i + rst_off) % 3;          // 0: empty, 1: exactly one item, 2: right after reset()
      if (state == 2) {
        std::vector<Item> pre; long np = g.range(3, 40); for (long j = 0; j < np; j++) pre.push_back(draw(g, universe));
        feed(i, *in[i], pre);
        in[i]->reset();
        View v = view(*in[i], false);
        Ev("Reset").i("id", i).i("mode", v.mode).b("empty", in[i]->is_empty()).emit();
      }
      if (state == 1) { Item it; do it = draw(g, universe); while (it.type == 10 && it.sv.empty()); feed(i, *in[i], {it}); }
      obs1(i, *in[i]);
      dsk[i] = round_trip(i, *in[i], 13 + i, i % 3, ((i + rst_off) % 4) & 1, ((i + rst_off) % 4) >> 1);
      // continue both with the same items, to every fill level
      long n;
      switch (i) { case 0: n = g.range(1, 7); break; case 1: n = lgk >= 8 ? g.range(8, 3 * k / 32) : g.range(9, k); break; case 2: n = g.range(3 * k / 32 + 2, 2 * k); break;
                   case 3: n = g.range(k, 4 * k); break; case 4: n = g.chance(50) ? 0 : g.range(1, 7); break; default: n = g.range(1, 3 * k); }
      n = std::min(n, cap);
      std::vector<Item> items; for (long j = 0; j < n; j++) items.push_back(g.chance(5) ? pool.pick(g, 12) : draw(g, universe));
      // in two steps, observing both in between
      std::vector<Item> first(items.begin(), items.begin() + items.size() / 3), rest(items.begin() + items.size() / 3, items.end());
      feed(i, *in[i], first); feed(13 + i, *dsk[i], first, true);
      obs1(i, *in[i]); obs_restored(13 + i, *dsk[i], i, *in[i]);
      feed(i, *in[i], rest); feed(13 + i, *dsk[i], rest, true);
      obs1(i, *in[i]); obs_restored(13 + i, *dsk[i], i, *in[i]);
    }
    for (int i = 0; i < (rst_seg ? 0 : nin); i++) {
      // lg_k relative to lg_max_k: smaller, equal, larger all likely
      uint8_t lgk = (uint8_t)(g.chance(40) ? g.range(minlgk, maxlgk) : std::min(maxlgk, std::max(minlgk, (long)lgmax + g.range(-2, 2))));
      // high-precision segment: input 0 strictly larger than lg_max_k where possible, input 1 equal, input 2 smaller (>= 17),
      // the others anywhere in 17..21; input 3 is the genuinely promoted one (lg_k 17)
      if (high) lgk = (uint8_t)(i == 0 ? std::min(21L, (long)lgmax + g.range(1, 2)) : i == 1 ? lgmax : (i == 2 && smaller_here) ? std::max(17L, (long)lgmax - g.range(1, 2)) : g.range(lgmax, 21));
      bool prom = high && promoted && i == 3 && prom_here;
      if (prom) lgk = 17;
      if (adopt && i <= 3) lgk = (uint8_t)(i == 0 ? lgmax : std::min(maxlgk, (long)lgmax + g.range(0, 2)));
      long k = 1L << lgk;
      int t = T3[g.below(3)];
      bool full = high ? (!prom && !g.chance(15)) : g.chance(10);
      if (adopt && i == 0) { t = g.chance(50) ? 4 : 6; full = false; }
      if (adopt && i >= 1 && i <= 3) t = T3[i - 1];
      // uniform input (lg_k <= 7): exactly one item per slot, all with the same value: every slot of the array holds v
      bool uniform = !high && !adopt && lgk <= 7 && g.chance(15);
      if (uniform) { if (g.chance(60)) t = 4; full = g.chance(50); }
      bool crafted_in = crafted && i <= 1;
      if (crafted_in) {
        lgk = (uint8_t)(i == 1 || g.chance(50) ? lgmax : std::min(10L, std::max(4L, (long)lgmax + g.range(-1, 1)))); k = 1L << lgk; full = false; uniform = false;
        std::vector<Coupon> cs = craft_coupons(g, lgk);
        if (i == 0) craft0 = cs;
        else if (!craft0.empty() && craft0[0].val < 63) cs.insert(cs.begin() + g.below(cs.size() + 1), Coupon{craft0[0].addr, craft0[0].val + (uint32_t)g.range(1, 63 - craft0[0].val)});
        if (cs.size() > 7) cs.resize(7);
        auto img = craft_list_image(lgk, t, cs);
        in[i].reset(new hll_sketch(hll_sketch::deserialize(img.data(), img.size())));
        Ev("Craft").i("dst", i).i("lgk", lgk).i("type", t).raw("cs", coupons_json(cs)).raw("r", proj(i, *in[i])).emit();
      } else {
      in[i].reset(new hll_sketch(lgk, tt(t), full));
      emit_new(i, *in[i]);
      }
      long n;
      switch ((int)g.below(10)) {
        case 0: n = 0; break;                                            // empty
        case 1: case 2: n = g.range(1, 7); break;                        // list
        case 3: case 4: n = lgk >= 8 ? g.range(8, std::max(9L, 3 * k / 32)) : g.range(8, k); break;   // set (or small HLL)
        case 5: case 6: n = g.range(std::max(8L, 3 * k / 32 + 1), k); break;                           // HLL
        case 7: case 8: n = g.range(k, 3 * k); break;                    // beyond k
        default: n = g.range(3 * k, 10 * k); break;                      // far beyond k
      }
      n = std::min(n, cap);
      if (adopt && i == 0) n = lgk >= 8 ? g.range(1, 20) : g.range(1, 4);
      if (crafted_in) n = i == 0 ? g.range(lgk >= 8 ? 3 * k / 32 + 2 : 9, 2 * k) : 0;
      if (adopt && i >= 1 && i <= 3) n = g.range(lgk >= 8 ? 3 * k / 32 + 2 : 9, 3 * k);
      if (high) n = prom ? 3 * k / 32 + g.range(200, 800) : (g.chance(10) ? 0 : g.range(20, 300));
      std::vector<Item> items;
      int steer = g.chance(40) ? (int)g.range(3, 20) : 0;
      for (long j = 0; j < n; j++) items.push_back((steer && g.chance(steer)) ? pool.pick(g, 12) : draw(g, prom ? (1L << 22) : universe));
      if (uniform) {
        auto idx = mined.by_slot(lgk, (uint32_t)g.range(1, 3));
        bool ok = true; for (auto& c : idx) if (c.empty()) ok = false;
        if (ok) {
          items.clear();
          for (auto& c : idx) items.push_back(mined.item(c[g.below(c.size())], g));
          for (size_t a = items.size(); a > 1; a--) std::swap(items[a - 1], items[g.below(a)]);
        } else uniform = false;
      }
      if (high && !items.empty()) {     // addresses with all top bits set: slots >= 2^16 up to the last slots of the array
        static const std::vector<int> ta = mined.top_addr();
        for (int q = 0; q < 6 && !ta.empty(); q++) items.push_back(mined.item(ta[g.below(ta.size())], g));
      }
      {
        std::vector<Item> planted;
        if (uniform) planted.clear();
        else if ((plan == 0 || plan == 1 || plan == 3) && i == pin_a) planted.push_back(mined.item(mp.first, g));
        if (!uniform && ((plan == 0 && i == pin_a) || (plan == 1 && i == pin_b))) planted.push_back(mined.item(mp.second, g));
        if (!uniform && plan >= 0 && i == pin_b) planted.push_back(mined.item(mc.first, g));
        // at the front (the input is still a list), in the middle or at the end
        for (auto& pit : planted) { size_t at = g.chance(50) ? 0 : g.below(items.size() + 1); items.insert(items.begin() + at, pit); }
      }
      feed(i, *in[i], items);
      Ev("Obs").raw("objs", "[" + proj(i, *in[i]) + "]").emit();
    }
    // raw items offered directly to the unions (the same set for every presentation)
    std::vector<Item> raw;
    { long nr = g.chance(30) ? 0 : (g.chance(70) ? g.range(1, 12) : g.range(12, 300)); for (long j = 0; j < nr; j++) raw.push_back(g.chance(10) ? pool.pick(g, 12) : draw(g, universe)); }
    // every update overload with its edge values, in segment 1 of a file and 30 % of the others
    if (!high && (seg == 1 || g.chance(30))) { auto ed = edge_items(); for (auto& it : ed) if (seg == 1 || g.chance(50)) raw.push_back(it); }
    if (adopt) { raw.clear(); long nr = g.range(30, 60); for (long j = 0; j < nr; j++) raw.push_back(g.chance(10) ? pool.pick(g, 12) : draw(g, 1L << 22)); }
    if (plan == 2) { raw.push_back(mined.item(mp.first, g)); raw.push_back(mined.item(mp.second, g)); }
    if (plan == 3) raw.push_back(mined.item(mp.second, g));
    if (plan >= 0) raw.push_back(mined.item(mc.second, g));
    // optional serde round trip of some inputs: the restored sketch is presented instead of the original
    int restored_of[NIN]; std::unique_ptr<hll_sketch> rs[3]; int nrs = 0;
    for (int i = 0; i < nin; i++) {
      restored_of[i] = -1;
      if (!rst_seg && nrs < 3 && g.chance(3 * serde_pct)) {
        rs[nrs] = round_trip(i, *in[i], NIN + nrs, nrs, g.chance(50), g.chance(50));
        restored_of[i] = nrs++;
      }
    }
    // directed shape (25 % of the plain segments): the first operand is an HLL-mode sketch with lg_k > lg_max_k (the gadget is a
    // down-sampled copy that keeps the source's HIP accumulator), then all raw items, then the coupon-mode operands, then the rest
    int ds_first = -1;
    if (!high && !adopt && !rst_seg) for (int i = 0; i < nin; i++) if (in[i]->get_lg_config_k() > lgmax && view(*in[i], false).mode == 2 && !in[i]->is_empty()) { if (g.chance(25)) ds_first = i; break; }
    bool with_reset = !adopt && !rst_seg && ds_first < 0 && g.chance(12);
    if (rst_seg && raw.empty()) raw.push_back(draw(g, universe));
    std::unique_ptr<hll_sketch> ures[3], urst[3];      // directed segment: union results 10..12 and their restored copies 19..21
    std::unique_ptr<hll_union> un[3];
    for (int p = 0; p < 3; p++) {
      un[p].reset(new hll_union(lgmax));
      hll_union& u = *un[p];
      { Ev e("UNew"); e.i("u", p).i("lgmaxk", lgmax); scalars(e, u); e.emit(); }
      if (rst_seg && p == 0) {
        auto keep = [&](int n) {
          int t = T3[(n + (int)seg) % 3];
          ures[n].reset(new hll_sketch(u.get_result(tt(t))));
          Ev e("UResultAs"); e.i("u", p).i("type", t).i("dst", 10 + n).raw("r", proj(10 + n, *ures[n])); scalars(e, u); e.emit();
          urst[n] = round_trip(10 + n, *ures[n], 19 + n, n, ((n + rst_off + 1) % 4) & 1, ((n + rst_off + 1) % 4) >> 1);
        };
        keep(0);                                                        // result of the EMPTY union
        { const Item& it = raw[0]; Coupon c{0, 0}; bool counted = ref_coupon(it, c); do_update(u, it);
          Ev e(counted ? "UItem" : "UItemIgnored"); e.i("u", p).str("ty", TYPES[it.type]);
          if (counted) e.raw("c", "[" + std::to_string(c.addr) + "," + std::to_string(c.val) + "]"); scalars(e, u); e.emit(); }
        keep(1);                                                        // after exactly one item
        emit_ureset(p, u, lgmax);
        keep(2);                                                        // right after reset()
        // continue result and restored copy with the same items
        for (int n = 0; n < 3; n++) {
          long k = 1L << lgmax; long cnt = n == 0 ? g.range(1, 7) : (n == 1 ? g.range(9, 2 * k) : g.range(3 * k / 32 + 2, 3 * k));
          std::vector<Item> items; for (long j = 0; j < std::min(cnt, cap); j++) items.push_back(draw(g, universe));
          feed(10 + n, *ures[n], items, false); feed(19 + n, *urst[n], items, true);
          obs1(10 + n, *ures[n]); obs_restored(19 + n, *urst[n], 10 + n, *ures[n]);
        }
      }
      // presentation order: a permutation of inputs and raw items
      std::vector<int> order;                   // >= 0: input index, < 0: raw item -(j+1)
      for (int i = 0; i < nin; i++) order.push_back(i);
      for (size_t j = 0; j < raw.size(); j++) order.push_back(-(int)j - 1);
      if (ds_first >= 0 && p == 0) {
        order.clear(); order.push_back(ds_first);
        for (size_t j = 0; j < raw.size(); j++) order.push_back(-(int)j - 1);
        for (int i = 0; i < nin; i++) if (i != ds_first && view(*in[i], false).mode != 2) order.push_back(i);
        for (int i = 0; i < nin; i++) if (i != ds_first && view(*in[i], false).mode == 2) order.push_back(i);
      } else
      if (adopt && p < 2) {
        // input 0 first; presentation 0: then all raw items, then the HLL-mode inputs; presentation 1: the rest shuffled
        order.clear(); order.push_back(0);
        for (size_t j = 0; j < raw.size(); j++) order.push_back(-(int)j - 1);
        for (int i = 1; i < nin; i++) order.push_back(i);
        if (p == 1) for (size_t a = order.size(); a > 2; a--) std::swap(order[a - 1], order[1 + g.below(a - 1)]);
      } else
      if (p > 0 || g.chance(50)) for (size_t a = order.size(); a > 1; a--) std::swap(order[a - 1], order[g.below(a)]);
      long reset_at = with_reset ? (long)g.below(order.size() + 1) : -1;
      int obs_pct = high ? 12 : (raw.size() > 20 ? 8 : 35);
      int last_raw = -1;
      for (size_t q = 0; q <= order.size(); q++) {
        if ((long)q == reset_at) {
          emit_ureset(p, u, lgmax);
          if (last_raw >= 0) {     // the very next update after reset(): the item the union saw last
            const Item& it = raw[last_raw]; Coupon c{0, 0}; bool counted = ref_coupon(it, c); do_update(u, it);
            Ev e(counted ? "UItem" : "UItemIgnored"); e.i("u", p).str("ty", TYPES[it.type]);
            if (counted) e.raw("c", "[" + std::to_string(c.addr) + "," + std::to_string(c.val) + "]"); scalars(e, u); e.emit();
          }
        }
        // observers, at random, between any two updates (each is an event of its own: get_estimate & co. have side effects)
        while (g.chance(obs_pct)) {
          int ob = (int)g.below(10);
          if (ob < 3 && !high) {
            emit_results3(p, u);           // all three types, with and without a preceding estimate query (on a copy)
          } else if (ob < 5) {
            int t = T3[g.below(3)];
            hll_sketch r = u.get_result(tt(t));
            Ev e("UResult"); e.i("u", p).i("type", t).raw("r", proj(9, r)); scalars(e, u); e.emit();
          } else if (ob < 8) {
            Ev e("UEst"); e.i("u", p); est_fields(e, u); scalars(e, u); e.emit();
          } else if (ob < 9) {
            Ev e("UObs"); e.i("u", p); scalars(e, u); e.emit();
          } else {
            if (g.chance(50)) emit_bad_arg(u, "u", p, g); else { int bi = (int)g.below(nin); emit_bad_arg(*in[bi], "id", bi, g); }
          }
        }
        if (q == order.size()) break;
        int o = order[q];
        if (o >= 0) {
          bool rvalue = g.chance(45);
          int sid = (restored_of[o] >= 0 && p > 0) ? NIN + restored_of[o] : o;     // presentations 1, 2 use the restored copy
          if (rst_seg && p > 0) sid = 13 + o;
          const hll_sketch& src = sid >= 13 ? *dsk[sid - 13] : (sid >= NIN ? *rs[sid - NIN] : *in[o]);
          if (rvalue) { hll_sketch tmp(src); u.update(std::move(tmp)); } else u.update(src);
          Ev e("UUpdate"); e.i("u", p).i("src", sid).b("rvalue", rvalue).b("srcOoo", is_ooo(src)); scalars(e, u);
          if (sid >= NIN) e.b("restored", true);
          e.emit();
        } else {
          const Item& it = raw[-o - 1]; last_raw = -o - 1;
          Coupon c{0, 0}; bool counted = ref_coupon(it, c);
          HipView hb = hip_view(u);
          do_update(u, it);
          Ev e(counted ? "UItem" : "UItemIgnored"); e.i("u", p).str("ty", TYPES[it.type]);
          if (counted) e.raw("c", "[" + std::to_string(c.addr) + "," + std::to_string(c.val) + "]");
          if (counted && hb.hll) { HipView ha = hip_view(u); if (ha.hll && ha.lgk == hb.lgk) e.raw("hinc", hinc_json(hb, ha)); }
          scalars(e, u); e.emit();
        }
      }
      // final result in every type, then the estimates
      emit_results3(p, u);
      for (int t : T3) { if (high && t != 8 && t != T3[p]) continue; hll_sketch r = u.get_result(tt(t)); Ev e("UResult"); e.i("u", p).i("type", t).raw("r", proj(9, r)); scalars(e, u); e.emit(); }
      { Ev e("UEst"); e.i("u", p); est_fields(e, u); scalars(e, u); e.emit(); }
    }
    // results fed back as inputs: get_result(HLL_4 | HLL_6 | HLL_8) of the three unions become sketches 10..12 and are presented,
    // with one of the original inputs, to a fourth union (lvalue / rvalue, random order, observers)
    if (rst_seg) {
      // second life of a union: first life = a start_full_size source with lg_k == lg_max_k (adopted by lvalue or rvalue, alone or
      // after a raw item), then reset(): THE fresh state (image of a new union), then fewer items than any promotion threshold
      for (int w = 0; w < 2; w++) {
        hll_sketch fs(lgmax, tt(T3[(w + rst_off) % 3]), true);
        emit_new(22 + w, fs);
        { std::vector<Item> items; long n = g.range(5, 40); for (long j = 0; j < n; j++) items.push_back(draw(g, universe)); feed(22 + w, fs, items); obs1(22 + w, fs); }
        hll_union u6(lgmax);
        { Ev e("UNew"); e.i("u", 6 + w).i("lgmaxk", lgmax); scalars(e, u6); e.emit(); }
        auto item1 = [&](const Item& it) { Coupon c{0, 0}; bool counted = ref_coupon(it, c); do_update(u6, it);
          Ev e(counted ? "UItem" : "UItemIgnored"); e.i("u", 6 + w).str("ty", TYPES[it.type]);
          if (counted) e.raw("c", "[" + std::to_string(c.addr) + "," + std::to_string(c.val) + "]"); scalars(e, u6); e.emit(); };
        if (w == 1) item1(draw(g, universe));
        bool rvalue = (w + rst_off) % 2 == 0;
        if (rvalue) { hll_sketch tmp(fs); u6.update(std::move(tmp)); } else u6.update(fs);
        { Ev e("UUpdate"); e.i("u", 6 + w).i("src", 22 + w).b("rvalue", rvalue).b("srcOoo", false); scalars(e, u6); e.emit(); }
        emit_ureset(6 + w, u6, lgmax);
        long n2 = g.range(1, 6);
        for (long j = 0; j < n2; j++) { Item it; do it = draw(g, universe); while (it.type == 10 && it.sv.empty()); item1(it); }
        emit_results3(6 + w, u6);
        { Ev e("UEst"); e.i("u", 6 + w); est_fields(e, u6); scalars(e, u6); e.emit(); }
      }
      // the continued results and their continued restored copies as operands of two further unions: same outcome
      std::unique_ptr<hll_union> ux[2];
      for (int w = 0; w < 2; w++) {
        ux[w].reset(new hll_union(lgmax));
        { Ev e("UNew"); e.i("u", 4 + w).i("lgmaxk", lgmax); scalars(e, *ux[w]); e.emit(); }
        for (int n = 0; n < 3; n++) {
          int sid = (w == 0 ? 10 : 19) + n; const hll_sketch& src = w == 0 ? *ures[n] : *urst[n];
          bool rvalue = (n + w) % 2 == 0;
          if (rvalue) { hll_sketch tmp(src); ux[w]->update(std::move(tmp)); } else ux[w]->update(src);
          Ev e("UUpdate"); e.i("u", 4 + w).i("src", sid).b("rvalue", rvalue).b("srcOoo", is_ooo(src)); scalars(e, *ux[w]); if (w) e.b("restored", true); e.emit();
        }
        { hll_sketch r = ux[w]->get_result(HLL_8); Ev e("UResult"); e.i("u", 4 + w).i("type", 8).raw("r", proj(9, r)); scalars(e, *ux[w]); if (w) e.b("restored", true); e.emit(); }
        { Ev e("UEst"); e.i("u", 4 + w); est_fields(e, *ux[w]); scalars(e, *ux[w]); if (w) e.b("restored", true); e.emit(); }
      }
      // side by side (equal ghost states => equal estimates)
      double ce[2], rc[2]; std::string o = "[";
      for (int w = 0; w < 2; w++) {
        hll_sketch r = ux[w]->get_result(HLL_8); View v = view(r, false);
        ce[w] = ux[w]->get_composite_estimate(); rc[w] = r.get_composite_estimate();
        Ev x("x"); x.s = "{\"u\":" + std::to_string(4 + w); x.i("mode", v.mode).d("cest", ce[w]).d("rcest", rc[w]); x.s += "}";
        if (w) o += ","; o += x.s;
      }
      auto rel = [](double a, double b) -> long long { double m = std::max(std::fabs(a), std::fabs(b)); if (m == 0) return 0; if (!(m == m) || std::isinf(m)) return a == b ? 0 : 2000000000LL; double d = std::fabs(a - b) / m * 1e12; return qint(d); };
      std::string dq = "[";
      for (int a = 0; a < 2; a++) { dq += a ? ",[" : "["; for (int b = 0; b < 2; b++) { if (b) dq += ","; dq += "[" + std::to_string(rel(ce[a], ce[b])) + "," + std::to_string(rel(rc[a], rc[b])) + "]"; } dq += "]"; }
      Ev("UCompare").raw("objs", o + "]").raw("dq", dq + "]").b("restored", true).emit();
    } else
    if (g.chance(60)) {
      std::unique_ptr<hll_sketch> res[3];
      for (int p = 0; p < 3; p++) {
        int t = T3[(p + seg) % 3];
        res[p].reset(new hll_sketch(un[p]->get_result(tt(t))));
        Ev e("UResultAs"); e.i("u", p).i("type", t).i("dst", 10 + p).raw("r", proj(10 + p, *res[p])); scalars(e, *un[p]); e.emit();
      }
      uint8_t lg4 = (uint8_t)(high || g.chance(35) ? lgmax : g.range(minlgk, maxlgk));
      // out-of-order operands (results) with lg_k ABOVE the union's lg_max_k, arriving at an empty or coupon-mode gadget
      if (!high && g.chance(50)) lg4 = (uint8_t)std::max(minlgk, (long)res[0]->get_lg_config_k() - g.range(1, 2));
      hll_union u4(lg4);
      { Ev e("UNew"); e.i("u", 3).i("lgmaxk", lg4); scalars(e, u4); e.emit(); }
      if (g.chance(50)) {       // a few raw items first: the out-of-order operands then meet a coupon-mode gadget
        long nr = g.range(1, 5);
        for (long j = 0; j < nr; j++) {
          Item it = draw(g, universe); Coupon c{0, 0}; bool counted = ref_coupon(it, c); do_update(u4, it);
          Ev e(counted ? "UItem" : "UItemIgnored"); e.i("u", 3).str("ty", TYPES[it.type]);
          if (counted) e.raw("c", "[" + std::to_string(c.addr) + "," + std::to_string(c.val) + "]"); scalars(e, u4); e.emit();
        }
      }
      std::vector<int> order = {10, 11, 12, (int)g.below(nin)};
      for (size_t a = order.size(); a > 1; a--) std::swap(order[a - 1], order[g.below(a)]);
      for (int sid : order) {
        const hll_sketch& src = sid >= 10 ? *res[sid - 10] : *in[sid];
        bool rvalue = g.chance(45);
        if (rvalue) { hll_sketch tmp(src); u4.update(std::move(tmp)); } else u4.update(src);
        { Ev e("UUpdate"); e.i("u", 3).i("src", sid).b("rvalue", rvalue).b("srcOoo", is_ooo(src)); scalars(e, u4); e.emit(); }
        if (g.chance(50)) emit_results3(3, u4);
        if (g.chance(40)) { int t = T3[g.below(3)]; hll_sketch r = u4.get_result(tt(t)); Ev e("UResult"); e.i("u", 3).i("type", t).raw("r", proj(9, r)); scalars(e, u4); e.emit(); }
        if (g.chance(25)) { Ev e("UEst"); e.i("u", 3); est_fields(e, u4); scalars(e, u4); e.emit(); }
      }
      { hll_sketch r = u4.get_result(HLL_8); Ev e("UResult"); e.i("u", 3).i("type", 8).raw("r", proj(9, r)); scalars(e, u4); e.emit(); }
      { Ev e("UEst"); e.i("u", 3); est_fields(e, u4); scalars(e, u4); e.emit(); }
    }
    // the three unions side by side: composite estimates of unions whose contract states agree must agree
    {
      std::string o = "[";
      for (int p = 0; p < 3; p++) {
        hll_sketch r = un[p]->get_result(HLL_8);
        View v = view(r, false);
        Ev x("x"); x.s = "{\"u\":" + std::to_string(p); x.i("mode", v.mode).d("cest", un[p]->get_composite_estimate()).d("rcest", r.get_composite_estimate());
        x.s += "}";
        if (p) o += ",";
        o += x.s;
      }
      // pairwise relative differences of the estimates in units of 10^-12 (DESIGN C03: unit conversion of observations)
      double ce[3], rc[3];
      for (int p = 0; p < 3; p++) { ce[p] = un[p]->get_composite_estimate(); rc[p] = un[p]->get_result(HLL_8).get_composite_estimate(); }
      auto rel = [](double a, double b) -> long long { double m = std::max(std::fabs(a), std::fabs(b)); if (m == 0) return 0; if (!(m == m) || std::isinf(m)) return a == b ? 0 : 2000000000LL; double d = std::fabs(a - b) / m * 1e12; return qint(d); };
      std::string dq = "[";
      for (int a = 0; a < 3; a++) { dq += a ? ",[" : "["; for (int b = 0; b < 3; b++) { if (b) dq += ","; dq += "[" + std::to_string(rel(ce[a], ce[b])) + "," + std::to_string(rel(rc[a], rc[b])) + "]"; } dq += "]"; }
      Ev("UCompare").raw("objs", o + "]").raw("dq", dq + "]").emit();
    }
  }
  vt::close_out();
  fprintf(stderr, "hllunion_rec: %ld events\n", vt::g_events);
  return 0;
}
