// X07 driver: the iterator protocol of every family that exposes begin() / end(): theta (update, compact, wrapped), tuple
// (update, compact), kll, req, classic quantiles, var_opt, ebpps, density, count-min cells.  For an object in a given state it
// records: the sequence of entries by pre-increment, by range-for, through the non-const begin() where there is one, the count by
// std::distance (where the iterator declares a difference type) - all in this process, none of it touching operator++(int);
// and, in a FORKED CHILD (so that a crash is an observation, not the end of the recording), the post-increment part:
//   post      : `x = *it++` captured by value at every position,
//   prevEq    : `auto prev = it++` compares equal to a copy of the old position and unequal to the advanced iterator,
//   postPrev  : the saved `prev` iterators dereferenced AFTER `it` has run to the end.
// The second build of this file (-fsanitize=address, detect_stack_use_after_return) turns a reference to a dead temporary into
// a report + abort of the child instead of luck.  The expected sequences are compared by spec/XIter.tla.
#include <functional>
#include <iterator>
#include <type_traits>
#include <sys/wait.h>
#include <theta_sketch.hpp>
#include <theta_union.hpp>
#include <tuple_sketch.hpp>
#include <tuple_union.hpp>
#include <kll_sketch.hpp>
#include <req_sketch.hpp>
#include <quantiles_sketch.hpp>
#include <var_opt_sketch.hpp>
#include <var_opt_union.hpp>
#include <ebpps_sketch.hpp>
#include <density_sketch.hpp>
#include <count_min.hpp>
#include "vtrace.hpp"

#if defined(__SANITIZE_ADDRESS__)
extern "C" const char* __asan_default_options() { return "detect_stack_use_after_return=1:detect_leaks=0:abort_on_error=0:exitcode=66"; }
static const char* BUILD = "asan";
#else
static const char* BUILD = "plain";
#endif

using namespace datasketches;
using vt::Ev;

static const uint64_t ITER_SEED = 20260927;   // ebpps decides per begin() (with the library's generator) whether the partial item is shown
static void reseed() { random_utils::override_seed(ITER_SEED); }

static std::string join(const std::vector<std::string>& v) { std::string s = "["; for (size_t i = 0; i < v.size(); i++) { if (i) s += ","; s += v[i]; } return s + "]"; }

template<class It, class = void> struct has_diff : std::false_type {};
template<class It> struct has_diff<It, typename std::enable_if<!std::is_void<typename std::iterator_traits<It>::difference_type>::value>::type> : std::true_type {};
template<class C> static typename std::enable_if<has_diff<decltype(std::declval<const C&>().begin())>::value, long>::type dist(const C& c) { reseed(); return (long)std::distance(c.begin(), c.end()); }
template<class C> static typename std::enable_if<!has_diff<decltype(std::declval<const C&>().begin())>::value, long>::type dist(const C&) { return -1; }

// the post-increment observations, made in a child process; returns false if the child died
template<class C, class Proj> static bool postfix_in_child(const C& c, Proj proj, std::string& post, std::string& post_prev, std::string& prev_eq, std::string& how) {
  int p[2]; if (pipe(p) != 0) { perror("pipe"); exit(3); }
  fflush(vt::g_out);
  pid_t pid = fork();
  if (pid == 0) {
    close(p[0]); alarm(20);
    std::vector<std::string> a, b; std::vector<std::string> eq;
    { reseed(); auto it = c.begin(); const auto end = c.end();
      while (it != end) { a.push_back(proj(*it++)); } }                       // the value is copied out before the statement ends
    { reseed(); auto it = c.begin(); const auto end = c.end();
      std::vector<decltype(c.begin())> saved;
      while (it != end) { auto old = it; auto prev = it++; eq.push_back((prev == old && prev != it) ? "1" : "0"); saved.push_back(prev); }
      for (auto& s : saved) b.push_back(proj(*s)); }                           // dereferenced after `it` went on to the end
    std::string out = join(a) + "\n" + join(b) + "\n" + join(eq) + "\n";
    size_t off = 0; while (off < out.size()) { ssize_t w = write(p[1], out.data() + off, out.size() - off); if (w <= 0) break; off += (size_t)w; }
    vt::child_exit(0);
  }
  close(p[1]);
  std::string s; char buf[4096]; ssize_t n;
  while ((n = read(p[0], buf, sizeof buf)) > 0) s.append(buf, (size_t)n);
  close(p[0]);
  int st = 0; waitpid(pid, &st, 0);
  if (!WIFEXITED(st) || WEXITSTATUS(st) != 0) { how = WIFSIGNALED(st) ? "signal " + std::to_string(WTERMSIG(st)) : "exit " + std::to_string(WEXITSTATUS(st)); return false; }
  size_t l1 = s.find('\n'), l2 = s.find('\n', l1 + 1), l3 = s.find('\n', l2 + 1);
  if (l1 == std::string::npos || l2 == std::string::npos || l3 == std::string::npos) { how = "short answer"; return false; }
  post = s.substr(0, l1); post_prev = s.substr(l1 + 1, l2 - l1 - 1); prev_eq = s.substr(l2 + 1, l3 - l2 - 1); how = "ok";
  return true;
}

// c: the object through a const reference; mut: the same object for the non-const begin() (nullptr if the family has none);
// n: what the family reports as the number of retained entries (nlo..nhi where only a range is known)
static std::string g_only = "all";   // --family: record only the families whose name starts with this (one file per family: one defect does not hide another)
template<class C, class Proj> static void probe(const char* fam, const char* state, const C& c, C* mut, long nlo, long nhi, Proj proj) {
  if (g_only != "all" && std::string(fam).compare(0, g_only.size(), g_only) != 0) return;
  std::vector<std::string> pre, rf, nc;
  { reseed(); auto it = c.begin(); const auto end = c.end(); while (it != end) { pre.push_back(proj(*it)); ++it; } }
  { reseed(); for (auto&& e : c) rf.push_back(proj(e)); }
  if (mut != nullptr) { reseed(); auto it = mut->begin(); const auto end = mut->end(); while (it != end) { nc.push_back(proj(*it)); ++it; } }
  reseed(); const bool begin_is_end = c.begin() == c.end();
  reseed(); auto b1 = c.begin(); reseed(); auto b2 = c.begin();
  const bool begin_stable = b1 == b2 && !(b1 != b2) && c.end() == c.end();
  std::string post = "[]", post_prev = "[]", prev_eq = "[]", how;
  const bool alive = postfix_in_child(c, proj, post, post_prev, prev_eq, how);
  Ev("Iter").str("build", BUILD).str("fam", fam).str("state", state).i("nlo", nlo).i("nhi", nhi).raw("pre", join(pre)).raw("rangeFor", join(rf))
    .b("hasNonConst", mut != nullptr).raw("nonConst", join(nc)).i("dist", dist(c)).b("beginIsEnd", begin_is_end).b("beginStable", begin_stable)
    .b("postAlive", alive).str("postHow", how).raw("post", post).raw("postPrev", post_prev).raw("prevEq", prev_eq).emit();
}

static std::string el(const std::string& a, const std::string& b) { return "[" + a + "," + b + "]"; }
// values are keys / weights / counters of small test objects; anything else (garbage read through a broken iterator) is logged as a sentinel
static std::string I(long long v) { return std::to_string(v > 2000000000LL ? 2000000001LL : v < -2000000000LL ? -2000000001LL : v); }

// ---- families -------------------------------------------------------------------------------------------------------
static const char* STATES[] = {"empty", "one", "exact", "estimating", "merged"};
static long size_of(int st, long k, vt::Rng& g) { return st == 0 ? 0 : st == 1 ? 1 : st == 2 ? std::max(2L, k / 2) : (long)g.range(3 * k, 9 * k); }

static void theta_family(vt::Rng& g) {
  auto th = [](const uint64_t& h) { return el(Ev::htok(h), "0"); };
  auto tu = [](const std::pair<uint64_t, double>& e) { return el(Ev::htok(e.first), "0"); };
  for (int st = 0; st < 5; st++) {
    const int lgk = (int)g.range(5, 7); const long k = 1L << lgk;
    auto s = update_theta_sketch::builder().set_lg_k((uint8_t)lgk).build();
    auto t = update_tuple_sketch<double>::builder().set_lg_k((uint8_t)lgk).build();
    const long n = size_of(st == 4 ? 3 : st, k, g);
    for (long j = 0; j < n; j++) { uint64_t x = g.next(); s.update(x); t.update(x, 1.0); }
    if (st == 4) {
      auto s2 = update_theta_sketch::builder().set_lg_k((uint8_t)lgk).build(); auto t2 = update_tuple_sketch<double>::builder().set_lg_k((uint8_t)lgk).build();
      for (long j = 0; j < n; j++) { uint64_t x = g.next(); s2.update(x); t2.update(x, 1.0); }
      auto u = theta_union::builder().set_lg_k((uint8_t)lgk).build(); u.update(s); u.update(s2);
      auto r = u.get_result();
      probe("theta-compact", STATES[st], r, (compact_theta_sketch*)nullptr, r.get_num_retained(), r.get_num_retained(), th);
      auto tun = tuple_union<double>::builder().set_lg_k((uint8_t)lgk).build(); tun.update(t); tun.update(t2);
      auto tr = tun.get_result();
      probe("tuple-compact", STATES[st], tr, &tr, tr.get_num_retained(), tr.get_num_retained(), tu);
      continue;
    }
    probe("theta-update", STATES[st], s, &s, s.get_num_retained(), s.get_num_retained(), th);
    auto c = s.compact(g.chance(50));
    probe("theta-compact", STATES[st], c, (compact_theta_sketch*)nullptr, c.get_num_retained(), c.get_num_retained(), th);
    auto bytes = s.compact(true).serialize();
    auto w = wrapped_compact_theta_sketch::wrap(bytes.data(), bytes.size());
    probe("theta-wrapped", STATES[st], w, (wrapped_compact_theta_sketch*)nullptr, w.get_num_retained(), w.get_num_retained(), th);
    probe("tuple-update", STATES[st], t, &t, t.get_num_retained(), t.get_num_retained(), tu);
    auto tc = t.compact();
    probe("tuple-compact", STATES[st], tc, &tc, tc.get_num_retained(), tc.get_num_retained(), tu);
  }
}

static void quantiles_family(vt::Rng& g) {
  auto q = [](const std::pair<const float&, const uint64_t>& e) { return el(I(std::llround((double)e.first * 8.0)), I((long long)e.second)); };
  auto dn = [](const std::pair<const std::vector<float>&, const uint64_t>& e) { return el(I(std::llround((double)e.first[0] * 8.0)), I((long long)e.second)); };
  for (int st = 0; st < 5; st++) {
    const uint16_t kk = (uint16_t)g.range(8, 24), rk = (uint16_t)(2 * g.range(2, 6)), ck = (uint16_t)(1 << g.range(1, 4)), dk = (uint16_t)g.range(3, 10);
    kll_sketch<float> k(kk); req_sketch<float> r(rk, g.chance(50)); quantiles_sketch<float> c(ck); density_sketch<float> d(dk, 2);
    const long n = size_of(st == 4 ? 3 : st, 24, g);
    auto feed = [&](kll_sketch<float>& a, req_sketch<float>& b, quantiles_sketch<float>& cc, density_sketch<float>& dd, long m) {
      for (long j = 0; j < m; j++) { float x = (float)(g.next() % 100000) / 8.0f; a.update(x); b.update(x); cc.update(x); dd.update(std::vector<float>{x, 1.0f}); } };
    feed(k, r, c, d, n);
    if (st == 4) { kll_sketch<float> k2(kk); req_sketch<float> r2(rk, r.is_HRA()); quantiles_sketch<float> c2(ck); density_sketch<float> d2(dk, 2); feed(k2, r2, c2, d2, n + 17);
      k.merge(k2); r.merge(r2); c.merge(c2); d.merge(d2); }
    probe("kll", STATES[st], k, (kll_sketch<float>*)nullptr, k.get_num_retained(), k.get_num_retained(), q);
    probe("req", STATES[st], r, (req_sketch<float>*)nullptr, r.get_num_retained(), r.get_num_retained(), q);
    probe("quantiles", STATES[st], c, (quantiles_sketch<float>*)nullptr, c.get_num_retained(), c.get_num_retained(), q);
    probe("density", STATES[st], d, (density_sketch<float>*)nullptr, d.get_num_retained(), d.get_num_retained(), dn);
  }
}

static void sampling_family(vt::Rng& g) {
  auto vo = [](const std::pair<const int&, const double>& e) { return el(I(e.first), Ev::dtok(e.second)); };
  auto eb = [](const int& e) { return el(I(e), "0"); };
  auto cmv = [](const uint64_t& v) { return el(I((long long)v), "0"); };
  for (int st = 0; st < 5; st++) {
    random_utils::override_seed(g.next());
    const uint32_t kk = (uint32_t)g.range(2, 24);
    var_opt_sketch<int> v(kk); ebpps_sketch<int> e(kk); count_min_sketch<uint64_t> cm((uint8_t)g.range(1, 4), (uint32_t)g.range(3, 20), 5);
    const long n = size_of(st == 4 ? 3 : st, kk, g);
    for (long j = 0; j < n; j++) { v.update((int)j, 1.0 + (double)(g.next() % 40)); e.update((int)j, 1.0 + (double)(g.next() % 3)); cm.update((uint64_t)(j % 50), 1 + g.next() % 3); }
    if (st == 4) {
      var_opt_sketch<int> v2(kk); ebpps_sketch<int> e2(kk); count_min_sketch<uint64_t> cm2(cm.get_num_hashes(), cm.get_num_buckets(), 5);
      for (long j = 0; j < n + 5; j++) { v2.update((int)(1000 + j), 2.0 + (double)(g.next() % 40)); e2.update((int)(1000 + j), 1.0 + (double)(g.next() % 3)); cm2.update((uint64_t)(j % 70), 1); }
      var_opt_union<int> u(kk); u.update(v); u.update(v2);
      auto vr = u.get_result();
      probe("varopt", STATES[st], vr, (var_opt_sketch<int>*)nullptr, vr.get_num_samples(), vr.get_num_samples(), vo);
      e.merge(e2); cm.merge(cm2);
    } else {
      probe("varopt", STATES[st], v, (var_opt_sketch<int>*)nullptr, v.get_num_samples(), v.get_num_samples(), vo);
    }
    // ebpps shows floor(c) items and, with probability frac(c), the partial item: decided per begin() by the library's generator (reseeded alike before every traversal)
    const double c = e.get_c();
    probe("ebpps", STATES[st], e, (ebpps_sketch<int>*)nullptr, (long)std::floor(c + 1e-9), (long)std::ceil(c - 1e-9), eb);
    probe("countmin", STATES[st], cm, (count_min_sketch<uint64_t>*)nullptr, (long)cm.get_num_hashes() * cm.get_num_buckets(), (long)cm.get_num_hashes() * cm.get_num_buckets(), cmv);
  }
}

int main(int argc, char** argv) {
  vt::install_terminate();
  uint64_t seed = (uint64_t)vt::argl(argc, argv, "--seed", 1);
  int rounds = (int)vt::argl(argc, argv, "--rounds", 2);
  g_only = vt::arg(argc, argv, "--family", "all");
  vt::open_out(vt::arg(argc, argv, "--out", "/dev/stdout"));
  vt::Rng g(seed);
  for (int r = 0; r < rounds; r++) {
    Ev("Begin").str("group", g_only).i("round", r).emit();
    theta_family(g); quantiles_family(g); sampling_family(g);
  }
  vt::close_out();
  fprintf(stderr, "x_iter(%s): %ld events\n", BUILD, vt::g_events);
  return 0;
}
