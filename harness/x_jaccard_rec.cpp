// X04 driver: theta / tuple Jaccard similarity and the bounds on ratios (theta sketched sets, sampled sets).
// Logs the two operand sketches as the public API shows them (retained hashes, theta, emptiness) and every result; the expected
// estimate (ratio of the sample counts below the common theta) and all verdicts are computed by TLC (spec/XJaccard.tla).
#include <array>
#include <theta_sketch.hpp>
#include <theta_union.hpp>
#include <theta_intersection.hpp>
#include <theta_a_not_b.hpp>
#include <theta_jaccard_similarity.hpp>
#include <tuple_sketch.hpp>
#include <tuple_jaccard_similarity.hpp>
#include <bounds_on_ratios_in_theta_sketched_sets.hpp>
#include <bounds_on_ratios_in_sampled_sets.hpp>
#include "vtrace.hpp"

using namespace datasketches;
using vt::Ev;

template<class S> static std::string sk_json(const S& s) {
  std::vector<uint64_t> ent;
  for (const auto& e : s) ent.push_back(e);
  Ev ev("x"); ev.s = "{\"n\":" + std::to_string(s.get_num_retained());
  ev.hl("ent", ent).h("theta", s.get_theta64()).b("empty", s.is_empty());
  return ev.s + "}";
}
template<class S> static std::string tuple_json(const S& s) {
  std::vector<uint64_t> ent;
  for (const auto& e : s) ent.push_back(e.first);
  Ev ev("x"); ev.s = "{\"n\":" + std::to_string(s.get_num_retained());
  ev.hl("ent", ent).h("theta", s.get_theta64()).b("empty", s.is_empty());
  return ev.s + "}";
}

static long long scaled5(double x) { if (!(std::fabs(x) < 20000.0)) return -1; return std::llround(x * 1e5); }

struct add_policy { void operator()(double& a, const double& b) const { a += b; } };
using tjs = tuple_jaccard_similarity<double, add_policy>;

// one Jaccard event; J = the similarity class (theta or tuple), SA/SB any sketch forms
template<class J, class SA, class SB> static void jaccard_event(const char* kind, const SA& a, const SB& b, const std::string& aj, const std::string& bj, vt::Rng& g) {
  std::array<double, 3> r{};
  bool threw = false;
  try { r = J::jaccard(a, b); } catch (const std::exception&) { threw = true; }
  Ev ev("Jaccard");
  ev.str("kind", kind).raw("a", aj).raw("b", bj).h("maxTheta", theta_constants::MAX_THETA).b("threw", threw);
  ev.d("lb", r[0]).d("est", r[1]).d("ub", r[2]).d("zero", 0.0).d("one", 1.0).i("est5", scaled5(r[1]));
  bool finite = std::isfinite(r[0]) && std::isfinite(r[1]) && std::isfinite(r[2]);
  ev.b("finite", finite);
  // the reversed call and exactly_equal
  std::array<double, 3> rr{}; try { rr = J::jaccard(b, a); } catch (const std::exception&) { threw = true; }
  ev.d("lbRev", rr[0]).d("estRev", rr[1]).d("ubRev", rr[2]);
  ev.b("equal", J::exactly_equal(a, b)).b("equalRev", J::exactly_equal(b, a));
  // similarity / dissimilarity tests at thresholds around the bounds
  std::vector<double> ts = {0.0, 1.0, r[0], r[2], r[1], std::nextafter(r[0], 2.0), std::nextafter(r[0], -1.0), std::nextafter(r[2], 2.0), std::nextafter(r[2], -1.0), g.unit(), g.unit()};
  std::vector<double> tl; std::vector<int> sim, dis;
  for (double t : ts) if (!std::isnan(t)) { tl.push_back(t); sim.push_back(J::similarity_test(a, b, t) ? 1 : 0); dis.push_back(J::dissimilarity_test(a, b, t) ? 1 : 0); }
  ev.dl("t", tl).il("sim", sim).il("dis", dis);
  ev.emit();
}

static update_theta_sketch make_theta(int lgk, float p, uint64_t base, long n, long stride) {
  auto s = update_theta_sketch::builder().set_lg_k((uint8_t)lgk).set_p(p).build();
  for (long j = 0; j < n; j++) s.update(base + (uint64_t)(j * stride));
  return s;
}

static void pair_segment(vt::Rng& g, int maxlgk) {
  const int lgk_a = (int)g.range(5, maxlgk), lgk_b = g.chance(60) ? lgk_a : (int)g.range(5, maxlgk);
  const float pa = g.chance(75) ? 1.0f : (float)(0.05 + 0.9 * g.unit()), pb = g.chance(75) ? 1.0f : (float)(0.05 + 0.9 * g.unit());
  const long ka = 1L << lgk_a, kb = 1L << lgk_b;
  auto size = [&](long k) { switch (g.below(5)) { case 0: return (long)g.range(0, 3); case 1: return (long)g.range(1, k); case 2: return k + (long)g.range(-2, 2);
                                                   case 3: return (long)g.range(k, 4 * k); default: return (long)g.range(4 * k, 12 * k); } };
  long na = std::max(0L, size(ka)), nb = std::max(0L, size(kb));
  // overlap: B's keys start inside / at / after A's key range
  const int ov = (int)g.below(6);
  uint64_t base_a = g.next() >> 8, base_b;
  switch (ov) { case 0: base_b = base_a; nb = g.chance(50) ? na : nb; break;              // same start (identical when na == nb)
                case 1: base_b = base_a + (uint64_t)na; break;                               // disjoint, adjacent
                case 2: base_b = base_a + (uint64_t)(na / 2); break;                         // half overlap
                case 3: base_b = base_a + (uint64_t)(na - std::min(na, 3L)); break;          // tiny overlap
                case 4: base_b = base_a + (uint64_t)std::min(na, 5L); break;                 // almost all
                default: base_b = g.next() >> 8; break; }                                    // unrelated
  Ev("Begin").str("mode", "pair").i("lgkA", lgk_a).i("lgkB", lgk_b).i("nA", na).i("nB", nb).i("overlap", ov).emit();
  auto a = make_theta(lgk_a, pa, base_a, na, 1), b = make_theta(lgk_b, pb, base_b, nb, 1);
  const std::string aj = sk_json(a), bj = sk_json(b);
  jaccard_event<theta_jaccard_similarity>("update/update", a, b, aj, bj, g);
  auto ca = a.compact(true), cb = b.compact(false);
  jaccard_event<theta_jaccard_similarity>("compact/compact", ca, cb, aj, bj, g);
  jaccard_event<theta_jaccard_similarity>("update/compact", a, cb, aj, bj, g);
  { // the same object: J = 1 by definition
    auto r = theta_jaccard_similarity::jaccard(a, a);
    Ev("JaccardSelf").d("lb", r[0]).d("est", r[1]).d("ub", r[2]).d("one", 1.0).b("equal", theta_jaccard_similarity::exactly_equal(a, a)).emit();
  }
  { // a copy is not the same object but the same sketch
    update_theta_sketch a2 = a;
    jaccard_event<theta_jaccard_similarity>("update/copy", a, a2, aj, aj, g);
  }
  { // tuple sketches over the same keys
    auto ta = update_tuple_sketch<double>::builder().set_lg_k((uint8_t)lgk_a).set_p(pa).build();
    auto tb = update_tuple_sketch<double>::builder().set_lg_k((uint8_t)lgk_b).set_p(pb).build();
    for (long j = 0; j < na; j++) ta.update(base_a + (uint64_t)j, 1.0);
    for (long j = 0; j < nb; j++) tb.update(base_b + (uint64_t)j, 1.0);
    jaccard_event<tjs>("tuple/tuple", ta, tb, tuple_json(ta), tuple_json(tb), g);
  }
  // bounds on ratios in theta sketched sets: B' = A intersected with B (a subset sketch of A), and violations of the precondition
  {
    theta_intersection in; in.update(a); in.update(b);
    auto sub = in.get_result();
    using R = bounds_on_ratios_in_theta_sketched_sets<trivial_extract_key>;
    auto ratio = [&](const char* kind, const compact_theta_sketch& x, const compact_theta_sketch& y) {
      double lb = 0, est = 0, ub = 0; bool threw = false, other = false;
      try { lb = R::lower_bound_for_b_over_a(x, y); est = R::estimate_of_b_over_a(x, y); ub = R::upper_bound_for_b_over_a(x, y); }
      catch (const std::invalid_argument&) { threw = true; } catch (const std::exception&) { other = true; }
      Ev("Ratio").str("kind", kind).raw("a", sk_json(x)).raw("b", sk_json(y)).h("maxTheta", theta_constants::MAX_THETA).b("threw", threw).b("other", other)
        .d("lb", lb).d("est", est).d("ub", ub).d("zero", 0.0).d("one", 1.0).i("est5", scaled5(est)).emit();
    };
    ratio("a,a&b", ca, sub);
    ratio("b,a&b", b.compact(), sub);
    ratio("a,a", ca, ca);
    ratio("a&b,a", sub, ca);        // reversed roles: refused unless the two are the same sample
    ratio("a,b", ca, b.compact());  // B is not a subset sketch of A in general
  }
}

static void sampled_segment(vt::Rng& g, int points) {
  Ev("Begin").str("mode", "sampled").emit();
  using R = bounds_on_ratios_in_sampled_sets;
  std::vector<uint64_t> as = {0, 1, 2, 3, 10, 100, 1000, 4096, 100000};
  std::vector<double> fs = {1.0, 0.999, 0.75, 0.5, 0.4999, 0.3, 0.1, 0.01, 1e-4, 1e-9};
  for (int j = 0; j < points; j++) { as.push_back(g.below(50000)); fs.push_back(g.unit()); }
  for (uint64_t a : as) {
    std::vector<uint64_t> bs = {0, 1, a / 2, a > 0 ? a - 1 : 0, a};
    for (int j = 0; j < 2; j++) bs.push_back(g.below(a + 1));
    for (uint64_t b : bs) for (double f : fs) {
      if (f <= 0 || b > a) continue;    // refused arguments are exercised below
      double lb = R::lower_bound_for_b_over_a(a, b, f), ub = R::upper_bound_for_b_over_a(a, b, f), est = R::get_estimate_of_b_over_a(a, b);
      Ev("Sampled").i("a", (long long)a).i("b", (long long)b).d("f", f).b("fOne", f == 1.0).d("lb", lb).d("est", est).d("ub", ub).d("zero", 0.0).d("one", 1.0).d("half", 0.5)
        .i("est5", scaled5(est)).emit();
    }
  }
  // invalid arguments: b > a, f outside (0, 1]
  struct Bad { uint64_t a, b; double f; };
  std::vector<Bad> bad = {{1, 2, 0.5}, {0, 1, 0.5}, {100, 101, 1.0}, {10, 5, 0.0}, {10, 5, -0.1}, {10, 5, 1.0000001}, {10, 5, 2.0}};
  for (const Bad& x : bad) {
    int refused = 0, other = 0;
    try { (void)R::lower_bound_for_b_over_a(x.a, x.b, x.f); } catch (const std::invalid_argument&) { refused++; } catch (const std::exception&) { other++; }
    try { (void)R::upper_bound_for_b_over_a(x.a, x.b, x.f); } catch (const std::invalid_argument&) { refused++; } catch (const std::exception&) { other++; }
    Ev("SampledBad").i("a", (long long)x.a).i("b", (long long)x.b).d("f", x.f).i("refused", refused).i("other", other).i("of", 2).emit();
  }
}

int main(int argc, char** argv) {
  vt::install_terminate();
  uint64_t seed = (uint64_t)vt::argl(argc, argv, "--seed", 1);
  int pairs = (int)vt::argl(argc, argv, "--pairs", 30);
  int maxlgk = (int)vt::argl(argc, argv, "--maxlgk", 9);
  vt::open_out(vt::arg(argc, argv, "--out", "/dev/stdout"));
  vt::Rng g(seed);
  sampled_segment(g, (int)vt::argl(argc, argv, "--points", 6));
  for (int q = 0; q < pairs; q++) pair_segment(g, maxlgk);
  vt::close_out();
  fprintf(stderr, "x_jaccard_rec: %ld events\n", vt::g_events);
  return 0;
}
