// Replays TLC-generated behaviours of the Theta design model (spec/GenTheta.tla) on the real update_theta_sketch
// (spec -> impl).  A hash of rank r in the model is realised by the pool item whose REFERENCE hash is the r-th
// smallest; each step logs the real sketch's state in the format of theta_rec (validated against the contract,
// tier A) together with the model's expected state (x* fields, compared only in the tier-B configuration: a mismatch
// there is MODEL-DRIFT, not a violation).
#include <memory>
#include <algorithm>
#include <dirent.h>
#include <fstream>
#include <theta_sketch.hpp>
#include "vtrace.hpp"
#include "refhash.hpp"

using namespace datasketches;
using vt::Ev;
static const uint64_t MAXT = 0x7fffffffffffffffULL;

template<class S> static std::string proj(const S& s) {
  std::vector<uint64_t> ent;
  for (auto it = s.begin(); it != s.end(); ++it) ent.push_back(*it);
  Ev r("x");
  r.s = "{\"z\":0";
  r.h("thetaH", s.get_theta64()).hl("ent", ent).b("empty", s.is_empty()).b("ordered", s.is_ordered())
   .i("n", s.get_num_retained()).b("estMode", s.is_estimation_mode()).d("est", s.get_estimate());
  double e = s.get_estimate();
  r.i("estI", (e == std::floor(e) && e < 2e9) ? (long long)e : -1);
  std::vector<double> lb, ub;
  for (int k = 1; k <= 3; k++) { lb.push_back(s.get_lower_bound(k)); ub.push_back(s.get_upper_bound(k)); }
  r.dl("lb", lb).dl("ub", ub);
  r.s += "}";
  return r.s;
}

static int parse_lgcur(const update_theta_sketch& s) {
  std::string t = s.to_string();
  size_t p = t.find("lg current size"); if (p == std::string::npos) return -1;
  p = t.find(':', p); return atoi(t.c_str() + p + 1);
}

int main(int argc, char** argv) {
  refhash::self_check();
  vt::install_terminate();
  std::string dir = vt::arg(argc, argv, "--dir", "build/gen_theta");
  long M = vt::argl(argc, argv, "--maxhash", 160), start = vt::argl(argc, argv, "--start", 161);
  int lgk = (int)vt::argl(argc, argv, "--lgk", 5), lgrf = (int)vt::argl(argc, argv, "--lgrf", 1);
  long part = vt::argl(argc, argv, "--part", 0), parts = vt::argl(argc, argv, "--parts", 1);
  vt::open_out(vt::arg(argc, argv, "--out", "/dev/stdout"));
  // pool: items 0..M-1 ordered by reference hash
  std::vector<std::pair<uint64_t, int64_t>> pool;
  for (int64_t v = 0; v < M; v++) pool.push_back({refhash::murmur3_x64_128(&v, 8, DEFAULT_SEED).h1 >> 1, v});
  std::sort(pool.begin(), pool.end());
  float p = 1.0f; uint64_t startH = MAXT;
  if (start <= M) {   // starting theta strictly between the hashes of rank start-1 and start
    double mid = ((double)pool[start - 2].first + (double)pool[start - 1].first) / 2.0;
    p = (float)(mid / (double)MAXT); startH = (uint64_t)((double)MAXT * p);
    if (!(startH > pool[start - 2].first && startH <= pool[start - 1].first)) { fprintf(stderr, "cannot place starting theta\n"); return 3; }
  }
  auto xtheta = [&](long t) -> uint64_t { return t == start ? startH : (t > M ? MAXT : pool[t - 1].first); };
  std::vector<std::string> files;
  if (DIR* d = opendir(dir.c_str())) { while (dirent* e = readdir(d)) { std::string n = e->d_name; if (n.size() > 7 && n.substr(n.size() - 7) == ".ndjson") files.push_back(n); } closedir(d); }
  std::sort(files.begin(), files.end());
  long seg = 0;
  for (size_t fi = 0; fi < files.size(); fi++) {
    if ((long)(fi % parts) != part) continue;
    std::ifstream in(dir + "/" + files[fi]);
    Ev("Begin").i("seg", seg++).str("file", files[fi]).emit();
    auto s = update_theta_sketch::builder().set_lg_k((uint8_t)lgk).set_resize_factor((resize_factor)lgrf).set_p(p).build();
    Ev("New").i("id", 0).i("k", 1L << lgk).i("lgk", lgk).i("rf", lgrf).h("startH", startH).h("maxH", MAXT).emit();
    std::string line; long step = 0;
    while (std::getline(in, line)) {
      char op = line[line.find("\"op\":\"") + 6];
      long h = atol(line.c_str() + line.find("\"h\":") + 4), th = atol(line.c_str() + line.find("\"theta\":") + 8);
      long n = atol(line.c_str() + line.find("\"n\":") + 4), lg = atol(line.c_str() + line.find("\"lgCur\":") + 8);
      bool emp = line.find("\"empty\":true") != std::string::npos;
      const char* name = op == 'U' ? "Update" : op == 'T' ? "Trim" : "Reset";
      if (op == 'U') {
        int64_t v = pool[h - 1].second;
        switch (step % 6) {   // integer overloads with the same canonical form for 0 <= v < 2^15
          case 0: s.update((uint64_t)v); break; case 1: s.update((int64_t)v); break; case 2: s.update((uint32_t)v); break;
          case 3: s.update((int32_t)v); break; case 4: s.update((uint16_t)v); break; default: s.update((int16_t)v); break;
        }
      } else if (op == 'T') s.trim(); else s.reset();
      Ev e(name); e.i("id", 0);
      if (op == 'U') e.h("hH", pool[h - 1].first);
      e.h("thetaH", s.get_theta64()).i("n", s.get_num_retained()).b("empty", s.is_empty()).i("lgCur", parse_lgcur(s))
       .h("xThetaH", emp ? MAXT : xtheta(th)).i("xN", n).b("xEmpty", emp).i("xLgCur", lg).emit();
      step++;
    }
    // final full observation (contract) - entries as iterated
    Ev("Obs").i("id", 0).raw("r", proj(s)).emit();
  }
  vt::close_out();
  fprintf(stderr, "theta_replay: %ld events from %zu behaviours\n", vt::g_events, files.size());
  return 0;
}
