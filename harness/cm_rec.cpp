// Recording driver for count_min_sketch<W> (C14) with serialization events (C09).
// Randomized histories on the real class from /repo; one ND-JSON event per public call.  Items are logged as small
// integers (index in the driver's universe; index % 3 selects the overload: int64_t, uint64_t, std::string / raw bytes).
// The cell array (begin()/end()) is logged losslessly on every event as the difference against the previous event on
// the same object.  For every sketch slot i the driver keeps a WITNESS sketch (id 10+i, another real object of the same
// configuration) that receives the same updates and, before a merge, the stream of the merged sketch, so that the
// contract can compare "merged" with "fed the concatenated stream".  Seeded exceedance statistics: "Stat" events.
#include <memory>
#include <sstream>
#include <algorithm>
#include <map>
#include <count_min.hpp>
#include "vtrace.hpp"
#include "refhash.hpp"

using namespace datasketches;
using vt::Ev;

typedef unsigned long long ull;
struct Row { long x; ull est, lb, ub; };
// wide profile (64-bit weights): numbers are logged as 4 little-endian limbs of 20 bits (spec/WideNum.tla), else as plain integers
static bool g_wide = false;
// observed value of weight type W as an unsigned integer; values that are not (anything a defect can produce: negative, NaN,
// beyond 64 bits) become a sentinel.  Outside the wide profile every logged integer stays below 2^31 (TLC): larger values - which
// the drivers never produce on purpose - are folded into [2e9, 2e9 + 1e6], so that they still disagree with the model
template<class W> static ull tou(W v) {
  if (std::is_floating_point<W>::value) { double x = (double)v; if (!(x >= 0) || x > 1.8e19) return 2000999999ULL; return (ull)x; }
  if (std::is_signed<W>::value && v < 0) return 2000999998ULL;
  return (ull)v;
}
static std::string num(ull v) {
  if (!g_wide) return std::to_string(v > 2000000000ULL ? 2000000000ULL + v % 999983ULL : v);
  std::string s = "[";
  for (int k = 0; k < 4; k++) { if (k) s += ","; s += std::to_string((ull)((v >> (20 * k)) & 0xfffffULL)); }
  return s + "]";
}
template<class C> static std::string numlist(const C& c) { std::string s = "["; bool f = true; for (auto v : c) { if (!f) s += ","; f = false; s += num((ull)v); } return s + "]"; }

// REFERENCE 16-bit seed hash (published definition, common/include/MurmurHash3.h: low 16 bits of h1 of MurmurHash3_x64_128 of
// the 8 seed bytes with seed 0), used only to MINE pairs of different seeds whose seed hashes collide: such sketches are
// incompatible (different row hash functions) although every 16-bit summary of the seed agrees.
static uint16_t ref_seed_hash(uint64_t seed) { return (uint16_t)(refhash::murmur3_x64_128(&seed, sizeof seed, 0).h1 & 0xffff); }
static long colliding_seed(long seed) {
  static std::map<long, long> cache;
  auto it = cache.find(seed); if (it != cache.end()) return it->second;
  uint16_t h = ref_seed_hash((uint64_t)seed);
  for (long t = 1; t < 2000000000L; t++) if (t != seed && ref_seed_hash((uint64_t)t) == h) return cache[seed] = t;
  return cache[seed] = seed + 1;
}
static std::string rows_json(const std::vector<Row>& r) {
  std::string s = "[";
  for (size_t k = 0; k < r.size(); k++) {
    if (k) s += ",";
    s += "[" + std::to_string(r[k].x) + "," + num(r[k].est) + "," + num(r[k].lb) + "," + num(r[k].ub) + "]";
  }
  return s + "]";
}
static int64_t ival(long idx) { return (int64_t)idx * 7919 - 5; }
static uint64_t uval(long idx) { return 0x8000000000000000ULL + (uint64_t)idx * 104729ULL; }
// string items: text, and binary keys with NUL bytes at the start, in the middle and at the end (the item is the WHOLE std::string)
static std::string sval(long idx) {
  std::string d = std::to_string(idx);
  switch ((idx / 3) % 6) {
    case 0: return "cm-item-" + d;
    case 1: return "cm-item-" + d + "-with-a-longer-tail-than-sixteen-bytes";
    case 2: return std::string("cm\0item-", 8) + d;                       // NUL in the middle (same prefix "cm" for all of them)
    case 3: return std::string("\0lead-", 6) + d;                         // NUL first
    case 4: return "trail-" + d + std::string("\0", 1);                   // NUL last
    default: { uint64_t v = (uint64_t)idx << 24; return std::string((const char*)&v, 8) + d; }   // binary key: three leading NUL bytes
  }
}

template<class W> struct Driver {
  using Sk = count_min_sketch<W>;
  static const int NS = 3, NB = 3;
  // ids: 0..NS-1 sketches, 10+i their witnesses, 20+b witness snapshots taken when blob b was written
  vt::Rng& g; int serde_pct;
  std::map<int, std::unique_ptr<Sk>> sk;
  std::map<int, std::vector<ull>> prev;
  std::map<int, std::vector<std::pair<long, ull>>> stream;
  std::map<int, bool> restored;
  struct Cfg { int rows; long buckets; long seed; bool operator==(const Cfg& o) const { return rows == o.rows && buckets == o.buckets && seed == o.seed; } };
  std::map<int, Cfg> cfg;
  std::vector<uint8_t> blob[NB]; bool blive[NB]; int bsrc[NB]; long bver[NB]; Cfg bcfg[NB];
  std::map<int, long> ver;
  long U = 0; std::vector<double> cdf; int profile = 0;
  int twin_a = -1, twin_b = -1; long twin_left = 0;
  static constexpr size_t STREAM_CAP = 5000;

  Driver(vt::Rng& g_, int sp): g(g_), serde_pct(sp) {}
  static const char* wname() {
    return std::is_floating_point<W>::value ? (sizeof(W) == 4 ? "f32" : "f64")
         : sizeof(W) == 4 ? (std::is_signed<W>::value ? "i32" : "u32") : (std::is_signed<W>::value ? "i64" : "u64");
  }

  void upd(Sk& s, long x, ull w, bool raw) {
    switch (x % 3) {
      case 0: { int64_t v = ival(x); if (raw) s.update(&v, sizeof v, (W)w); else s.update(v, (W)w); break; }
      case 1: { uint64_t v = uval(x); if (raw) s.update(&v, sizeof v, (W)w); else s.update(v, (W)w); break; }
      default: { std::string v = sval(x); if (raw) s.update(v.data(), v.size(), (W)w); else s.update(v, (W)w); }
    }
  }
  Row query(const Sk& s, long x, bool raw) {
    switch (x % 3) {
      case 0: { int64_t v = ival(x); return raw ? Row{x, tou(s.get_estimate(&v, 8)), tou(s.get_lower_bound(&v, 8)), tou(s.get_upper_bound(&v, 8))}
                                                 : Row{x, tou(s.get_estimate(v)), tou(s.get_lower_bound(v)), tou(s.get_upper_bound(v))}; }
      case 1: { uint64_t v = uval(x); return raw ? Row{x, tou(s.get_estimate(&v, 8)), tou(s.get_lower_bound(&v, 8)), tou(s.get_upper_bound(&v, 8))}
                                                  : Row{x, tou(s.get_estimate(v)), tou(s.get_lower_bound(v)), tou(s.get_upper_bound(v))}; }
      default: { std::string v = sval(x); return raw ? Row{x, tou(s.get_estimate(v.data(), v.size())), tou(s.get_lower_bound(v.data(), v.size())), tou(s.get_upper_bound(v.data(), v.size()))}
                                                     : Row{x, tou(s.get_estimate(v)), tou(s.get_lower_bound(v)), tou(s.get_upper_bound(v))}; }
    }
  }
  std::vector<ull> cells(const Sk& s) { std::vector<ull> c; for (auto it = s.begin(); it != s.end(); ++it) c.push_back(tou(*it)); return c; }
  // new cell array against the previous event on this object: a short difference "d", or the whole array "cells"
  Ev& delta(Ev& e, int id) {
    auto cur = cells(*sk[id]); auto& p = prev[id];
    if (p.size() != cur.size()) p.assign(cur.size(), 0);
    size_t nch = 0; for (size_t k = 0; k < cur.size(); k++) if (cur[k] != p[k]) nch++;
    if (nch > 48) e.raw("cells", numlist(cur));
    else {
      std::string s = "["; bool first = true;
      for (size_t k = 0; k < cur.size(); k++) if (cur[k] != p[k]) { if (!first) s += ","; first = false; s += "[" + std::to_string(k + 1) + "," + num(cur[k]) + "]"; }
      e.raw("d", s + "]");
    }
    p = cur; return e;
  }
  Ev& scal(Ev& e, int id) {
    const Sk& s = *sk[id];
    e.raw("total", num(tou(s.get_total_weight()))).i("rows", s.get_num_hashes()).i("buckets", s.get_num_buckets()).i("seed", (long long)s.get_seed());
    if (restored[id]) e.b("restored", true);
    return e;
  }
  void mk(int id, const Cfg& c) {
    sk[id].reset(new Sk((uint8_t)c.rows, (uint32_t)c.buckets, (uint64_t)c.seed));
    cfg[id] = c; prev[id].assign((size_t)c.rows * c.buckets, 0); stream[id].clear(); restored[id] = false; ver[id]++;
    auto cs = cells(*sk[id]); bool z = cs.size() == (size_t)c.rows * c.buckets; for (auto v : cs) z = z && v == 0;
    Ev e("New"); e.i("id", id).str("wt", wname()); scal(e, id).b("allzero", z).emit();
  }
  void mkpair(int i, const Cfg& c) { mk(i, c); mk(10 + i, c); }
  void do_update(int id, long x, ull w, bool raw) {
    upd(*sk[id], x, w, raw); ver[id]++; stream[id].emplace_back(x, w);
    Ev e("Update"); e.i("id", id).i("x", x).raw("w", num(w)).b("raw", raw); delta(scal(e, id), id).emit();
  }
  long first_probe = -1;      // when set: the first item queried by the next probe list
  // the answers for ONE item (estimate, lower bound, upper bound - in that order) and nothing else: used right before and right
  // after a mutator, so that the same item is the last query before and the first query after it
  void single_obs(int id, long x) {
    std::vector<Row> q; q.push_back(query(*sk[id], x, false));
    Ev e("Obs"); e.i("id", id); scal(e, id).raw("q", rows_json(q)).emit();
  }
  // query - mutate - same query again, no other call on the object in between; the mutator is an update of the same item, of
  // another item, with weight zero, or a merge
  void qmq(int i, int kind) {
    long x = draw_item();
    single_obs(i, x);
    if (kind == 3) {
      int j = -1; for (int c = 0; c < NS; c++) if (c != i && sk.count(c) && cfg[c] == cfg[i] && c != twin_b) j = c;
      if (j >= 0 && stream[i].size() + stream[j].size() <= STREAM_CAP && !(wide && total_of(i) + total_of(j) > WIDE_CAP)) { first_probe = x; do_merge(i, j); first_probe = -1; }
      else kind = 0;
    }
    if (kind != 3) {
      long y = kind == 1 ? draw_item() : x; ull w = kind == 2 ? 0 : draw_weight();
      if (wide && total_of(i) + w > WIDE_CAP / 2) w = 1;
      if (stream[i].size() < STREAM_CAP) do_update(i, y, w, false);
      single_obs(i, x);
      if (stream[10 + i].size() < STREAM_CAP) do_update(10 + i, y, w, false);
      return;
    }
    single_obs(i, x);
  }
  std::vector<long> probe_items() {
    std::vector<long> p;
    if (U <= 40) for (long x = 1; x <= U; x++) p.push_back(x);
    else for (int k = 0; k < 40; k++) p.push_back(g.range(1, U));
    for (long x = U + 1; x <= U + 3; x++) p.push_back(x);     // never offered
    std::sort(p.begin(), p.end()); p.erase(std::unique(p.begin(), p.end()), p.end());
    if (first_probe > 0) p.insert(p.begin(), first_probe);
    return p;
  }
  std::string probes(const Sk& s, const std::vector<long>& items, bool raw) {
    std::vector<Row> q; for (long x : items) q.push_back(query(s, x, raw)); return rows_json(q);
  }
  void obs(int id) {
    Ev e("Obs"); e.i("id", id); scal(e, id).raw("q", probes(*sk[id], probe_items(), g.chance(25)));
    auto c = cells(*sk[id]);
    if (c.size() <= 400 || g.chance(25)) e.raw("cells", numlist(c));
    e.emit();
  }
  // i.merge(j) for sketch slots; j may be i (self merge) or of another configuration (must throw)
  void do_merge(int i, int j) {
    bool compatible = i != j && cfg[i] == cfg[j];
    if (compatible) {
      if (stream[i].size() + stream[j].size() > STREAM_CAP) return;
      if (wide && total_of(i) + total_of(j) > WIDE_CAP) return;
      for (auto& u : stream[j]) do_update(10 + i, u.first, u.second, false);      // the witness is fed the concatenation
    }
    std::string outcome = "ok", what;
    try { sk[i]->merge(*sk[j]); } catch (const std::exception& ex) { outcome = "throw"; what = ex.what(); }
    ver[i]++;
    if (outcome == "ok") stream[i].insert(stream[i].end(), stream[j].begin(), stream[j].end());
    Ev e("Merge"); e.i("dst", i).i("src", j).str("outcome", outcome).i("wit", 10 + i);
    delta(scal(e, i), i);
    if (outcome == "ok") { auto it = probe_items(); e.raw("q", probes(*sk[i], it, false)).raw("qw", probes(*sk[10 + i], it, false)); }
    e.emit();
  }
  // value semantics between sketches of ANY two configurations: copy / move construction and copy / move ASSIGNMENT over an
  // existing target (same or different shape, seed, cell count); both sides are used on afterwards
  void copy(int src, int dst, int how = -1) {
    if (how < 0) how = (int)g.below(4);
    if (!sk.count(dst) || !sk[dst]) how = how % 2 == 0 ? 0 : 2;
    static const char* HOW[] = {"ctor", "assign", "move-ctor", "move-assign"};
    switch (how) {
      case 0: sk[dst].reset(new Sk(*sk[src])); break;
      case 1: *sk[dst] = *sk[src]; break;
      case 2: { Sk tmp(*sk[src]); sk[dst].reset(new Sk(std::move(tmp))); break; }
      default: { Sk tmp(*sk[src]); *sk[dst] = std::move(tmp); }
    }
    copy_how = HOW[how];
    cfg[dst] = cfg[src]; prev[dst] = prev[src]; stream[dst] = stream[src]; restored[dst] = restored[src]; ver[dst]++;
    Ev e("Copy"); e.i("src", src).i("dst", dst).str("how", copy_how); scal(e, dst).raw("cells", numlist(cells(*sk[dst]))).emit();
  }
  const char* copy_how = "ctor";
  void ser(int i, int b) {
    static const unsigned HS[] = {0, 0, 1, 7, 8, 13, 64};
    unsigned hdr = HS[g.below(7)];
    auto bytes = sk[i]->serialize(hdr); auto bytes0 = sk[i]->serialize();
    std::ostringstream os; sk[i]->serialize(os); std::string st = os.str();
    blob[b].assign(bytes.begin() + hdr, bytes.end()); blive[b] = true; bsrc[b] = i; bver[b] = ver[i]; bcfg[b] = cfg[i];
    Ev e("Ser"); e.i("src", i).i("blob", b).i("hdr", hdr).i("tot", (long long)bytes.size()).i("size", (long long)blob[b].size())
      .i("adv", (long long)sk[i]->get_serialized_size_bytes()).bytes("img", blob[b].data(), blob[b].size()).bytes("img0", bytes0.data(), bytes0.size())
      .bytes("simg", st.data(), st.size());
    if (restored[i]) e.b("restored", true);
    e.emit();
    copy(10 + i, 20 + b);      // snapshot of the witness, for the sketch later restored from this image
  }
  void deser(int b, int j, int path = -1) {      // path: 0 bytes, 1 stream, -1 drawn
    bool strm = path < 0 ? g.chance(50) : path == 1; long long consumed; uint64_t seed = (uint64_t)bcfg[b].seed;
    if (strm) {
      std::string in((const char*)blob[b].data(), blob[b].size()); in += std::string(16, '\x5a');
      std::istringstream is(in);
      sk[j].reset(new Sk(Sk::deserialize(is, seed)));
      consumed = (long long)is.tellg();
    } else {
      sk[j].reset(new Sk(Sk::deserialize(blob[b].data(), blob[b].size(), seed)));
      consumed = (long long)blob[b].size();
    }
    auto re = sk[j]->serialize();
    cfg[j] = bcfg[b]; restored[j] = true; ver[j]++; stream[j] = stream[20 + b]; prev[j] = cells(*sk[j]);
    Ev e("Deser"); e.i("blob", b).i("dst", j).str("path", strm ? "stream" : "bytes").i("consumed", consumed).bytes("reimg", re.data(), re.size());
    scal(e, j).raw("cells", numlist(prev[j])).raw("q", probes(*sk[j], probe_items(), false)).emit();
    copy(20 + b, 10 + j);      // its witness continues from the snapshot
  }
  long draw_item() {
    if (profile == 1) return g.range(1, U);
    double u = g.unit(); return 1 + (long)(std::lower_bound(cdf.begin(), cdf.end(), u) - cdf.begin());
  }
  bool wide = false;
  // wide profile: totals cross 2^53 (where a double stops representing every integer) and stay below 2^62
  static constexpr ull WIDE_CAP = 1ULL << 62;
  ull total_of(int id) { return tou(sk[id]->get_total_weight()); }
  ull draw_weight() {
    int c = (int)g.below(100);
    if (wide) {
      if (c < 4) return 0;
      if (c < 12) return (1ULL << 53) + g.below(2000);                                   // just above 2^53
      if (c < 30) return ((1ULL << g.range(50, 59)) | (g.next() & ((1ULL << 50) - 1)));  // 2^50 .. 2^60 with random low bits
      if (c < 70) return 1;
      return (ull)g.range(1, 1000);
    }
    if (c < 4) return 0; if (c < 60) return 1; if (c < 90) return g.range(1, 10); return g.range(1, 1000);     // 5000 updates: < 2^23
  }
  // another shape with the same number of cells (rows' x buckets' = rows x buckets): must be refused like any other shape
  Cfg equal_area(const Cfg& a) {
    long cells = a.rows * a.buckets;
    for (int k = 0; k < 40; k++) { long r = g.range(1, 64); if (r != a.rows && cells % r == 0 && cells / r >= 3) { Cfg b = a; b.rows = (int)r; b.buckets = cells / r; return b; } }
    for (long r = 1; r <= 255; r++) if (r != a.rows && cells % r == 0 && cells / r >= 3) { Cfg b = a; b.rows = (int)r; b.buckets = cells / r; return b; }
    Cfg b = a; b.buckets = a.buckets + 1; return b;
  }
  Cfg draw_cfg(int maxrows) {
    static const long BS[] = {3, 3, 4, 5, 7, 8, 16, 31, 64, 100, 257};
    static const long SEEDS[] = {9001, 9001, 1, 2, 12345, 2147483000};
    Cfg c; c.rows = (int)std::min(g.range(1, maxrows), g.range(1, maxrows)); c.buckets = BS[g.below(11)]; c.seed = SEEDS[g.below(6)];
    return c;
  }
  void segment(long seg, long events, int maxrows, bool wide_ = false) {
    wide = wide_; g_wide = wide_;
    Ev("Begin").i("seg", seg).str("wt", wname()).b("wide", wide).emit();
    sk.clear(); prev.clear(); stream.clear(); restored.clear(); cfg.clear(); ver.clear();
    for (int b = 0; b < NB; b++) blive[b] = false;
    twin_a = twin_b = -1; twin_left = 0;
    profile = (int)g.below(2);
    static const long US[] = {6, 20, 40, 60, 200};
    U = US[g.below(5)];
    double sexp = 0.8 + 0.3 * g.below(3); cdf.assign(U, 0); double z = 0;
    for (long k = 1; k <= U; k++) { z += 1.0 / std::pow((double)k, sexp); cdf[k - 1] = z; }
    for (auto& c : cdf) c /= z;
    Cfg A = draw_cfg(maxrows), B = A;
    if (seg % 7 == 3) { A.rows = 255; A.buckets = 3; B = A; }         // the widest row count the type allows
    switch (g.below(8)) {
      case 6: case 7: B = equal_area(A); break;
      case 0: B.seed = A.seed == 1 ? 2 : 1; break;
      case 1: B.rows = A.rows % 8 + 1; break;
      case 2: B.buckets = A.buckets + 1; break;
      case 3: case 4: B.seed = colliding_seed(A.seed); break;     // same shape, different seed, equal 16-bit seed hash
      default: B = draw_cfg(maxrows);
    }
    mkpair(0, A); mkpair(1, A); mkpair(2, g.chance(60) ? B : A);
    for (long n = 0; n < events; n++) {
      int i = (int)g.below(NS);
      if (twin_left > 0) i = twin_a;
      int op = (int)g.below(100);
      int upd = 100 - 16 - 2 * serde_pct;
      if (op < upd && g.chance(6) && twin_left == 0) {
        qmq(i, (int)g.below(4));
      } else if (op < upd) {
        long x = draw_item(); ull w = draw_weight(); bool raw = g.chance(20);
        if (stream[i].size() >= STREAM_CAP) continue;
        if (wide && total_of(i) + w > WIDE_CAP / 2) { w = 1; if (total_of(i) + w > WIDE_CAP / 2) continue; }
        do_update(i, x, w, raw); do_update(10 + i, x, w, false);
        if (twin_left > 0) { do_update(twin_b, x, w, raw); do_update(10 + twin_b, x, w, false); twin_obs(); }
      } else if (op < upd + 6) {
        obs(i); if (g.chance(30)) obs(10 + i);
        if (twin_left > 0) obs(twin_b);
      } else if (op < upd + 13) {
        int j = (int)g.below(NS); if (g.chance(12)) j = i;
        if (twin_left > 0) { if (j != twin_b && j != i && cfg[i] == cfg[j]) { do_merge(i, j); do_merge(twin_b, j); twin_obs(); } }
        else do_merge(i, j);
      } else if (op < upd + 15) {
        int j = (int)g.below(NS);
        if (j != i && twin_left == 0) { copy(i, j); copy(10 + i, 10 + j); }
      } else if (op < upd + 16) {
        if (twin_left == 0 && g.chance(50)) mkpair(i, g.chance(50) ? A : B);
      } else if (op < upd + 16 + serde_pct) {
        ser(i, (int)g.below(NB));
      } else {
        int b = (int)g.below(NB);
        if (twin_left == 0) {
          int j = (int)g.below(NS); int src = blive[b] ? bsrc[b] : -1;
          bool fresh = src >= 0 && bver[b] == ver[src] && j != src;
          if (!fresh && g.chance(60)) { ser(i, b); src = i; fresh = (j != i); }
          if (blive[b]) { deser(b, j); if (fresh) { twin_a = src; twin_b = j; twin_left = g.range(8, 30); twin_obs(); } }
        }
      }
      if (twin_left > 0 && --twin_left == 0) twin_a = twin_b = -1;
    }
    for (int i = 0; i < NS; i++) { obs(i); obs(10 + i); }
  }
  // DIRECTED (present in every run): restore-then-continue at the edge states.  For every edge state - never updated; only
  // zero-weight updates (still "empty": total weight 0); exactly one item - and both restore paths (bytes, stream): serialize,
  // restore, continue original and restored in lock-step with the same updates and merges (each with its own witness), and use
  // the restored sketch as a merge operand.
  void edge_segment(long seg) {
    Ev("Begin").i("seg", seg).str("wt", wname()).b("edge", true).emit();
    sk.clear(); prev.clear(); stream.clear(); restored.clear(); cfg.clear(); ver.clear();
    for (int b = 0; b < NB; b++) blive[b] = false;
    twin_a = twin_b = -1; twin_left = 0; profile = 1; U = 30;
    for (int state = 0; state < 3; state++) for (int path = 0; path < 2; path++) {
      Cfg A = draw_cfg(6);
      mkpair(0, A); mkpair(1, A); mkpair(2, A);
      auto both = [&](int i, long x, ull w, bool raw) { do_update(i, x, w, raw); do_update(10 + i, x, w, false); };
      if (state == 1) { both(0, g.range(1, U), 0, false); both(0, g.range(1, U), 0, true); }
      if (state == 2) both(0, g.range(1, U), g.chance(50) ? 1 : (ull)g.range(1, 1000), g.chance(50));
      obs(0);
      int b = (int)g.below(NB);
      ser(0, b); deser(b, 1, path);
      twin_a = 0; twin_b = 1; twin_obs(); obs(1);
      for (int k = 0; k < 6; k++) both(2, g.range(1, U), (ull)g.range(1, 20), false);
      for (int k = 0; k < 24; k++) {
        if (k == 4 || k == 15) {       // same item queried last before and first after the merge, on original and restored
          long x = g.range(1, U); single_obs(0, x); first_probe = x; do_merge(0, 2); single_obs(0, x);
          single_obs(1, x); do_merge(1, 2); single_obs(1, x); first_probe = -1; twin_obs(); continue;
        }
        if (k % 5 == 1) {              // query - update - same query, same item, on original and restored
          long x = g.range(1, U); ull w = (ull)g.range(1, 9);
          single_obs(0, x); do_update(0, x, w, false); single_obs(0, x); do_update(10, x, w, false);
          single_obs(1, x); do_update(1, x, w, false); single_obs(1, x); do_update(11, x, w, false); twin_obs(); continue;
        }
        if (k == 9) { ser(1, (b + 1) % NB); obs(0); obs(1); continue; }
        long x = g.range(1, U); ull w = g.chance(5) ? 0 : (ull)g.range(1, 9); bool raw = g.chance(30);
        both(0, x, w, raw); both(1, x, w, raw); twin_obs();
      }
      obs(0); obs(1);
      twin_a = twin_b = -1;
      do_merge(2, 1); obs(2); obs(12);          // the restored sketch as a merge operand
    }
    // DIRECTED refusals: every kind of incompatible pair, in both directions, and a self merge; the call must throw, the target
    // must be unchanged (cells, total, and the answers for an item queried right before), and stay usable
    Cfg A; A.rows = 4; A.buckets = 6; A.seed = 9001;
    if (g.chance(50)) { A.rows = (int)g.range(2, 6); A.buckets = (long)g.range(2, 6) * 2; }
    std::vector<Cfg> others;
    { Cfg b = A; b.rows = (int)A.buckets; b.buckets = A.rows; if (b.buckets >= 3 && b.rows != A.rows) others.push_back(b); }   // transposed: same cell count
    others.push_back(equal_area(A));
    { Cfg b = A; b.seed = colliding_seed(A.seed); others.push_back(b); }
    { Cfg b = A; b.seed = A.seed + 1; others.push_back(b); }
    { Cfg b = A; b.rows = A.rows + 1; others.push_back(b); }
    { Cfg b = A; b.buckets = A.buckets + 1; others.push_back(b); }
    for (auto& B : others) {
      mkpair(0, A); mkpair(2, B);
      auto both = [&](int i, long x, ull w) { do_update(i, x, w, false); do_update(10 + i, x, w, false); };
      for (int k = 0; k < 8; k++) { both(0, g.range(1, U), (ull)g.range(1, 20)); both(2, g.range(1, U), (ull)g.range(1, 20)); }
      long x = g.range(1, U);
      single_obs(0, x); do_merge(0, 2); single_obs(0, x);
      single_obs(2, x); do_merge(2, 0); single_obs(2, x);
      single_obs(0, x); do_merge(0, 0); single_obs(0, x);
      both(0, x, 3); both(2, x, 5); obs(0); obs(2);
      // assignment over a target of the OTHER configuration (copy, then move), sketch and witness alike; then estimates of the
      // existing items, further updates on both sides, and a merge (now compatible) compared with the witness
      int how = 1 + 2 * (int)g.below(2);
      copy(2, 0, how); copy(12, 10, how);
      obs(0);
      for (int k = 0; k < 6; k++) { both(0, g.range(1, U), (ull)g.range(1, 20)); both(2, g.range(1, U), (ull)g.range(1, 20)); }
      obs(0); obs(2);
      long y = g.range(1, U); single_obs(0, y); first_probe = y; do_merge(0, 2); first_probe = -1; single_obs(0, y);
      do_merge(2, 0); obs(0); obs(2);
    }
  }
  void twin_obs() { Ev("TwinObs").i("a", twin_a).i("b", twin_b).b("restored", true).emit(); }

  // exceedance statistics: S sketches with different seeds fed the same skewed stream, m offered items queried in each
  void stat(long trial, int rows, long buckets) {
    Ev("Begin").i("seg", 1000 + trial).str("wt", wname()).emit();
    const long S = 2000, m = 5, NU = 120, NUPD = 300;
    std::vector<double> c(NU); double z = 0;
    double sexp = 1.0 + 0.25 * g.below(3);
    for (long k = 1; k <= NU; k++) { z += 1.0 / std::pow((double)k, sexp); c[k - 1] = z; }
    for (auto& v : c) v /= z;
    std::vector<std::pair<long, long>> st; std::map<long, long long> truth; long long N = 0;
    for (long n = 0; n < NUPD; n++) {
      long x = 1 + (long)(std::lower_bound(c.begin(), c.end(), g.unit()) - c.begin()); long w = g.range(1, 10);
      st.emplace_back(x, w); truth[x] += w; N += w;
    }
    std::vector<long> offered; for (auto& kv : truth) offered.push_back(kv.first);
    std::vector<long long> over; long long thr = -1;
    for (long s = 0; s < S; s++) {
      Sk sketch((uint8_t)rows, (uint32_t)buckets, (uint64_t)(1000003 * (trial + 1) + 7919 * s + (long)g.below(1000)));
      for (auto& u : st) upd(sketch, u.first, u.second, false);
      thr = (long long)std::floor(sketch.get_relative_error() * (double)sketch.get_total_weight());
      for (long k = 0; k < m; k++) { long x = offered[g.below(offered.size())]; over.push_back(query(sketch, x, false).est - truth[x]); }
    }
    Ev("Stat").i("rows", rows).i("buckets", buckets).i("S", S).i("m", m).i("total", N).i("thr", thr).il("over", over).emit();
  }
  // exceedance statistics for few buckets and many rows (rows > 2 ln buckets), where only INDEPENDENT rows reach the
  // configured confidence: S sketches with different seeds, each fed one or two heavy hitters (each above relative_error
  // * total) and 100 light items; one random light item is queried per sketch (independent trials)
  void hstat(long trial, int rows, long buckets) {
    Ev("Begin").i("seg", 2000 + trial).str("wt", wname()).emit();
    const long S = 20000, m = 1, NL = 100;
    int nheavy = buckets >= 10 ? 2 : 1;
    std::vector<std::pair<long, long>> st; std::map<long, long long> truth; long long L = 0;
    for (long x = 1; x <= NL; x++) { long w = g.range(1, 3); st.emplace_back(x, w); truth[x] += w; L += w; }
    // weight shares: 75 % (buckets <= 4: e/4 = 68 %), 60 % (buckets 5..9: e/5 = 54 %), 35 % + 35 % (buckets >= 10: e/10 = 27 %)
    long long hw = nheavy == 2 ? (7 * L) / 6 : buckets <= 4 ? 3 * L : (3 * L) / 2;
    for (int k = 0; k < nheavy; k++) { long x = NL + 1 + k; st.insert(st.begin() + (long)g.below(st.size()), std::make_pair(x, (long)hw)); truth[x] += hw; }
    long long N = L + nheavy * hw;
    std::vector<long long> over; long long thr = -1;
    for (long s = 0; s < S; s++) {
      Sk sketch((uint8_t)rows, (uint32_t)buckets, (uint64_t)(900007 * (trial + 1) + 15485863ULL * (uint64_t)s + g.below(1000)));
      for (auto& u : st) upd(sketch, u.first, u.second, false);
      thr = (long long)std::floor(sketch.get_relative_error() * (double)sketch.get_total_weight());
      long x = g.range(1, NL);
      over.push_back(query(sketch, x, false).est - truth[x]);
    }
    Ev("Stat").i("rows", rows).i("buckets", buckets).i("S", S).i("m", m).i("total", N).i("thr", thr).i("heavy", nheavy).il("over", over).emit();
  }
};

// every weight type the template is documented for (arithmetic W), by turns
template<class F> static void with_types(uint64_t k, vt::Rng& g, int sp, F f) {
  switch (k % 6) {
    case 0: { Driver<uint64_t> d(g, sp); f(d); break; }
    case 1: { Driver<int64_t> d(g, sp); f(d); break; }
    case 2: { Driver<float> d(g, sp); f(d); break; }
    case 3: { Driver<uint32_t> d(g, sp); f(d); break; }
    case 4: { Driver<double> d(g, sp); f(d); break; }
    default: { Driver<int32_t> d(g, sp); f(d); }
  }
}

int main(int argc, char** argv) {
  vt::install_terminate();
  uint64_t seed = (uint64_t)vt::argl(argc, argv, "--seed", 1);
  long segments = vt::argl(argc, argv, "--segments", 6);
  long events = vt::argl(argc, argv, "--events", 300);
  int maxrows = (int)vt::argl(argc, argv, "--maxrows", 8);
  int serde_pct = (int)vt::argl(argc, argv, "--serde", 3);
  long stats = vt::argl(argc, argv, "--stats", 2);
  long hstats = vt::argl(argc, argv, "--hstats", 2);
  long wide = vt::argl(argc, argv, "--wide", 0);      // 1: every segment uses 64-bit weights, numbers logged as limbs (TraceCountMinW.cfg)
  vt::open_out(vt::arg(argc, argv, "--out", "/dev/stdout"));
  vt::Rng g(seed);
  if (wide == 0 && vt::argl(argc, argv, "--edge", 1)) {      // own generator: the random segments keep their streams
    vt::Rng ge(seed ^ 0xED6EULL);
    with_types(seed + 2, ge, serde_pct, [&](auto& d) { d.edge_segment(900); });
  }
  for (long seg = 0; seg < segments; seg++) {
    if (wide) {
      if ((seg + seed) % 2 == 0) { Driver<uint64_t> d(g, serde_pct); d.segment(seg, events, maxrows, true); }
      else { Driver<int64_t> d(g, serde_pct); d.segment(seg, events, maxrows, true); }
    } else with_types((uint64_t)seg + seed, g, serde_pct, [&](auto& d) { d.segment(seg, events, maxrows, false); });
    g_wide = false;
  }
  static const long BK[] = {6, 8, 12, 16, 20, 32};
  for (long t = 0; t < stats; t++) {
    Driver<uint64_t> d(g, serde_pct);
    d.stat(t + (long)seed * 10, (int)g.range(1, 5), BK[g.below(6)]);
  }
  // shapes with rows > 2 ln buckets (few buckets, many rows)
  static const int SH[][2] = {{6, 6}, {8, 8}, {7, 6}, {8, 10}, {6, 7}, {7, 8}, {8, 6}, {8, 12}, {5, 6}, {7, 10}, {6, 8}, {8, 7}};
  // bucket counts dividing 2^64: the regime where dependent rows (one hash combined linearly per row) are plainest
  static const int P2[][2] = {{6, 4}, {8, 8}, {6, 8}, {7, 8}, {5, 4}, {8, 4}, {7, 4}, {5, 8}};
  for (long t = 0; t < hstats; t++) {
    Driver<uint64_t> d(g, serde_pct);
    const int* sh = (t % 2 == 0) ? P2[(seed + (uint64_t)t / 2) % 8] : SH[(seed * 2 + (uint64_t)t) % 12];
    d.hstat(t + (long)seed * 10, sh[0], sh[1]);
  }
  vt::close_out();
  fprintf(stderr, "cm_rec: %ld events\n", vt::g_events);
  return 0;
}
