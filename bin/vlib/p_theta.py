"""C01 - update Theta sketch."""
import os, re, shutil
from . import core
from .props import prop, job, mc_all, Q, T

def theta_nontrivial(evs):
    # a segment is non-trivial if theta was lowered by an update (a rebuild happened) at least once
    last = {}
    for e in evs:
        if e["e"] == "Update":
            if e["id"] in last and e["thetaH"] != last[e["id"]]:
                return True
            last[e["id"]] = e["thetaH"]
        elif e["e"] in ("New", "Reset", "Copy"):
            last.pop(e.get("id", e.get("dst")), None)
    return False

THETA_JOB = job("theta",
    harness="theta_rec", inc=["common", "theta"], spec="TraceTheta", owners=["C01"], serde=True,
    files={Q: 8, T: 48},
    args=lambda tier, seed, k, profile: ["--seed", seed, "--segments", 5 if tier == Q else 10, "--events", 700 + 150 * (k % 5),
                                         "--maxlgk", 9 if tier == Q else (13 if k % 4 == 0 else 10),
                                         "--serde", 15 if profile == "serde" else 4],
    nontrivial=theta_nontrivial,
)

GEN_DIR = os.path.join(core.BUILD, "gen_theta.%d" % os.getpid())   # one directory per run

def gen_theta(oc, tier, seed):
    """spec -> impl: TLC -simulate walks the Theta design model with the code's real minimum sizes (GenTheta.tla) and writes each
    finished walk, with the model's expected state after every step, for harness/theta_replay.cpp."""
    shutil.rmtree(GEN_DIR, ignore_errors=True)
    os.makedirs(GEN_DIR, exist_ok=True)
    n = 6 if tier == Q else 30
    rc, out, wall = core.tlc("GenTheta", "GenTheta.cfg", workers=4, timeout=900, heap="2g", env={"GEN_DIR": GEN_DIR},
                             simulate="num=%d" % n, extra=("-depth", "151", "-seed", str(seed)))
    r = core.parse_tlc(out)
    nb = len([f for f in os.listdir(GEN_DIR) if f.endswith(".ndjson")])
    if nb == 0 or r["parse_error"]:
        raise core.MachineryError("behaviour generation GenTheta produced nothing:\n" + out[-2000:])
    m = re.search(r"The number of states generated: (\d+)", out)
    oc.mc.append({"module": "GenTheta", "cfg": "GenTheta.cfg (-simulate)", "generated": int(m.group(1)) if m else 0, "distinct": nb * 151,
                  "depth": 151, "wall_s": round(wall, 1)})
    oc.extra["generated_behaviours"] = nb
    core.log("  generated %d behaviours of depth 150 with TLC -simulate in %.1fs" % (nb, wall))

THETA_REPLAY_JOB = job("theta_replay",
    harness="theta_replay", inc=["common", "theta"], spec="TraceTheta", owners=["C01"], drift_cfg="TraceThetaB.cfg",
    files={Q: 2, T: 4},
    args=lambda tier, seed, k, profile: ["--dir", GEN_DIR, "--part", k, "--parts", 2 if tier == Q else 4],
    nontrivial=theta_nontrivial,
)

THETA_MC = [
    dict(module="ThetaDesign", cfg="MC_ThetaDesign.cfg"),
    dict(module="ThetaDesign", cfg="MC_ThetaDesign_rf0.cfg"),
    dict(module="ThetaDesign", cfg="MC_ThetaDesign_p.cfg"),
    dict(module="MC_Theta", cfg="MC_Theta.cfg"),
]

@prop("C01", "model_checking",
      "MC: exhaustive TLC runs of the Theta design model refining the contract, and of the multi-object contract itself; "
      "traces: randomized histories of the real update_theta_sketch (all 12 input overloads, p, resize factors, seeds, trim/reset/copy/compact/serde), "
      "every event validated by TLC against the contract with REFERENCE MurmurHash3 hashes; a segment (Begin..next Begin) is non-trivial when theta "
      "was lowered by at least one update (a rebuild happened); distinct = distinct segment content hash",
      ["harness/refhash.hpp is the published MurmurHash3_x64_128 (self-checked on published vectors at start-up)",
       "traces cover lg_k 5..9 (quick) / 5..13 (thorough); larger configurations only through the parametric model",
       "TLC 32-bit ints: 63-bit hashes are renamed order-isomorphically (bin/vlib/munge.py); the contract uses only order/equality on them"])
def run_c01(oc, repo, seed, tier):
    mc_all(oc, THETA_MC, tier)
    core.trace_job(oc, THETA_JOB, repo, seed, tier)
    gen_theta(oc, tier, seed)
    core.trace_job(oc, THETA_REPLAY_JOB, repo, seed, tier)
    shutil.rmtree(GEN_DIR, ignore_errors=True)
