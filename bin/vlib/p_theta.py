"""C01 - update Theta sketch."""
from . import core
from .props import prop, job, mc_all, Q, T

def theta_nontrivial(evs):
    # a segment is non-trivial if theta was lowered by an update (a rebuild happened) at least once
    last = {}
    for e in evs:
        if e["e"] == "Update":
            if e["id"] in last and e["thetaH"] != last[e["id"]]:
                return True
            last[e["id"]] = e["thetaH"]
        elif e["e"] in ("New", "Reset", "Copy"):
            last.pop(e.get("id", e.get("dst")), None)
    return False

THETA_JOB = job("theta",
    harness="theta_rec", inc=["common", "theta"], spec="TraceTheta", owners=["C01"], serde=True,
    files={Q: 8, T: 48},
    args=lambda tier, seed, k, profile: ["--seed", seed, "--segments", 5 if tier == Q else 10, "--events", 700 + 150 * (k % 5),
                                         "--maxlgk", 9 if tier == Q else (13 if k % 4 == 0 else 10),
                                         "--serde", 15 if profile == "serde" else 4],
    nontrivial=theta_nontrivial,
)

THETA_MC = [
    dict(module="ThetaDesign", cfg="MC_ThetaDesign.cfg"),
    dict(module="ThetaDesign", cfg="MC_ThetaDesign_rf0.cfg"),
    dict(module="ThetaDesign", cfg="MC_ThetaDesign_p.cfg"),
    dict(module="MC_Theta", cfg="MC_Theta.cfg"),
]

@prop("C01", "model_checking",
      "MC: exhaustive TLC runs of the Theta design model refining the contract, and of the multi-object contract itself; "
      "traces: randomized histories of the real update_theta_sketch (all 12 input overloads, p, resize factors, seeds, trim/reset/copy/compact/serde), "
      "every event validated by TLC against the contract with REFERENCE MurmurHash3 hashes; a segment (Begin..next Begin) is non-trivial when theta "
      "was lowered by at least one update (a rebuild happened); distinct = distinct segment content hash",
      ["harness/refhash.hpp is the published MurmurHash3_x64_128 (self-checked on published vectors at start-up)",
       "traces cover lg_k 5..9 (quick) / 5..13 (thorough); larger configurations only through the parametric model",
       "TLC 32-bit ints: 63-bit hashes are renamed order-isomorphically (bin/vlib/munge.py); the contract uses only order/equality on them"])
def run_c01(oc, repo, seed, tier):
    mc_all(oc, THETA_MC, tier)
    core.trace_job(oc, THETA_JOB, repo, seed, tier)
