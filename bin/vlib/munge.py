"""Order-isomorphic renaming of wide values in a trace (DESIGN 4.1).

"H:<hex>"  64-bit unsigned, hash domain      -> dense rank 1.. by numeric value (per file)
"D:<hex>"  IEEE-754 double bit pattern        -> dense rank 1.. by numeric value (-0.0 == 0.0); NaN is the string "nan"
"B:<hex>"  opaque byte image                  -> index of first occurrence 1..
Every specification formula applied to such fields uses only =, <, <=, min, max, membership, cardinality,
which are invariant under the renaming.  All remaining integers must fit TLC's 32-bit ints.
"""
import json, struct, sys

def _walk(v, f):
    if isinstance(v, str):
        return f(v)
    if isinstance(v, list):
        return [_walk(x, f) for x in v]
    if isinstance(v, dict):
        return {k: _walk(x, f) for k, x in v.items()}
    if isinstance(v, int) and not isinstance(v, bool):
        if not (-2**31 < v < 2**31):
            raise ValueError("integer out of TLC range: %r" % v)
    return v

def _dval(tok):
    bits = int(tok[2:], 16)
    x = struct.unpack("<d", struct.pack("<Q", bits))[0]
    return 0.0 if x == 0 else x

def munge_lines(lines):
    events = [json.loads(l) for l in lines if l.strip()]
    hs, ds, bs = set(), set(), {}
    def collect(s):
        if s.startswith("H:"): hs.add(int(s[2:], 16))
        elif s.startswith("D:"): ds.add(_dval(s))
        elif s.startswith("B:"):
            if s not in bs: bs[s] = len(bs) + 1
        return s
    for e in events: _walk(e, collect)
    hrank = {v: i + 1 for i, v in enumerate(sorted(hs))}
    drank = {v: i + 1 for i, v in enumerate(sorted(ds))}
    def repl(s):
        if s.startswith("H:"): return hrank[int(s[2:], 16)]
        if s.startswith("D:"): return drank[_dval(s)]
        if s.startswith("B:"): return bs[s]
        return s
    return [_walk(e, repl) for e in events]

def munge_file(src, dst):
    with open(src) as f:
        out = munge_lines(f.readlines())
    with open(dst, "w") as f:
        for e in out:
            f.write(json.dumps(e, separators=(",", ":")) + "\n")
    return len(out)

if __name__ == "__main__":
    print(munge_file(sys.argv[1], sys.argv[2]))
