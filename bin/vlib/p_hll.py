"""C03 - HLL sketch content; C04 - HLL union.  Trace jobs hll / hllunion (contract + C06 clauses) and hll_serde (the same
traces with the C09 clauses enforced, serde-heavy profile)."""
from . import core
from .props import prop, job, mc_all, Q, T

def hll_nontrivial(evs):
    # non-trivial: a sketch that started in a coupon mode was promoted to HLL mode AND the segment went through something
    # beyond the plain list -> HLL path: the SET stage, or an HLL_4 sketch observed with a raised cur-min or aux exceptions
    mode = {}
    promoted = deep = False
    for e in evs:
        k = e["e"]
        if k == "New":
            mode[e["id"]] = e["mode"]
        elif k == "Update":
            for i, m in zip(e["ids"], e["m"]):
                if mode.get(i, m) != 2 and m == 2:
                    promoted = True
                if m == 1:
                    deep = True
                mode[i] = m
        elif k == "Obs":
            for r in e["objs"]:
                if r.get("curMin", 0) > 0 or r.get("auxN", 0) > 0:
                    deep = True
        if promoted and deep:
            return True
    return False

def _hll_args(tier, seed, k, profile):
    serde = 15 if profile == "serde" else 4
    if tier == Q:
        return ["--seed", seed, "--segments", 5, "--events", 900 + 200 * (k % 4), "--minlgk", 4,
                "--maxlgk", 12 if k % 4 == 0 else 10, "--serde", serde, "--hilo", 17, "--hihi", 18 if k % 2 else 19]
    return ["--seed", seed, "--segments", 6, "--events", 2500 + 500 * (k % 5), "--minlgk", 4,
            "--maxlgk", 14 if k % 6 == 0 else 12, "--serde", serde, "--hilo", 17, "--hihi", 21]

_HLL = dict(harness="hll_rec", inc=["common", "hll"], spec="TraceHll", args=_hll_args, nontrivial=hll_nontrivial, heap="4g")
HLL_JOB = job("hll", owners=["C03"], serde=False, cfg="TraceHll.cfg", files={Q: 5, T: 28}, **_HLL)
HLL_SERDE_JOB = job("hll_serde", owners=["C03"], serde=True, cfg="TraceHll_serde.cfg", files={Q: 8, T: 40}, **_HLL)
# tier B (MODEL-DRIFT): further files (other seeds) validated against the contract and then again with the design-level
# shadow state (spec/HllMech.tla with the code's thresholds) compared with the physical state of every sketch's own image
HLL_B_JOB = job("hll_b", owners=["C03"], serde=False, cfg="TraceHll.cfg", drift_cfg="TraceHllB.cfg", files={Q: 3, T: 12},
                **dict(_HLL, args=lambda tier, seed, k, profile: _hll_args(tier, seed + 500, k + 5, profile)))

HLL_MC = [
    dict(module="MC_HllDesign", cfg="MC_HllDesign.cfg", workers=1),
    dict(module="MC_HllDesign", cfg="MC_HllDesign_set.cfg", workers=1),
    dict(module="MC_HllDesign", cfg="MC_HllDesign_full.cfg", workers=1),
    dict(module="MC_Hll", cfg="MC_Hll.cfg"),
    dict(module="MC_Hll", cfg="MC_Hll_sparse.cfg"),
]

@prop("C03", "model_checking",
      "MC: exhaustive TLC runs of the HLL design model (list/set thresholds, HLL_4 nibble/cur-min/aux mechanism with cur-min shifts, "
      "6-bit packing, HLL_8, conversions, reset) checked to keep the contract's content for every history in the bounds, and of the "
      "multi-object contract itself; traces: randomized lock-step histories of real HLL_4/HLL_6/HLL_8/start_full_size sketches (12 typed "
      "update overloads, duplicates, high-value steering items, conversion copies, copies, resets, permuted re-feeds, serde round trips), "
      "every event validated by TLC against the contract with REFERENCE coupons; a segment (Begin..next Begin) is non-trivial when a "
      "sketch was promoted from a coupon mode to HLL mode and the segment also crossed the SET stage or showed an HLL_4 sketch with "
      "cur-min > 0 or aux exceptions; "
      "distinct = distinct segment content hash",
      ["harness/refhash.hpp is the published MurmurHash3_x64_128 (self-checked on published vectors at start-up); the coupon formula is the documented one",
       "registers / coupons are read from hll_sketch(s, HLL_8).serialize_updatable() following the documented image layout",
       "traces cover lg_k 4..12 (quick) / 4..14 (thorough); larger configurations only through the parametric model",
       "clauses named C09:... (serialization) are enforced by job hll_serde under C09, not by the C03 run"])
def run_c03(oc, repo, seed, tier):
    mc_all(oc, HLL_MC, tier)
    core.trace_job(oc, HLL_JOB, repo, seed, tier)
    core.trace_job(oc, HLL_B_JOB, repo, seed, tier)


# ---------------------------------------------------------------------------------------------------------------------
# C04 - hll_union
# ---------------------------------------------------------------------------------------------------------------------
def hllunion_nontrivial(evs):
    # non-trivial: a union received at least two non-empty inputs of which one was in HLL mode with an lg_k different
    # from lg_max_k (the gadget was down-sampled, or the input was folded)
    mode, lgk, empty, lgmax = {}, {}, {}, {}
    hits = {}
    for e in evs:
        k = e["e"]
        if k == "New":
            mode[e["id"]], lgk[e["id"]], empty[e["id"]] = e["mode"], e["lgk"], True
        elif k == "Feed":
            mode[e["id"]], empty[e["id"]] = e["mode"], False
        elif k in ("Deser", "Craft", "UResultAs"):
            r = e["r"]
            mode[e["dst"]], lgk[e["dst"]], empty[e["dst"]] = r["mode"], r["lgk"], r["empty"]
        elif k == "UNew":
            lgmax[e["u"]] = e["lgmaxk"]
            hits[e["u"]] = [0, False]
        elif k == "UUpdate" and not empty.get(e["src"], True) and e["u"] in hits:
            h = hits[e["u"]]
            h[0] += 1
            if mode.get(e["src"]) == 2 and lgk.get(e["src"]) != lgmax[e["u"]]:
                h[1] = True
            if h[0] >= 2 and h[1]:
                return True
    return False

def _hu_args(tier, seed, k, profile):
    serde = 12 if profile == "serde" else 4
    if tier == Q:
        return ["--seed", seed, "--segments", 22, "--minlgk", 4, "--maxlgk", 12 if k % 3 == 0 else 10,
                "--cap", 5000 if k % 3 == 0 else 2500, "--serde", serde, "--hilo", 17, "--hihi", 20]
    return ["--seed", seed, "--segments", 30, "--minlgk", 4, "--maxlgk", 14 if k % 5 == 0 else 12,
            "--cap", 20000 if k % 5 == 0 else 8000, "--serde", serde, "--hilo", 17, "--hihi", 20]

_HU = dict(harness="hllunion_rec", inc=["common", "hll"], spec="TraceHllUnion", args=_hu_args, nontrivial=hllunion_nontrivial, heap="4g")
HU_JOB = job("hllunion", owners=["C04"], serde=False, cfg="TraceHllUnion.cfg", files={Q: 5, T: 28}, **_HU)
HU_SERDE_JOB = job("hllunion_serde", owners=["C04"], serde=True, cfg="TraceHllUnion_serde.cfg", files={Q: 8, T: 40}, **_HU)
# tier B (MODEL-DRIFT): shadow gadget per union (spec/HllUnionMech.tla: the union_impl case analysis with stored counters and
# rebuild flag) and shadow design state per input sketch, compared with what the images of inputs and results expose
HU_B_JOB = job("hllunion_b", owners=["C04"], serde=False, cfg="TraceHllUnion.cfg", drift_cfg="TraceHllUnionB.cfg", files={Q: 3, T: 12},
               **dict(_HU, args=lambda tier, seed, k, profile: _hu_args(tier, seed + 500, k + 5, profile)))

# thorough tier: some files of the union driver in an AddressSanitizer build.  The union casts its gadget to Hll8Array and writes
# 2^lg_k bytes into it; a gadget of another register width is a heap overflow before it is a wrong register.
HU_ASAN_JOB = job("hllunion_asan", owners=["C04"], serde=False, cfg="TraceHllUnion.cfg", files={Q: 0, T: 6},
                  tag="_asan", flags=("-fsanitize=address", "-fno-omit-frame-pointer", "-g"),
                  **dict(_HU, args=lambda tier, seed, k, profile: _hu_args(Q, seed + 700, k + 9, profile)))

HU_MC = [
    dict(module="MC_HllUnionDesign", cfg="MC_HllUnionDesign.cfg"),
    dict(module="MC_HllUnion", cfg="MC_HllUnion.cfg"),
]
# negative configs: models of the PINNED code (stale emptiness after down-sampling; reset keeping the reduced lg_k).
# TLC must report a violation of the contract invariants; kept to show that the machinery flags the pre-fix behaviour.
HU_MC_NEGATIVE = ["MC_HllUnionDesign_pinned.cfg", "MC_HllUnionDesign_pinned_reset.cfg", "MC_HllUnionDesign_pinned_kxq.cfg"]

def _clean_ttrace():
    import glob, os
    for f in glob.glob(os.path.join(core.SPEC, "*_TTrace_*")):
        try:
            os.remove(f)
        except OSError:
            pass

@prop("C04", "model_checking",
      "MC: exhaustive TLC runs of the hll_union design model (gadget with rebuild flag and stale counters, the union_impl case "
      "analysis, copy_or_downsample, mergeHll/mergeList, rvalue adoption, check_rebuild observers, reset) for the FIXED code refining "
      "the contract (ResultDef from the ghost input sets), of the contract itself, and two negative configs in which the model of the "
      "pinned code must violate it; traces: 2-6 real input sketches (random lg_k/type/fill level incl. empty, list, set, HLL, far "
      "beyond k) and raw items presented to three fresh unions in three orders with lvalue/rvalue updates and interleaved "
      "get_result(type)/estimate/is_empty observers, optional reset and serde round trips of inputs; every event validated by TLC "
      "against the contract, inputs known to the specification only through their REFERENCE coupons; a segment is non-trivial when a "
      "union received two or more non-empty inputs one of which was an HLL-mode sketch with lg_k different from lg_max_k; "
      "distinct = distinct segment content hash",
      ["harness/refhash.hpp is the published MurmurHash3_x64_128 (self-checked); the coupon formula is the documented one",
       "result registers / coupons are read from hll_sketch(get_result(t), HLL_8).serialize_updatable() following the documented image layout",
       "an EMPTY HLL-mode input may or may not lower the union's lg_k (the statement does not decide it; bound to the observed value)",
       "traces cover lg_k and lg_max_k 4..12 (quick) / 4..14 (thorough); larger configurations only through the parametric model",
       "clauses about the input sketches themselves are C03's (prefix C03:), serialization clauses are enforced by job hllunion_serde under C09"])
def run_c04(oc, repo, seed, tier):
    mc_all(oc, HU_MC, tier)
    neg = []
    for cfg in HU_MC_NEGATIVE:
        r = core.model_check("MC_HllUnionDesign", cfg, workers=1, timeout=300, expect_violation=True)
        neg.append({"cfg": cfg, "verdict": r["errors"][:1], "wall_s": r["wall_s"]})
    _clean_ttrace()
    oc.extra["negative_model_runs"] = neg
    core.trace_job(oc, HU_JOB, repo, seed, tier)
    core.trace_job(oc, HU_B_JOB, repo, seed, tier)
    if tier == T:
        core.trace_job(oc, HU_ASAN_JOB, repo, seed, tier)
