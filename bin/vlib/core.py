"""Core of the orchestrator: build harnesses from the working tree, run TLC (model checking and
trace validation), classify results, write evidence.  Standard library only."""
import hashlib, json, os, re, shutil, subprocess, sys, time
from concurrent.futures import ThreadPoolExecutor

from . import munge

VERIF = os.path.dirname(os.path.dirname(os.path.dirname(os.path.abspath(__file__))))
SPEC = os.path.join(VERIF, "spec")
HARNESS = os.path.join(VERIF, "harness")
BUILD = os.path.join(VERIF, "build")
REPLAYS = os.path.join(VERIF, "replays")
EVIDENCE = os.path.join(VERIF, "evidence")
GUARD = "DATASKETCHES_VERIF"
TLC_CP = "/opt/veriftools/tla/tla2tools.jar:/opt/veriftools/tla/CommunityModules-deps.jar"
ALL_INC = ["common", "theta", "tuple", "hll", "cpc", "kll", "req", "quantiles", "fi", "count", "filters",
           "sampling", "tdigest", "density"]


class MachineryError(Exception):
    pass


def log(*a):
    print(*a, file=sys.stderr, flush=True)


def sh(cmd, timeout=None, env=None, cwd=None):
    e = dict(os.environ)
    if env:
        e.update(env)
    try:
        p = subprocess.run(cmd, stdout=subprocess.PIPE, stderr=subprocess.STDOUT, timeout=timeout, env=e, cwd=cwd)
        return p.returncode, p.stdout.decode("utf-8", "replace")
    except subprocess.TimeoutExpired as ex:
        out = ex.stdout.decode("utf-8", "replace") if ex.stdout else ""
        return -9, out + "\n[TIMEOUT after %ss]" % timeout


# ---------------------------------------------------------------------------------------------
# harness build (header-only library: one TU per harness, compiled against the CURRENT tree)
# ---------------------------------------------------------------------------------------------
def _tree_hash(paths):
    h = hashlib.sha1()
    for root in paths:
        if os.path.isfile(root):
            files = [root]
        else:
            files = []
            for d, _, fs in os.walk(root):
                for f in fs:
                    files.append(os.path.join(d, f))
        for f in sorted(files):
            h.update(f.encode())
            with open(f, "rb") as fh:
                h.update(fh.read())
    return h.hexdigest()


def build_harness(name, repo, inc=None, extra_flags=(), tag=""):
    """Compile harness/<name>.cpp against <repo>/<family>/include.  Rebuilt whenever the sources it can
    see changed (content hash), so a check always runs the current working tree."""
    os.makedirs(BUILD, exist_ok=True)
    inc = inc or ALL_INC
    incdirs = [os.path.join(repo, d, "include") for d in inc]
    src = os.path.join(HARNESS, name + ".cpp")
    key = _tree_hash(incdirs + [src] + [os.path.join(HARNESS, f) for f in os.listdir(HARNESS) if f.endswith(".hpp")])
    key = hashlib.sha1((key + repr(extra_flags) + repo).encode()).hexdigest()[:16]
    # one binary per source tree, so that concurrent checks of different trees do not clobber each other
    rtag = "" if os.path.abspath(repo) == "/repo" else "." + hashlib.sha1(os.path.abspath(repo).encode()).hexdigest()[:8]
    exe = os.path.join(BUILD, name + tag + rtag)
    opt = ["-O1"]
    if os.environ.get("VERIF_COVERAGE"):
        # bin/implcov: the same pipeline with gcov-instrumented harnesses (own binaries, own evidence directory)
        os.makedirs(os.path.join(BUILD, "covbin"), exist_ok=True)
        exe = os.path.join(BUILD, "covbin", name + tag + rtag)
        opt = ["-O0", "--coverage", "-DVERIF_COVERAGE_BUILD"]
        key = key + "cov"
    stamp = exe + ".stamp"
    if os.path.exists(exe) and os.path.exists(stamp) and open(stamp).read() == key:
        return exe
    cmd = ["g++", "-std=c++17"] + opt + ["-D" + GUARD, "-I" + HARNESS] + ["-I" + d for d in incdirs] + list(extra_flags) + [src, "-o", exe]
    t0 = time.time()
    rc, out = sh(cmd, timeout=900)
    if rc != 0:
        raise MachineryError("harness %s does not compile against %s:\n%s" % (name, repo, out[-4000:]))
    open(stamp, "w").write(key)
    log("  built %s in %.1fs" % (name, time.time() - t0))
    return exe


# ---------------------------------------------------------------------------------------------
# TLC
# ---------------------------------------------------------------------------------------------
_md_counter = [0]


def _metadir(label):
    _md_counter[0] += 1
    d = os.path.join(BUILD, "md", "%s_%d_%d" % (re.sub(r"\W", "_", label), os.getpid(), _md_counter[0]))
    shutil.rmtree(d, ignore_errors=True)
    os.makedirs(d, exist_ok=True)
    return d


def tlc(module, cfg, workers=1, timeout=600, env=None, heap="4g", extra=(), simulate=None, coverage=False):
    md = _metadir(module)
    cmd = ["java", "-XX:+UseParallelGC", "-Xss64m", "-Xmx" + heap, "-cp", TLC_CP, "tlc2.TLC", "-workers", str(workers), "-metadir", md,
           "-noGenerateSpecTE", "-config", os.path.join(SPEC, cfg)]
    if simulate:
        cmd += ["-simulate", simulate]
    if coverage:
        cmd += ["-coverage", "1"]
    cmd += list(extra) + [os.path.join(SPEC, module + ".tla")]
    t0 = time.time()
    rc, out = sh(cmd, timeout=timeout, env=env, cwd=md)
    shutil.rmtree(md, ignore_errors=True)
    return rc, out, time.time() - t0


def parse_tlc(out):
    r = {"generated": 0, "distinct": 0, "depth": 0, "errors": [], "rejects": [], "knowns": [], "accepted": False, "parse_error": False}
    m = re.findall(r"(\d+) states generated, (\d+) distinct states found", out)
    if m:
        r["generated"], r["distinct"] = int(m[-1][0]), int(m[-1][1])
    m = re.search(r"The depth of the complete state graph search is (\d+)", out)
    if m:
        r["depth"] = int(m.group(1))
    for line in out.splitlines():
        if line.startswith("Error:") or "is violated" in line or "Postcondition" in line and "false" in line:
            r["errors"].append(line.strip())
        if line.startswith('<<"REJECT"'):
            r["rejects"].append(line.strip())
        if line.startswith('<<"KNOWN"'):
            r["knowns"].append(line.strip())
        if line.startswith('<<"ACCEPTED"'):
            r["accepted"] = True
        if "Parsing or semantic analysis failed" in line or "TLC threw an unexpected exception" in line \
                or "Could not find or load main class" in line or "java.lang.OutOfMemoryError" in line:
            r["parse_error"] = True
    if "[TIMEOUT" in out:
        r["timeout"] = True
    # any TLC error other than the acceptance post-condition / an invariant of the spec is a failure of the machinery
    # (evaluation error, stack overflow, ...), never a verdict about the implementation
    for e in r["errors"]:
        if "Postcondition" in e or "is violated" in e or "The behavior up to this point" in e or "Deadlock" in e:
            continue
        r["parse_error"] = True
        r["tlc_error"] = e
    return r


def model_check(module, cfg, workers=8, timeout=900, heap="8g", expect_violation=False):
    """Exhaustive TLC run of a bounded model.  Returns stats; raises MachineryError unless the run
    completed with the expected verdict (the models are fixed artefacts: a failure is a machinery defect)."""
    rc, out, wall = tlc(module, cfg, workers=workers, timeout=timeout, heap=heap)
    r = parse_tlc(out)
    r["wall_s"] = round(wall, 1)
    r["module"], r["cfg"] = module, cfg
    completed = "Model checking completed. No error has been found." in out
    if expect_violation:
        r["ok"] = bool(r["errors"]) and not r["parse_error"]
    else:
        r["ok"] = completed and not r["errors"]
    if not r["ok"]:
        raise MachineryError("model checking %s/%s: unexpected result\n%s" % (module, cfg, out[-3000:]))
    log("  MC %s/%s: %d generated, %d distinct, %.1fs" % (module, cfg, r["generated"], r["distinct"], wall))
    return r


def split_segments(lines):
    """Segments start at a Begin event.  Returns list of (first_line_index, [lines])."""
    segs, cur, start = [], [], 0
    for i, ln in enumerate(lines):
        if '"e":"Begin"' in ln[:24] and cur:
            segs.append((start, cur))
            cur, start = [], i
        cur.append(ln)
    if cur:
        segs.append((start, cur))
    return segs


def validate_lines(trace_module, cfg, raw_lines, label, timeout=900, heap="3g", coverage=False):
    """Munge and validate raw trace lines.  Returns dict(accepted, reject_index (0-based into raw_lines or None),
    rejects, nevents)."""
    os.makedirs(os.path.join(BUILD, "tr"), exist_ok=True)
    mfile = os.path.join(BUILD, "tr", "%s.%d.m.ndjson" % (label, os.getpid()))
    try:
        ev = munge.munge_lines(raw_lines)
    except ValueError as ex:
        raise MachineryError("munge %s: %s" % (label, ex))
    with open(mfile, "w") as f:
        for e in ev:
            f.write(json.dumps(e, separators=(",", ":")) + "\n")
    n = len(ev)
    for attempt in (1, 2):
        rc, out, wall = tlc(trace_module, cfg, workers=1, timeout=timeout, env={"TRACE": mfile}, heap=heap, coverage=coverage)
        r = parse_tlc(out)
        if r["parse_error"] or r.get("timeout") or (r["generated"] == 0 and not r["errors"]):
            if attempt == 2:
                raise MachineryError("trace validation %s on %s failed to run:\n%s" % (trace_module, label, out[-3000:]))
            continue
        break
    os.remove(mfile)
    res = {"nevents": n, "wall_s": round(wall, 1), "rejects": r["rejects"], "errors": r["errors"], "knowns": r["knowns"]}
    if coverage:
        res["coverage_out"] = out[out.rfind("The coverage statistics"):]
    if r["accepted"] and not r["errors"]:
        res["accepted"], res["reject_index"] = True, None
        return res
    res["accepted"] = False
    # states = accepted events + 1; the first rejected event is line number `depth` (1-based) = index depth-1
    d = r["depth"]
    if d == 0:
        # invariant violation path: count the states TLC printed
        d = len(re.findall(r"^State \d+:", out, re.M))
    res["reject_index"] = min(max(d - 1, 0), n - 1)
    res["tail"] = out[-1500:]
    return res


# ---------------------------------------------------------------------------------------------
# known findings
# ---------------------------------------------------------------------------------------------
def load_known():
    p = os.path.join(VERIF, "known_findings.json")
    if not os.path.exists(p):
        return {"findings": [], "fixed": []}
    return json.load(open(p))


def match_known(prop, harness, event, rejects):
    """A finding is identified by property + harness + the event kind + the named clause(s) that fail + an optional
    predicate on the rejected event's fields, so a different violation of the same property is still reported."""
    names = set()
    for rj in rejects:
        m = re.match(r'<<"REJECT", "([^"]+)"', rj)
        if m:
            names.add(m.group(1))
    for f in load_known()["findings"]:
        if f["property"] != prop or f.get("harness") not in (None, harness) or f.get("marker"):
            continue      # marker-identified findings are only recognised through the spec's Known(...) marker
        if not (f.get("event") or f.get("clauses") or f.get("where")):
            continue      # an entry must identify the failing event / clause / input specifically
        if f.get("event") and event.get("e") != f["event"]:
            continue
        if f.get("clauses") and not (names and names <= set(f["clauses"])):
            continue
        ok = True
        for k, v in (f.get("where") or {}).items():
            if event.get(k) != v:
                ok = False
        # where_any: list of alternative field conjunctions (e.g. the exact byte positions per path that are known to fail)
        alts = f.get("where_any")
        if ok and alts is not None:
            ok = any(all(event.get(k) == v for k, v in a.items()) for a in alts)
        if ok:
            return f
    return None


# ---------------------------------------------------------------------------------------------
# the generic trace job: record with the real code, validate every file, triage rejections
# ---------------------------------------------------------------------------------------------
class Outcome:
    def __init__(self, prop):
        self.prop = prop
        self.violations = []     # (replay path, description)
        self.known = []          # descriptions
        self.drift = []
        self.mc = []             # model-checking stats
        self.traces = 0          # segments accepted
        self.events = 0
        self.files = 0
        self.nontrivial = set()
        self.samples = []
        self.notes = []
        self.extra = {}


def record(exe, args, out_path, timeout=900, env=None):
    rc, out = sh([exe] + [str(a) for a in args] + ["--out", out_path], timeout=timeout, env=env)
    return rc, out


def trace_job(oc, job, repo, seed, tier):
    """job: dict(harness, inc, spec, cfg, args(tier, seed, k) -> list, files(tier) -> int, nontrivial(events) -> bool,
    optional tag/flags)."""
    exe = build_harness(job["harness"], repo, job.get("inc"), job.get("flags", ()), job.get("tag", ""))
    nfiles = job["files"][tier]
    os.makedirs(os.path.join(BUILD, "tr"), exist_ok=True)
    raws = []
    t0 = time.time()

    def rec(k):
        fseed = seed * 1000 + k
        path = os.path.join(BUILD, "tr", "%s.%s.%d.%d.ndjson" % (oc.prop, job["harness"], fseed, os.getpid()))
        args = job["args"](tier, fseed, k, job.get("profile", "default"))
        rc, out = record(exe, args, path, timeout=job.get("rec_timeout", 900))
        return k, fseed, path, args, rc, out

    with ThreadPoolExecutor(max_workers=min(16, nfiles)) as ex:
        recs = list(ex.map(rec, range(nfiles)))
    for k, fseed, path, args, rc, out in recs:
        if rc != 0 and not job.get("crash_is_event"):
            # the harness died: on a tree that compiles this is the implementation crashing under the driver
            lines = open(path).read().splitlines() if os.path.exists(path) else []
            rp = store_replay(oc.prop, job, fseed, args, lines, "crash")
            oc.violations.append((rp, "harness %s exited %d (crash/abort in the implementation): %s" % (job["harness"], rc, out[-300:].replace("\n", " "))))
            continue
        raws.append((fseed, path, args))
    log("  recorded %d files with %s in %.1fs" % (len(raws), job["harness"], time.time() - t0))

    def val(item):
        fseed, path, args = item
        lines = open(path).read().splitlines()
        os.remove(path)
        res = validate_lines(job["spec"], job.get("cfg", job["spec"] + ".cfg"), lines, "%s.%s.%d" % (oc.prop, job["harness"], fseed),
                             timeout=job.get("val_timeout", 1200), heap=job.get("heap", "3g"))
        return fseed, args, lines, res

    t0 = time.time()
    with ThreadPoolExecutor(max_workers=job.get("par", 8)) as ex:
        vals = list(ex.map(val, raws))
    log("  validated %d files against %s in %.1fs" % (len(vals), job["spec"], time.time() - t0))
    if job.get("drift_cfg"):
        # tier B: the same traces against the design-level configuration; a rejection there while tier A accepts is
        # MODEL-DRIFT (reported, exit 0), never a violation
        def dval(item):
            fseed, args, lines, res = item
            if not res["accepted"]:
                return None
            return fseed, validate_lines(job["spec"], job["drift_cfg"], lines, "%s.%s.B.%d" % (oc.prop, job["harness"], fseed))
        with ThreadPoolExecutor(max_workers=job.get("par", 8)) as ex:
            for r in ex.map(dval, vals):
                if r and not r[1]["accepted"]:
                    oc.drift.append("%s seed %d: design-level expectation not met at event #%d %s (contract still satisfied)"
                                    % (job["harness"], r[0], r[1]["reject_index"], " ".join(r[1]["rejects"][:3])))
                elif r:
                    oc.extra["tier_b_files_accepted"] = oc.extra.get("tier_b_files_accepted", 0) + 1
    for fseed, args, lines, res in vals:
        oc.files += 1
        known_markers(oc, job, fseed, args, lines, res)
        segs = split_segments(lines)
        if res["accepted"]:
            acc = segs
        else:
            ri = res["reject_index"]
            acc = [s for s in segs if s[0] + len(s[1]) <= ri]
            bad = [s for s in segs if s[0] <= ri < s[0] + len(s[1])][0]
            seglines = bad[1][: ri - bad[0] + 1]
            triage(oc, job, fseed, args, seglines, res)
            # the rest of the file after the rejected segment is validated separately so that nothing stays unexamined
            rest = [ln for s in segs if s[0] > ri for ln in s[1]]
            if rest:
                res2 = validate_lines(job["spec"], job.get("cfg", job["spec"] + ".cfg"), rest, "%s.rest.%d" % (oc.prop, fseed))
                if res2["accepted"]:
                    acc = acc + [s for s in segs if s[0] > ri]
                else:
                    segs2 = split_segments(rest)
                    ri2 = res2["reject_index"]
                    bad2 = [s for s in segs2 if s[0] <= ri2 < s[0] + len(s[1])][0]
                    triage(oc, job, fseed, args, bad2[1][: ri2 - bad2[0] + 1], res2)
        for s in acc:
            oc.traces += 1
            oc.events += len(s[1])
            evs = [json.loads(x) for x in s[1]]
            if job["nontrivial"](evs):
                oc.nontrivial.add(hashlib.sha1("\n".join(s[1]).encode()).hexdigest())
            if len(oc.samples) < 3:
                oc.samples.append({"harness": job["harness"], "seed": fseed, "first_events": evs[:6]})


def known_markers(oc, job, fseed, args, lines, res):
    """<<"KNOWN", name, l>> lines are printed by a trace spec where the execution shows a recorded known finding and
    the spec continues with the observed value.  A marker that known_findings.json does not list is a violation."""
    for k in res.get("knowns", []):
        m = re.match(r'<<"KNOWN", "([^"]+)", (\d+)>>', k)
        if not m:
            continue
        name, idx = m.group(1), int(m.group(2)) - 1
        pm = re.match(r"(C\d\d):", name)
        if pm and pm.group(1) != oc.prop:
            continue
        listed = [f for f in load_known()["findings"] if f.get("marker") == name and f["property"] == oc.prop]
        if listed:
            msg = "KNOWN-FINDING: property=%s %s" % (oc.prop, listed[0]["what"])
            if msg not in oc.known:
                oc.known.append(msg)
            oc.extra["known_finding_occurrences"] = oc.extra.get("known_finding_occurrences", 0) + 1
        else:
            seg = [s for s in split_segments(lines) if s[0] <= idx < s[0] + len(s[1])][0]
            rp = store_replay(oc.prop, job, fseed, args, seg[1][: idx - seg[0] + 1], "marker")
            oc.violations.append((rp, "marker %s at event #%d is not a listed known finding" % (name, idx)))


def store_replay(prop, job, fseed, args, seglines, kind):
    os.makedirs(REPLAYS, exist_ok=True)
    h = hashlib.sha1("\n".join(seglines).encode()).hexdigest()[:10]
    path = os.path.join(REPLAYS, "%s.%s.%s.%s.ndjson" % (prop, job["harness"], kind, h))
    meta = {"e": "Meta", "property": prop, "harness": job["harness"], "spec": job["spec"], "cfg": job.get("cfg", job["spec"] + ".cfg"),
            "seed": fseed, "args": [str(a) for a in args], "kind": kind}
    with open(path, "w") as f:
        f.write(json.dumps(meta) + "\n")
        for ln in seglines:
            f.write(ln + "\n")
    return path


SERDE_EVENTS = {"Ser", "Deser", "Wrap", "SerU", "DeserU", "Inject"}


def attribute(job, ev, rejects):
    """Which properties does a rejection belong to?  A failing clause named "Cnn:..." belongs to Cnn; an unnamed
    failure (contract action not enabled) or an unprefixed clause belongs to C09 at a serialization event or on an
    object restored from an image, otherwise to the properties owning the trace specification."""
    names = []
    for rj in rejects:
        m = re.match(r'<<"REJECT", "([^"]+)"', rj)
        if m:
            names.append(m.group(1))
    default = {"C09"} if (ev.get("e") in job.get("serde_events", SERDE_EVENTS) or ev.get("restored")) else set(job["owners"])
    owners = set()
    for n in names or [""]:
        m = re.match(r"(C\d\d):", n)
        owners |= {m.group(1)} if m else default
    return owners


def triage(oc, job, fseed, args, seglines, res):
    """Re-validate the rejected segment alone; report only if the rejection repeats (DESIGN 4.3)."""
    res2 = validate_lines(job["spec"], job.get("cfg", job["spec"] + ".cfg"), seglines, "%s.seg.%d" % (oc.prop, fseed))
    if res2["accepted"]:
        oc.notes.append("rejection of seed %d did not repeat on the isolated segment (ignored)" % fseed)
        return
    ev = json.loads(seglines[res2["reject_index"]])
    owners = attribute(job, ev, res2["rejects"])
    if oc.prop not in owners:
        oc.notes.append("seed %d: rejection at %s %s belongs to %s, not to %s (not reported here)"
                        % (fseed, ev.get("e"), " ".join(res2["rejects"][:3]), sorted(owners), oc.prop))
        return
    desc = "event #%d %s rejected by %s %s" % (res2["reject_index"], json.dumps(ev)[:400], job["spec"], " ".join(res2["rejects"][:4]))
    kf = match_known(oc.prop, job["harness"], ev, res2["rejects"])
    if kf:
        msg = "KNOWN-FINDING: property=%s %s" % (oc.prop, kf["what"])
        if msg not in oc.known:
            oc.known.append(msg)
        return
    rp = store_replay(oc.prop, job, fseed, args, seglines[: res2["reject_index"] + 1], "reject")
    oc.violations.append((rp, desc))


def replay(path, repo):
    """Re-validate a stored counterexample; if the harness can be rebuilt, also re-record it from the current tree."""
    lines = open(path).read().splitlines()
    meta = json.loads(lines[0])
    seg = lines[1:]
    res = validate_lines(meta["spec"], meta["cfg"], seg, "replay")
    print("stored trace: %s" % ("accepted" if res["accepted"] else "REJECTED at event #%d %s %s" % (res["reject_index"], seg[res["reject_index"]][:300], res["rejects"])))
    return 0 if res["accepted"] else 1


# ---------------------------------------------------------------------------------------------
# evidence and exit
# ---------------------------------------------------------------------------------------------
def finish(oc, level, tier, seed, t0, rule, assumptions, extra_cov=None):
    os.makedirs(EVIDENCE, exist_ok=True)
    cov = {
        "states": sum(m["distinct"] for m in oc.mc),
        "transitions": sum(m["generated"] for m in oc.mc),
        "traces_validated_against_impl": oc.traces,
        "evaluations": oc.events,
        "distinct_nontrivial": len(oc.nontrivial),
        "rule": rule,
        "samples": oc.samples if oc.samples else [{"model_runs": [m["module"] + "/" + m["cfg"] for m in oc.mc]}],
        "model_runs": [{k: m[k] for k in ("module", "cfg", "generated", "distinct", "depth", "wall_s")} for m in oc.mc],
        "trace_files": oc.files,
        "known_findings_reported": oc.known,
        "drift": oc.drift,
        "notes": oc.notes,
    }
    cov.update(oc.extra)
    if extra_cov:
        cov.update(extra_cov)
    ev = {"property_id": oc.prop, "tier": tier, "seed": seed, "level": level, "coverage": cov,
          "assumptions": assumptions, "wall_s": round(time.time() - t0, 1), "violations": len(oc.violations)}
    with open(os.path.join(EVIDENCE, oc.prop + ".json"), "w") as f:
        json.dump(ev, f, indent=1)
    for k in oc.known:
        print(k)
    for d in oc.drift:
        print("MODEL-DRIFT property=%s %s" % (oc.prop, d))
    for rp, desc in oc.violations:
        print("VIOLATION property=%s replay=%s" % (oc.prop, rp))
        print("  " + desc)
    print("%s %s tier=%s seed=%d: %d MC runs (%d states), %d segments / %d events validated, %d non-trivial, %d violations, %.0fs"
          % (oc.prop, "FAIL" if oc.violations else "ok", tier, seed, len(oc.mc), cov["states"], oc.traces, oc.events, len(oc.nontrivial),
             len(oc.violations), time.time() - t0))
    return 1 if oc.violations else 0
