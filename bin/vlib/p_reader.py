"""C11 - truncated or corrupted images are rejected safely, never read out of bounds (level: fault_enumeration).

harness/reader_rec.cpp enumerates, for every image of its catalogue (family x kind), every prefix length on every path
and every preamble byte x replacement value, and logs ONE outcome event per attempt; the guard page / tracking heap /
timer / fork are only the event source.  spec/Reader.tla decides which outcomes are allowed; spec/TraceReader.tla calls
the contract's own Attempt action for every logged event.

Unlike a history of one object, the events of an enumeration are independent of each other, so validation runs in
"scan" mode (TraceReaderScan.cfg): every forbidden outcome is reported by TLC and validation continues; every reported
attempt is then re-validated in isolation (its Begin + the attempt) under the strict configuration (TraceReader.cfg, the
one replays use) and only reported if the rejection repeats (DESIGN 4.3).  Violations are grouped by
(family, kind, path, mode, outcome): one VIOLATION line and one replay file per group.
"""
import hashlib, json, os, re, time
from concurrent.futures import ThreadPoolExecutor

from . import core
from .props import prop, job, mc_all, Q, T

FORBIDDEN = ("Different", "OOB", "Crash", "Hang", "Leak", "HugeAlloc", "SizeMismatch")


def is_trivial(e):
    """A plain early Throw at the first size check: a prefix shorter than the 8 bytes every reader asks for first."""
    return e["mode"] == "prefix" and e["outcome"] == "Throw" and e["n"] < min(8, e["size"])


def reader_nontrivial(evs):
    return any(e["e"] == "Attempt" and not is_trivial(e) for e in evs)


READER_JOB = job("reader",
    harness="reader_rec", spec="TraceReader", cfg="TraceReader.cfg", scan_cfg="TraceReaderScan.cfg", owners=["C11"],
    files={Q: 16, T: 32},
    args=lambda tier, seed, k, profile: ["--seed", seed, "--tier", tier, "--group", k, "--groups", READER_JOB["files"][tier]],
    nontrivial=reader_nontrivial,
)
# thorough tier: the quick enumeration again in an AddressSanitizer build (over-reads of internal heap buffers)
READER_ASAN_JOB = job("reader_asan",
    harness="reader_rec", tag="_asan", flags=("-fsanitize=address", "-fno-omit-frame-pointer", "-g"),
    spec="TraceReader", cfg="TraceReader.cfg", scan_cfg="TraceReaderScan.cfg", owners=["C11"],
    files={Q: 0, T: 16},
    args=lambda tier, seed, k, profile: ["--seed", seed, "--tier", "quick", "--group", k, "--groups", READER_ASAN_JOB["files"][tier]],
    nontrivial=reader_nontrivial,
)

READER_MC = [dict(module="Reader", cfg="MC_Reader.cfg")]


def _reject_indices(res):
    """0-based event indices TLC reported in scan mode (<<"REJECT", clause, l>> has the 1-based event number)."""
    out = {}
    for rj in res["rejects"]:
        m = re.match(r'<<"REJECT", "([^"]+)", (\d+)>>', rj)
        if m:
            out.setdefault(int(m.group(2)) - 1, []).append(rj)
    return out


def _position(e):
    return e["n"] if e["mode"] != "corrupt" else (e["pos"], e["val"])


def enumeration_job(oc, jb, repo, seed, tier, stats):
    nfiles = jb["files"][tier]
    if nfiles == 0:
        return
    exe = core.build_harness(jb["harness"], repo, jb.get("inc"), jb.get("flags", ()), jb.get("tag", ""))
    os.makedirs(os.path.join(core.BUILD, "tr"), exist_ok=True)
    label = jb["name"]
    t0 = time.time()

    def rec(k):
        path = os.path.join(core.BUILD, "tr", "%s.%s.%d.%d.%d.ndjson" % (oc.prop, label, seed, k, os.getpid()))
        args = jb["args"](tier, seed, k, "default")
        rc, out = core.record(exe, args, path, timeout=1500)
        return k, path, args, rc, out

    with ThreadPoolExecutor(max_workers=16) as ex:
        recs = list(ex.map(rec, range(nfiles)))
    for k, path, args, rc, out in recs:
        if rc != 0:
            # the parent process only forks and logs: its death is a failure of the machinery, never an outcome
            raise core.MachineryError("reader_rec group %d exited %d: %s" % (k, rc, out[-600:]))
    core.log("  recorded %d files with %s%s in %.1fs" % (len(recs), jb["harness"], jb.get("tag", ""), time.time() - t0))

    def val(item):
        k, path, args, rc, out = item
        lines = open(path).read().splitlines()
        os.remove(path)
        res = core.validate_lines(jb["spec"], jb["scan_cfg"], lines, "%s.%s.%d" % (oc.prop, label, k), timeout=1800)
        return k, args, lines, res

    t0 = time.time()
    with ThreadPoolExecutor(max_workers=8) as ex:
        vals = list(ex.map(val, recs))
    core.log("  validated %d files against %s (scan) in %.1fs" % (len(vals), jb["spec"], time.time() - t0))

    suspects = []          # (k, args, begin line, attempt line)
    for k, args, lines, res in vals:
        oc.files += 1
        rej = _reject_indices(res)
        if not res["accepted"] and not rej:
            # stopped at a structural clause (image-wellformed, same-image, ...): the harness mis-logged
            raise core.MachineryError("trace of group %d stopped without a reported attempt: %s %s" % (k, res.get("rejects"), res.get("tail", "")[-800:]))
        segs = core.split_segments(lines)
        for start, seg in segs:
            evs = [json.loads(x) for x in seg]
            bad = [i for i in range(len(seg)) if (start + i) in rej]
            for i in bad:
                suspects.append((k, args, seg[0], seg[i]))
            n_att = sum(1 for e in evs if e["e"] == "Attempt")
            stats["attempts"] += n_att
            oc.events += n_att
            if not bad:
                oc.traces += 1
            for e in evs:
                if e["e"] != "Attempt":
                    continue
                stats["outcomes"][e["outcome"]] = stats["outcomes"].get(e["outcome"], 0) + 1
                fam = stats["families"].setdefault(e["family"], {"attempts": 0, "images": set()})
                fam["attempts"] += 1
                fam["images"].add(e["kind"])
                if not is_trivial(e):
                    oc.nontrivial.add((e["family"], e["kind"], e["path"], e["mode"], _position(e), jb.get("tag", "")))
            if len(oc.samples) < 3 and len(evs) > 12:
                oc.samples.append({"harness": jb["harness"] + jb.get("tag", ""), "seed": seed, "first_events": [
                    {k2: (v[:40] + "..." if isinstance(v, str) and len(v) > 40 else v) for k2, v in e.items()} for e in evs[:2] + evs[9:12]]})

    if not suspects:
        return
    # triage: every reported attempt alone (Begin + Attempt), strict configuration, in batches (scan over the pairs,
    # then the strict replay of each group's first pair is what the stored replay file reproduces)
    pairs = []
    for k, args, b, a in suspects:
        pairs += [b, a]
    res = core.validate_lines(jb["spec"], jb["scan_cfg"], pairs, "%s.%s.triage" % (oc.prop, label), timeout=1800)
    rej = _reject_indices(res)
    groups = {}
    for j, (k, args, b, a) in enumerate(suspects):
        if (2 * j + 1) not in rej:
            oc.notes.append("rejection of %s did not repeat in isolation (ignored)" % a[:200])
            continue
        ev = json.loads(a)
        rjs = rej[2 * j + 1]
        owners = core.attribute(jb, ev, rjs)
        if oc.prop not in owners:
            msg = "%s/%s %s: rejection %s belongs to %s (not reported here)" % (ev["family"], ev["kind"], ev["path"], rjs[0], sorted(owners))
            if msg not in oc.notes:
                oc.notes.append(msg)
            continue
        kf = core.match_known(oc.prop, jb["harness"], ev, rjs)
        if kf:
            msg = "KNOWN-FINDING: property=%s %s" % (oc.prop, kf["what"])
            if msg not in oc.known:
                oc.known.append(msg)
            stats["known_events"] += 1
            continue
        key = (ev["family"], ev["kind"], ev["path"], ev["mode"], ev["outcome"], jb.get("tag", ""))
        groups.setdefault(key, {"begin": b, "attempts": [], "args": args, "rejects": rjs})["attempts"].append(a)
    # strict re-validation of what each stored replay starts with (Begin + first attempt): must be rejected at event #1.
    # Every attempt has already been re-validated alone in the batch above; the strict run double-checks the replay
    # files of the first STRICT_MAX groups (one JVM each) so that a tree with hundreds of findings stays affordable.
    STRICT_MAX = 24
    def strict(item):
        key, g = item
        return key, core.validate_lines(jb["spec"], jb["cfg"], [g["begin"], g["attempts"][0]],
                                        "%s.%s.strict.%s" % (oc.prop, label, hashlib.sha1(repr(key).encode()).hexdigest()[:8]))
    with ThreadPoolExecutor(max_workers=8) as ex:
        strict_res = dict(ex.map(strict, sorted(groups.items())[:STRICT_MAX]))
    for key, g in sorted(groups.items()):
        evs = [json.loads(x) for x in g["attempts"]]
        seg = [g["begin"]] + g["attempts"][:50]
        res2 = strict_res.get(key)
        if res2 is not None and res2["accepted"]:
            oc.notes.append("strict re-validation accepted %s (ignored)" % (key,))
            continue
        rp = core.store_replay(oc.prop, jb, seed, g["args"], seg, "reject")
        if key[3] == "corrupt":
            where = "pos/val " + ", ".join("%d:=0x%02x" % (e["pos"], e["val"]) for e in evs[:6]) + (" ..." if len(evs) > 6 else "")
        else:
            ns = sorted(e["n"] for e in evs)
            where = "n=%d..%d" % (ns[0], ns[-1]) if len(ns) > 1 else "n=%d" % ns[0]
        e0 = evs[0]
        desc = "%d attempt(s): family=%s kind=%s path=%s mode=%s %s -> %s (stage %s, off %s, %s)%s; size=%d infoLen=%d preLen=%d; rejected by %s %s" % (
            len(evs), key[0], key[1], key[2], key[3], where, key[4], e0["stage"], e0["off"], e0["what"][:80],
            " [ASan build]" if key[5] else "", e0["size"], e0["infoLen"], e0["preLen"], jb["spec"], " ".join(g["rejects"][:1]))
        oc.violations.append((rp, desc))
        stats["violating_events"] += len(evs)


@prop("C11", "fault_enumeration",
      "MC: exhaustive TLC run of the Reader contract over the outcome lattice (every image shape with size <= 3 x every attempt x every "
      "outcome; invariants: no forbidden outcome is ever allowed, Throw always is, Same iff n >= infoLen). "
      "Enumeration: for every image of the catalogue of harness/reader_rec.cpp (every family x kind: empty / single / exact / estimating, every "
      "HLL mode x type x compact/updatable, every CPC flavor, Theta v1-v4 + wrapped, item types incl. std::string, var_opt union, t-digest with/without "
      "buffer and both reference formats, Bloom incl. wrap / writable_wrap) every prefix length 0..size-1 on every path and every preamble byte x "
      "{0,1,2,3,4,8,16,32,64,0x7f,0x80,200,254,0xff,v-1..v-4,v+1..v+3,v/2,2v} (thorough: all 255 other values, larger catalogue, and the quick enumeration again under AddressSanitizer); "
      "one logged outcome per attempt, each validated by TLC against the contract's Attempt action. "
      "evaluations = attempts validated; traces = images (segments) with no forbidden outcome; "
      "distinct_nontrivial = distinct (family, kind, path, mode, position[, build]) attempts that were NOT a plain early Throw at the first size check, "
      "i.e. everything except a prefix of fewer than 8 bytes (the length every reader asks for first) that throws",
      ["instrumentation (guard region after the supplied bytes, tracking operator new/delete with canaries and a 256 MiB cap, 10 s CPU timer, fork) is "
       "only the source of outcome events; which outcomes are allowed is decided by spec/Reader.tla",
       "an access past the supplied bytes is observed when it lands in the 64 MiB PROT_NONE region that follows them (or, thorough tier, by ASan); a wild "
       "read of mapped memory elsewhere is not observable without ASan",
       "infoLen / preLen are computed by the harness from the documented layouts (trailing documented-unused bytes of empty images, unused capacity "
       "of updatable HLL arrays, the over-long REQ byte image) and checked by the spec only for infoLen <= size, preLen <= size",
       "HugeAlloc: a request above 256 MiB is always refused with std::bad_alloc; it is REPORTED for every prefix attempt and for corrupt attempts "
       "except on Bloom / count-min / EBPPS images, where a preamble field is itself the capacity the public constructor would allocate up front",
       "Leak is judged after three repetitions of the same attempt (excludes one-time lazy initialisation) and only when deserialize / wrap itself threw",
       "Usable = scalar getters + serialize() of the returned object + its destructor ran without fault; an exception from those is logged as Throw (stage use)",
       "corruption is one byte at a time, within the documented preamble; data-section corruption is outside the property statement"])
def run_c11(oc, repo, seed, tier):
    mc_all(oc, READER_MC, tier)
    stats = {"attempts": 0, "outcomes": {}, "families": {}, "known_events": 0, "violating_events": 0}
    enumeration_job(oc, READER_JOB, repo, seed, tier, stats)
    if tier == T:
        enumeration_job(oc, READER_ASAN_JOB, repo, seed, tier, stats)
    oc.extra["attempts"] = stats["attempts"]
    oc.extra["outcomes"] = stats["outcomes"]
    oc.extra["per_family"] = {f: {"attempts": v["attempts"], "images": len(v["images"])} for f, v in sorted(stats["families"].items())}
    oc.extra["images"] = sum(len(v["images"]) for v in stats["families"].values())
    oc.extra["events_matching_known_findings"] = stats["known_events"]
    oc.extra["events_in_violation_groups"] = stats["violating_events"]
