"""C09 - serialization round trips: every family driver logs Ser / Deser / Wrap events and continues the same operations
on the original and on the restored object; this property re-runs all of them in their serde-heavy profile."""
from . import core
from .props import prop, JOBS, Q, T

def serde_nontrivial(job):
    def f(evs):
        # non-trivial: the segment restored at least one object from an image with content (not just empty sketches)
        # and the family's own rule holds, or it contains >= 2 deserializations
        n = sum(1 for e in evs if e["e"] in core.SERDE_EVENTS and e["e"] != "Ser" and e["e"] != "SerU")
        return n >= 2 or (n >= 1 and job["nontrivial"](evs))
    return f

@prop("C09", "exploration",
      "every family trace driver with serialization events (all jobs registered with serde=True) is re-run in its serde-heavy profile (about 15-20 % "
      "Ser/Deser/Wrap events at random points of random histories, followed by continued operations on both copies) and every event is validated by TLC "
      "against the family's TLA+ contract: the restored object's full projection equals the model value stored with the blob, bytes == stream form, "
      "advertised size, h header bytes + same image, stream reader consumed exactly the image (16 sentinel bytes appended), re-serialization reproduces "
      "the image, restored objects stay behaviours of the contract. Only rejections at serialization events / on restored objects / of clauses named "
      "C09:* are attributed to this property. A segment is non-trivial when it deserialized at least two images or one image in a state the family's own "
      "rule calls non-trivial",
      ["the family contracts define what 'observationally identical' means (full projection through the public API)",
       "random exploration: states reached are those the family drivers reach (all modes / flavors / levels of small-to-medium configurations)"])
def run_c09(oc, repo, seed, tier):
    names = sorted(n for n, j in JOBS.items() if j.get("serde"))
    oc.extra["serde_jobs"] = names
    for n in names:
        j = dict(JOBS[n])
        j["profile"] = "serde"
        j["nontrivial"] = serde_nontrivial(JOBS[n])
        core.trace_job(oc, j, repo, seed, tier)
