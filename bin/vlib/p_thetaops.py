"""C02 - Theta set operations."""
from . import core
from .props import prop, job, mc_all, Q, T

def ops_nontrivial(evs):
    # non-trivial: a union/intersection/a-not-b result computed from >= 2 non-empty operands with a non-empty outcome,
    # or a result in estimation mode
    for e in evs:
        if e["e"] in ("UResult", "IResult", "AnotB") and "r" in e:
            r = e["r"]
            if r["n"] > 0 and (r["estMode"] or e["e"] != "UResult"):
                return True
    return False

THETAOPS_JOB = job("thetaops",
    harness="thetaops_rec", inc=["common", "theta"], spec="TraceThetaOps", owners=["C02"],
    files={Q: 8, T: 64},
    args=lambda tier, seed, k, profile: ["--seed", seed, "--segments", 12 if tier == Q else 25, "--events", 150 + 30 * (k % 4),
                                         "--maxlgk", 7 if k % 3 else 8, "--directed", 1 if k == 0 else 0],
    nontrivial=ops_nontrivial,
    # operand values (Sk events) are inputs taken as observed; the specification binds the fields of these events
    bound_events=["UResult", "IResult", "AnotB", "Form", "Jaccard"], bound_fields=["thetaH", "ent", "n", "empty", "estI"],
)

THETAOPS_MC = [
    dict(module="ThetaOpsDesign", cfg="MC_ThetaOpsDesign_k1.cfg"),
    dict(module="ThetaOpsDesign", cfg="MC_ThetaOpsDesign_k2.cfg"),
    dict(module="ThetaOpsDesign", cfg="MC_ThetaOpsDesign_p.cfg"),
]

@prop("C02", "model_checking",
      "MC: TLC exhausts the design model of theta_union (two thetas, table rebuild, per-entry processing in every physical iteration order, "
      "early stop on ordered inputs), theta_intersection (valid/empty/theta/table machine) and sort- vs hash-based A-not-B over a catalogue of 11 operand "
      "values (empty, non-empty with nothing retained, exact, estimating, ordered/unordered), every sequence of <= 3 inputs, against the declarative "
      "set-expression definitions of the contract; traces: randomized expressions over operands in 6 physical forms (update, compact ordered/unordered, "
      "wrapped, deserialized, deserialized-compressed), results fed back as operands, Jaccard, seed mismatch; a segment is non-trivial when it contains an "
      "intersection / A-not-B result with retained entries or a union result in estimation mode",
      ["operand values are taken as observed through the public API (their own correctness is C01's business)",
       "lg_k 5..8 in traces; hash values renamed order-isomorphically"])
def run_c02(oc, repo, seed, tier):
    mc_all(oc, THETAOPS_MC, tier)
    core.trace_job(oc, THETAOPS_JOB, repo, seed, tier)
