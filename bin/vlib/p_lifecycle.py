"""C19 - sketch objects have value semantics and return every byte they allocate.

Pipeline (spec -> impl, TLC's enumeration is the main tool):
  1. MC_Lifecycle: exhaustive TLC run of the contract itself (small constants).
  2. GenLifecycle: TLC enumerates ALL interleavings of the lifecycle alphabet over 3 slots up to the tier's depth
     (slot symmetry, partial-order and quota pruning explained in spec/GenLifecycle.tla) and writes them as ND-JSON.
  3. compile probes (harness/life_probe.cpp): operations that are ill-formed cannot be replayed; they are reported.
  4. harness/life_rec.cpp replays every behaviour, for every family, on the real classes instantiated on the tracking
     allocator / probe item; TraceLifecycle validates each (family, behaviour) segment against the contract.
  5. thorough tier: the same replay in an AddressSanitizer build (sanitizer reports become Crash events).
"""
import json, os, re, shutil, subprocess
from . import core
from .props import prop, job, mc_all, Q, T

CORE_FAMS = ["theta", "kll", "req", "fi", "hll", "cpc"]
REST_FAMS = ["thetaset", "tuple", "tupleset", "quant", "varopt", "varoptunion", "ebpps", "hllunion", "cpcunion", "bloom", "bloomview", "countmin",
             "tdigest", "density"]
ALL_FAMS = CORE_FAMS + REST_FAMS

# tier -> generation constants and replay plan.  `full`: (families, stride) replayed on the first generation,
# `deep`: optional second, deeper generation replayed with a stride (every stride-th behaviour, fixed by index)
PLAN = {
    # (families, stride, chunks per family): every stride-th behaviour (offset = seed mod stride, so different seeds cover
    # different residues) split over `chunks` trace files
    Q: dict(gens=[dict(depth=4, ops='{"few", "many", "alt"}', timeout=300, replay=[(ALL_FAMS, 1, 1)]),
                  dict(depth=5, ops='{"few", "many", "alt"}', timeout=300, replay=[(CORE_FAMS, 16, 1), (REST_FAMS, 64, 1)])]),
    T: dict(gens=[dict(depth=5, ops='{"few", "many", "alt"}', timeout=600, replay=[(CORE_FAMS, 1, 4), (REST_FAMS, 4, 1)]),
                  dict(depth=6, ops='{"few", "many"}', timeout=1200, replay=[(CORE_FAMS, 64, 1), (REST_FAMS, 256, 1)])]),
}
MAX_MUT = 2         # MaxMut of spec/GenLifecycle.cfg: behaviours with more Mutates contain an echo Mutate and are always replayed
ASAN_STRIDE = 16     # thorough tier: every 16th behaviour of the first generation for all families under ASan

_state = {"files": []}   # file index -> dict(gen prefix, nfiles, fam, chunk, of, stride), filled before the trace job runs


def generate(oc, depth, ops, timeout):
    """Run GenLifecycle with the given depth; returns (prefix, nfiles, nbehaviours)."""
    gdir = os.path.join(core.BUILD, "gen", "life_%d_%d" % (os.getpid(), depth))
    shutil.rmtree(gdir, ignore_errors=True)
    os.makedirs(gdir)
    base = open(os.path.join(core.SPEC, "GenLifecycle.cfg")).read()
    cfg = re.sub(r"Depth = \d+", "Depth = %d" % depth, base)
    cfg = re.sub(r"MutOps = \{[^}]*\}", "MutOps = " + ops, cfg)
    cfgname = "GenLifecycle_d%d_%d.cfg" % (depth, os.getpid())
    cfgpath = os.path.join(core.SPEC, cfgname)
    with open(cfgpath, "w") as f:
        f.write(cfg)
    prefix = os.path.join(gdir, "beh")
    try:
        rc, out, wall = core.tlc("GenLifecycle", cfgname, workers=1, timeout=timeout, env={"GEN_OUT": prefix}, heap="8g")
    finally:
        os.remove(cfgpath)
    r = core.parse_tlc(out)
    m = re.search(r'<<"BEHAVIOURS", (\d+), "FILES", (\d+)>>', out)
    if not m or r["errors"] or r["parse_error"] or "Model checking completed" not in out:
        raise core.MachineryError("behaviour generation failed:\n" + out[-3000:])
    nbeh, nfiles = int(m.group(1)), int(m.group(2))
    r.update(module="GenLifecycle", cfg="GenLifecycle.cfg[Depth=%d,MutOps=%s]" % (depth, ops.replace('"', "")), wall_s=round(wall, 1))
    oc.mc.append(r)
    core.log("  GEN depth %d: %d behaviours in %d files, %d states, %.1fs" % (depth, nbeh, nfiles, r["distinct"], wall))
    return prefix, nfiles, nbeh, gdir


def compile_probes(oc, repo):
    """Returns extra compiler flags for the harness."""
    probes = {1: ("varopt_union_copy_assign", "var_opt_union<T,A>::operator=(const var_opt_union&) is ill-formed: copy assignment of a union does not compile"),
              2: ("ebpps_merge_user_types", "ebpps_sketch<T,A>::merge(const ebpps_sketch&) does not compile for item/allocator types outside namespace std "
                                            "(unqualified swap relies on ADL reaching std)")}
    flags = []
    src = os.path.join(core.HARNESS, "life_probe.cpp")
    for n, (name, what) in probes.items():
        cmd = ["g++", "-std=c++17", "-fsyntax-only", "-D" + core.GUARD, "-DLIFE_PROBE=%d" % n,
               "-I" + os.path.join(repo, "common", "include"), "-I" + os.path.join(repo, "sampling", "include"), src]
        rc, out = core.sh(cmd, timeout=120)
        if rc == 0:
            if n == 1:
                flags.append("-DLIFE_VAROPT_UNION_COPY_ASSIGN=1")
            continue
        ev = {"e": "CompileProbe", "probe": name}
        kf = core.match_known(oc.prop, "life_probe", ev, [])
        first = next((l for l in out.splitlines() if "error" in l), out[:200])
        if kf:
            msg = "KNOWN-FINDING: property=%s %s" % (oc.prop, kf["what"])
            if msg not in oc.known:
                oc.known.append(msg)
        else:
            ev["first_error"] = first[:400]
            rp = core.store_replay(oc.prop, {"harness": "life_probe", "spec": "TraceLifecycle", "cfg": "TraceLifecycle.cfg"}, n,
                                   ["-DLIFE_PROBE=%d" % n], [json.dumps({"e": "Begin", "fam": "probe"}), json.dumps(ev)], "compile")
            oc.violations.append((rp, "compile probe %s: %s [%s]" % (name, what, first[:200])))
    return flags


def life_nontrivial(evs):
    """A segment is non-trivial when a copy / move / assignment / merge transferred or combined a NON-EMPTY state
    (the source object had been mutated before) - i.e. the value-semantics clauses were exercised on real content."""
    mutated = {}
    for e in evs:
        if e.get("e") != "Step":
            continue
        k, i, j, c = e["k"], e["i"], e["j"], e["c"]
        if k == "Mutate":
            mutated[i] = True
        elif k in ("Construct", "Destroy", "Reset"):
            mutated[i] = False
        elif k in ("CopyConstruct", "CopyAssign", "MoveConstruct", "MoveAssign"):
            if mutated.get(i):
                return True
            mutated[j] = mutated.get(i, False)
        elif k == "ChainAssign":
            if mutated.get(c):
                return True
        elif k in ("MergeRef", "MergeCRef", "MergeMove"):
            if mutated.get(i) or mutated.get(j):
                return True
    return False


def _args(tier, fseed, k, profile):
    f = _state["files"][k]
    return ["--in", f["prefix"], "--nfiles", f["nfiles"], "--fams", f["fam"], "--chunk", f["chunk"], "--of", f["of"], "--stride", f["stride"],
            "--offset", f["offset"], "--echo-above", MAX_MUT]


def _mk_job(name, nfiles, flags=(), tag=""):
    return dict(name=name, harness="life_rec", inc=None, spec="TraceLifecycle", cfg="TraceLifecycle.cfg", owners=["C19"], serde=False,
                serde_events=set(), files={Q: nfiles, T: nfiles}, args=_args, nontrivial=life_nontrivial, par=16,
                flags=tuple(flags), tag=tag, rec_timeout=1500, val_timeout=1700, heap="3g")


# (not registered in props.JOBS: the job replays files generated by THIS pipeline and logs no serde events of C09's kind)
LIFE_MC = [dict(module="MC_Lifecycle", cfg="MC_Lifecycle.cfg", timeout=600)]


@prop("C19", "model_checking",
      "MC: exhaustive TLC run of the Lifecycle contract (2 slots) and TLC ENUMERATION of all interleavings of the lifecycle alphabet "
      "(Construct, Mutate(few/many/alt), Copy/MoveConstruct, Copy/Move/Self/ChainAssign, MergeRef (non-const lvalue) / MergeCRef (const lvalue) / MergeMove (rvalue), Serialize, Reset, Destroy) over 3 slots "
      "to depth 4 full + 5 strided (quick) / 5 full (core families; strided for the others) + 6 strided (thorough), pruned by slot symmetry, adjacent-commuting-call order and per-kind quotas; "
      "traces: every generated behaviour is replayed on the real classes of each family (tracking allocator with per-instance ids, instrumented item with "
      "serial/canary where the family is generic, constant coin and seed before every call) and every (family, behaviour) segment is validated by TLC "
      "against the contract: digests of all live slots after every call (equal history => equal digest, independence, copy = source, move = old source), "
      "allocate/deallocate size and allocator match, items constructed/destroyed exactly once and never read when dead or moved-from, nothing left when "
      "the last object dies, no exception, no crash; a segment is non-trivial when a copy/move/assignment/merge involved a mutated (non-empty) object",
      ["the digest is a 64-bit content hash of the family's serialized image(s) plus scalar getters (a collision could hide a difference)",
       "library randomness is made a function of the call (random_utils::override_seed and the random_bit hook before every call), so equal histories "
       "must give equal states; observations (serialization of every live slot after every call) are part of every history",
       "quick tier replays ALL depth-4 behaviours for all 20 types and every 16th (theta/kll/req/fi/hll/cpc) / 64th (other 14 types) depth-5 behaviour, the "
       "residue chosen by --seed; behaviours containing an echo Mutate are always replayed; thorough replays ALL depth-5 behaviours for the six core "
       "types and every 4th for the others, every 64th / 256th depth-6 behaviour, and every 16th depth-5 behaviour in an AddressSanitizer build",
       "memory obtained outside the user's allocator (global operator new) is counted per call in the trace (field f) but not judged: the C++ standard "
       "library (stable_sort/inplace_merge temporary buffers, iostreams) and the CPC compression tables use it by design",
       "the tracking allocator keeps released blocks quarantined until the end of a segment (an address is one allocation)"])
def run_c19(oc, repo, seed, tier):
    mc_all(oc, LIFE_MC, tier)
    plan = PLAN[tier]
    gdirs = []
    try:
        extra = compile_probes(oc, repo)
        files = []
        gens = []
        for g in plan["gens"]:
            prefix, nfiles, nbeh, gdir = generate(oc, g["depth"], g["ops"], g["timeout"])
            gdirs.append(gdir)
            gens.append((prefix, nfiles, nbeh))
            for fams, stride, chunks in g["replay"]:
                for fam in fams:
                    for c in range(chunks):
                        files.append(dict(prefix=prefix, nfiles=nfiles, fam=fam, chunk=c, of=chunks, stride=stride, offset=seed % stride))
        oc.extra["behaviours_generated"] = [n for _, _, n in gens]
        oc.extra["replay_plan"] = [{"depth": g["depth"], "family": f, "stride": s} for g in plan["gens"] for fams, s, _ in g["replay"] for f in fams]
        _state["files"] = files
        core.trace_job(oc, _mk_job("lifecycle", len(files), flags=extra), repo, seed, tier)
        if tier == T:
            prefix, nfiles, _ = gens[0]
            _state["files"] = [dict(prefix=prefix, nfiles=nfiles, fam=fam, chunk=0, of=1, stride=ASAN_STRIDE, offset=seed % ASAN_STRIDE) for fam in ALL_FAMS]
            core.trace_job(oc, _mk_job("lifecycle_asan", len(ALL_FAMS), flags=list(extra) + ["-fsanitize=address", "-fno-omit-frame-pointer", "-g1"],
                                       tag="_asan"), repo, seed, tier)
    finally:
        for d in gdirs:
            shutil.rmtree(d, ignore_errors=True)
