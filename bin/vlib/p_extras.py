"""X01.. - specification grown beyond the listed properties (run with bin/check X0n; not part of MANIFEST.json)."""
from . import core
from .props import prop, job, mc_all, Q, T

# ------------------------------------------------------------------------------------------------------------------
# X01 Kolmogorov-Smirnov helper
# ------------------------------------------------------------------------------------------------------------------
def ks_nontrivial(evs):
    # a segment is non-trivial if some pair had both sketches in estimation mode (retained < n) and 0 < delta < 1
    for e in evs:
        if e["e"] == "KS" and e["r1"] < e["n1"] and e["r2"] < e["n2"] and 0 < e["dNum"] < e["n1"] * e["n2"]:
            return True
    return False

X_KS_JOB = job("x_ks",
    harness="x_ks_rec", inc=["common", "kll", "quantiles"], spec="TraceXKs", owners=["X01"], rec_timeout=120,
    files={Q: 8, T: 48}, par=8,
    args=lambda tier, seed, k, profile: ["--seed", seed, "--pairs", 36 if tier == Q else 80, "--maxn", 40000],
    nontrivial=ks_nontrivial,
)
X_KS_MC = [
    dict(module="MC_XKs", cfg="MC_XKs.cfg"),
    dict(module="MC_XKs", cfg="MC_XKs_len4.cfg", tier=T),
]

@prop("X01", "model_checking",
      "MC: every ordered pair of small sorted views (items 1..3, weights 1..2, up to 3 / 4 entries): the contract's statistic equals the "
      "definition sup|F1-F2|, is symmetric, within [0,1], 0 on identical views, 1 on separated supports; the merge walk with group "
      "consumption on equal items is exact (the shipped one-entry walk is shown NOT exact by MC_XKs_neg_walk.cfg); "
      "traces: pairs of real kll_sketch<double|float|int64|string|double,greater> / quantiles_sketch<double|int|string> (independent, shifted, "
      "separated, identical, small-alphabet and ramp-vs-constant streams, n up to 40000, equal and unequal k): round(delta*n1*n2) must equal the "
      "statistic TLC computes from the two logged sorted views, delta(s2,s1) = delta(s1,s2), delta(s,s) = 0, test = (delta > threshold) for "
      "p in {.001,.01,.05,.1,.5}, threshold decreasing in p, above both epsilons and (threshold-eps1-eps2)^2*h = -ln(p/2)/2 for effective sample "
      "sizes between num_retained and n; empty operands: test returns false. A segment is non-trivial when a pair had both sketches "
      "compacted and 0 < delta < 1",
      ["delta is read as the two-sample Kolmogorov-Smirnov statistic of the distributions the sketches represent (header + cited reference)",
       "the effective sample sizes of the threshold are not documented: any value between num_retained and n is accepted",
       "delta is compared through round(delta * n1 * n2) with one unit of tolerance (n1 * n2 < 2^31 by construction of the driver)"])
def run_x01(oc, repo, seed, tier):
    mc_all(oc, X_KS_MC, tier)
    oc.mc.append(core.model_check("MC_XKs", "MC_XKs_neg_walk.cfg", expect_violation=True))
    core.trace_job(oc, X_KS_JOB, repo, seed, tier)

# ------------------------------------------------------------------------------------------------------------------
# X02 argument validation of constructors / builders / weighted updates
# ------------------------------------------------------------------------------------------------------------------
def args_nontrivial(evs):
    # a segment (one group of families) is non-trivial if it has both accepted and refused calls
    outs = {e.get("out") for e in evs if e["e"] in ("Arg", "NanItem")}
    return "ok" in outs and ("invalid_argument" in outs or evs[0].get("group") == "nan-items")

X_ARGS_GROUPS = ["distinct", "quantiles", "frequency", "filters", "sampling", "nan", "calls"]
X_ARGS_JOB = job("x_args",
    harness="x_args_rec", inc=None, spec="TraceXArgs", owners=["X02"], rec_timeout=300,
    files={Q: 7, T: 21}, par=7,
    # one file per family group, so that a defect of one family does not hide the others
    args=lambda tier, seed, k, profile: ["--seed", seed, "--extra", 3 if tier == Q else 12, "--group", X_ARGS_GROUPS[k % 7]],
    nontrivial=args_nontrivial,
)
X_ARGS_MC = [dict(module="MC_XArgs", cfg="MC_XArgs.cfg", workers=4)]
X_ARGS_NEG = ["MC_XArgs_neg_req.cfg", "MC_XArgs_neg_countmin.cfg", "MC_XArgs_neg_nan.cfg"]

@prop("X02", "model_checking",
      "MC: the validation logic of every constructor / builder / weighted update (transcribed per site, with the proposed repairs) against the "
      "documented table XArgs!Zone over a grid of 3.5k arguments containing every boundary, one step outside and the extremes of the parameter "
      "types; the logic of the pinned tree for req k, count-min shape and NaN probabilities is rejected (negative configurations); "
      "traces: 39 sites (theta / theta-union / tuple / tuple-union / array-of-doubles lg_k and p, hll / hll-union lg_k, cpc / cpc-union lg_k, kll / req / "
      "quantiles / tdigest / density k, frequent-items sizes and weights, count-min shape, bloom by_size / by_accuracy, var_opt / var_opt_union / ebpps k and "
      "weights) called on the real classes in forked children at those arguments: valid => accepted and the getter reports the value, invalid => "
      "std::invalid_argument and the object unchanged, never a crash, also when the accepted object is used; plus the checks behind the constructors "
      "(group 'calls'): number of std devs of hll / hll_union / cpc bounds, cpc_union::update with a sketch of another seed (refused, union unchanged), "
      "tdigest get_CDF / get_PMF split points (NaN anywhere, repeated, decreasing), Bloom initialize_by_size / by_accuracy with a memory block from 33 bytes "
      "short to 64 bytes long (nothing written past the block), wrap / deserialize of a null pointer, get_serialized_size_bytes(0), suggest_num_hashes(n, m) "
      "with too many bits, theta_intersection given a hand-corrupted image (duplicate hash / zero hash, first / second operand, ordered / unordered, "
      "deserialized / wrapped: what it can see is refused and the intersection stays usable); NaN items of kll/req/quantiles/tdigest "
      "are ignored or refused, never counted. A segment (family group) is non-trivial when it has accepted and refused calls",
      ["ranges are taken from header comments, public constants and - where the header is silent - the rule stated in the library's own exception text",
       "where the documentation says 'must' without promising a refusal, or is inconsistent (hll_union 4..6, req k outside [4,1024], density dim 0, "
       "count-min 0 hashes, bloom fpp = 1), the outcome is left free (only 'no crash' applies)",
       "std::bad_alloc / std::length_error under the 1.5 GiB address-space limit of the child count as accepted calls"])
def run_x02(oc, repo, seed, tier):
    mc_all(oc, X_ARGS_MC, tier)
    for cfg in X_ARGS_NEG:
        oc.mc.append(core.model_check("MC_XArgs", cfg, workers=2, expect_violation=True))
    core.trace_job(oc, X_ARGS_JOB, repo, seed, tier)

# ------------------------------------------------------------------------------------------------------------------
# X03 type-converting constructors of kll / req / classic quantiles
# ------------------------------------------------------------------------------------------------------------------
def conv_nontrivial(evs):
    # non-trivial: the source was in estimation mode when converted and both copies compacted again afterwards
    c = [e for e in evs if e["e"] == "Conv"]
    return len(c) == 2 and c[0]["src"]["est"] and c[1]["src"]["n"] > c[0]["src"]["n"] and c[1]["src"]["r"] < c[0]["src"]["r"] + (c[1]["src"]["n"] - c[0]["src"]["n"])

X_CONV_JOB = job("x_conv",
    harness="x_conv_rec", inc=["common", "kll", "req", "quantiles"], spec="TraceXConv", owners=["X03"], rec_timeout=120,
    files={Q: 8, T: 32}, par=8,
    args=lambda tier, seed, k, profile: ["--seed", seed, "--rounds", 4 if tier == Q else 10],
    nontrivial=conv_nontrivial,
)
X_CONV_MC = [dict(module="MC_XConv", cfg="MC_XConv.cfg", workers=4), dict(module="MC_XConv", cfg="MC_XConv_weak.cfg", workers=4)]

@prop("X03", "model_checking",
      "MC: for every small sketch value and every order-preserving conversion of its items, the image answers all rank (inclusive / exclusive) and "
      "quantile queries as the source transported by the conversion; for conversions that merge items only the bracketing survives (rank equality is "
      "rejected: negative configuration); traces: kll (float->double, int->double, int->int64, double->float, int->custom type with its own "
      "comparator), req (HRA and LRA; float->double, int->double, float->custom), classic quantiles (float->double, int->double, double->float, "
      "int->custom) on sources that are empty, single-item, exact, multi-level, merged from different k, with and without a cached sorted view: the converted "
      "sketch has the same n, k, mode, published error, items with the same weights (level structure), converted min / max, equal ranks of 12 probe "
      "items and quantiles of 13 ranks, ranks as its own view implies; then BOTH receive the same further input under the same dictated coin flips "
      "and must still agree (internal state carried over), and the converted sketch merges. A segment (one conversion) is non-trivial when the source was in "
      "estimation mode and both copies compacted again after the conversion",
      ["every recorded conversion maps the logged integer key to itself (order preserving and injective on the retained items)",
       "equal items of a view are put in canonical order (by weight) by the driver before logging"])
def run_x03(oc, repo, seed, tier):
    mc_all(oc, X_CONV_MC, tier)
    oc.mc.append(core.model_check("MC_XConv", "MC_XConv_neg_weak.cfg", workers=2, expect_violation=True))
    core.trace_job(oc, X_CONV_JOB, repo, seed, tier)

# ------------------------------------------------------------------------------------------------------------------
# X04 theta / tuple Jaccard similarity, bounds on ratios
# ------------------------------------------------------------------------------------------------------------------
def jaccard_nontrivial(evs):
    # non-trivial: a pair with both operands in estimation mode and an estimate strictly between 0 and 1 (or the sampled-sets sweep)
    if evs[0].get("mode") == "sampled":
        return True
    for e in evs:
        if e["e"] == "Jaccard" and 0 < e["est5"] < 100000 and e["a"]["theta"] != e["maxTheta"] and e["b"]["theta"] != e["maxTheta"]:
            return True
    return False

X_JACCARD_JOB = job("x_jaccard",
    harness="x_jaccard_rec", inc=["common", "theta", "tuple"], spec="TraceXJaccard", owners=["X04"], rec_timeout=120,
    files={Q: 8, T: 32}, par=8,
    args=lambda tier, seed, k, profile: ["--seed", seed, "--pairs", 40 if tier == Q else 80, "--maxlgk", 9 if tier == Q else 12, "--points", 6 if tier == Q else 20],
    nontrivial=jaccard_nontrivial,
)
X_JACCARD_MC = [dict(module="MC_XJaccard", cfg="MC_XJaccard.cfg", workers=4)]

@prop("X04", "model_checking",
      "MC: all pairs of theta sketches over hashes 1..5: the code's route (union sized by the sum of the retained counts, intersection of A, B and the "
      "union, 'B over A' of the two) computes the sample counts of the contract (entries of both / of either below the common theta = min); the "
      "estimate is symmetric, within [0,1], 1 for identical and 0 for disjoint samples; a union sized max(|A|,|B|) is rejected (negative configuration); "
      "traces: pairs of update / compact (ordered, unordered) theta sketches and tuple sketches, lg_k 5..9 (12 thorough), p = 1 and p < 1, empty / exact / "
      "estimating operands, identical / nested / half / tiny / no overlap: 0 <= lb <= est <= ub <= 1 (order on doubles), est = exact ratio of the sample "
      "counts TLC computes from the logged entries (1e-5), bounds collapse in exact mode, jaccard(b,a) = jaccard(a,b), same object = {1,1,1}, "
      "exactly_equal <=> same entries and theta, similarity_test = (lb >= t) and dissimilarity_test = (ub <= t) at thresholds on and next to the bounds; "
      "bounds_on_ratios_in_theta_sketched_sets on (A, A&B), (B, A&B), (A, A): ordered bounds, exact ratio, theta_B > theta_A refused with "
      "invalid_argument, subset sketches never refused; bounds_on_ratios_in_sampled_sets over a grid of (a, b, f): ordered, est = b/a, f = 1 returns the "
      "estimate, b > a and f outside (0,1] refused. A pair is non-trivial when both operands estimate and 0 < est < 1",
      ["the estimate is bound to the exact ratio of sample counts at the common theta (the natural estimator named by the header's J = (A^B)/(AuB))",
       "the confidence level of the bounds (95.4 %) is not checked, only their order and collapse at f = 1",
       "lg_k 25/26 ('may produce unpredictable results') is not exercised"])
def run_x04(oc, repo, seed, tier):
    mc_all(oc, X_JACCARD_MC, tier)
    oc.mc.append(core.model_check("MC_XJaccard", "MC_XJaccard_neg_k.cfg", workers=2, expect_violation=True))
    core.trace_job(oc, X_JACCARD_JOB, repo, seed, tier)

# ------------------------------------------------------------------------------------------------------------------
# X05 sizing helpers: count-min suggest_num_buckets / suggest_num_hashes, Bloom builder suggestions and create_by_*
# ------------------------------------------------------------------------------------------------------------------
def suggest_nontrivial(evs):
    # every segment is a sweep of one helper (or of the refusals): non-trivial by construction
    kinds = {e["e"] for e in evs}
    return bool(kinds & {"CmBuckets", "CmHashes", "Refuse", "BloomBits"})

X_SUGGEST_JOB = job("x_suggest",
    harness="x_suggest_rec", inc=["common", "count", "filters"], spec="TraceXSuggest", owners=["X05"], rec_timeout=120,
    files={Q: 4, T: 16}, par=4,
    # one file per helper group, so that a defect of one helper does not hide the others
    args=lambda tier, seed, k, profile: ["--seed", seed, "--extra", 10 if tier == Q else 60, "--part", ["cm-buckets", "cm-hashes", "cm-refuse", "bloom"][k % 4]],
    nontrivial=suggest_nontrivial,
)
X_SUGGEST_MC = [dict(module="MC_XSuggest", cfg="MC_XSuggest.cfg", workers=4)]

@prop("X05", "model_checking",
      "MC: the integer acceptance brackets of the five documented sizing formulas over a grid (5 helpers x 84 sizes x up to 20 rational arguments): "
      "never empty, at most 1 + the stated tolerance wide, the power-of-two and e^d rules single-valued away from exact boundaries, and the purpose of "
      "suggest_num_buckets (e / w <= eps, w - 2 buckets do not suffice) follows; traces: count_min_sketch::suggest_num_buckets(eps = q/p) = ceil(e p / q) "
      "for 220+ rationals in decreasing order (never decreasing; a sketch of that many buckets reports relative error <= eps; eps down to 1e-300 and 0: "
      "refused or saturated, never wrapped), suggest_num_hashes(conf = 1 - num/den) = ceil(ln(den/num)) around every e^d up to d = 14 in increasing order "
      "(never decreasing, confidence 1 included), Bloom suggest_num_hashes(n, m) = ceil(m/n ln 2), suggest_num_hashes(1/den) = ceil(log2 den) at every "
      "power of two and its neighbours up to 2^30, suggest_num_filter_bits(n, 1/den) = ceil(n ln den / (ln 2)^2) for 20 probabilities; "
      "create_by_accuracy has exactly the suggested hashes, holds the suggested bits (less than one word more) and equals create_by_size(suggested) "
      "bit for bit after the same updates; create_by_size gives the shape asked for; NaN / negative / > 1 / zero arguments are refused with invalid_argument",
      ["constants e, ln 2, ln(den)/(ln 2)^2 are bracketed at 1e-6 (1e-4 / 1e-2 where 32-bit products demand it): a result within one unit + that "
       "relative tolerance of the formula is accepted",
       "at an exact power of two fpp = 2^-j the value j + 1 is tolerated (quotient of logarithms one ulp above the integer; observed on the pinned tree for j = 29, 31, 39, ...)",
       "suggest_num_hashes(n, m) beyond the 16-bit result type is not exercised ('will provide a result': unspecified which)"])
def run_x05(oc, repo, seed, tier):
    mc_all(oc, X_SUGGEST_MC, tier)
    core.trace_job(oc, X_SUGGEST_JOB, repo, seed, tier)

# ------------------------------------------------------------------------------------------------------------------
# X06 to_string of every family
# ------------------------------------------------------------------------------------------------------------------
def tostring_nontrivial(evs):
    # non-trivial: a segment where some object was non-empty and its detailed form (items / levels / filter) was printed
    return any(e["e"] == "ToString" and e["variant"] not in ("summary",) and e["len"] > 400 for e in evs)

X_TOSTRING_JOB = job("x_tostring",
    harness="x_tostring_rec", inc=None, spec="TraceXToString", owners=["X06"], rec_timeout=120,
    files={Q: 6, T: 24}, par=6,
    args=lambda tier, seed, k, profile: ["--seed", seed, "--rounds", 2 if tier == Q else 5],
    nontrivial=tostring_nontrivial,
)
X_TOSTRING_MC = [dict(module="MC_XToString", cfg="MC_XToString.cfg", workers=2)]

@prop("X06", "exploration",
      "MC: the observer contract as a state machine (to_string renders the value under any flag, may build caches, never changes the value) and the "
      "sanity of the label table; traces: 16 families (theta update / compact, tuple, hll x3 types, cpc, kll, req, classic quantiles, tdigest, density, "
      "frequent items, count-min, bloom, var_opt, var_opt_union, ebpps) in empty / exact / estimating states, every combination of print flags: the "
      "serialized image of a copy before = after its to_string = image of a copy stringified twice = image of a copy never stringified; two calls give "
      "the same text; the parsed summary shows the getter values - integers / booleans / enumerators / 64-bit theta exactly as text (n, k, lg_k, num "
      "retained, empty, estimation mode, total weight, max error, num hashes / buckets / bits, bits_used ...), real values (estimate, bounds, theta, min / "
      "max item, cumulative weight, C) to the printed precision (5000 ppm); var_opt's h + r = get_num_samples. A segment (family group) is non-trivial when "
      "a detailed form of a non-empty object was printed",
      ["the observable state is taken to be the serialized image (compact form for the update theta / tuple sketches)",
       "labels are the ones the summaries print today; items_to_string of var_opt / ebpps has no summary and is only checked for state preservation",
       "level: exploration (the model-checked part is a small observer model, not the subject of the claim)"])
def run_x06(oc, repo, seed, tier):
    mc_all(oc, X_TOSTRING_MC, tier)
    core.trace_job(oc, X_TOSTRING_JOB, repo, seed, tier)

# ------------------------------------------------------------------------------------------------------------------
# X07 iterator protocol (two builds of one driver: plain and AddressSanitizer with stack-use-after-return detection)
# ------------------------------------------------------------------------------------------------------------------
X_ITER_FAMILIES = ["theta", "tuple", "kll", "req", "quantiles", "density", "varopt", "ebpps", "countmin"]

def iter_nontrivial(evs):
    # non-trivial: an object with more than one entry whose post-increment observations were made
    return any(e["e"] == "Iter" and len(e["pre"]) > 1 and e["postAlive"] for e in evs)

def _iter_args(tier, seed, k, profile):
    return ["--seed", seed, "--rounds", 2 if tier == Q else 6, "--family", X_ITER_FAMILIES[k % len(X_ITER_FAMILIES)]]

_ITER_INC = ["common", "theta", "tuple", "kll", "req", "quantiles", "sampling", "density", "count"]
X_ITER_JOB = job("x_iter",
    harness="x_iter", inc=_ITER_INC, spec="TraceXIter", owners=["X07"], rec_timeout=300,
    files={Q: 9, T: 27}, par=9, args=_iter_args, nontrivial=iter_nontrivial,
)
X_ITER_ASAN_JOB = job("x_iter_asan",
    harness="x_iter", inc=_ITER_INC, spec="TraceXIter", owners=["X07"], rec_timeout=600, tag="_asan",
    flags=("-g", "-fsanitize=address", "-fno-omit-frame-pointer"),
    files={Q: 9, T: 27}, par=9, args=_iter_args, nontrivial=iter_nontrivial,
)
X_ITER_MC = [dict(module="MC_XIter", cfg="MC_XIter.cfg", workers=2)]

@prop("X07", "model_checking",
      "MC: the C++ input-iterator protocol as a state machine over every sequence of up to 3 entries: with a postfix increment that returns a value "
      "every saved `prev = it++` keeps denoting the old position and a traversal by `*it++` reads the sequence; a postfix increment returning a "
      "reference to its dead temporary is rejected (negative configuration); traces: theta (update, compact, wrapped), tuple (update, compact), kll, "
      "req, classic quantiles, density, var_opt, ebpps, count-min in the states empty / one / exact / estimating / merged (union results): "
      "pre-increment from begin() yields exactly the reported number of retained entries and then equals end(); range-for, the non-const begin() and "
      "std::distance (where a difference type is declared) agree; begin() == end() iff nothing is retained; in a forked child `x = *it++` walks the "
      "same sequence, `prev = it++` equals a copy of the old position and dereferences to the old entry after `it` ran to the end - recorded twice, "
      "by a plain build and by an AddressSanitizer build with detect_stack_use_after_return (a dangling reference is then a report, not luck). "
      "A segment is non-trivial when an object with more than one entry passed the post-increment part",
      ["frequent_items_sketch, hll and cpc expose no iterator; var_opt_sketch::iterator is private (repaired by the same patch, not reachable)",
       "ebpps decides per begin() whether the partial item is shown: the library generator is reseeded alike before every traversal; the count is floor(c)..ceil(c)",
       "std::distance is used only where iterator_traits declares a non-void difference_type (theta, tuple, count-min)"])
def run_x07(oc, repo, seed, tier):
    mc_all(oc, X_ITER_MC, tier)
    oc.mc.append(core.model_check("MC_XIter", "MC_XIter_neg_ref.cfg", workers=2, expect_violation=True))
    core.trace_job(oc, X_ITER_JOB, repo, seed, tier)
    core.trace_job(oc, X_ITER_ASAN_JOB, repo, seed, tier)

# ------------------------------------------------------------------------------------------------------------------
# X08 bit packing (theta/include/bit_packing.hpp)
# ------------------------------------------------------------------------------------------------------------------
def bits_nontrivial(evs):
    # a width is non-trivial when a field crossed a byte boundary at a non-zero offset and the block of 8 was exercised
    return any(e["e"] == "Pack" and e["off"] > 0 and e["off"] + e["eb"] > 8 for e in evs) and any(e["e"] == "Block8" for e in evs)

X_BITS_JOB = job("x_bits",
    harness="x_bits_rec", inc=["common", "theta"], spec="TraceXBits", owners=["X08"], rec_timeout=300, val_timeout=2400,
    files={Q: 8, T: 16}, par=4,
    # widths 1..63 in 8 slices; thorough: the same slices twice with more random patterns
    args=lambda tier, seed, k, profile: ["--seed", seed, "--wlo", 1 + 8 * (k % 8), "--whi", min(63, 8 + 8 * (k % 8)),
                                         "--randoms", 2 if tier == Q else 12, "--rounds", 8 if tier == Q else 40],
    nontrivial=bits_nontrivial,
)
X_BITS_MC = [dict(module="MC_XBits", cfg="MC_XBits.cfg", workers=2, timeout=1800)]

@prop("X08", "model_checking",
      "MC: pack_bits / unpack_bits transcribed on byte sequences against the bit-level contract for widths 1..8 x every value x offsets 0..7 x three "
      "states of the first destination byte, with canaries (35 144 states): returned offset and pointer advance, neighbours untouched, bits before "
      "the field kept, field = value most significant bit first and the rest of the last byte zero when the rest of the first byte was zero, round "
      "trip, and two values packed in sequence = the bytes spec/Layout.tla (BitsMSB / PackBits) defines for the compressed theta image; the field is "
      "NOT right when the first byte's tail was dirty (negative configuration: the documented precondition of the OR); traces: the real functions for "
      "every width 1..63 at every offset 0..7, 10+ patterns (zero, all ones, single ones at both ends / middle / random, alternating, random), "
      "destination zero / only first-byte tail zero with 0xFF behind / dirty, canary bytes on both sides; unpack from the packed bytes and from "
      "arbitrary bytes placed flush against a PROT_NONE page; pack_bits_block8 / unpack_bits_block8 for every width: exactly `bits` bytes written into "
      "a non-zeroed destination, equal to 8 single packs, round trip by block and by 8 single unpacks. A segment (one width) is non-trivial when a "
      "field crossed a byte boundary at a non-zero offset",
      ["63-bit values are four 16-bit limbs; the contract is stated bit by bit (TLC integers are 32-bit)",
       "values always fit their width ('we assume that higher bits (which we are not packing) are zeros')",
       "a dirty first-byte tail is outside the documented use: only the protection of the neighbouring bytes and of the bits before the field is demanded there"])
def run_x08(oc, repo, seed, tier):
    mc_all(oc, X_BITS_MC, tier)
    oc.mc.append(core.model_check("MC_XBits", "MC_XBits_neg_dirty.cfg", workers=2, expect_violation=True))
    core.trace_job(oc, X_BITS_JOB, repo, seed, tier)

# ------------------------------------------------------------------------------------------------------------------
# X09 shared integer / serde helpers of common/include
# ------------------------------------------------------------------------------------------------------------------
def common_nontrivial(evs):
    kinds = {e["e"] for e in evs}
    if "SerdeStr" in kinds:
        return any(e["e"] == "SerdeStr" and len(e["items"]) > 1 and len(e["cutR"]) > 8 for e in evs)
    if "Binom" in kinds:
        return any(e["e"] == "Binom" and 1 < e["k"] < e["n"] - 1 for e in evs)
    return bool(kinds & {"Zeros", "Erf"})

X_COMMON_JOB = job("x_common",
    harness="x_common_rec", inc=["common"], spec="TraceXCommon", owners=["X09"], rec_timeout=300, val_timeout=2400,
    files={Q: 3, T: 12}, par=3,
    args=lambda tier, seed, k, profile: ["--seed", seed, "--part", ["integers", "serde", "binomial"][k % 3], "--randoms", 20 if tier == Q else 120,
                                         "--rounds", 6 if tier == Q else 24],
    nontrivial=common_nontrivial,
)
X_COMMON_MC = [dict(module="MC_XCommon", cfg="MC_XCommon.cfg", workers=2, timeout=1800)]

@prop("X09", "model_checking",
      "MC: the or-shift cascade of ceiling_power_of_2 (16-bit scale) against 'the power of two r with r/2 < n <= r' for 0..40000, the formula of "
      "lg_size_from_count against 'smallest g with n <= 2^g x load factor' for n <= 4096 and load factors 1/2, 3/4, 15/16 (1/4 is rejected: "
      "negative configuration), and the std::string serde layout (decode(encode) = identity, length = sum of size_of_item, EVERY proper prefix refused) "
      "for all 57 sequences of <= 2 strings of <= 2 bytes; traces: count_leading_zeros_in_u64/_u32 and count_trailing_zeros_in_u32/_u64 on 0, every "
      "single bit, 2^k +- 1, masks and random values (0 -> width); ceiling_power_of_2 and log2 on the same 32-bit set; lg_size_from_count around every "
      "power of two up to 2^23 for 4 load factors; all 256 entries of INVERSE_POWERS_OF_2 by their IEEE bit pattern; byteswap 2/4/8, stream write / "
      "read / read_big_endian and the refused short read; check_memory_size / ensure_minimum_memory on a 6x6 grid; arithmetic serde for 7 types "
      "(image = items back to back in little-endian order, bytes = stream, returned sizes, nothing written past the image, round trip, every shorter "
      "capacity / truncation refused on all three paths) and std::string serde (32-bit length + bytes, empty strings, embedded NULs, size_of_item, same "
      "checks, the contract's own decoder agrees); erf / normal_cdf against tabulated values (2e-6), odd / complementary; approximate Clopper-Pearson "
      "bounds for n in {0..1000} x all k x {0.5,1,2,3} std devs: 0 <= lb <= k/n <= ub <= 1, widening with the std devs, never decreasing with k, "
      "corners n = 0 / k = 0 / k = n, k > n refused with invalid_argument",
      ["the platform is little-endian (the library's serde images are host order by definition)",
       "ceiling_power_of_2(0) and above 2^31, log2(0), lg_size_from_count with a load factor below 1/2 are outside the documented domain: free",
       "monotonicity of the binomial bounds in k is a property of the exact Clopper-Pearson interval; the approximation is required to keep it on the grid"])
def run_x09(oc, repo, seed, tier):
    mc_all(oc, X_COMMON_MC, tier)
    oc.mc.append(core.model_check("MC_XCommon", "MC_XCommon_neg_lf.cfg", workers=2, expect_violation=True))
    core.trace_job(oc, X_COMMON_JOB, repo, seed, tier)
