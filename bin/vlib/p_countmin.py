"""C14 - count-min sketch."""
import os
from . import core
from .props import prop, job, mc_all, Q, T


def cm_nontrivial(evs):
    # a segment is non-trivial if it merged two compatible sketches that both carried weight (and was compared with the
    # witness fed the concatenated stream), or if it is a statistical trial
    total = {}
    for e in evs:
        k = e["e"]
        if k == "Stat":
            return True
        if k in ("Update", "New", "Copy", "Deser"):
            total[e.get("id", e.get("dst"))] = e["total"]
        elif k == "Merge":
            if e["outcome"] == "ok" and total.get(e["src"], 0) > 0 and total.get(e["dst"], 0) > 0:
                return True
            total[e["dst"]] = e["total"]
    return False


def _args(tier, seed, k, profile):
    return ["--seed", seed, "--segments", 5 if tier == Q else 7, "--events", 220 + 40 * (k % 3),
            "--maxrows", 8, "--serde", 18 if profile == "serde" else 3, "--stats", 2 if tier == Q else 4,
            "--hstats", 2 if tier == Q else 4]


CM_JOB = job("countmin",
    harness="cm_rec", inc=["common", "count"], spec="TraceCountMin", owners=["C14"], serde=True,
    files={Q: 8, T: 40}, args=_args, nontrivial=cm_nontrivial,
    rec_timeout=240,     # a recording takes seconds; a driver that hangs inside the library is reported as a crash
)

# 64-bit weights (totals crossing 2^53): the same driver with --wide 1, every number logged as 4 limbs of 20 bits and the same
# trace specification / contract evaluated on exact wide naturals (TraceCountMinW.cfg: WideNums = TRUE)
CM_WIDE_JOB = job("countmin_wide",
    harness="cm_rec", inc=["common", "count"], spec="TraceCountMin", cfg="TraceCountMinW.cfg", owners=["C14"],
    files={Q: 2, T: 8},
    args=lambda tier, seed, k, profile: ["--seed", seed, "--segments", 4 if tier == Q else 6, "--events", 200, "--maxrows", 6,
                                         "--serde", 3, "--stats", 0, "--hstats", 0, "--wide", 1],
    nontrivial=lambda evs: any(e["e"] == "Merge" and e["outcome"] == "ok" for e in evs), rec_timeout=240,
)

CM_MC = [
    dict(module="MC_CountMinDesign", cfg="MC_CountMinDesign.cfg"),
    dict(module="MC_CountMinDesign", cfg="MC_CountMinDesign_cfg.cfg"),
    dict(module="MC_CountMin", cfg="MC_CountMin.cfg"),
    dict(module="MC_CountMinDesign", cfg="MC_CountMinDesign_t.cfg", tier=T),
]


def drift_pass(oc, repo, seed, tier, nfiles):
    """Tier B (design-level clauses B:...: learned row-hash function, estimate = row minimum, upper-bound formula, merge =
    cell-wise sum) on re-recorded traces.  A rejection here is model drift (exit 0), never a violation (DESIGN 2)."""
    exe = core.build_harness(CM_JOB["harness"], repo, CM_JOB["inc"])
    os.makedirs(os.path.join(core.BUILD, "tr"), exist_ok=True)
    for k in range(nfiles):
        fseed = seed * 1000 + k
        path = os.path.join(core.BUILD, "tr", "%s.cm_rec.B.%d.%d.ndjson" % (oc.prop, fseed, os.getpid()))
        rc, out = core.record(exe, _args(tier, fseed, k, "default"), path)
        if rc != 0:
            continue
        lines = open(path).read().splitlines()
        os.remove(path)
        res = core.validate_lines("TraceCountMin", "TraceCountMinB.cfg", lines, "%s.cmB.%d" % (oc.prop, fseed))
        if not res["accepted"]:
            oc.drift.append("count-min design clauses rejected seed %d at event #%d %s %s"
                            % (fseed, res["reject_index"], lines[res["reject_index"]][:160], " ".join(res["rejects"][:3])))
    oc.notes.append("tier B (learned row-hash function, row minimum, upper-bound formula, cell-wise merge) validated on %d re-recorded files" % nfiles)


@prop("C14", "model_checking",
      "MC: exhaustive TLC runs of the count-min design model (one cell per row, row minimum, upper-bound formula, cell-wise merge, refusal of self / "
      "incompatible merges) for EVERY row hash function up to bucket renaming, refining the CountMin contract (estimate >= truth, <= total, lb <= est <= ub "
      "as invariant on every answer; merged cells = cells of any sketch fed the concatenated stream), and of the multi-object contract itself; a negative "
      "config (merge forgetting a row) must be rejected by TLC.  Traces: randomized histories of the real count_min_sketch<uint64_t> / <int64_t> (rows 1..8 "
      "and 255, buckets 3..257, seeds, int64 / uint64 / string / raw-bytes items, zero weights, merge trees with a real witness sketch fed the concatenated "
      "stream, self and incompatible merges, copies, serialization), every event validated by TLC against the contract with the ground truth accumulated from "
      "the logged inputs; seeded statistical trials (2000 sketches x 5 items) judged by Verdict (exceedances <= n e^-rows + 6 worst-case standard errors + 10); "
      "a segment is non-trivial when two compatible non-empty sketches were merged or it is a statistical trial; distinct = distinct segment content hash",
      ["the row-hash function (row seeds from std::default_random_engine) is not published: tier A never interprets cells, tier B learns it from the trace",
       "weights are non-negative integers; totals stay far below 2^31",
       "statistical clause: indicators inside one sketch are treated as fully correlated (standard error m*sqrt(S p (1-p))), sketches with different seeds as independent; "
       "level of that clause: exploration"])
def run_c14(oc, repo, seed, tier):
    mc_all(oc, CM_MC, tier)
    neg = core.model_check("MC_CountMinDesign", "MC_CountMinDesign_neg.cfg", workers=4, timeout=300, expect_violation=True)
    oc.notes.append("negative config MC_CountMinDesign_neg.cfg (merge forgets the last row): TLC reports %s" % (neg["errors"][:1],))
    core.trace_job(oc, CM_JOB, repo, seed, tier)
    core.trace_job(oc, CM_WIDE_JOB, repo, seed, tier)
    if not oc.violations:
        drift_pass(oc, repo, seed, tier, 2 if tier == Q else 6)
