"""C07 / C08 - KLL, REQ and classic quantiles sketches."""
from . import core
from .props import prop, job, mc_all, Q, T


def quant_nontrivial(evs):
    # a segment is non-trivial if a merge joined two non-empty sketches of which at least one was estimating (compacted),
    # or an update happened on an estimating sketch whose full projection was later observed
    est_obs = False
    merged = False
    n = {}
    est = {}
    for e in evs:
        k = e.get("id", e.get("dst"))
        if e["e"] == "Merge":
            if n.get(e["dst"], 0) > 0 and n.get(e["src"], 0) > 0 and (est.get(e["dst"]) or est.get(e["src"])):
                merged = True
        if e["e"] == "Obs" and e.get("est") and "ranks" in e:
            est_obs = True
        if "n" in e and k is not None:
            n[k] = e["n"]
            est[k] = e.get("est", False)
    return merged and est_obs


def _quant_args(tier, seed, k, profile):
    serde = 18 if profile == "serde" else 4
    if tier == Q:
        return ["--seed", seed, "--segments", 6, "--events", 420 + 40 * (k % 4), "--maxn", 1200 + 400 * (k % 3), "--kscale", 1, "--serde", serde]
    return ["--seed", seed, "--segments", 9, "--events", 700 + 100 * (k % 5), "--maxn", 2500 + 1500 * (k % 3), "--kscale", 2 if k % 3 == 0 else 1, "--serde", serde]


QUANT_JOB = job("quantiles",
    harness="quant_rec", inc=["common", "kll", "req", "quantiles"], spec="TraceQuantiles", owners=["C07"], serde=True,
    files={Q: 8, T: 64}, args=_quant_args, nontrivial=quant_nontrivial, heap="4g",
)

# tier B (MODEL-DRIFT): further files (other seeds) validated against the contract and then again with the design-level shadow
# state: the operators of spec/KllMech.tla / ClassicQMech.tla / ReqMech.tla (the same modules the design models are built from) with the
# code's constants (KLL m = 8, REQ 3 initial sections and the real section-size tables, classic k) and the logged coins must predict
# the observed levels, level sizes, number of levels, compaction counters and section sizes
QUANT_B_JOB = job("quantiles_b",
    harness="quant_rec", inc=["common", "kll", "req", "quantiles"], spec="TraceQuantiles", owners=["C07"], serde=False,
    cfg="TraceQuantiles.cfg", drift_cfg="TraceQuantilesB.cfg", files={Q: 3, T: 16},
    args=lambda tier, seed, k, profile: _quant_args(tier, seed + 500, k + 3, profile), nontrivial=quant_nontrivial, heap="4g",
)

# every design config checks refinement (C07) AND the martingale / schedule invariants (C08(b)); the quick tier splits them
# between the two properties to stay inside the budget, the thorough tier runs all of them for both
KLL_MERGE = dict(module="KllDesign", cfg="MC_KllDesign_merge.cfg")
KLL_UPD = dict(module="KllDesign", cfg="MC_KllDesign_upd.cfg")
REQ_EXEC = dict(module="MC_ReqDesign", cfg="MC_ReqDesign.cfg")
REQ_ENS = dict(module="MC_ReqDesign", cfg="MC_ReqDesign_ens.cfg")
CLQ_MERGE = dict(module="ClassicQDesign", cfg="MC_ClassicQDesign_merge.cfg")
CLQ_UPD = dict(module="ClassicQDesign", cfg="MC_ClassicQDesign_upd.cfg")
DESIGN_T = [
    dict(module="KllDesign", cfg="MC_KllDesign_upd_t.cfg", tier=T, timeout=3000),
    dict(module="KllDesign", cfg="MC_KllDesign_merge_k3_t.cfg", tier=T, timeout=3000),
    dict(module="KllDesign", cfg="MC_KllDesign_merge_k4_t.cfg", tier=T, timeout=3000),
    dict(module="KllDesign", cfg="MC_KllDesign_merge_k34_t.cfg", tier=T, timeout=3000),
    dict(module="MC_ReqDesign", cfg="MC_ReqDesign_t.cfg", tier=T, timeout=3000),
    dict(module="MC_ReqDesign", cfg="MC_ReqDesign_ens_t.cfg", tier=T, timeout=3000),
    dict(module="MC_ReqDesign", cfg="MC_ReqDesign_ens2_t.cfg", tier=T, timeout=3000),
    dict(module="MC_ReqDesign", cfg="MC_ReqDesign_ens3_t.cfg", tier=T, timeout=3000),
    dict(module="ClassicQDesign", cfg="MC_ClassicQDesign_upd_t.cfg", tier=T, timeout=3000),
    dict(module="ClassicQDesign", cfg="MC_ClassicQDesign_merge_t.cfg", tier=T, timeout=3000),
]
QUANT_MC = [dict(module="MC_Quantiles", cfg="MC_Quantiles.cfg"), KLL_MERGE, REQ_EXEC, CLQ_MERGE,
            dict(KLL_UPD, tier=T), dict(REQ_ENS, tier=T), dict(CLQ_UPD, tier=T)] + DESIGN_T
COIN_MC = [KLL_UPD, REQ_ENS, CLQ_UPD, dict(KLL_MERGE, tier=T), dict(REQ_EXEC, tier=T), dict(CLQ_MERGE, tier=T)] + DESIGN_T


@prop("C07", "model_checking",
      "MC: exhaustive TLC run of the multi-object quantiles contract (every bag of pairs the clauses admit as candidate post-state) and of the "
      "KLL / REQ / classic design models refining it; traces: randomized histories of the real kll_sketch / req_sketch / quantiles_sketch "
      "(float, double with NaN, int64, std::string under a reversing comparator; sorted / reversed / random / constant / heavy-duplicate streams; "
      "merge trees with unequal k, empty / exact / estimating operands, lvalue / rvalue; iteration of empty sketches; sorted view, rank, quantile, "
      "CDF, PMF and invalid queries; serde), every event validated by TLC against the contract; tier B: further files validated again with a design-level "
      "shadow state per sketch (the design models' own operators with the code's constants and the logged coins must predict levels, sizes, compaction "
      "counters, section sizes; a rejection there is MODEL-DRIFT, exit 0); a segment (Begin..next Begin) is non-trivial when "
      "it merged two non-empty sketches with at least one estimating and later answered queries on an estimating sketch; distinct = distinct segment content hash",
      ["items are abstracted to their rank under the comparator (order-isomorphic renaming by bin/vlib/munge.py); the contract uses only order/equality on them",
       "rank * n is logged as an integer with the residual required below 1e-6; quantiles are asked at mid-point ranks (w + 1/2)/n and dyadic ranks a/2^m, "
       "for which ceil/floor of rank * n in binary floating point are exact",
       "the space bound is the one the sketch publishes itself: KLL serialized size <= get_max_serialized_size_bytes(k, n); REQ retained <= 'Capacity items' "
       "of to_string(); classic retained = (n mod 2k) + k * popcount(n div 2k)",
       "traces cover KLL k 8..64 (200 thorough), REQ k 4..24 (50), classic k 2..32 (128), n up to a few thousand per sketch"])
def run_c07(oc, repo, seed, tier):
    mc_all(oc, QUANT_MC, tier)
    core.trace_job(oc, QUANT_JOB, repo, seed, tier)
    core.trace_job(oc, QUANT_B_JOB, repo, seed, tier)


# ---------------------------------------------------------------------------------------------------------------------
# C08
# ---------------------------------------------------------------------------------------------------------------------
# harness/coin_rec.cpp --count 1 [--shapes4 1]: parts 0..14 single scenarios (the classic ones carry the exhaustive down-sampling
# merges too), 15..17 duplicate-heavy streams per family (outlier + copies, two values, runs of equal values; plain and merged),
# 18 copies (the history continues on a copy taken at several points; classic merges into a target whose sorted view is cached),
# then the REQ merge-shape batches (each also with the merged sketch replaced by a copy of itself): 108 scenarios over 3 sketches (6 parts), thorough + 648 over 4 sketches (12 parts)
N_PARTS = {Q: 25, T: 37}


def coin_nontrivial(evs):
    # a coin tree is non-trivial if the scenario drew at least one flip and two leaves answer differently (the coins mattered)
    leaves = [e for e in evs if e["e"] == "Leaf"]
    return len(leaves) >= 2 and any(l["le"] != leaves[0]["le"] for l in leaves[1:])


COIN_JOB = job("quantcoin",
    harness="coin_rec", inc=["common", "kll", "req", "quantiles"], spec="TraceCoin", owners=["C08"],
    files=N_PARTS,
    args=lambda tier, seed, k, profile: ["--seed", seed // 1000, "--fmax", 12 if tier == Q else (16 if k < 19 else 14), "--part", k,
                                         "--shapes4", 0 if tier == Q else 1],
    nontrivial=coin_nontrivial, heap="6g", par=6,
)

ERR_JOB = job("quanterr",
    harness="quant_err_rec", inc=["common", "kll", "req", "quantiles"], spec="TraceQuantErr", owners=["C08"], flags=("-O2",),
    files={Q: 4, T: 4},     # kll, classic, req (published error: flat + depth-2 mixed-k trees), classic down-sampling merge (unbiasedness)
    args=lambda tier, seed, k, profile: ["--seed", seed // 1000 + 17 * k, "--fam", k,
                                         "--trials", (2100 if tier == Q else 30000) if k == 3 else (24 if tier == Q else 96),
                                         "--n", 100000 if tier == Q else 1000000],
    nontrivial=lambda evs: sum(1 for e in evs if e["e"] == "Trial") >= 8,
)


@prop("C08", "model_checking",
      "(a) exhaustive coin trees on the real classes: 15 fixed scenarios (KLL k=8, REQ k=4 both modes, classic k=2; plain updates, duplicates, merges "
      "lvalue/rvalue/unequal k, an exact sketch absorbing an estimating one), 108 REQ merge-shape scenarios (every merge tree over 3 sketches whose level-0 "
      "compactors are never compacted / even non-zero / odd, two length variants; thorough: + 648 over 4 sketches) and 6 classic down-sampling merges (k ratio "
      "2, 4, 8, every stride-offset sequence dictated by seeding random_utils::rand) are executed once per coin string for ALL 2^f strings (f <= 12 quick, 16 thorough) "
      "through the coin hook; TLC requires every leaf to draw exactly f flips and sum over leaves of rank(v) * n = 2^f * true weight for every probe value, "
      "inclusive and exclusive; (b) MC: martingale / schedule invariants of the KLL, REQ (ensemble semantics) and classic design models, exhaustive for small "
      "constants; (c) published error: seeded long-stream trials (single sketches, 8-way merges, depth-2 merge trees with k 16 vs 200 / 128 in every position) "
      "judged per group by integer thresholds at 6 standard errors + 0.02, and mean signed rank error = 0 for the classic down-sampling merge "
      "(2100 / 30000 seeded trials, 6 standard errors + 0.002) (level: exploration). "
      "A coin-tree segment is non-trivial when two of its leaves answer differently; distinct = distinct segment content hash",
      ["the coin hook (random_utils::random_bit.source, -DDATASKETCHES_VERIF) is the only source of the sketches' fair coin; the classic down-sampling merge "
       "draws its offsets from random_utils::rand: (a) enumerates them by seeding that engine, assuming one std::uniform_int_distribution<uint16_t>(0, stride-1) "
       "draw per populated source level (the harness verifies the number of engine draws and skips the exhaustive scenario otherwise); the statistical "
       "unbiasedness trials of (c) do not depend on that assumption; (b) does not model the down-sampling merge",
       "REQ merges with the small k below the top of the tree are the recorded known finding C08:req-mixed-k-merge-bounds: the directed group req-mixed-k "
       "demonstrates it in every run (marker, exit 0); the same coverage clause in any other group is a violation",
       "rank(v) * n is logged as an integer with the residual required below 1e-6",
       "(c) is an acceptance predicate over samples: thresholds p + 6 sqrt(p(1-p)/trials) + 0.02, trials (not queries) counted as independent"])
def run_c08(oc, repo, seed, tier):
    mc_all(oc, COIN_MC, tier)
    core.trace_job(oc, COIN_JOB, repo, seed, tier)
    core.trace_job(oc, ERR_JOB, repo, seed, tier)
