"""C17 - t-digest: weight conservation, exact extremes, monotone rank / quantile, bounded size, accuracy envelope."""
from . import core
from .props import prop, job, mc_all, Q, T

def tdigest_nontrivial(evs):
    # non-trivial: at least one compress resolved as a real coarsening (centroid list logged by a call that merged
    # buffered values or another sketch into existing centroids) AND at least one rank or quantile grid was judged
    comp = sum(1 for e in evs if "cent" in e and e["e"] in ("Update", "Merge", "Compress", "RankGrid", "QuantGrid", "Cdf", "Ser") and len(e["cent"]) > 1)
    grids = sum(1 for e in evs if e["e"] in ("RankGrid", "QuantGrid"))
    return comp >= 2 and grids >= 1

def stat_nontrivial(evs):
    return sum(1 for e in evs if e["e"] == "Trial") >= 40

TDIGEST_JOB = job("tdigest",
    harness="tdigest_rec", inc=["common", "tdigest"], spec="TraceTDigest", owners=["C17"], serde=True,
    files={Q: 8, T: 48},
    args=lambda tier, seed, k, profile: ["--seed", seed, "--segments", 5 if tier == Q else 8, "--events", (220 if tier == Q else 420) + 30 * (k % 4),
                                         "--bigk", 0 if tier == Q else 20,
                                         "--serde", 20 if profile == "serde" else 4, "--ref", "/repo/tdigest/test",
                                         "--hdr", 70 if profile == "serde" else 2, "--restore", 1 if k == 0 else 0],
    nontrivial=tdigest_nontrivial,
)

# seeded accuracy trials (long streams: 10^3 .. 3*10^5 values, k 10..500, merges of up to 20 parts) plus one trial each at
# k = 1000, 8192, 32767, 32768, 32769, 40000, 65535 (2*10^4 .. 6*10^4 values; thorough: 10^6), one verdict per file
TDIGEST_STAT_JOB = job("tdigest_stat",
    harness="tdigest_rec", inc=["common", "tdigest"], spec="TraceTDigest", owners=["C17"], serde=False,
    files={Q: 2, T: 8},
    args=lambda tier, seed, k, profile: ["--seed", seed, "--trials", 48 if tier == Q else 160, "--bign", 0 if tier == Q else 1000000],
    nontrivial=stat_nontrivial,
)

# directed segments: the centroid bound under pressure - a compress point after every single update (k 10, 50, 200),
# chains of several hundred merges of 1..8-value sketches, degenerate contents (empty / NaN only / one value / equal values / constant),
# infinite extremes with a dense quantile sweep,
# thorough: streams of 1.2 * 10^6 values (k 100, 200)
TDIGEST_BOUND_JOB = job("tdigest_bound",
    harness="tdigest_rec", inc=["common", "tdigest"], spec="TraceTDigest", owners=["C17"], serde=False,
    files={Q: 7, T: 9}, heap="6g",
    args=lambda tier, seed, k, profile: ["--seed", seed, "--directed", k],
    nontrivial=lambda evs: sum(1 for e in evs if "cent" in e) >= 100 or sum(1 for e in evs if e["e"] in ("RankGrid", "QuantGrid", "Cdf")) >= 100 or any(e["e"] == "UpdateInf" for e in evs),
)

TDIGEST_MC = [
    dict(module="TDigest", cfg="MC_TDigest.cfg"),
    dict(module="TDigest", cfg="MC_TDigest_merge.cfg"),
]

@prop("C17", "model_checking",
      "MC: exhaustive TLC runs of the t-digest contract (every contiguous coarsening with every admissible mean at every compress, merges in "
      "both directions) checking weight conservation, exact extremes, sortedness, capacity; traces: randomized histories of the real "
      "tdigest<double>/tdigest<float> (duplicate-heavy / sorted / reversed / clustered / constant / wide-range streams, NaN, infinities, "
      "merges, copies, images of the reference implementation incl. heavy extreme centroids, serde with twins continued in lock-step), every "
      "event validated by TLC: each compress must be a contiguous coarsening of the model's previous content, rank and quantile judged on "
      "dense grids built around every centroid boundary; a segment is non-trivial when >= 2 multi-centroid compresses were resolved and >= 1 "
      "grid judged, a statistics file when >= 40 trials were judged, a directed centroid-bound segment (compress point after every update / "
      "merge chains of tiny sketches / 1.2e6-value streams) when >= 100 compresses were resolved; distinct = distinct segment content hash",
      ["doubles are renamed order-isomorphically (bin/vlib/munge.py); the contract uses only order/equality on values, means, ranks",
       "the projection (centroid means/weights, buffer) is read from serialize(0, with_buffer=true) + to_string(), both free of side effects",
       "accuracy envelope: normalized error err / (q(1-q)/k + 1/n) from the documented scale function (cluster size ~ q(1-q)); mean over >= 40 "
       "seeded trials <= 2.5 (calibrated mean 0.45, per-trial sd <= 1.2: 6 standard errors + 0.9 slack), each probe <= 40",
       "streams of up to 3*10^5 values; centroid weights < 2^31",
       "infinities are outside the statement (finite values): after one is accepted only weight and extremes are judged",
       "a lone centroid of weight > 1 (only constructible by a hand-made reference image) is not generated"])
def run_c17(oc, repo, seed, tier):
    mc_all(oc, TDIGEST_MC, tier)
    core.trace_job(oc, TDIGEST_JOB, repo, seed, tier)
    core.trace_job(oc, TDIGEST_STAT_JOB, repo, seed, tier)
    core.trace_job(oc, TDIGEST_BOUND_JOB, repo, seed, tier)
