"""C16 - VarOpt sketch / union; C18 - EBPPS sketch."""
from concurrent.futures import ThreadPoolExecutor
from . import core
from .props import prop, job, Q, T


# ------------------------------------------------------------------------------------------------------------------
# C16 VarOpt
# ------------------------------------------------------------------------------------------------------------------
def varopt_nontrivial(evs):
    # a segment is non-trivial if a sketch in estimation mode (n > k) showed at least two different iterated weights
    # (an exactly kept heavy item next to reservoir items carrying tau), or a union of >= 2 inputs returned a result
    # in estimation mode, or the segment carried a statistical verdict (400 seeded runs per statistic)
    nupd = {}
    for e in evs:
        t = e["e"]
        if t == "Stat":
            return True
        s = e.get("s")
        if t in ("Update", "Obs") and isinstance(s, dict) and s["n"] > s["k"] and len(set(s["g"])) >= 2:
            return True
        if t in ("UNew", "UReset", "DeserU"):
            nupd[e["u"]] = 0
        elif t == "UUpdate":
            nupd[e["u"]] = nupd.get(e["u"], 0) + 1
        elif t == "UResult" and isinstance(s, dict) and nupd.get(e["u"], 0) >= 2 and s["n"] > s["k"]:
            return True
    return False


def _varopt_args(tier, seed, k, profile):
    if tier == Q:
        segs, events, maxk, stat = 5, 700, 24, 2
    else:
        segs, events, maxk, stat = 8, 1200, (64 if k % 4 == 0 else 24), 4
    # file 0 starts with the directed histories on which the pinned tree was found to throw / to lose a heavy item
    return ["--seed", seed, "--segments", segs, "--events", events, "--maxk", maxk, "--stat", stat,
            "--serde", 12 if profile == "serde" else 4, "--directed", 1 if k == 0 else 0]


VAROPT_JOB = job("varopt",
    harness="varopt_rec", inc=["common", "sampling"], spec="TraceVarOpt", owners=["C16"], serde=True,
    files={Q: 8, T: 40},
    args=_varopt_args,
    nontrivial=varopt_nontrivial,
)

VAROPT_MC = [
    # design model of var_opt_sketch::update refining the contract: every weight sequence over {1,2,3,10} of 6 (quick) / 7 (thorough)
    # items, every deletion choice
    dict(module="VarOptDesign", cfg="MC_VarOptDesign_k2_n6.cfg", workers=3),
    dict(module="VarOptDesign", cfg="MC_VarOptDesign_k3_n6.cfg", workers=3),
    dict(module="VarOptDesign", cfg="MC_VarOptDesign_k1.cfg", workers=4, tier=T),
    dict(module="VarOptDesign", cfg="MC_VarOptDesign_k2.cfg", workers=4, tier=T),
    dict(module="VarOptDesign", cfg="MC_VarOptDesign_k3.cfg", workers=4, tier=T),
    dict(module="VarOptDesign", cfg="MC_VarOptDesign_k4.cfg", workers=4, tier=T),
    # the multi-object contract itself: sketches, copies, a union and its results, every sample the clauses admit
    dict(module="MC_VarOpt", cfg="MC_VarOpt.cfg", workers=6),
    dict(module="MC_VarOpt", cfg="MC_VarOpt_n3.cfg", workers=6, tier=T),
]
# negative configurations: a seeded fault in the MODEL must be reported by TLC as a violation of the CONTRACT
VAROPT_MC_NEG = [
    dict(module="VarOptDesign", cfg="MC_VarOptDesign_neg1.cfg"),   # candidate-set growth goes one item too far
    dict(module="VarOptDesign", cfg="MC_VarOptDesign_neg2.cfg"),   # weight lost when items move into the reservoir
]


def _mc_parallel(oc, runs, negs, tier):
    runs = [r for r in runs if not (r.get("tier", Q) == T and tier != T)]

    def one(r):
        return core.model_check(r["module"], r["cfg"], workers=r.get("workers", 4), timeout=900, heap="4g")

    def neg(r):
        return core.model_check(r["module"], r["cfg"], workers=2, timeout=300, heap="2g", expect_violation=True)

    with ThreadPoolExecutor(max_workers=max(1, len(runs) + len(negs))) as ex:
        pos = [ex.submit(one, r) for r in runs]
        ngs = [ex.submit(neg, r) for r in negs]
        for f in pos:
            oc.mc.append(f.result())
        if negs:
            oc.extra["negative_model_configs_reported_by_tlc"] = [f.result()["cfg"] for f in ngs]


def _varopt_drift(oc, repo, seed, tier):
    """Tier B (DESIGN 2, drift detection): update histories of single sketches, recorded with the size of the H region
    as printed by to_string(), are replayed through the design model (TraceVarOptDesign: the H / R split, total_wt_r and
    the deleted candidate must be what VarOptDesign computes).  A tier-B rejection of a trace that the contract accepts
    is MODEL-DRIFT (exit 0); a trace the contract rejects is triaged like one of the main job."""
    import os
    exe = core.build_harness(VAROPT_JOB["harness"], repo, VAROPT_JOB["inc"])
    n = 4 if tier == Q else 12

    def one(k):
        fseed = seed * 1000 + 700 + k
        args = ["--seed", fseed, "--segments", 8, "--events", 450, "--maxk", 24 if k % 2 == 0 else 8, "--design", 1, "--stat", 0]
        path = os.path.join(core.BUILD, "tr", "C16.drift.%d.%d.ndjson" % (fseed, os.getpid()))
        rc, out = core.record(exe, args, path)
        lines = open(path).read().splitlines() if os.path.exists(path) else []
        if os.path.exists(path):
            os.remove(path)
        if rc != 0 or not lines:
            return fseed, args, None, None, lines      # harness crashes are reported by the main trace job
        rb = core.validate_lines("TraceVarOptDesign", "TraceVarOptDesign.cfg", lines, "C16.B.%d" % fseed)
        ra = None
        if not rb["accepted"]:
            ra = core.validate_lines("TraceVarOpt", "TraceVarOpt.cfg", lines, "C16.BA.%d" % fseed)
        return fseed, args, rb, ra, lines

    os.makedirs(os.path.join(core.BUILD, "tr"), exist_ok=True)
    with ThreadPoolExecutor(max_workers=6) as ex:
        res = list(ex.map(one, range(n)))
    ok = ev = 0
    for fseed, args, rb, ra, lines in res:
        if rb is None:
            continue
        if rb["accepted"]:
            ok += 1
            ev += rb["nevents"]
        elif ra["accepted"]:
            oc.drift.append("seed %d: design model TraceVarOptDesign rejects event #%d %s %s while the contract accepts the whole trace "
                            "(the code no longer follows the modelled mechanism; not a violation)"
                            % (fseed, rb["reject_index"], lines[rb["reject_index"]][:160], " ".join(rb["rejects"][:2])))
        else:
            segs = core.split_segments(lines)
            ri = ra["reject_index"]
            bad = [sg for sg in segs if sg[0] <= ri < sg[0] + len(sg[1])][0]
            core.triage(oc, VAROPT_JOB, fseed, args, bad[1][: ri - bad[0] + 1], ra)
    oc.extra["tierB_files_accepted"] = ok
    oc.extra["tierB_events"] = ev
    core.log("  tier B: %d/%d files accepted by TraceVarOptDesign (%d events), %d drift" % (ok, n, ev, len(oc.drift)))


@prop("C16", "model_checking",
      "MC: exhaustive TLC runs of the VarOpt design model (warm-up, light / heavy r=1 / heavy general dispatch, candidate-set growth, "
      "one deleted candidate) refining the contract, of the multi-object contract (sketch, copies, union results), and two negative "
      "design variants that TLC must reject; traces: randomized histories of the real var_opt_sketch<int64_t / std::string> and "
      "var_opt_union (8 weight profiles, k 1..24(64), lvalue/rvalue updates, invalid k / weights, copies, reset, unions of sketches with "
      "different k and fill incl. light-many against heavy-few inputs, pure-reservoir inputs of different k and results fed on and updated, damaged images refused, zero-weight updates ignored at every state, weight units 1/1024 .. 2^20 per segment (streams of weights all < 1, all > 10^6, mixed), StatIncl events (inclusion k/(n+a) of the first arrivals after copy / assignment / restore of an estimation-mode sketch, 1000 seeded runs per checkpoint kind, 6 sigma), reset() of sketches and unions from every gadget mode followed by a second life in every mode, copy / move construction and assignment between unions in different modes, every Obs repeated through a copied-iterator traversal idiom, serde of sketches and unions with continued use of the restored objects, directed restore-then-continue in lock-step at the empty / one-item / just-reset states of sketches and unions in every file), "
      "every event validated by TLC against the contract: |sample| = min(n,k), sample from the input, one common reservoir weight, "
      "H + tau*|R| = exact total, every item heavier than tau kept exactly, estimate over everything = total, lb <= est <= ub for 6 predicates, "
      "union result n / total / items / k <= max_k; Stat events: 400 seeded runs per statistic, |sum(est - truth)| <= 6*sqrt(sum (est-truth)^2) + T/2 + 1; "
      "a segment (Begin..next Begin) is non-trivial when a sketch in estimation mode showed an exact heavy item next to reservoir items, "
      "a union of >= 2 inputs returned an estimation-mode result, or it carried a statistical verdict; distinct = distinct segment content hash",
      ["drivers offer distinct items with integer weights (totals <= 4*10^5), so tau*|R| and all sums are integers and every comparison is exact; "
       "tau*|R| is read off the iteration as round(weight * multiplicity) with residual <= 1e-9*total + 1e-6",
       "'at most the smallest effective k': the library documents that the union lets k float; the clause is bound to the k the result itself "
       "reports (<= max_k) and |sample| = min(n, that k); the literal reading min over the inputs' k is refuted by design on 61% of random unions",
       "the union's internal gadget (marks, resolve_tau, coercers) is not modelled; only results are constrained",
       "statistical verdict: 6 standard errors (self-normalised, centred at the truth) + rounding slack T/2 + 1; false-alarm probability < 1e-7 per "
       "statistic, and deterministic for a given seed"])
def run_c16(oc, repo, seed, tier):
    _mc_parallel(oc, VAROPT_MC, VAROPT_MC_NEG, tier)
    core.trace_job(oc, VAROPT_JOB, repo, seed, tier)
    _varopt_drift(oc, repo, seed, tier)


# ------------------------------------------------------------------------------------------------------------------
# C18 EBPPS
# ------------------------------------------------------------------------------------------------------------------
def ebpps_nontrivial(evs):
    # a segment is non-trivial if a result was drawn from a sketch with fractional expected size c while n > k-ish
    # down-sampling had happened (c < n), or a merge joined two non-empty sketches, or it carried a statistical verdict
    n = {}
    for e in evs:
        t = e["e"]
        if t == "Stat":
            return True
        if t == "GetResult" and "c10k" in e and e["c10k"] % 10000 != 0 and e["c10k"] < 10000 * e["n"]:
            return True
        if t == "Merge" and "n" in e:
            if n.get(e["dst"], 0) > 0 and n.get(e["src"], 0) > 0:
                return True
        if "n" in e:
            i = e.get("id", e.get("dst"))
            if i is not None:
                n[i] = e["n"]
        if t == "Drop":
            n.pop(e["id"], None)
    return False


def _ebpps_args(tier, seed, k, profile):
    if tier == Q:
        segs, events, stat = 5, 1500, 2
    else:
        segs, events, stat = 8, 3000, 4
    return ["--seed", seed, "--segments", segs, "--events", events, "--maxk", 16 if k % 3 else 40, "--stat", stat,
            "--serde", 12 if profile == "serde" else 4, "--directed", 1 if k == 0 else 0]


EBPPS_JOB = job("ebpps",
    harness="ebpps_rec", inc=["common", "sampling"], spec="TraceEbpps", owners=["C18"], serde=True,
    files={Q: 8, T: 40},
    args=_ebpps_args,
    nontrivial=ebpps_nontrivial,
)

EBPPS_MC = [
    # contract bookkeeping: two sketches, k = 2, weights {1,2,4}, <= 6 updates, merges in both directions, every admissible result
    dict(module="Ebpps", cfg="MC_Ebpps.cfg", workers=6),
    dict(module="Ebpps", cfg="MC_Ebpps_k13.cfg", workers=6),
]


@prop("C18", "model_checking",
      "MC: exhaustive TLC run of the EBPPS contract bookkeeping (n, cumulative weight, maximum weight, k, c = min(k, cumWt/wtMax) through floor, "
      "ceiling and floor(c*10^4); merges in both directions; every result the clauses admit; derived: equal weights and n <= k keeps every item); "
      "traces: randomized histories of the real ebpps_sketch<int64_t / std::string> (5 weight profiles, k 1..16(40), lvalue/rvalue updates and merges "
      "in both size directions, directed merges of light-many against heavy-few operands (weight ratio 10^2..10^4, n-order and weight-order disagreeing), invalid k / weights, zero-weight updates ignored, weight units 1/1024 .. 2^20 per segment (all weights < 1 gives rho > 1), get_result and iteration, copies, reset, serde with continued use, directed restore-then-continue in lock-step at the empty / one-item / just-reset states in every file), every event validated by TLC: "
      "n, k, cumulative weight exact, round(get_c()*10^4) within one unit of floor(10^4*min(k, cumWt/wtMax)), result size in {floor(c), ceil(c)}, "
      "items distinct and from the input, equal weights and n <= k keeps everything, merge: n adds, cumWt adds, k = min; Stat events: 2000 seeded runs in a saturated (c = k) and an unsaturated fractional-c regime, each traversed by 8 idioms (get_result, loop, range-for, range ctor, std::copy, std::for_each, it++ value, iterators by value), "
      "per idiom and item |count - T*p| <= 6*sqrt(T*p*(1-p)) + 1 with p = c*w/W and |sum sizes - T*c| <= 3*sqrt(T) + 1; a segment is non-trivial when a result was drawn at fractional c after "
      "down-sampling, two non-empty sketches were merged, or it carried a statistical verdict; distinct = distinct segment content hash",
      ["drivers offer distinct items with integer weights (cumulative weight <= 2*10^5), so c is an exact rational computed by TLC",
       "get_c() is compared through round(c*10^4) with a tolerance of one unit; result sizes are compared with the exact floor / ceiling "
       "(a floating-point c an ulp below an integer yields the smaller size with probability ~1e-16: not observable)",
       "the maximum weight has no getter: it is only observed through get_c()",
       "binomial 6-sigma bands + 1 count of slack: false-alarm probability < 1e-7 per statistic, deterministic for a given seed"])
def run_c18(oc, repo, seed, tier):
    _mc_parallel(oc, EBPPS_MC, [], tier)
    core.trace_job(oc, EBPPS_JOB, repo, seed, tier)
