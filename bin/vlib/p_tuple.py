"""C13 - Tuple sketches."""
from . import core
from .props import prop, job, mc_all, Q, T

def tuple_nontrivial(evs):
    # non-trivial: a union / intersection / a-not-b / filter result with retained entries, at least one of which carries a
    # combined summary (two or more offered values), or a rebuild of the update sketch (theta lowered by an update)
    last = {}
    for e in evs:
        if e["e"] in ("UResult", "IResult", "AnotB", "Filter") and "r" in e:
            if any(len(s) >= 2 or (s and s[0] >= 6) for s in e["r"]["sm"]):
                return True
        if e["e"] == "Update":
            if e["id"] in last and e["thetaH"] != last[e["id"]]:
                return True
            last[e["id"]] = e["thetaH"]
        elif e["e"] in ("New", "Reset", "Copy"):
            last.pop(e.get("id", e.get("dst")), None)
    return False

TUPLE_JOB = job("tuple",
    harness="tuple_rec", inc=["common", "theta", "tuple"], spec="TraceTuple", owners=["C13"], serde=True,
    files={Q: 8, T: 48},
    args=lambda tier, seed, k, profile: ["--seed", seed, "--segments", 6 if tier == Q else 12, "--events", 450 + 50 * (k % 4),
                                         "--maxlgk", 7 if tier == Q else 8, "--serde", 10 if profile == "serde" else 2],
    nontrivial=tuple_nontrivial,
)

TUPLE_MC = [
    dict(module="TupleDesign", cfg="MC_TupleDesign.cfg"),
    dict(module="TupleDesign", cfg="MC_TupleDesign_t.cfg", tier=T),
    dict(module="ThetaOpsDesign", cfg="MC_ThetaOpsDesign_k2.cfg"),
]

@prop("C13", "model_checking",
      "MC: TLC exhausts the tuple design model (Theta table mechanism with per-entry summaries created / updated in place / moved through resize and "
      "rebuild) against the free-monoid contract (summary = sequence of values offered with the key), plus the key-selection design model of the set "
      "operations shared with Theta; traces: update_tuple_sketch instantiated with a summary that IS the list of offered values (update = append, "
      "union/intersection policy = concatenation, custom serde) and array_of_doubles sketches with integer columns, a theta sketch of the same "
      "configuration in lock-step on the same keys, filter / union / intersection / A-not-B (lvalue and rvalue operands, update and compact "
      "operands, theta-to-tuple conversion) fed back as operands, validated by TLC event by event; a segment is non-trivial when a set-operation or "
      "filter result carries a combined summary or the update sketch rebuilt",
      ["keys: reference MurmurHash3 hashes of the canonicalised typed keys (harness/refhash.hpp)",
       "array-of-doubles columns are integer-valued by construction so per-column sums are exact",
       "lg_k 5..8 in traces"])
def run_c13(oc, repo, seed, tier):
    mc_all(oc, TUPLE_MC, tier)
    core.trace_job(oc, TUPLE_JOB, repo, seed, tier)
