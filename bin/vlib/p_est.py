"""C06 - distinct-count estimates and bounds: grid of the shared bound functions, accuracy trials, and the
"C06:" clauses (bound coherence, exactness outside estimation mode) attached to the family traces."""
from . import core
from .props import prop, job, JOBS, Q, T

FAMS = ["theta", "theta-union", "hll4", "hll6", "hll8", "hll-union", "cpc", "cpc-union"]

MULTS = "0.5,1,2,4,8,16,32,50,64,75,90,100"

def est_files(tier):
    """One trace file per (family, lg_k list): quick T=400 over three sizes; plus two high-lg_k files (above the HLL table range);
    thorough T=2500, one file per family and lg_k."""
    files = [["--mode", "grid"]]
    if tier == Q:
        for fam in FAMS:
            files.append(["--mode", "trials", "--family", fam, "--T", 400, "--lgks", "8,10,12", "--mults", MULTS])
        for fam in ("hll-union", "hll8", "cpc-union"):
            files.append(["--mode", "trials", "--family", fam, "--T", 2500, "--lgks", "13", "--mults", "2,16"])
        # smallest sizes: a bias of order 1/k is a sizeable fraction of the RSE only here
        for fam in ("hll4", "hll8", "hll-union", "cpc", "cpc-union"):
            files.append(["--mode", "trials", "--family", fam, "--T", 2500, "--lgks", "4,5,6", "--mults", "0.5,2,8,16,64"])
    else:
        for fam in FAMS:
            for lgk in ((4, 5, 7, 9, 10, 11, 12, 13) if not fam.startswith("theta") else (5, 7, 9, 10, 11, 12, 13)):
                files.append(["--mode", "trials", "--family", fam, "--T", 2500, "--lgks", str(lgk), "--mults", MULTS if lgk < 13 else "0.5,2,8,16,64,80"])
    return files

def est_args(tier, seed, k, profile):
    return est_files(tier)[k] + ["--seed", seed]

def est_nontrivial(evs):
    b = evs[0]
    if b.get("mode") == "grid":
        return True
    return b["n"] > (1 << b["lgk"])      # a cell in estimation mode

EST_JOB = job("est",
    harness="est_rec", inc=["common", "theta", "hll", "cpc"], spec="TraceEst", owners=["C06"],
    flags=("-O2",), files={Q: len(est_files(Q)), T: len(est_files(T))}, par=12, args=est_args, nontrivial=est_nontrivial, heap="2g",
)

# family trace jobs whose specs carry "C06:" clauses at every observation
C06_FAMILY_JOBS = ["theta", "thetaops", "tuple", "hll", "hllunion", "cpc"]

@prop("C06", "exploration",
      "(b) dense sweep of binomial_bounds::get_lower/upper_bound over count x theta x {1,2,3} std devs (order, widening, exactness at theta = 1, "
      "invalid arguments refused); (c) seeded accuracy trials per family (Theta, Theta union, HLL_4/6/8, HLL union, CPC, CPC union) x lg_k x "
      "n = m*k for 12 multipliers m in 0.5..100 (dense around the estimator crossovers), T = 400 (quick) / 2500 (thorough) trials per cell, lg_k 7..13: per trial the bounds must bracket the estimate and widen, and per cell TLC judges bias (|mean z| <= 6/sqrt(T)+0.05), "
      "spread (rms z <= 1+6/sqrt(2T)+0.05, z = error / published RSE) and coverage (>= nominal - 6 sigma - 2%) in integer arithmetic; "
      "(a) the C06-prefixed clauses (lb3<=lb2<=lb1<=est<=ub1<=ub2<=ub3, exact outside estimation mode) at every observation of the family traces "
      "(Theta, Theta set operations, Tuple, HLL, HLL union, CPC). A segment is one grid sweep / one trial cell / one family history; a cell is "
      "non-trivial when it is in estimation mode (n > k); family segments by their own rule",
      ["published RSE constants (Theta 1/sqrt k; HLL 0.8326 HIP, 1.04 composite; CPC 0.589 HIP, 0.694 ICON) are tabulated in spec/TraceEst.tla from the documentation",
       "statistical verdicts are acceptance predicates over seeded samples: thresholds at >= 6 standard errors + stated slack (false-alarm probability per statistic < 1e-8)",
       "doubles are compared by order/equality only (order-isomorphic renaming)"])
def run_c06(oc, repo, seed, tier):
    core.trace_job(oc, EST_JOB, repo, seed, tier)
    for name in C06_FAMILY_JOBS:
        if name in JOBS:
            core.trace_job(oc, JOBS[name], repo, seed, tier)
        else:
            oc.notes.append("family job %s not available in this build" % name)
