"""Registry of per-property pipelines.  Family modules p_*.py register themselves on import."""
import importlib, os, pkgutil
from . import core

Q, T = "quick", "thorough"
PROPS = {}
JOBS = {}     # name -> trace job dict (shared between properties: C06 and C09 re-run family jobs in their own profile)

def prop(pid, level, rule, assumptions):
    def deco(f):
        PROPS[pid] = {"run": f, "level": level, "rule": rule, "assumptions": assumptions}
        return f
    return deco

def job(name, **kw):
    kw["name"] = name
    JOBS[name] = kw
    return kw

def mc_all(oc, runs, tier):
    for r in runs:
        if r.get("tier", Q) == T and tier != T:
            continue
        oc.mc.append(core.model_check(r["module"], r["cfg"], workers=r.get("workers", 8), timeout=r.get("timeout", 900), heap=r.get("heap", "8g")))

def load_all():
    here = os.path.dirname(os.path.abspath(__file__))
    for m in sorted(f[:-3] for f in os.listdir(here) if f.startswith("p_") and f.endswith(".py")):
        try:
            importlib.import_module("vlib." + m)
        except Exception as ex:     # a broken family module must not take the other properties down
            import sys
            print("warning: family module %s failed to load: %r" % (m, ex), file=sys.stderr)
