"""C20 - density sketch: exact counts, retained accounting, dimension check, exact estimates before the first compaction."""
from . import core
from .props import prop, job, mc_all, Q, T

def density_nontrivial(evs):
    # non-trivial: at least one sketch went through a compaction (estimation mode reached by an update or a merge),
    # at least one estimate was judged while its sketch was still exact (n > 0) and one after a compaction
    est, n = {}, {}
    compacted = exact_est = est_est = False
    for e in evs:
        i = e.get("id", e.get("dst"))
        if e["e"] in ("Update", "Merge") and e.get("est") and not est.get(i, False):
            compacted = True
        if "est" in e and i is not None:
            est[i], n[i] = e["est"], e["n"]
        if e["e"] == "Est" and not e.get("threw"):
            if est.get(e["id"]):
                est_est = True
            elif n.get(e["id"], 0) > 0:
                exact_est = True
    return compacted and exact_est and est_est

DENSITY_JOB = job("density",
    harness="density_rec", inc=["common", "density"], spec="TraceDensity", owners=["C20"], serde=True,
    files={Q: 8, T: 48},
    args=lambda tier, seed, k, profile: ["--seed", seed, "--segments", 8 if tier == Q else 12, "--events", (260 if tier == Q else 500) + 40 * (k % 4),
                                         "--bigk", 0 if tier == Q else 25,
                                         "--serde", 20 if profile == "serde" else 4, "--far", 12,
                                         "--hdr", 70 if profile == "serde" else 2, "--restore", 1 if k == 0 else 0],
    nontrivial=density_nontrivial,
)

DENSITY_MC = [
    dict(module="Density", cfg="MC_Density.cfg"),
    dict(module="Density", cfg="MC_Density_merge.cfg"),
]

@prop("C20", "model_checking",
      "MC: exhaustive TLC runs of the density contract driven by the implementation-shaped generator (compact the lowest full level while "
      "retained >= k*levels, EVERY promoted sub-bag, then insert; merges in both directions, k = 2 and 3) checking n exact, retained = sum of "
      "level sizes <= k*levels, retained points are inputs, exact mode = all inputs with weight 1, and that the contract never refuses a "
      "generated state; traces: randomized histories of the real density_sketch<float|double> with the integer-valued L1 tent kernel "
      "(user kernel) and the Gaussian kernel, k 2..16, dimensions 1..3 (wrong-dimension points and sketches refused), merges (lvalue/rvalue), "
      "copies, serde, library coin supplied through the hook, every event validated by TLC: counters, iterator weights against the level "
      "sizes of to_string, and before the first compaction estimate*n equal to the kernel sum computed by TLC in integers; a segment is "
      "non-trivial when a compaction happened and estimates were judged both in exact and in estimation mode",
      ["the integer-valued kernel K(p,q) = max(0, R - |p-q|_1) on integer points is supplied by the harness; TLC computes the exact sum",
       "estimate*n is logged as round(estimate*n*16) and compared within one unit (float sums of <= 16 exact terms / n)",
       "12 % of the tent-kernel segments use a kernel of small support on far-apart points (compactions that promote nothing)",
       "the estimation-mode estimate itself is only required finite and non-negative (the statement claims no more)"])
def run_c20(oc, repo, seed, tier):
    mc_all(oc, DENSITY_MC, tier)
    core.trace_job(oc, DENSITY_JOB, repo, seed, tier)
