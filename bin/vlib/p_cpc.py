"""C05 - CPC sketch is an exact coupon bit matrix; union ORs row-folded matrices; compression lossless."""
from . import core
from .props import prop, job, mc_all, Q, T

def cpc_nontrivial(evs):
    # a segment is non-trivial if the real sketch moved its window at least once (a projection shows window offset >= 1),
    # or a union of at least two inputs produced a non-empty result
    nupd = {}
    for e in evs:
        r = e.get("r")
        if isinstance(r, dict) and r.get("woff", -1) >= 1:
            return True
        if e["e"] == "UNew":
            nupd[e["u"]] = 0
        elif e["e"] == "UUpdate":
            nupd[e["u"]] = nupd.get(e["u"], 0) + 1
        elif e["e"] == "UResult" and nupd.get(e["u"], 0) >= 2 and r["C"] > 0:
            return True
    return False

def _args(tier, seed, k, profile):
    # kinds: s sweep (random typed items across every flavor boundary), a aimed (pool by (row,col): many window shifts,
    # early zone), u union (unequal lgK, permutations, lvalue/rvalue), b big K with batched updates
    # d deletion-heavy aimed (surprising-value table under stress in SLIDING flavor: probe clusters at the end of the slot array,
    # deletions inside them), r long random stream (20-40 k items, many window moves, batched).  Every file has a d segment early.
    # e DIRECTED, first in every file: EMPTY and ONE-item sketches and union results serialized (bytes + stream), restored through both
    # readers, continued in lock-step with the original, used as union operands (C09 "restore, then continue")
    # x DIRECTED, second in every file: stop EXACTLY at every flavor / window-shift boundary count b and at b-1, b+1 (lg_k 4..11 over the 8
    # files of a run), observe, serialize, restore through both readers, union of the sketch vs union of its restored copy, lock-step on
    kinds = ["exsdaubur", "exudasbad", "exadsubru", "exubdasud"][k % 4]
    if tier == Q:
        maxlgk, events, segs = 10, 2600, 9
    else:
        maxlgk, events, segs = (14 if k % 3 == 0 else 11), 6000, 11
    return ["--seed", seed, "--segments", segs, "--events", events, "--maxlgk", maxlgk, "--kinds", kinds,
            "--serde", 15 if profile == "serde" else 4]

CPC_JOB = job("cpc",
    harness="cpc_rec", inc=["common", "cpc"], spec="TraceCpc", owners=["C05"], serde=True,
    files={Q: 8, T: 48},
    args=_args,
    nontrivial=cpc_nontrivial,
)

CPC_MC = [
    # design model of one sketch refining the contract; K = 2 rows (4 window moves), K = 4 (3 window moves; _full: 18 cells in every order, 2 moves), K = 16 / 32 (sparse phase, promote)
    dict(module="CpcDesign", cfg="MC_CpcDesign_k4.cfg", workers=4),
    dict(module="CpcDesign", cfg="MC_CpcDesign_k4_full.cfg", workers=6, tier=T),
    dict(module="CpcDesign", cfg="MC_CpcDesign_k2.cfg", workers=4),
    dict(module="CpcDesign", cfg="MC_CpcDesign_k16.cfg", workers=1),
    dict(module="CpcDesign", cfg="MC_CpcDesign_k32.cfg", workers=1),
    # design model of the union (cases A-D, reduce_k, both get_result paths) on a catalogue of 9 sketches of every flavor
    dict(module="CpcUnionDesign", cfg="MC_CpcUnionDesign.cfg", workers=2),
    dict(module="CpcUnionDesign", cfg="MC_CpcUnionDesign_4.cfg", workers=4, tier=T),
    # the hash table behind the surprising-value table (open addressing, deletion with cluster repair incl. wrap-around,
    # growth / shrinking) refining a set
    dict(module="CpcTable", cfg="MC_CpcTable.cfg", workers=3),
    # the multi-object contract itself (union definition, order independence, copies, images)
    dict(module="MC_Cpc", cfg="MC_Cpc.cfg", workers=3),
    dict(module="MC_Cpc", cfg="MC_Cpc_serde.cfg", workers=1),
]
# negative configurations: a seeded fault in the MODEL must be reported by TLC (guards against vacuous invariants)
CPC_MC_NEG = [
    dict(module="CpcDesign", cfg="MC_CpcDesign_neg_fic.cfg"),
    dict(module="CpcUnionDesign", cfg="MC_CpcUnionDesign_neg_fold.cfg"),
    dict(module="CpcTable", cfg="MC_CpcTable_neg_wrap.cfg"),
]

def _mc_parallel(oc, tier):
    from concurrent.futures import ThreadPoolExecutor
    runs = [r for r in CPC_MC if not (r.get("tier", Q) == T and tier != T)]
    def one(r):
        return core.model_check(r["module"], r["cfg"], workers=r.get("workers", 4), timeout=900, heap="4g")
    def neg(r):
        return core.model_check(r["module"], r["cfg"], workers=2, timeout=300, heap="2g", expect_violation=True)
    with ThreadPoolExecutor(max_workers=len(runs) + len(CPC_MC_NEG)) as ex:
        pos = [ex.submit(one, r) for r in runs]
        ngs = [ex.submit(neg, r) for r in CPC_MC_NEG]
        for f in pos:
            oc.mc.append(f.result())
        oc.extra["negative_model_configs_reported_by_tlc"] = [f.result()["cfg"] for f in ngs]

def _drift(oc, repo, seed, tier):
    """Tier B (DESIGN 2, drift detection): files recorded with the quick-tier arguments (lg_k <= 10: the design operators
    copy a K-sized window function per coupon) are replayed through the design operators (TraceCpcDesign: window offset,
    first interesting column, table entries, flavor as printed by to_string(), C, matrix).  A tier-B rejection of a trace
    that the contract accepts is MODEL-DRIFT (exit 0); if the contract rejects it too it is triaged like any other trace."""
    import os
    from concurrent.futures import ThreadPoolExecutor
    exe = core.build_harness(CPC_JOB["harness"], repo, CPC_JOB["inc"])
    n = 4 if tier == Q else 12
    def one(k):
        fseed = seed * 1000 + k + (0 if tier == Q else 500)   # quick: the first files of the main job again
        args = _args(Q, fseed, k, "default")
        path = os.path.join(core.BUILD, "tr", "C05.drift.%d.%d.ndjson" % (fseed, os.getpid()))
        rc, out = core.record(exe, args, path)
        lines = open(path).read().splitlines() if os.path.exists(path) else []
        if os.path.exists(path):
            os.remove(path)
        if rc != 0 or not lines:
            return fseed, args, None, None, lines      # harness crashes are reported by the main trace job
        rb = core.validate_lines("TraceCpcDesign", "TraceCpcDesign.cfg", lines, "C05.B.%d" % fseed)
        ra = None
        if not rb["accepted"]:
            ra = core.validate_lines("TraceCpc", "TraceCpc.cfg", lines, "C05.BA.%d" % fseed)
        return fseed, args, rb, ra, lines
    os.makedirs(os.path.join(core.BUILD, "tr"), exist_ok=True)
    with ThreadPoolExecutor(max_workers=6) as ex:
        res = list(ex.map(one, range(n)))
    ok = ev = 0
    for fseed, args, rb, ra, lines in res:
        if rb is None:
            continue
        if rb["accepted"]:
            ok += 1
            ev += rb["nevents"]
        elif ra["accepted"]:
            oc.drift.append("seed %d: design model TraceCpcDesign rejects event #%d %s %s while the contract accepts the whole trace "
                            "(the code no longer follows the modelled mechanism; not a violation)"
                            % (fseed, rb["reject_index"], lines[rb["reject_index"]][:160], " ".join(rb["rejects"][:2])))
        elif tier != Q:
            # the contract rejects a file the main job has not seen: triage it like the main job would
            segs = core.split_segments(lines)
            ri = ra["reject_index"]
            bad = [sg for sg in segs if sg[0] <= ri < sg[0] + len(sg[1])][0]
            core.triage(oc, CPC_JOB, fseed, args, bad[1][: ri - bad[0] + 1], ra)
    oc.extra["tierB_files_accepted"] = ok
    oc.extra["tierB_events"] = ev
    core.log("  tier B: %d/%d files accepted by TraceCpcDesign (%d events), %d drift" % (ok, n, ev, len(oc.drift)))

@prop("C05", "model_checking",
      "MC: exhaustive TLC runs of the CPC design model (sparse table, promote, sliding window with the three update zones, "
      "window moves, speed filter) and of the union design model (accumulator / bit-matrix cases A-D, reduce_k, both "
      "get_result paths) refining the contract for tiny K, and of the multi-object contract itself; traces: randomized and "
      "aimed histories of the real cpc_sketch / cpc_union (all 12 input overloads, lg_k 4..10 quick / 4..14 thorough, streams "
      "across every flavor boundary and up to ~12 window shifts, unions of 2..6 sketches of unequal lg_k in several orders, "
      "lvalue and rvalue, copies, serialize/deserialize with continued lock-step updates), every event validated by TLC against "
      "the contract with REFERENCE (row, col) coupons from an independent MurmurHash3; a segment (Begin..next Begin) is "
      "non-trivial when the real sketch moved its window at least once or a union of >= 2 inputs gave a non-empty result; "
      "distinct = distinct segment content hash",
      ["harness/refhash.hpp is the published MurmurHash3_x64_128 (self-checked on published vectors at start-up)",
       "the bit matrix is read through the guarded accessor cpc_sketch::verif_bit_matrix() (= the library's own build_bit_matrix) "
       "for lg_k <= 10; above that only C, validate(), estimates and serialization clauses are observed",
       "traces cover lg_k 4..10 (quick) / 4..14 (thorough); larger configurations only through the parametric model",
       "kxp / HIP accumulator are compared through to_string() (6 significant digits) plus bit-equality of get_estimate() and of the "
       "re-serialized image, which contains both doubles"])
def run_c05(oc, repo, seed, tier):
    _mc_parallel(oc, tier)
    core.trace_job(oc, CPC_JOB, repo, seed, tier)
    _drift(oc, repo, seed, tier)
