"""C15 - Bloom filter: no false negatives in any representation; bitwise set algebra.
Pipeline: (1) MC of the contract and of the design model refining it; (2) recorded random histories of the real class, validated
against the contract (tier A) and, for drift, against the design model incl. the count word stored in wrapped memory (tier B,
TraceBloomB.cfg); (3) spec -> impl: GenBloom (TLC, BFS) emits every (reachable model state, call) pair within Depth calls as a
behaviour, `bloom_rec --replay` executes them on real filters, the traces go through the same two tiers."""
import os, re, shutil
from . import core
from .props import prop, job, mc_all, Q, T

WRITES = ("Update", "QueryUpdate", "Union", "Intersect", "Invert", "Reset")

def bloom_nontrivial(evs):
    # a segment is non-trivial when a region that was written through a view (a successful mutator with at = m)
    # was afterwards wrapped / writably wrapped / deserialized, and an item inserted before that was then reported
    # present by a query through a view or a restored filter; or when a set operation succeeded between two filters
    written, rewrapped, hit, setop = set(), False, False, False
    for e in evs:
        k = e["e"]
        if k in WRITES and e.get("out") == "ok" and e.get("at", 0) != 0:
            written.add(e["at"])
        if k in ("Wrap", "WWrap", "Deser") and e.get("out", "ok") == "ok" and e.get("m") in written:
            rewrapped = True
        if k in ("Query", "QueryUpdate") and e.get("ans") and rewrapped and (e.get("at", 0) != 0 or e.get("restored")):
            hit = True
        if k in ("Union", "Intersect") and e.get("out") == "ok" and e.get("f") != e.get("g"):
            setop = True
        if k == "Fpp":
            return True
    return hit and setop

BLOOM_JOB = job("bloom",
    harness="bloom_rec", inc=["common", "filters"], spec="TraceBloom", owners=["C15"], serde=True, drift_cfg="TraceBloomB.cfg",
    files={Q: 8, T: 64},
    args=lambda tier, seed, k, profile: ["--seed", seed, "--segments", 10 if tier == Q else 16, "--events", 230 + 20 * (k % 4),
                                         "--maxbits", 2048 if k % 3 else 640, "--fpp", 6 if tier == Q else 16,
                                         "--serde", 20 if profile == "serde" else 12],
    nontrivial=bloom_nontrivial,
)

# ---- spec -> impl: generated behaviours -------------------------------------------------------------------------------
# tier -> [(Depth, stride, number of trace files)]: the first generation is replayed completely, the deeper one every
# stride-th behaviour (offset = seed mod stride, so different seeds cover different residues)
GEN_PLAN = {Q: [(4, 1, 8)], T: [(5, 1, 32), (6, 16, 8)]}
_gen = []      # per trace file: argument list, filled by gen_bloom before the replay job runs

def gen_bloom(oc, tier, seed):
    _gen.clear()
    dirs = []
    for depth, stride, nparts in GEN_PLAN[tier]:
        gdir = os.path.join(core.BUILD, "gen", "bloom_%d_%d" % (os.getpid(), depth))
        shutil.rmtree(gdir, ignore_errors=True)
        os.makedirs(gdir)
        dirs.append(gdir)
        cfg = re.sub(r"Depth = \d+", "Depth = %d" % depth, open(os.path.join(core.SPEC, "GenBloom.cfg")).read())
        cfgname = "GenBloom_d%d_%d.cfg" % (depth, os.getpid())
        with open(os.path.join(core.SPEC, cfgname), "w") as f:
            f.write(cfg)
        prefix = os.path.join(gdir, "beh")
        try:
            rc, out, wall = core.tlc("GenBloom", cfgname, workers=1, timeout=1800, env={"GEN_OUT": prefix}, heap="8g")
        finally:
            os.remove(os.path.join(core.SPEC, cfgname))
        r = core.parse_tlc(out)
        m = re.search(r'<<"BEHAVIOURS", (\d+), "FILES", (\d+)>>', out)
        if not m or r["errors"] or r["parse_error"] or "Model checking completed" not in out:
            raise core.MachineryError("behaviour generation GenBloom failed:\n" + out[-3000:])
        nbeh, nfiles = int(m.group(1)), int(m.group(2))
        r.update(module="GenBloom", cfg="GenBloom.cfg[Depth=%d]" % depth, wall_s=round(wall, 1))
        oc.mc.append(r)
        oc.extra.setdefault("generated_behaviours", []).append({"depth": depth, "behaviours": nbeh, "model_states": r["distinct"],
                                                                "replayed": (nbeh + stride - 1) // stride if stride > 1 else nbeh})
        core.log("  GEN GenBloom depth %d: %d behaviours (one per generated transition of %d model states), %.1fs; replaying %s"
                 % (depth, nbeh, r["distinct"], wall, "all" if stride == 1 else "every %dth" % stride))
        for k in range(nparts):
            _gen.append(["--replay", prefix, "--nfiles", nfiles, "--part", k, "--parts", nparts, "--stride", stride, "--offset", seed % stride])
    return dirs

def replay_nontrivial(evs):
    # a replayed behaviour is non-trivial when it wrote bits successfully (the epilogue then creates a later view and asks it)
    return any(e["e"] in WRITES and e.get("out") == "ok" for e in evs)

BLOOM_REPLAY_JOB = job("bloom_replay",
    harness="bloom_rec", inc=["common", "filters"], spec="TraceBloom", owners=["C15"], drift_cfg="TraceBloomB.cfg", heap="4g",
    files={Q: sum(p[2] for p in GEN_PLAN[Q]), T: sum(p[2] for p in GEN_PLAN[T])},
    args=lambda tier, seed, k, profile: _gen[k],
    nontrivial=replay_nontrivial,
)

BLOOM_MC = [
    dict(module="MC_Bloom", cfg="MC_Bloom.cfg"),
    dict(module="MC_BloomDesign", cfg="MC_BloomDesign.cfg"),
    dict(module="MC_BloomDesign", cfg="MC_BloomDesign_ref.cfg"),
    dict(module="MC_Bloom", cfg="MC_Bloom_t.cfg", tier=T),
    dict(module="MC_BloomDesign", cfg="MC_BloomDesign_t.cfg", tier=T),
    dict(module="MC_BloomDesign", cfg="MC_BloomDesign_t2.cfg", tier=T),
]
# negative configs (models of the pinned behaviour; each must VIOLATE the contract) - for the self-test only:
#   core.model_check("MC_BloomDesign", cfg, expect_violation=True)
BLOOM_MC_NEGATIVE = ["MC_BloomDesign_neg.cfg", "MC_BloomDesign_neg_qau.cfg", "MC_BloomDesign_neg_ro.cfg", "MC_BloomDesign_neg_remark.cfg"]

@prop("C15", "model_checking",
      "MC: exhaustive TLC runs of the multi-filter Bloom contract (3 filter slots, 1 memory region, 16 actions, all histories up to the call bound) "
      "and of the design model of the repaired code (cached/dirty bit count, count stored in wrapped memory) refining it; "
      "traces: randomized histories of the real bloom_filter over 4 slots (owned, initialize_by_* in caller memory, wrap, writable_wrap, deserialize, "
      "copies, moves) and 2 memory regions, all 12 update/query/query_and_update overloads, sizes 1..2048 incl. non-multiples of 64, 1..9 hashes, "
      "random seeds, incompatible operands, serialize with headers; every event validated by TLC against the contract with REFERENCE XXH64 index "
      "lists; bits read from the serialized image / caller memory; a segment (Begin..next Begin) is non-trivial when memory written through a "
      "view was re-wrapped or deserialized and a previously inserted item was then found through a view or restored filter and a set operation "
      "between two different filters succeeded, or when it carries FPP verdicts; distinct = distinct segment content hash; "
      "every recorded file starts with a DIRECTED restore-then-continue segment: at the EMPTY filter, at exactly ONE item and right after reset(), the image "
      "(serialize bytes/stream/header forms, and caller memory left by an initialize_by_size view) is restored through deserialize(bytes), "
      "deserialize(stream), wrap and writable_wrap, and the restored object continues in lock-step with the original (updates, query_and_update, "
      "bits_used, queries, union/intersect as operand and target, reset, re-serialization); clauses on restored objects are owned by C09 and C15; "
      "spec -> impl: GenBloom.tla makes TLC emit one behaviour per generated transition of the design model (1 region, 3 view slots, 3 items with "
      "overlapping index pairs; Wrap/WWrap/Deser/Copy/Update incl. through stale views/QueryUpdate/BitsUsed/Reset/Invert/Union/Intersect/Drop; "
      "quick: all of depth 4; thorough: all of depth 5 and every 16th of depth 6), `bloom_rec --replay` runs them on real filters (capacity 64/128/192, items mined with the "
      "reference hash), asks every fresh view and a view created afterwards for all items, and the traces pass the same validation (a replayed "
      "behaviour is non-trivial when it wrote bits); tier B (TraceBloomB.cfg) re-runs every accepted trace with the design model in lock-step and "
      "compares the count word stored in wrapped memory after every call (MODEL-DRIFT only)",
      ["harness/refhash.hpp is the published XXH64 (self-checked on published vectors at start-up); integers are hashed as their value widened to a 64-bit "
       "little-endian word, float widened to double, -0.0 -> 0.0, NaN -> 0x7ff8000000000000, strings/arrays as their bytes, empty ignored",
       "a view of caller memory is specified from its creation until ANOTHER view writes to the same memory (the class caches the bit count per "
       "object); through such a stale view only plain update() is exercised (its effect on the memory is specified, its own later answers are "
       "not; views created afterwards must see the items); query_and_update / set operations through a stale view are excluded (they store the "
       "object's cached count: a multi-writer limitation of the class); otherwise the driver re-wraps stale views",
       "traces observe all bits for capacities <= 2048; the FPP verdict (create/initialize_by_accuracy, n = 500..4000, p = 0.005..0.2, 10000 probes) accepts "
       "F <= 1.25 p M + 6 sqrt(p M + 1)",
       "TLC 32-bit ints: seeds are renamed order-isomorphically (bin/vlib/munge.py); the contract uses only equality on them"])
def run_c15(oc, repo, seed, tier):
    mc_all(oc, BLOOM_MC, tier)
    core.trace_job(oc, BLOOM_JOB, repo, seed, tier)
    dirs = gen_bloom(oc, tier, seed)
    try:
        core.trace_job(oc, BLOOM_REPLAY_JOB, repo, seed, tier)
    finally:
        for d in dirs:
            shutil.rmtree(d, ignore_errors=True)
