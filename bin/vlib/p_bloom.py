"""C15 - Bloom filter: no false negatives in any representation; bitwise set algebra."""
from . import core
from .props import prop, job, mc_all, Q, T

WRITES = ("Update", "QueryUpdate", "Union", "Intersect", "Invert", "Reset")

def bloom_nontrivial(evs):
    # a segment is non-trivial when a region that was written through a view (a successful mutator with at = m)
    # was afterwards wrapped / writably wrapped / deserialized, and an item inserted before that was then reported
    # present by a query through a view or a restored filter; or when a set operation succeeded between two filters
    written, rewrapped, hit, setop = set(), False, False, False
    for e in evs:
        k = e["e"]
        if k in WRITES and e.get("out") == "ok" and e.get("at", 0) != 0:
            written.add(e["at"])
        if k in ("Wrap", "WWrap", "Deser") and e.get("out", "ok") == "ok" and e.get("m") in written:
            rewrapped = True
        if k in ("Query", "QueryUpdate") and e.get("ans") and rewrapped and (e.get("at", 0) != 0 or e.get("restored")):
            hit = True
        if k in ("Union", "Intersect") and e.get("out") == "ok" and e.get("f") != e.get("g"):
            setop = True
        if k == "Fpp":
            return True
    return hit and setop

BLOOM_JOB = job("bloom",
    harness="bloom_rec", inc=["common", "filters"], spec="TraceBloom", owners=["C15"], serde=True,
    files={Q: 8, T: 64},
    args=lambda tier, seed, k, profile: ["--seed", seed, "--segments", 10 if tier == Q else 16, "--events", 230 + 20 * (k % 4),
                                         "--maxbits", 2048 if k % 3 else 640, "--fpp", 6 if tier == Q else 16,
                                         "--serde", 20 if profile == "serde" else 12],
    nontrivial=bloom_nontrivial,
)

BLOOM_MC = [
    dict(module="MC_Bloom", cfg="MC_Bloom.cfg"),
    dict(module="MC_BloomDesign", cfg="MC_BloomDesign.cfg"),
    dict(module="MC_BloomDesign", cfg="MC_BloomDesign_ref.cfg"),
    dict(module="MC_Bloom", cfg="MC_Bloom_t.cfg", tier=T),
    dict(module="MC_BloomDesign", cfg="MC_BloomDesign_t.cfg", tier=T),
    dict(module="MC_BloomDesign", cfg="MC_BloomDesign_t2.cfg", tier=T),
]
# negative configs (models of the pinned behaviour; each must VIOLATE the contract) - for the self-test only:
#   core.model_check("MC_BloomDesign", cfg, expect_violation=True)
BLOOM_MC_NEGATIVE = ["MC_BloomDesign_neg.cfg", "MC_BloomDesign_neg_qau.cfg", "MC_BloomDesign_neg_ro.cfg", "MC_BloomDesign_neg_remark.cfg"]

@prop("C15", "model_checking",
      "MC: exhaustive TLC runs of the multi-filter Bloom contract (3 filter slots, 1 memory region, 16 actions, all histories up to the call bound) "
      "and of the design model of the repaired code (cached/dirty bit count, count stored in wrapped memory) refining it; "
      "traces: randomized histories of the real bloom_filter over 4 slots (owned, initialize_by_* in caller memory, wrap, writable_wrap, deserialize, "
      "copies, moves) and 2 memory regions, all 12 update/query/query_and_update overloads, sizes 1..2048 incl. non-multiples of 64, 1..9 hashes, "
      "random seeds, incompatible operands, serialize with headers; every event validated by TLC against the contract with REFERENCE XXH64 index "
      "lists; bits read from the serialized image / caller memory; a segment (Begin..next Begin) is non-trivial when memory written through a "
      "view was re-wrapped or deserialized and a previously inserted item was then found through a view or restored filter and a set operation "
      "between two different filters succeeded, or when it carries FPP verdicts; distinct = distinct segment content hash",
      ["harness/refhash.hpp is the published XXH64 (self-checked on published vectors at start-up); integers are hashed as their value widened to a 64-bit "
       "little-endian word, float widened to double, -0.0 -> 0.0, NaN -> 0x7ff8000000000000, strings/arrays as their bytes, empty ignored",
       "a view of caller memory is specified from its creation until ANOTHER view writes to the same memory (the class caches the bit count per "
       "object); through such a stale view only plain update() is exercised (its effect on the memory is specified, its own later answers are "
       "not; views created afterwards must see the items); query_and_update / set operations through a stale view are excluded (they store the "
       "object's cached count: a multi-writer limitation of the class); otherwise the driver re-wraps stale views",
       "traces observe all bits for capacities <= 2048; the FPP verdict (create/initialize_by_accuracy, n = 500..4000, p = 0.005..0.2, 10000 probes) accepts "
       "F <= 1.25 p M + 6 sqrt(p M + 1)",
       "TLC 32-bit ints: seeds are renamed order-isomorphically (bin/vlib/munge.py); the contract uses only equality on them"])
def run_c15(oc, repo, seed, tier):
    mc_all(oc, BLOOM_MC, tier)
    core.trace_job(oc, BLOOM_JOB, repo, seed, tier)
