"""C10 - serialized images keep the documented cross-language layout; old images stay readable; hashing matches
the published definitions (translation validation: a reader / writer transcribed from the layout documentation into
TLA+, confronted by TLC with the real writers and readers)."""
import json, os, time
from . import core
from .props import prop, job, Q, T

CORPUS = os.path.join(core.VERIF, "corpus")
PARTS = ["theta", "setops", "hll", "cpc", "cpcgrid", "kll", "quant", "misc"]


def _gen(oc):
    """Run spec/GenLayout.tla: every catalogue entry's image is produced by the documented writer and must decode back
    to its abstract state under the documented reader (invariant); the images are written out for the replay."""
    os.makedirs(os.path.join(core.BUILD, "tr"), exist_ok=True)
    out = os.path.join(core.BUILD, "tr", "C10.gen.%d.ndjson" % os.getpid())
    rc, txt, wall = core.tlc("GenLayout", "GenLayout.cfg", workers=1, timeout=600, env={"GEN_OUT": out}, heap="4g")
    r = core.parse_tlc(txt)
    if "Model checking completed. No error has been found." not in txt or r["errors"] or not os.path.exists(out):
        raise core.MachineryError("GenLayout: unexpected result\n" + txt[-3000:])
    r.update(module="GenLayout", cfg="GenLayout.cfg", wall_s=round(wall, 1))
    oc.mc.append(r)
    core.log("  GEN GenLayout: %d images, %.1fs" % (r["distinct"] - 1, wall))
    rows = [json.loads(l) for l in open(out)]
    os.remove(out)
    txtf = os.path.join(core.BUILD, "tr", "C10.gen.%d.txt" % os.getpid())
    with open(txtf, "w") as f:
        for g in rows:
            f.write("%d %s %d %s\n" % (g["id"], g["variant"], g["aux"], "".join("%02x" % b for b in g["img"]) or "-"))
    return txtf, len(rows)


def _nontrivial(evs):
    for e in evs:
        if e["e"] in ("Image", "ReadStored") and e.get("proj", {}).get("empty") is False:
            return True
        if e["e"] in ("Replayed", "ReadRef"):
            return True
        if e["e"] == "Hash" and e.get("counted"):
            return True
    return False


def _count(evs):
    """(images decoded / encoded / read, field comparisons) of a list of events - mirrors the clauses TraceLayout evaluates:
    one per projection field, plus the documented constants (family id, version, preamble size, flags, length: >= 5)."""
    prog = cmp_ = 0
    for e in evs:
        k = e["e"]
        if k == "Image":
            prog += 1; cmp_ += len(e["proj"]) + 5 + 1
        elif k == "ReadStored":
            prog += 1; cmp_ += len(e["proj"]) + 3
        elif k == "Replayed":
            prog += 1; cmp_ += sum(len(e[p]) + 1 for p in ("proj", "sproj", "wproj") if p in e) + 1
        elif k == "ReadRef":
            prog += 1; cmp_ += sum(len(e[p]) for p in ("proj", "sproj", "wproj") if p in e)
        elif k == "Hash":
            cmp_ += 1
    return prog, cmp_


def _mkjob(name, files, args, rec_timeout=600):
    return job(name, harness="layout_rec", spec="TraceLayout", owners=["C10"], serde=False, files=files, args=args,
               nontrivial=_nontrivial, par=8, heap="4g", rec_timeout=rec_timeout, serde_events=set())


@prop("C10", "translation_validation",
      "spec/Layout.tla is a reader (Dec_<family>) and, for the legacy forms, a writer (Enc_*) transcribed from the layout comments and "
      "flag/offset/family/version constants only. (1) writer: a deterministic catalogue of sketches of 16 families x state kinds (incl. results of set operations with non-default seeds, a CPC "
      "flavor/phase/offset grid and the rows of the CPC code tables) is serialized by the current tree on BOTH writer paths (bytes and stream); TLC decodes every image and compares it field by field with the projection through the public API (reference seed hash, "
      "reference coupons / bit indices for HLL / Bloom content) and checks the documented constants; (2) reader incl. legacy versions: "
      "spec/GenLayout.tla generates images of every accepted version (Theta v1-v4, Tuple legacy, KLL v1/v2, quantiles v1-v3, t-digest reference "
      "formats) which the real deserializers (bytes, stream, wrap) must read back to the abstract state; (3) baseline: corpus/ holds the catalogue "
      "written by the pinned commit with recorded projections - both current readers (bytes, stream) must reproduce them (CPC: bit matrix = reference coupons), re-serialize them identically, and the "
      "current writer must produce the same bytes (decoded value where the layout leaves the order free); the 15 .sk files shipped with the "
      "repository must read to the content their tests document; (4) hashing: a type sweep (all integer widths, float/double incl. -0.0 and NaNs, "
      "strings) checks the library's Theta hash / HLL coupon / CPC row-col / Bloom bit indices / count-min buckets against the published definitions "
      "evaluated by TLC on reference hash words. programs = images decoded, encoded or read; disagreements_checked = field comparisons evaluated; "
      "a segment is non-trivial when it holds a non-empty image, a generated / reference image or a counted hash event",
      ["the layout comments and constants of the headers are the contract; where the C++ comments are silent (Theta, HLL, CPC, REQ preambles) the "
       "published Java preamble tables the images must stay compatible with are used",
       "64-bit quantities are compared as byte tuples; t-digest centroid means, REQ compactor state, VarOpt total R weight, HLL kxq, CPC payload are "
       "not observable through the public API and are pinned by the baseline corpus bytes only (notes/C10-report.md, byte sensitivity table)",
       "harness/refhash.hpp is the published MurmurHash3_x64_128 / XXH64 (self-checked on published vectors); the reference seed hash of 9001 is 0x93CC",
       "classic quantiles non-compact images are generated with full bit patterns only (see report: reader and Java disagree on sparse patterns)"])
def run_c10(oc, repo, seed, tier):
    gen_txt, ngen = _gen(oc)
    jobs = [
        # files 0..5: the baseline catalogue (one family group each) confronted with corpus/; further files: the same catalogue
        # with shifted item streams (variant v >= 1), writer check only
        _mkjob("layout_images", {Q: 2 * len(PARTS), T: 9 * len(PARTS)},
               lambda tier, fseed, k, profile: ["record", "--part", PARTS[k % len(PARTS)], "--corpus", CORPUS, "--vseed",
                                                0 if k < len(PARTS) else (seed - 1) * 8 + k // len(PARTS)]),
        _mkjob("layout_replay", {Q: 1, T: 1}, lambda tier, fseed, k, profile: ["replay", "--in", gen_txt]),
        _mkjob("layout_refs", {Q: 1, T: 1}, lambda tier, fseed, k, profile: ["refs", "--corpus", CORPUS]),
        _mkjob("layout_hash", {Q: 2, T: 12}, lambda tier, fseed, k, profile: ["hash", "--seed", fseed]),
    ]
    prog = cmp_ = 0
    for j in jobs:
        before = len(oc.samples)
        core.trace_job(oc, j, repo, seed, tier)
        del oc.samples[before + 1:]          # one literal sample per job is enough (images are long)
    # evidence: counts are recomputed from a fresh recording of each mode (cheap, deterministic) so they describe this tree
    exe = core.build_harness("layout_rec", repo)
    tmp = os.path.join(core.BUILD, "tr", "C10.count.%d.ndjson" % os.getpid())
    for args in ([["record", "--part", "all", "--corpus", CORPUS], ["replay", "--in", gen_txt], ["refs", "--corpus", CORPUS], ["hash", "--seed", seed * 1000]]):
        rc, out = core.record(exe, args, tmp, timeout=600)
        if rc == 0 and os.path.exists(tmp):
            p, c = _count([json.loads(l) for l in open(tmp)])
            prog += p; cmp_ += c
    for f in (tmp, gen_txt):
        if os.path.exists(f):
            os.remove(f)
    for s in oc.samples:                     # keep the evidence file readable
        for e in s.get("first_events", []):
            for k in ("bytes", "reser", "refh"):
                if isinstance(e.get(k), list) and len(e[k]) > 48:
                    e[k] = e[k][:48] + ["... %d more" % (len(e[k]) - 48)]
            for pk in ("proj", "sproj", "wproj"):
                if isinstance(e.get(pk), dict):
                    for k, v in e[pk].items():
                        if isinstance(v, list) and len(v) > 12:
                            e[pk][k] = v[:12] + ["... %d more" % (len(v) - 12)]
    oc.extra.update(programs=prog, disagreements_checked=cmp_, generated_images=ngen,
                    corpus_images=len([f for f in os.listdir(CORPUS) if f.endswith(".sk")]) if os.path.isdir(CORPUS) else 0)
