"""C12 - frequent items sketch."""
from . import core
from .props import prop, job, mc_all, Q, T


def fi_nontrivial(evs):
    # a segment is non-trivial if a purge happened (maximum error grew at an update) and a merge joined two sketches
    # that both carried weight
    total, purge, merge = {}, False, False
    off = {}
    for e in evs:
        k = e["e"]
        if k in ("Update", "UpdateZero", "New", "Copy", "Deser", "Merge"):
            i = e.get("id", e.get("dst"))
            if k == "Update" and e["off"] > off.get(i, 0):
                purge = True
            if k == "Merge" and total.get(e["src"], 0) > 0 and total.get(i, 0) > 0:
                merge = True
            total[i], off[i] = e["total"], e["off"]
        elif k == "Drop":
            total.pop(e["id"], None)
            off.pop(e["id"], None)
    return purge and merge


FI_JOB = job("fi",
    harness="fi_rec", inc=["common", "fi"], spec="TraceFreqItems", owners=["C12"], serde=True,
    files={Q: 8, T: 40},
    # thorough: every fifth file starts with one long segment on a lg_max 11 map (1537 active entries at a purge: sampled median)
    args=lambda tier, seed, k, profile: ["--seed", seed, "--segments", 6 if tier == Q else 8, "--events", 350 + 50 * (k % 4),
                                         "--maxlg", 8 if tier == Q else (11 if k % 5 == 0 else 9),
                                         "--big", 1 if (tier == T and k % 5 == 0) else 0,
                                         "--serde", 20 if profile == "serde" else 3],
    nontrivial=fi_nontrivial,
    rec_timeout=240,     # a recording takes seconds; a driver that hangs inside the library is reported as a crash
)

FI_MC = [
    dict(module="FreqItemsDesign", cfg="MC_FreqItemsDesign.cfg"),
    dict(module="FreqItemsDesign", cfg="MC_FreqItemsDesign_w1.cfg"),
    dict(module="MC_FreqItems", cfg="MC_FreqItems.cfg"),
    dict(module="FreqItemsDesign", cfg="MC_FreqItemsDesign_t.cfg", tier=T),
]


@prop("C12", "model_checking",
      "MC: exhaustive TLC runs of the reverse-purge design model (resize, purge with the code's median, merge replay in every order) refining the "
      "FreqItems contract, and of the multi-object contract itself (bracket for every item, estimate between bounds, ub-lb = maximum error, exact "
      "total, NO_FALSE_NEGATIVES / NO_FALSE_POSITIVES result sets for every threshold, epsilon); a negative config (merge guarded by 'no active rows' "
      "as on the pinned tree) must be reported by TLC as not refining the contract.  Traces: randomized histories of the real "
      "frequent_items_sketch<int64_t> / <std::string> (Zipf, uniform, all-distinct-then-repeats and equal-weight streams, zero weights, lg_max 3..8 "
      "quick / ..11 thorough, start sizes, lvalue and rvalue updates and merges between sketches of different sizes, copies, serialization), every "
      "event validated by TLC against the contract with the ground truth accumulated from the logged inputs; a segment is non-trivial when a purge "
      "happened and two sketches that both carried weight were merged; distinct = distinct segment content hash",
      ["items are logged as indices of the driver's universe; the rows of a sketch are logged on every event as the difference of "
       "get_frequent_items(NO_FALSE_NEGATIVES, 0) against the previous event (lossless)",
       "NO_FALSE_NEGATIVES clause is taken for the effective threshold max(threshold, get_maximum_error()) (no summary can return an item it dropped; "
       "the documented default threshold is the maximum error)",
       "epsilon clause uses the smallest lg_max_map_size in the merge lineage and applies while every map in the lineage has at most 1024 slots",
       "weights are integers, totals stay below 5e7 (TLC 32-bit integers)"])
def run_c12(oc, repo, seed, tier):
    mc_all(oc, FI_MC, tier)
    neg = core.model_check("FreqItemsDesign", "MC_FreqItemsDesign_neg.cfg", workers=4, timeout=300, expect_violation=True)
    oc.notes.append("negative config MC_FreqItemsDesign_neg.cfg (merge skips a sketch without active rows): TLC reports %s" % (neg["errors"][:1],))
    core.trace_job(oc, FI_JOB, repo, seed, tier)
