"""C12 - frequent items sketch."""
import os, re, shutil
from . import core
from .props import prop, job, mc_all, Q, T


def fi_nontrivial(evs):
    # a segment is non-trivial if a purge happened (maximum error grew at an update) and a merge joined two sketches
    # that both carried weight
    total, purge, merge = {}, False, False
    off = {}
    for e in evs:
        k = e["e"]
        if k in ("Update", "UpdateZero", "New", "Copy", "Deser", "Merge"):
            i = e.get("id", e.get("dst"))
            if k == "Update" and e["off"] > off.get(i, 0):
                purge = True
            if k == "Merge" and total.get(e["src"], 0) > 0 and total.get(i, 0) > 0:
                merge = True
            total[i], off[i] = e["total"], e["off"]
        elif k == "Drop":
            total.pop(e["id"], None)
            off.pop(e["id"], None)
    return purge and merge


def fi_nontrivial_wide(evs):
    # wide numbers are limb lists [l0..l3] (base 2^20): non-trivial if some total reached 2^53 (limb 2 >= 2^13 or limb 3 > 0) and a purge happened
    big = any(isinstance(e.get("total"), list) and (e["total"][3] > 0 or e["total"][2] >= 8192) for e in evs)
    purge = any(e["e"] == "Update" and any(e["off"]) for e in evs)
    return big and purge


FI_JOB = job("fi",
    harness="fi_rec", inc=["common", "fi"], spec="TraceFreqItems", owners=["C12"], serde=True,
    drift_cfg="TraceFreqItemsB.cfg",    # tier B: the mechanism of FreqItemsMech (code constants) applied to the logged pre-state
    files={Q: 8, T: 40},
    # thorough: every fifth file starts with one long segment on a lg_max 11 map (1537 active entries at a purge: sampled median)
    args=lambda tier, seed, k, profile: ["--seed", seed, "--segments", 6 if tier == Q else 8, "--events", 350 + 50 * (k % 4),
                                         "--maxlg", 8 if tier == Q else (11 if k % 5 == 0 else 9),
                                         "--big", 1 if (tier == T and k % 5 == 0) else 0,
                                         "--slotadv", 1 if tier == Q else 2,    # keys mined by home slot (layout-adversarial purge points)
                                         "--serde", 20 if profile == "serde" else 3],
    nontrivial=fi_nontrivial,
    rec_timeout=240,     # a recording takes seconds; a driver that hangs inside the library is reported as a crash
)

# 64-bit weights (totals crossing 2^53): the same driver with --wide 1, every number logged as 4 limbs of 20 bits and the same trace
# specification / contract evaluated on exact wide naturals (TraceFreqItemsW.cfg: WideNums = TRUE); tier A only
FI_WIDE_JOB = job("fi_wide",
    harness="fi_rec", inc=["common", "fi"], spec="TraceFreqItems", cfg="TraceFreqItemsW.cfg", owners=["C12"],
    files={Q: 2, T: 8},
    args=lambda tier, seed, k, profile: ["--seed", seed, "--segments", 4 if tier == Q else 6, "--events", 300, "--maxlg", 6,
                                         "--serde", 3, "--wide", 1],
    nontrivial=fi_nontrivial_wide, rec_timeout=240,
)

GEN_DIR = os.path.join(core.BUILD, "gen_fi.%d" % os.getpid())   # one directory per run
GEN_DEPTH = 60


def gen_fi(oc, tier, seed):
    """spec -> impl: TLC -simulate walks the frequent-items design model with the code's real minimum sizes (GenFreqItems.tla:
    LG_MIN_MAP_SIZE 3, lg_max 3 / 4, items 1..14, weights 0..3) and writes each finished walk with the model's expected map, offset,
    number of active items and lg_cur after every step; fi_rec --replay-dir replays them on the real sketch."""
    shutil.rmtree(GEN_DIR, ignore_errors=True)
    os.makedirs(GEN_DIR, exist_ok=True)
    n = 6 if tier == Q else 40
    rc, out, wall = core.tlc("GenFreqItems", "GenFreqItems.cfg", workers=4, timeout=900, heap="2g", env={"GEN_DIR": GEN_DIR},
                             simulate="num=%d" % n, extra=("-depth", str(GEN_DEPTH + 1), "-seed", str(seed)))
    r = core.parse_tlc(out)
    nb = len([f for f in os.listdir(GEN_DIR) if f.endswith(".ndjson")])
    if nb == 0 or r["parse_error"]:
        raise core.MachineryError("behaviour generation GenFreqItems produced nothing:\n" + out[-2000:])
    m = re.search(r"The number of states generated: (\d+)", out)
    oc.mc.append({"module": "GenFreqItems", "cfg": "GenFreqItems.cfg (-simulate)", "generated": int(m.group(1)) if m else 0,
                  "distinct": nb * (GEN_DEPTH + 1), "depth": GEN_DEPTH + 1, "wall_s": round(wall, 1)})
    oc.extra["generated_behaviours"] = nb
    core.log("  generated %d behaviours of depth %d with TLC -simulate in %.1fs" % (nb, GEN_DEPTH, wall))


def replay_nontrivial(evs):
    # a replayed behaviour is non-trivial if the model purged (or resized) at least once: maximum error or lg_cur changed
    off = lg = None
    for e in evs:
        if e["e"] in ("Update", "New"):
            if off is not None and (e["off"] != off or e["lgCur"] != lg):
                return True
            off, lg = e["off"], e["lgCur"]
    return False


FI_REPLAY_JOB = job("fi_replay",
    harness="fi_rec", inc=["common", "fi"], spec="TraceFreqItems", owners=["C12"], drift_cfg="TraceFreqItemsB.cfg",
    files={Q: 2, T: 4},
    args=lambda tier, seed, k, profile: ["--seed", seed, "--replay-dir", GEN_DIR, "--part", k, "--parts", 2 if tier == Q else 4],
    nontrivial=replay_nontrivial, rec_timeout=240,
)

FI_MC = [
    dict(module="FreqItemsDesign", cfg="MC_FreqItemsDesign.cfg"),
    dict(module="FreqItemsDesign", cfg="MC_FreqItemsDesign_w1.cfg"),
    dict(module="MC_FreqItems", cfg="MC_FreqItems.cfg"),
    dict(module="FreqItemsDesign", cfg="MC_FreqItemsDesign_t.cfg", tier=T),
    dict(module="FreqItemsDesign", cfg="MC_FreqItemsDesign_w1t.cfg", tier=T),
]


@prop("C12", "model_checking",
      "MC: exhaustive TLC runs of the reverse-purge design model (resize, purge with the code's median, merge replay in every order) refining the "
      "FreqItems contract, and of the multi-object contract itself (bracket for every item, estimate between bounds, ub-lb = maximum error, exact "
      "total, NO_FALSE_NEGATIVES / NO_FALSE_POSITIVES result sets for every threshold, epsilon); a negative config (merge guarded by 'no active rows' "
      "as on the pinned tree) must be reported by TLC as not refining the contract.  Traces: randomized histories of the real "
      "frequent_items_sketch<int64_t> / <std::string> (Zipf, uniform, all-distinct-then-repeats and equal-weight streams, zero weights, lg_max 3..8 "
      "quick / ..11 thorough, start sizes, lvalue and rvalue updates and merges between sketches of different sizes, copies, serialization), every "
      "event validated by TLC against the contract with the ground truth accumulated from the logged inputs; a segment is non-trivial when a purge "
      "happened and two sketches that both carried weight were merged; distinct = distinct segment content hash.  Tier B (drift only): every accepted "
      "trace is also validated against the mechanism of the design model (FreqItemsMech with the code's constants: capacity 0.75, LG_MIN 3, median purge, "
      "merge replay in the other's table order, lg_cur from to_string()).  spec -> impl: TLC -simulate walks of GenFreqItems (depth 60) are replayed on the "
      "real sketch and validated in both tiers together with the model's expected state (generated states are counted in the MC statistics)",
      ["items are logged as indices of the driver's universe; the rows of a sketch are logged on every event as the difference of "
       "get_frequent_items(NO_FALSE_NEGATIVES, 0) against the previous event (lossless)",
       "NO_FALSE_NEGATIVES clause is taken for the effective threshold max(threshold, get_maximum_error()) (no summary can return an item it dropped; "
       "the documented default threshold is the maximum error)",
       "epsilon clause uses the smallest lg_max_map_size in the merge lineage and applies while every map in the lineage has at most 1024 slots",
       "weights are integers, totals stay below 5e7 (TLC 32-bit integers)"])
def run_c12(oc, repo, seed, tier):
    mc_all(oc, FI_MC, tier)
    neg = core.model_check("FreqItemsDesign", "MC_FreqItemsDesign_neg.cfg", workers=4, timeout=300, expect_violation=True)
    oc.notes.append("negative config MC_FreqItemsDesign_neg.cfg (merge skips a sketch without active rows): TLC reports %s" % (neg["errors"][:1],))
    core.trace_job(oc, FI_JOB, repo, seed, tier)
    core.trace_job(oc, FI_WIDE_JOB, repo, seed, tier)
    gen_fi(oc, tier, seed)
    core.trace_job(oc, FI_REPLAY_JOB, repo, seed, tier)
    shutil.rmtree(GEN_DIR, ignore_errors=True)
