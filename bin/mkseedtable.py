#!/usr/bin/env python3
"""Prints the markdown table of seeded changes (seeded/*/meta.json) for DESIGN.md section 12."""
import json, glob, os
rows = []
for d in sorted(glob.glob(os.path.join(os.path.dirname(os.path.dirname(os.path.abspath(__file__))), "seeded", "*", "meta.json"))):
    m = json.load(open(d)); sid = os.path.basename(os.path.dirname(d))
    other = [c for c in m["caught_by"] if c != m["property"]]
    if m["caught_by"] and not m.get("missed_by_first_version"):
        verdict = "caught" if m["property"] in m["caught_by"] else "caught by " + " / ".join(other) + " (the property's own check passes)"
    elif m["caught_by"]:
        verdict = "missed at first, caught after strengthening: " + m.get("after_strengthening", "")
    else:
        verdict = "**missed** (follow-up pending)"
    rows.append("| %s | %s | %s |" % (sid, m["needs_to_manifest"].replace("|", "/"), verdict.replace("|", "/")))
print("| seeded change | what it needs in order to manifest | result of `bin/check <id> --repo <tree with the change>` |\n|---|---|---|")
print("\n".join(rows))
n = len(rows); c1 = sum(1 for r in rows if r.endswith("| caught |") or "| caught by C" in r); miss = sum(1 for r in rows if "**missed**" in r)
print("\n%d seeded changes: %d caught by the first version of the check, %d caught after strengthening, %d still missed." % (n, c1, n - c1 - miss, miss))
