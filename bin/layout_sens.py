#!/usr/bin/env python3
"""Development aid for C10 (not part of bin/check): byte sensitivity of the documented reader.

For every Image event of a recorded catalogue trace, make copies in which ONE byte of the image is changed (every
offset of small images, a sample of larger ones) and let TLC evaluate the clauses of TraceLayout on each copy without
stopping (spec/TraceLayoutSens.tla).  Reports, per family, the offsets whose corruption no clause notices - these are
the bytes the transcription does not pin down (padding it does not require to be zero, floating-point accumulators
the public API does not expose, entropy-coded CPC payload, ...).

usage: bin/layout_sens.py TRACE.ndjson [--max-per-image N] [--families a,b]"""
import argparse, json, os, random, re, subprocess, sys, collections
sys.path.insert(0, os.path.dirname(os.path.abspath(__file__)))
from vlib import core, munge

def main():
    ap = argparse.ArgumentParser()
    ap.add_argument("trace")
    ap.add_argument("--max-per-image", type=int, default=96)
    ap.add_argument("--families", default="")
    a = ap.parse_args()
    fams = set(a.families.split(",")) if a.families else None
    rnd = random.Random(1)
    out, meta = [], []
    for ln in open(a.trace):
        e = json.loads(ln)
        if e["e"] == "Begin":
            out.append(e); meta.append(None); continue
        if e["e"] != "Image" or (fams and e["family"] not in fams):
            continue
        out.append(e); meta.append((e["family"], e["kind"], -1))
        n = len(e["bytes"])
        head = min(48, a.max_per_image // 2)
        offs = list(range(n)) if n <= a.max_per_image else sorted(set(list(range(head)) + rnd.sample(range(n), a.max_per_image - head)))
        for o in offs:
            m = json.loads(ln)
            m["bytes"][o] ^= 1 << rnd.randrange(8)
            out.append(m); meta.append((e["family"], e["kind"], o))
    os.makedirs(os.path.join(core.BUILD, "tr"), exist_ok=True)
    mfile = os.path.join(core.BUILD, "tr", "sens.%d.ndjson" % os.getpid())
    with open(mfile, "w") as f:
        for e in out:
            f.write(json.dumps(e, separators=(",", ":")) + "\n")
    rc, txt, wall = core.tlc("TraceLayoutSens", "TraceLayoutSens.cfg", workers=1, timeout=3600, env={"TRACE": mfile}, heap="6g")
    os.remove(mfile)
    verdict = {}
    for m in re.finditer(r'<<"SENS", (\d+), (TRUE|FALSE)>>', txt):
        verdict[int(m.group(1))] = m.group(2) == "TRUE"
    if len(verdict) != len(out):
        i = txt.find("Error:"); print("first unevaluated event:", meta[len(verdict)], json.dumps(out[len(verdict)])[:600]); print("TLC evaluated %d of %d events\n%s" % (len(verdict), len(out), txt[max(0, i - 1500):i + 2500])); return 2
    surv = collections.defaultdict(list); tot = collections.Counter(); bad_orig = []
    for i, mt in enumerate(meta):
        if mt is None: continue
        fam, kind, off = mt
        ok = verdict[i + 1]
        if off < 0:
            if not ok: bad_orig.append((fam, kind))
            continue
        tot[fam] += 1
        if ok: surv[fam].append((kind, off))
    print("events %d, TLC %.0fs" % (len(out), wall))
    if bad_orig: print("ORIGINAL images rejected:", bad_orig)
    for fam in sorted(tot):
        s = surv.get(fam, [])
        print("%-10s corruptions %5d  unnoticed %4d (%.1f%%)" % (fam, tot[fam], len(s), 100.0 * len(s) / tot[fam]))
        by = collections.defaultdict(list)
        for k, o in s: by[k].append(o)
        for k in sorted(by): print("      %-28s offsets %s" % (k, by[k][:40]))
    return 0

if __name__ == "__main__":
    sys.exit(main())
