#!/usr/bin/env python3
"""Prints the measured per-property numbers of the current evidence files (DESIGN.md section 12, second table)."""
import json, glob, os
root = os.path.dirname(os.path.dirname(os.path.abspath(__file__)))
print("| id | tier / seed | level | TLC states (transitions) | executions validated against the real code | events | wall s |")
print("|---|---|---|---|---|---|---|")
for f in sorted(glob.glob(os.path.join(root, "evidence", "C*.json"))):
    e = json.load(open(f)); c = e["coverage"]
    print("| %s | %s / %s | %s | %s (%s) | %s segments, %s non-trivial | %s | %s |" % (
        e["property_id"], e["tier"], e["seed"], e["level"], c.get("states", 0), c.get("transitions", 0),
        c.get("traces_validated_against_impl", 0), c.get("distinct_nontrivial", 0), c.get("evaluations", 0), int(e.get("wall_s", 0))))
