#!/usr/bin/env python3
"""Regenerates /verif/MANIFEST.json from the table below (kept in one place so it stays valid and current)."""
import json, os, subprocess

VERIF = os.path.dirname(os.path.dirname(os.path.abspath(__file__)))
TECH = "TLA+ contract (and design model refining it) model-checked by TLC; trace validation by TLC of recorded executions of the real classes against the contract"

# property -> (category, text, note, technique, design_ref)
CLAIMS = {
 "C01": ("model_checking",
         "TLC exhausts the Theta design model (hash table with resize/rebuild/trim/reset) against the contract written from the property (refinement + invariants) for small constants and the multi-object contract itself; every event of randomized executions of the real update_theta_sketch (12 input overloads, p, seeds, resize factors, trim/reset/copy/compact/serde) is validated by TLC against the same contract using independently computed reference hashes",
         "trusted: TLC, harness/refhash.hpp (published MurmurHash3, self-checked), the order-isomorphic renaming of 63-bit values; traces cover lg_k 5..13",
         TECH, "DESIGN.md 6 C01"),
 "C02": ("model_checking",
         "TLC exhausts the design model of union / intersection / A-not-B (per-entry processing in every physical iteration order, early stop, rebuild, intersection state machine, sort- vs hash-based difference) against the declarative set-expression contract for every sequence of <= 3 operands of an 11-value catalogue; every result of randomized expressions over operands in 6 physical forms on the real classes is validated by TLC against the same definitions",
         "trusted: TLC; operand values are taken as observed through the public API (C01 covers them); one recorded known finding (order-dependent sticky-empty intersection corner) is recognised by a named marker",
         TECH, "DESIGN.md 6 C02"),
 "C13": ("model_checking",
         "TLC exhausts the tuple design model (Theta table whose entries carry summaries created / updated in place / moved through resize and rebuild) against the free-monoid contract (summary = sequence of all values offered with the key); recorded executions of update_tuple_sketch (list summary with append/concatenation policies and a custom serde; array_of_doubles with integer columns), a lock-step theta sketch on the same keys, filter and the three set operations are validated by TLC event by event",
         "trusted: TLC, reference hashes; the list summary makes every concrete policy a fold of the observed sequence; the set-operation key semantics are those of C02 (incl. its recorded intersection corner)",
         TECH, "DESIGN.md 6 C13"),
 "C06": ("exploration",
         "dense sweep of the shared binomial-bound functions, seeded accuracy trials per family/lg_k/n judged by TLC in integer arithmetic (bias, spread against the published RSE, coverage at 1..3 std devs), and bound-coherence / exactness clauses evaluated by TLC at every observation of the Theta, set-operation, Tuple, HLL, HLL-union and CPC traces",
         "statistical clauses are acceptance predicates over seeded samples (thresholds >= 6 standard errors + stated slack); the specification is an evaluator here, exhaustiveness comes from the sweep",
         "TLA+ acceptance specification evaluated by TLC over recorded sweeps and trials of the real estimators; C06 clauses inside the family trace specifications", "DESIGN.md 6 C06"),
 "C03": ("model_checking",
         "TLC exhausts the HLL design model (list/set thresholds, HLL_4 nibble + cur-min + aux-exception mechanism with its four cases and the cur-min shift, HLL_6/8) refining the contract (content = coupon set / per-slot max of the reference coupons fed); recorded lock-step executions of HLL_4/6/8 and start-full-size sketches on the same items (typed overloads, conversion copies, reset, permuted re-feeds) are validated by TLC against the contract, registers read from the documented updatable image",
         "trusted: TLC, reference coupon computed with harness/refhash.hpp; lg_k 4..12 (quick) / ..16 (thorough) in traces",
         TECH, "DESIGN.md 6 C03"),
 "C04": ("model_checking",
         "TLC exhausts the union design model (gadget with rebuild flag and stale counters, the case analysis on source mode / gadget mode / emptiness / relative lg_k, lvalue and rvalue update, get_result / get_estimate side effects) against the contract ResultDef (per-slot max of every coupon ever offered, folded to the minimum lg_k); negative configs reproduce the two repaired defects; recorded unions over inputs of random lg_k / type / fill level in several permutations are validated by TLC against ResultDef",
         "trusted: TLC, reference coupons; the result content is read through get_result(HLL_8).serialize_updatable()",
         TECH, "DESIGN.md 6 C04"),
 "C05": ("model_checking",
         "TLC exhausts the CPC design model (sparse / windowed representation, surprising-value table, first-interesting-column filter, promotion and window moves) and the union design model (accumulator vs bit-matrix cases A-D, reduce_k) refining the contract (matrix = set of reference (row, col) pairs, union = OR of row-folded matrices at the minimum lg_k); recorded executions crossing every flavor boundary, unions in several permutations and serialization round trips are validated by TLC against the contract with the matrix read through the verification hook",
         "trusted: TLC, reference (row, col) from harness/refhash.hpp, the guarded accessor cpc_sketch::verif_bit_matrix(); the entropy-coded payload is checked by round trip only",
         TECH, "DESIGN.md 6 C05"),
 "C10": ("translation_validation",
         "a reader written only from the layout documentation, as TLA+ Decode operators for 16 families, is compared by TLC field by field with what the implementation's API reports for every image of a deterministic catalogue; TLA+ Encode generates legacy / variant images (Theta v1-v4, Tuple legacy, KLL v1/v2, quantiles v1-v3, t-digest reference formats) that the real readers must reproduce; a corpus of 217 baseline images and the 15 shipped reference images must still read back to their recorded content and match the current writer; hashing of every input type is derived by TLC from reference hash words",
         "trusted: TLC, the layout comments as transcribed in spec/Layout.tla, harness/refhash.hpp; CPC payload and bytes the API does not expose are pinned by byte equality with the corpus only",
         "TLA+ transcription of the documented layouts (Decode/Encode) evaluated by TLC against images written and read by the real serializers", "DESIGN.md 6 C10"),
 "C15": ("model_checking",
         "TLC exhausts the Bloom contract over memory regions and views (copy, serialize/deserialize, wrap and writable wrap of memory another view writes later, union/intersect/invert, read-only refusal) and the design model of the repaired count caching (stored / cached / dirty, write-through points) refining it; negative configs reproduce the three repaired defects; recorded random interleavings over owned and caller-memory filters with reference XXH64 index tuples are validated by TLC against the contract; false-positive rate judged by a seeded verdict",
         "trusted: TLC, reference XXH64 double hashing from harness/refhash.hpp; coherence is claimed for views created after the last write by another view (the documented 'later wrap' scenario)",
         TECH, "DESIGN.md 6 C15"),
 "C16": ("model_checking",
         "TLC exhausts the VarOpt design model (warm-up, light / heavy dispatch, candidate-set growth, the one random deletion as an explicit parameter) refining the contract (min(n,k) items from the stream, heavy items exact, adjusted weights sum to the exact total); recorded histories with distinct items and integer weights, unions of sketches in every fill state, serialization round trips and continued use are validated by TLC against the contract; unbiasedness by a seeded verdict",
         "trusted: TLC; integer weights make every comparison exact; 'effective k' of a union is the result's own k <= max_k (the library documents that k floats)",
         TECH, "DESIGN.md 6 C16"),
 "C18": ("model_checking",
         "TLC exhausts the EBPPS bookkeeping contract (n, cumulative weight, maximum weight, k, c = min(k, W/wmax) as an exact rational, result sizes floor/ceil(c), merge in both directions) for small constants; recorded histories (updates, merges lvalue/rvalue in both size orders incl. empty operands, results, serialization) are validated by TLC against it; proportional inclusion by a seeded verdict",
         "trusted: TLC; get_c() is compared with the exact rational within one unit of 1e-4",
         TECH, "DESIGN.md 6 C18"),
 "C07": ("model_checking",
         "TLC exhausts design models of KLL (levels, integer capacities, compress-while-updating, merge), REQ (compactors, sections, compaction ranges) and classic quantiles (base buffer, bit pattern, carry propagation) with coins as explicit parameters, refining one contract instantiated for the three families (n, exact min/max, weights sum to n, num_retained, published space bound, exact while nothing compacted); recorded histories over item types, stream shapes, k ranges and merge trees are validated by TLC against the contract, including the sorted-view operators Rank / Quantile / CDF / PMF evaluated in integers and the refusal of invalid queries",
         "trusted: TLC; items are abstracted to their rank under the comparator (order-isomorphism); rank*n is logged as an integer with a checked residual",
         TECH, "DESIGN.md 6 C07"),
 "C08": ("model_checking",
         "(a) exhaustive coin trees on the real code: a fixed scenario per family (also with merges) is run once per coin string for all 2^f strings through the coin hook; TLC requires every leaf to consume the same number of flips and the weights below every value, summed over all leaves, to equal 2^f times the true weight exactly; (b) TLC checks the martingale invariant and the outcome-independent shadow machine (REQ: ensemble semantics) on the design models; (c) published-error acceptance over seeded long-stream trials",
         "trusted: TLC, the guarded coin hook random_utils::random_bit; (c) is an acceptance predicate over samples (>= 6 standard errors + stated slack)",
         "exhaustive coin-tree enumeration of the real sketches through the coin hook judged by a TLA+ specification; martingale invariant model-checked on the design models", "DESIGN.md 6 C08"),
 "C11": ("fault_enumeration",
         "for every image of a catalogue of 161 (quick) / 205 (thorough) images of all families: every strict prefix on the bytes, stream and wrap paths and every preamble byte x 7 replacement values, each attempt run behind a guard page with an allocation cap, RLIMIT_AS, an alarm and a tracking allocator (thorough also under ASan); the outcome trace is validated by TLC against the Reader contract (Throw always allowed; Same only when the prefix still holds all information; Usable after corruption; OOB / Crash / Hang / Leak / HugeAlloc / Different forbidden)",
         "trusted: TLC, the guard-page / allocator / rlimit instrumentation as event source; infoLen is computed by the harness from the documented layouts; 8 recorded known findings (stream pre-allocation from a corrupted count in 7 families, CPC decoder trusting its preamble) are matched by family / path / mode / outcome",
         "exhaustive fault enumeration (prefix truncation, preamble byte corruption) of the real readers, outcomes judged by a TLA+ contract via TLC", "DESIGN.md 6 C11"),
 "C19": ("model_checking",
         "TLC enumerates all interleavings (modulo slot symmetry and commuting calls) of a 13-call lifecycle alphabet over 3 slots to depth 4..6 from the Lifecycle contract; every behaviour is replayed on 19 sketch / operator types instantiated with an id-carrying tracking allocator and an instrumented item type, and the resulting event trace (calls + Alloc/Dealloc + item ctor/dtor/use) is validated by TLC against the contract: equal histories give equal digests, copies are independent, moves transfer the state and leave the source destructible / assignable, deallocation matches allocation (size, allocator instance), no use after destruction, nothing live at the end",
         "trusted: TLC, the tracking allocator and probe item as event sources; determinism through a constant coin source and re-seeding before every call; thorough tier repeats the replay under ASan",
         "TLC-generated behaviours (spec -> impl) replayed on the real classes; trace validation of the replay against the TLA+ lifecycle contract", "DESIGN.md 6 C19"),
 "C12": ("model_checking",
         "TLC exhausts the frequent-items design model (open-addressing map with resize, purge at the code's median, merge replay, offset bookkeeping) refining the contract (for every item of the universe lb <= true weight <= ub and lb <= est <= ub as RETURNED by the queries, ub - lb = maximum error, exact total weight, NO_FALSE_NEGATIVES / NO_FALSE_POSITIVES set definitions, descending order, published epsilon); recorded weighted streams (Zipf / uniform / adversarial, int64 and string items, merge trees lvalue and rvalue, serialization) are validated by TLC against the contract; a negative config reproduces the repaired empty-map defect",
         "trusted: TLC; the universe per segment is small (<= ~60 items incl. never-seen ones) so every item is queried at every observation",
         TECH, "DESIGN.md 6 C12"),
 "C14": ("model_checking",
         "TLC exhausts the count-min design model (row hash as an unknown function quantified over all functions up to bucket renaming, estimate = row minimum, upper bound formula, cell-wise merge) refining the contract (truth <= estimate <= total, lb <= est <= ub, total = sum of |w|, merge equals a witness sketch fed the concatenated stream, self / incompatible merges refused); recorded histories over rows x buckets x seeds x item types with a witness sketch are validated by TLC; exceedance rate by a seeded verdict; tier-B (learned row hash) reported as drift only",
         "trusted: TLC; the row seeds come from std::default_random_engine, which the documentation does not fix, so the row hash is learned from the trace rather than recomputed",
         TECH, "DESIGN.md 6 C14"),
 "C17": ("model_checking",
         "TLC exhausts the t-digest contract (compress as a contiguous coarsening of the sorted centroid / buffer sequence with means inside their runs; merge in both directions) for small constants: weight conservation, exact min / max, sortedness and the centroid bound under every grouping; recorded histories (float and double, merges, reference-format images, serialization with and without buffer) are validated by TLC: total weight, exact extremes, rank and quantile monotone over dense grids and inside [0,1] / [min,max], q(0) = min, q(1) = max, CDF / PMF consistent, invalid queries refused; accuracy (middle vs tails) by a seeded verdict",
         "trusted: TLC; the scale function is not modelled (contract only, no tier B); monotonicity is judged up to 4 ulps, range clauses are strict",
         "TLA+ contract model-checked by TLC; trace validation by TLC of recorded executions of the real class against the contract", "DESIGN.md 6 C17"),
 "C20": ("model_checking",
         "TLC exhausts the density contract (levels of weight 2^h, every promoted subset at every compaction, merges) for small constants: n exact, retained = number of iterated points, retained <= k * levels, every retained point an input point; recorded histories with an integer-valued user kernel (so the exact-mode estimate is an integer TLC recomputes) and the Gaussian kernel, merges, wrong-dimension updates and serialization are validated by TLC against the contract",
         "trusted: TLC, the coin hook and override_seed for determinism; one recorded known finding (image with an empty top level does not round-trip, C09)",
         "TLA+ contract model-checked by TLC; trace validation by TLC of recorded executions of the real class against the contract", "DESIGN.md 6 C20"),
 "C09": ("exploration",
         "every family trace driver with serialization events is re-run in its serde-heavy profile (15-20 % Ser / Deser / Wrap events at random points of random histories, followed by the same continued operations on original and restored objects) and every event is validated by TLC against the family's TLA+ contract: restored projection = model value stored with the blob, bytes = stream form, advertised size, h header bytes + same image, stream reader consumed exactly the image, re-serialization reproduces the image; all 16 serializable types incl. compact / updatable HLL, compressed / uncompressed / wrapped Theta, custom serdes, var_opt_union state, t-digest with and without buffer, Bloom in caller memory",
         "random exploration of the states the family drivers reach; only rejections at serialization events / on restored objects / of C09-named clauses are attributed to this property; one recorded known finding (density empty top level)",
         "trace validation by TLC of recorded serialization round trips of the real classes against the family TLA+ contracts", "DESIGN.md 6 C09"),
}

PENDING_REASON = "check not yet built in this round (work in progress; DESIGN.md section 10 build order)"
NOT_APPLICABLE = {}

def main():
    ids = [json.loads(l)["id"] for l in open(os.path.join(VERIF, "properties.jsonl"))]
    hooks = []
    try:
        out = subprocess.run(["git", "-C", "/repo", "log", "--format=%h %s"], stdout=subprocess.PIPE).stdout.decode()
        hooks = [l.split()[0] for l in out.splitlines() if l.split(" ", 1)[1].startswith("verif hook")]
    except Exception:
        pass
    m = {
     "version": 1,
     "setup_cmd": "mkdir -p build evidence replays",
     "hooks": {
      "guard": "DATASKETCHES_VERIF",
      "enable": "harnesses are single translation units compiled by bin/check with -DDATASKETCHES_VERIF against /repo/<family>/include of the current working tree",
      "baseline_off_cmd": "cmake --build /repo/_build -j16 && ctest --test-dir /repo/_build -j8 --timeout 900",
      "source_commits": list(reversed(hooks)),
      "add_only": True,
     },
     "engines": [{"name": "tlc-trace", "path": "bin/check", "serves_properties": sorted(CLAIMS),
                  "kind_free_text": "explicit TLA+ specifications (contract + design model per family) model-checked by TLC; recorded and TLC-generated executions of the real classes validated against the specification by TLC"}],
     "checks": [],
     "notes": "All checks: `bin/check <id> --tier quick|thorough [--seed N] [--repo DIR]`; exit 0 held / 1 VIOLATION / 2 machinery failure. known_findings.json lists recorded and fixed defects. See DESIGN.md.",
     "not_applicable": [],
    }
    for pid in ids:
        if pid in CLAIMS:
            cat, text, note, tech, ref = CLAIMS[pid]
            m["checks"].append({
              "property_id": pid,
              "quick_cmd": "bin/check %s --tier quick" % pid,
              "thorough_cmd": "bin/check %s --tier thorough" % pid,
              "evidence_file": "evidence/%s.json" % pid,
              "replay_cmd_template": "bin/check %s --replay {path}" % pid,
              "engine": "tlc-trace",
              "level_claimed": {"category": cat, "text": text, "design_ref": ref},
              "level_note": note,
              "technique": tech,
            })
        else:
            m["not_applicable"].append({"property_id": pid, "reason": NOT_APPLICABLE.get(pid, PENDING_REASON)})
    json.dump(m, open(os.path.join(VERIF, "MANIFEST.json"), "w"), indent=1)
    print("MANIFEST.json: %d checks, %d not_applicable" % (len(m["checks"]), len(m["not_applicable"])))

if __name__ == "__main__":
    main()
