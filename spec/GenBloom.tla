---- MODULE GenBloom ----
(***************************************************************************)
(* Behaviour generation (spec -> impl) for C15.  TLC walks the design      *)
(* model BloomDesign (which refines the contract Bloom, so the answers it  *)
(* carries are the contract's) over ONE caller-memory region, three        *)
(* filter slots and three items with overlapping index pairs, from the     *)
(* state "slot 1 = initialize_by_size(region 1)", and writes behaviours    *)
(* for `bloom_rec --replay` to execute on real filters.  Each step carries *)
(* the expected outcome / answer / count and the expected stored count     *)
(* word of the region (tier B).                                            *)
(*                                                                         *)
(* Alphabet: Wrap, WWrap, Deser, Copy (into the least free slot - slot     *)
(* symmetry), Update (also through a STALE view), QueryUpdate, BitsUsed,   *)
(* Reset, Invert, Union, Intersect (two different filters), Drop, all on   *)
(* every live slot incl. read-only views (refusals).  Queries are pure:    *)
(* the replay harness asks every fresh view for all three items at the end *)
(* of each behaviour instead of branching on them.                         *)
(*                                                                         *)
(* Pruning: two histories that reach the same model state (bits, ghost     *)
(* items, views with their fresh / read-only flags, cached counts, dirty   *)
(* flags, stored count word) are extended identically, so ONE shortest     *)
(* history per state is kept (VIEW without hist, BFS, -workers 1) and      *)
(* EVERY action enabled in that state is emitted as its own behaviour      *)
(* (the constraint Collect sees each generated transition before states    *)
(* are identified): all (reachable state, call) pairs within Depth calls,  *)
(* i.e. every interleaving up to the equivalence "same model state".       *)
(* Whether the implementation's state really is a function of the model    *)
(* state is what tier B (stored count word) and the random driver watch.   *)
(*   GEN_OUT=<prefix> tlc -workers 1 -config GenBloom.cfg GenBloom.tla     *)
(***************************************************************************)
EXTENDS BloomDesign, Json, IOUtils
CONSTANTS Depth
VARIABLE hist
gvars == <<dvars, hist>>
M == 1
GenCfgs == {[cap |-> 4, hashes |-> 2, seed |-> 1]}    \* the model's capacity; the harness uses 64 / 128 / 192
Cfg0 == CHOOSE c \in Cfgs : TRUE
Item(k) == {k - 1, k}                                   \* {0,1}, {1,2}, {2,3}
LeastFree(s) == s \notin Live /\ \A t \in FltIds : t < s => t \in Live
Inverted == \E n \in DOMAIN hist : hist[n].op = "Invert" /\ hist[n].o = "ok"
\* expected observable result of the step and expected stored count word (-3: the region holds no count)
Step(op, f, g, k) == [op |-> op, f |-> f, g |-> g, x |-> k, o |-> out'.o, a |-> out'.a,
                      n |-> IF Inverted \/ op = "Invert" THEN -1 ELSE out'.n,     \* model cap 4 /= real cap: counts differ after invert
                      st |-> IF mem'[M].empty THEN -3                              \* no count word
                             ELSE IF (Inverted \/ op = "Invert") /\ stored'[M] >= 0 THEN -4   \* a count after invert: unknown (see n)
                             ELSE stored'[M]]
Rec(op, f, g, k) == hist' = Append(hist, Step(op, f, g, k))

GInit == /\ flt = (1 :> C!View(M, Cfg0, FALSE)) /\ mem = (M :> C!Image(Cfg0, FALSE, {}, {}))
         /\ book = (1 :> Bk(0, FALSE)) /\ stored = (M :> 0) /\ out = C!Ok /\ hist = <<>>
         /\ TLCSet(1, <<>>) /\ TLCSet(2, 0) /\ TLCSet(3, 0)
Create(s) == \/ Wrap(M, s) /\ Rec("Wrap", s, 0, 0)
             \/ WritableWrap(M, s) /\ Rec("WWrap", s, 0, 0)
             \/ Deser(M, s) /\ Rec("Deser", s, 0, 0)
             \/ \E h \in Live : Copy(h, s) /\ Rec("Copy", h, s, 0)
OnItem(f, k) == \/ Update(f, Item(k)) /\ Rec("Update", f, 0, k)
                \/ QueryUpdate(f, Item(k)) /\ Rec("QueryUpdate", f, 0, k)
OnOne(f) == \/ BitsUsed(f) /\ Rec("BitsUsed", f, 0, 0)
            \/ Reset(f) /\ Rec("Reset", f, 0, 0)
            \/ Invert(f) /\ Rec("Invert", f, 0, 0)
            \/ Cardinality(Live) > 1 /\ Drop(f) /\ Rec("Drop", f, 0, 0)
OnTwo(f, g) == \/ Union(f, g) /\ Rec("Union", f, g, 0)
               \/ Intersect(f, g) /\ Rec("Intersect", f, g, 0)
GNext ==
  /\ Len(hist) < Depth
  /\ \/ \E s \in FltIds : LeastFree(s) /\ Create(s)
     \/ \E f \in Live, k \in 1..3 : OnItem(f, k)
     \/ \E f \in Live : OnOne(f)
     \/ \E f \in Live : \E g \in Live \ {f} : OnTwo(f, g)
GSpec == GInit /\ [][GNext]_gvars
\* states are identified without the history, the last result and the ghost `ins` (the implementation has no ghost; no
\* expected answer depends on it)
NoGhost(r) == [x \in DOMAIN r \ {"ins"} |-> r[x]]
NoHist == <<[f \in Live |-> NoGhost(flt[f])], [m \in Regions |-> NoGhost(mem[m])], book, stored>>

\* every generated transition is a behaviour; buffered in register 1, flushed every Chunk behaviours
Chunk == 2000
File(n) == IOEnv.GEN_OUT \o "." \o ToString(n)
Collect == IF hist = <<>> THEN TRUE
           ELSE LET acc == Append(TLCGet(1), hist) IN
                /\ TLCSet(3, TLCGet(3) + 1)
                /\ IF Len(acc) < Chunk THEN TLCSet(1, acc)
                   ELSE ndJsonSerialize(File(TLCGet(2)), acc) /\ TLCSet(2, TLCGet(2) + 1) /\ TLCSet(1, <<>>)
Post == /\ (Len(TLCGet(1)) > 0 => ndJsonSerialize(File(TLCGet(2)), TLCGet(1)))
        /\ PrintT(<<"BEHAVIOURS", TLCGet(3), "FILES", TLCGet(2) + (IF Len(TLCGet(1)) > 0 THEN 1 ELSE 0)>>)
====
