\* one sketch, k = 2 (code minimum), items 1..3, every stream of up to 12 items (bit patterns 0..3),
\* every coin string of every carry propagation
SPECIFICATION Spec
CONSTANTS Ids = {1}
 Items = {1, 2, 3}
 Ks = {2}
 MaxN = 12
 ZipIgnoresCoin = 0
INVARIANT RepOK CInv Martingale
PROPERTY Refines
CONSTRAINT NBound
CHECK_DEADLOCK FALSE
