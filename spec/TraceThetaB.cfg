SPECIFICATION TSpec
CONSTANTS Ids = {} Hashes = {} Ks = {} Starts = {} MaxH = 0 CheckDesign = TRUE
INVARIANT Inv
POSTCONDITION Accepted
CHECK_DEADLOCK FALSE
