\* NEGATIVE config (self-test only): model of the PINNED union_with / intersect / invert, which lack the read-only
\* check.  Must violate the contract in 3 calls: InitMem(f1, 1, c); Wrap(1, f2); Invert(f2) is not refused.
SPECIFICATION MCSpecR
CONSTANTS FltIds = {f1, f2}
 MemIds = {1}
 Cfgs <- MCCfg1
 Items <- MCItems
 MaxCalls = 5
 WriteDirtyThrough = TRUE
 QauKeepsDirty = TRUE
 RoCheckSetOps = FALSE
 RemarkWhenDirty = TRUE
INVARIANT CInv
CONSTRAINT MCBound
CHECK_DEADLOCK FALSE
