---- MODULE HllMech ----
(***************************************************************************)
(* The mechanism of hll_sketch as pure operators on a design record        *)
(*   d = [mode, type, list, set, setLg, h]                                 *)
(* (CouponList / CouponHashSet / promotion by replay / Hll4Array with      *)
(* cur-min, AUX_TOKEN, the four aux cases and shiftToBiggerCurMin /        *)
(* Hll6Array 6-bit packing / Hll8Array / conversion constructors), with    *)
(* lgK as an explicit parameter.  Used twice:                              *)
(*   HllDesign.tla   - the bounded design model checked to refine the      *)
(*                     contract (lowered thresholds)                       *)
(*   TraceHll.tla    - tier B: a shadow design record per real sketch,     *)
(*                     advanced by the same operators with the code's      *)
(*                     thresholds and compared with the physical state of  *)
(*                     the sketch's own image (MODEL-DRIFT)                *)
(***************************************************************************)
EXTENDS Naturals, FiniteSets, Sequences, TLC
LOCAL INSTANCE SequencesExt
CONSTANTS ListSize,     \* code: 1 << LG_INIT_LIST_SIZE = 8
          SetMinLgK,    \* code: 8 (lgK < 8 promotes the list directly to HLL)
          LgInitSet,    \* code: LG_INIT_SET_SIZE = 5
          SetLgDelta,   \* code: 3 (the set is promoted when full at lg size lgK - 3)
          AuxToken,     \* code: 15
          ShiftBack     \* code: 14 = AuxToken - 1 (shifted value at which a former exception returns to the nibbles)

MLIST == 0
MSET == 1
MHLL == 2
KOf(lgK) == 2^lgK
SlotsOf(lgK) == 0..(2^lgK - 1)
MSlot(c, lgK) == c[1] % (2^lgK)

\* vacuity guard: TLC registers record that a branch of the mechanism was exercised (HllDesign: POSTCONDITION Covered, -workers 1)
Tag(n, v) == IF TLCSet(n, TRUE) THEN v ELSE v

(* ---------------- HLL_4: h = [nib, curMin, nac, aux] -------------------- *)
Empty4(lgK) == [nib |-> [s \in SlotsOf(lgK) |-> 0], curMin |-> 0, nac |-> KOf(lgK), aux |-> <<>>]
Val4(x, s) == IF x.nib[s] = AuxToken THEN x.aux[s] ELSE x.nib[s] + x.curMin
\* shiftToBiggerCurMin: one increment of curMin
Shift1(x) ==
  LET ncm == x.curMin + 1
      D == DOMAIN x.nib
      dec == [s \in D |-> IF x.nib[s] < AuxToken
                          THEN (IF x.nib[s] = 0 THEN Assert(FALSE, "Array slots cannot be 0 at this point") ELSE x.nib[s] - 1)
                          ELSE x.nib[s]]
      back == {s \in DOMAIN x.aux : x.aux[s] - ncm < AuxToken}     \* former exceptions that fit again
      nib2 == [s \in D |-> IF s \in back THEN x.aux[s] - ncm ELSE dec[s]]
  IN  [nib |-> nib2, curMin |-> ncm,
       nac |-> Cardinality({s \in D : x.nib[s] < AuxToken /\ dec[s] = 0}),
       aux |-> [s \in (DOMAIN x.aux) \ back |-> x.aux[s]]]
ShiftBackOK(x) == \A s \in DOMAIN x.aux : x.aux[s] - (x.curMin + 1) < AuxToken => x.aux[s] - (x.curMin + 1) = ShiftBack
RECURSIVE ShiftLoop(_, _)
ShiftLoop(x, n) == IF x.nac # 0 THEN x
                   ELSE IF ~ShiftBackOK(x) THEN Assert(FALSE, "newShiftedVal != 14")   \* the code throws logic_error
                   ELSE ShiftLoop(Tag(IF n > 0 THEN 6 ELSE 5, IF DOMAIN x.aux # {} THEN Tag(7, Shift1(x)) ELSE Shift1(x)), n + 1)
\* internalHll4Update
Upd4(x, s, v) ==
  IF v <= x.curMin THEN x                                   \* quick rejection
  ELSE LET raw == x.nib[s]
           lb == raw + x.curMin
       IN IF v <= lb THEN x
          ELSE LET old == IF raw < AuxToken THEN lb ELSE x.aux[s]
               IN IF v <= old THEN x
                  ELSE LET sh == v - x.curMin
                           y == IF raw = AuxToken
                                THEN IF sh >= AuxToken THEN Tag(1, [x EXCEPT !.aux[s] = v])     \* case 1
                                     ELSE x                                                       \* case 2 (impossible)
                                ELSE IF sh >= AuxToken
                                     THEN Tag(3, [x EXCEPT !.nib[s] = AuxToken, !.aux = (s :> v) @@ @])   \* case 3
                                     ELSE Tag(4, [x EXCEPT !.nib[s] = sh])                        \* case 4
                       IN IF old = x.curMin THEN ShiftLoop([y EXCEPT !.nac = @ - 1], 0) ELSE y

(* ---------------- HLL_6: h = [bytes, nac], 6-bit values packed little-endian across byte boundaries ---------- *)
Bytes6(lgK) == (KOf(lgK) * 3) \div 4 + 1
Empty6(lgK) == [bytes |-> [b \in 0..(Bytes6(lgK) - 1) |-> 0], nac |-> KOf(lgK)]
Get6(x, s) == LET start == 6 * s  sh == start % 8  ix == start \div 8
                  two == x.bytes[ix + 1] * 256 + x.bytes[ix]
              IN (two \div 2^sh) % 64
Put6(x, s, v) == LET start == 6 * s  sh == start % 8  ix == start \div 8
                     two == x.bytes[ix + 1] * 256 + x.bytes[ix]
                     cleared == two - ((two \div 2^sh) % 64) * 2^sh
                     ins == cleared + (v % 64) * 2^sh
                 IN [x EXCEPT !.bytes[ix] = ins % 256, !.bytes[ix + 1] = (ins \div 256) % 256]
Upd6(x, s, v) == LET cur == Get6(x, s) IN
                 IF v > cur THEN [Put6(x, s, v) EXCEPT !.nac = IF cur = 0 THEN @ - 1 ELSE @] ELSE x
(* ---------------- HLL_8: h = [reg, nac] ---------------- *)
Empty8(lgK) == [reg |-> [s \in SlotsOf(lgK) |-> 0], nac |-> KOf(lgK)]
Upd8(x, s, v) == IF v > x.reg[s] THEN [x EXCEPT !.reg[s] = v, !.nac = IF x.reg[s] = 0 THEN @ - 1 ELSE @] ELSE x

EmptyArr(t, lgK) == CASE t = 4 -> Empty4(lgK) [] t = 6 -> Empty6(lgK) [] OTHER -> Empty8(lgK)
UpdArr(t, x, lgK, c) == CASE t = 4 -> Upd4(x, MSlot(c, lgK), c[2]) [] t = 6 -> Upd6(x, MSlot(c, lgK), c[2]) [] OTHER -> Upd8(x, MSlot(c, lgK), c[2])
ValArr(t, x, s) == CASE t = 4 -> Val4(x, s) [] t = 6 -> Get6(x, s) [] OTHER -> x.reg[s]
\* what is physically stored for slot s: nibble / 6-bit value / byte
RawArr(t, x, s) == CASE t = 4 -> x.nib[s] [] t = 6 -> Get6(x, s) [] OTHER -> x.reg[s]
RegsOf(t, x, lgK) == [s \in SlotsOf(lgK) |-> ValArr(t, x, s)]
Replay(t, x, lgK, cs) == FoldLeft(LAMBDA y, c : UpdArr(t, y, lgK, c), x, cs)
\* conversion constructors: replay <<slot, value>> of the non-empty slots in slot order; Hll6/Hll8 set numAtCurMin to the zero count
NonEmptySeq(r, lgK) == SelectSeq([n \in 1..KOf(lgK) |-> <<n - 1, r[n - 1]>>], LAMBDA p : p[2] > 0)
ConvertArr(t, r, lgK) == LET y == Replay(t, EmptyArr(t, lgK), lgK, NonEmptySeq(r, lgK)) IN
                         IF t = 4 THEN y ELSE [y EXCEPT !.nac = Cardinality({s \in SlotsOf(lgK) : r[s] = 0})]

\* CouponHashSet::couponUpdate on a (set, lg) pair; returns [set, lg, promote]
SetIns(S, lg, c, lgK) ==
  IF c \in S THEN [set |-> S, lg |-> lg, promote |-> FALSE]
  ELSE LET S2 == S \cup {c} IN
       IF 4 * Cardinality(S2) > 3 * 2^lg
       THEN IF lg = lgK - SetLgDelta THEN [set |-> S2, lg |-> lg, promote |-> TRUE]
            ELSE [set |-> S2, lg |-> lg + 1, promote |-> FALSE]
       ELSE [set |-> S2, lg |-> lg, promote |-> FALSE]
RECURSIVE ListToSet(_, _, _)
ListToSet(r, cs, lgK) == IF cs = <<>> THEN r
                         ELSE LET n == SetIns(r.set, r.lg, Head(cs), lgK) IN
                              IF n.promote THEN Assert(FALSE, "promotion while building the set") ELSE ListToSet(n, Tail(cs), lgK)

(* ---------------- the sketch as a design record ---------------- *)
NoArr == [none |-> 0]
DInit(t, full, lgK) == [mode |-> IF full THEN MHLL ELSE MLIST, type |-> t, list |-> <<>>, set |-> {}, setLg |-> 0,
                        h |-> IF full THEN EmptyArr(t, lgK) ELSE NoArr]
\* promoteListOrSetToHll
DToHll(d, lgK, cs) == [d EXCEPT !.mode = MHLL, !.h = Replay(d.type, EmptyArr(d.type, lgK), lgK, cs), !.list = <<>>, !.set = {}, !.setLg = 0]
\* hll_sketch::update -> couponUpdate
DStep(d, lgK, c) ==
  CASE d.mode = MLIST ->
         IF \E n \in DOMAIN d.list : d.list[n] = c THEN d
         ELSE LET l2 == Append(d.list, c) IN
              IF Len(l2) < ListSize THEN [d EXCEPT !.list = l2]
              ELSE IF lgK < SetMinLgK THEN DToHll(d, lgK, l2)
              ELSE LET r == ListToSet([set |-> {}, lg |-> LgInitSet, promote |-> FALSE], l2, lgK) IN
                   [d EXCEPT !.mode = MSET, !.set = r.set, !.setLg = r.lg, !.list = <<>>]
    [] d.mode = MSET ->
         LET r == SetIns(d.set, d.setLg, c, lgK) IN
         IF r.promote THEN DToHll(d, lgK, SetToSeq(r.set))
         ELSE [d EXCEPT !.set = r.set, !.setLg = r.lg]
    [] OTHER -> [d EXCEPT !.h = UpdArr(d.type, d.h, lgK, c)]
DRegs(d, lgK) == RegsOf(d.type, d.h, lgK)
\* hll_sketch(const hll_sketch&, t)
DConvert(d, lgK, t) == IF d.mode = MHLL /\ t # d.type THEN [d EXCEPT !.type = t, !.h = ConvertArr(t, DRegs(d, lgK), lgK)]
                       ELSE [d EXCEPT !.type = t]
DReset(d, full, lgK) == DInit(d.type, full, lgK)
\* what is_empty() computes
DIsEmpty(d, lgK) == CASE d.mode = MLIST -> d.list = <<>> [] d.mode = MSET -> d.set = {}
                    [] OTHER -> (IF d.type = 4 THEN d.h.curMin = 0 ELSE TRUE) /\ d.h.nac = KOf(lgK)
DCoupons(d) == IF d.mode = MLIST THEN {d.list[n] : n \in DOMAIN d.list} ELSE d.set
====
