SPECIFICATION Spec
CONSTANTS LgK = 1
 LgRf = 1
 MaxHash = 5
 StartTheta = 6
 MinLgK = 1
 RebuildPivot = 3
 Vals = {1, 2}
 MaxOffers = 6
INVARIANT KeysAreTheta SummariesExact
CHECK_DEADLOCK FALSE
