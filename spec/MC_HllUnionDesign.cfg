\* model of the FIXED code (isEmpty honours the rebuild flag, reset restores lg_max_k): lg_max_k 2 (4 slots), inputs of
\* lg_k 1..3 (smaller, equal, larger), coupon-mode and HLL-mode, empty ones, lvalue / rvalue / HLL_8-or-not, raw items,
\* estimate observers (check_rebuild side effect), reset; gadget promoted at 2 coupons (PromoteAt abstracts list/set sizes)
SPECIFICATION Spec
CONSTANTS LgMaxK = 2
 Inputs <- Catalogue
 Items <- MCItems
 PromoteCount <- PC2
 FixedIsEmpty = TRUE
 FixedReset = TRUE
 FixedDownsampleKxq = TRUE
INVARIANT ResultOK EmptyOK CountersOK HipOK UInvOK
PROPERTY Refines
CHECK_DEADLOCK FALSE
