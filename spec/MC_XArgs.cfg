\* X02: the code's validation logic (with the proposed repairs) against the documented table, every site x its argument grid
SPECIFICATION Spec
CONSTANTS Variant = "repaired" Only = ""
INVARIANT TableTotal
INVARIANT Conforms
CHECK_DEADLOCK FALSE
