\* NEGATIVE config: copy_or_downsample as before fix 96157e7 (pending KxQ rebuild next to a live HIP accumulator).
\* TLC must report HipOK violated.
SPECIFICATION Spec
CONSTANTS LgMaxK = 2
 Inputs <- Catalogue
 Items <- MCItems
 PromoteCount <- PC2
 FixedIsEmpty = TRUE
 FixedReset = TRUE
 FixedDownsampleKxq = FALSE
INVARIANT ResultOK EmptyOK CountersOK HipOK UInvOK
PROPERTY Refines
CHECK_DEADLOCK FALSE
