---- MODULE TraceFreqItems ----
(***************************************************************************)
(* Trace validation of recorded executions of frequent_items_sketch<T>     *)
(* (T = int64 / std::string, harness/fi_rec.cpp) against the FreqItems     *)
(* contract (C12) and the Serde clauses of C09.  One successor per event:  *)
(* the free outcome (rows', maximum error') of Update / Merge is bound to  *)
(* the logged post-state.  The harness logs the rows losslessly as the     *)
(* difference d = <<<<item, new lower bound or 0>>, ...>> between the rows *)
(* returned by get_frequent_items(NO_FALSE_NEGATIVES, 0) after this event  *)
(* and after the previous event on the same object (all counters in dense  *)
(* form cd when more than 64 rows changed).                                *)
(* Items are small integers (index in the driver's universe); the ghost    *)
(* truth is accumulated by the contract from the logged INPUTS only.       *)
(* Clause names: unprefixed = statement of C12; "doc-..." = coherence of   *)
(* the API's answers with each other as documented in                      *)
(* frequent_items_sketch.hpp (also C12); "C09:..." = serialization.        *)
(***************************************************************************)
EXTENDS FreqItems, TraceCommon
CONSTANT CheckDesign   \* TRUE only in the tier-B configuration (TraceFreqItemsB.cfg): "B:" clauses compare the logged post-state with
                       \* the mechanism of the design model (FreqItemsMech, code constants) applied to the logged pre-state, and
                       \* with the expected state carried by replayed generated behaviours (x* fields); a rejection there is
                       \* MODEL-DRIFT, never a violation
VARIABLES blob, lgc    \* lgc[i]: logged lg_cur_map_size of object i (design-level observable)
tvars == <<obj, l, blob, lgc>>
M == INSTANCE FreqItemsMech
SetLg(i, v) == lgc' = (i :> v) @@ lgc
MapState(o, i) == [cnt |-> o.cnt, lgCur |-> lgc[i], lgMax |-> o.lgMax, offset |-> o.offset]
DesignPost(e, c2, x) == /\ Chk("B:design-rows", c2 = x.cnt)
                        /\ Chk("B:design-offset", e.off = x.offset)
                        /\ Chk("B:design-lg-cur", e.lgCur = x.lgCur)

\* rows after the event = rows before, overridden by the logged difference
DeltaFn(d) == [x \in {d[p][1] : p \in DOMAIN d} |-> (d[CHOOSE p \in DOMAIN d : d[p][1] = x])[2]]
Apply(c, d) == IF Len(d) = 0 THEN c ELSE
  LET df == DeltaFn(d)
      dom == {x \in DOMAIN c \cup DOMAIN df : IF x \in DOMAIN df THEN df[x] # NZero ELSE TRUE}
  IN [x \in dom |-> IF x \in DOMAIN df THEN df[x] ELSE c[x]]
\* many changes / many rows: the harness adds the dense form cd (position x = lower bound of item x, 0 = no row)
Dense(cd) == [x \in {k \in DOMAIN cd : cd[k] # NZero} |-> cd[x]]
NewRows(c, e) == IF Has(e, "cd") THEN Dense(e.cd) ELSE Apply(c, e.d)
NoChange(e) == IF Has(e, "cd") THEN FALSE ELSE Len(e.d) = 0
\* a logged list of rows <<item, est, lb, ub>> as the function item -> lb
RowsFnSmall(rows) == [x \in {rows[p][1] : p \in DOMAIN rows} |-> (rows[CHOOSE p \in DOMAIN rows : rows[p][1] = x])[3]]
RowsFn(e) == IF Has(e, "cd") THEN Dense(e.cd) ELSE RowsFnSmall(e.rows)
\* the dense form, when present, is exactly the logged rows
DenseOK(e) == IF Has(e, "cd")
              THEN /\ \A p \in DOMAIN e.rows : e.rows[p][1] \in DOMAIN e.cd /\ e.cd[e.rows[p][1]] = e.rows[p][3]
                   /\ Cardinality({k \in DOMAIN e.cd : e.cd[k] # NZero}) = Len(e.rows)
              ELSE TRUE
Distinct(s) == Cardinality(ToSet(s)) = Len(s)
NonInc(s) == \A k \in 1..(Len(s) - 1) : NLeq(s[k + 1], s[k])

\* The statement of C12 holds "after any merges or round-trips": on an object restored from an image the clauses of the statement
\* keep their owner (explicit prefix; without it a rejection on a restored object is attributed to C09 only)
PN(e, name) == IF Has(e, "restored") THEN "C12:" \o name ELSE name
\* cheap getters attached to every mutating event, against the model post-state o
Scalars(e, o) ==
  /\ Chk(PN(e, "total-weight"), e.total = o.total)
  /\ Chk("maximum-error", e.off = o.offset)
  /\ Chk("doc-num-active", e.n = Cardinality(DOMAIN o.cnt))

\* rows <<item, est, lb, ub>> as returned, against the ground truth of o:  the statement's clauses on returned values
RowsOK(rows, o, off) ==
  /\ Chk("doc-rows-distinct", Distinct([k \in DOMAIN rows |-> rows[k][1]]))
  /\ Chk("bracket-rows", \A k \in DOMAIN rows : NLeq(rows[k][3], Get(o.truth, rows[k][1])) /\ NLeq(Get(o.truth, rows[k][1]), rows[k][4]))
  /\ Chk("estimate-between-bounds", \A k \in DOMAIN rows : NLeq(rows[k][3], rows[k][2]) /\ NLeq(rows[k][2], rows[k][4]))
  /\ Chk("ub-lb=maximum-error", \A k \in DOMAIN rows : rows[k][4] = NAdd(rows[k][3], off))
  /\ Chk("descending-estimate", NonInc([k \in DOMAIN rows |-> rows[k][2]]))

\* expected state carried by a replayed behaviour of the design model
GeneratedOK(e, c2) == IF CheckDesign /\ Has(e, "xOff")
  THEN /\ Chk("B:generated-offset", e.off = e.xOff) /\ Chk("B:generated-num-active", e.n = e.xN)
       /\ Chk("B:generated-lg-cur", e.lgCur = e.xLgCur) /\ Chk("B:generated-total", e.total = e.xTotal)
       /\ Chk("B:generated-rows", c2 = Dense(e.xCnt))
  ELSE TRUE
DesignUpdate(e, o, c2) == IF ~CheckDesign THEN TRUE
  ELSE DesignPost(e, c2, M!InsH(MapState(o, e.id), e.x, e.w, e.off - o.offset))
\* merge replays the other's rows in its table order (logged: order of the items in its image); deterministic while the
\* target map has at most 1024 slots
DesignMerge(e, o, p, c2) == IF ~CheckDesign \/ o.lgMax > LgSample THEN TRUE
  ELSE IF p.total = 0 THEN DesignPost(e, c2, MapState(o, e.dst))
  ELSE /\ Chk("B:merge-order-is-others-rows", ToSet(e.ord) = DOMAIN p.cnt /\ Len(e.ord) = Cardinality(DOMAIN p.cnt))
       /\ DesignPost(e, c2, M!MergeMaps(MapState(o, e.dst), e.ord, p.cnt, p.offset))

TBegin == IsEvent("Begin") /\ obj' = <<>> /\ blob' = <<>> /\ lgc' = <<>>
TNew == IsEvent("New") /\ LET e == Log[l] IN
          /\ New(e.id, e.lgMax)
          /\ Scalars(e, obj'[e.id])
          /\ (IF CheckDesign THEN Chk("B:design-lg-cur", e.lgCur = M!StartLg(e.lgStart, M!CodeLgMin)) ELSE TRUE)
          /\ SetLg(e.id, e.lgCur)
          /\ UNCHANGED blob
TUpdate == IsEvent("Update") /\ LET e == Log[l]
                                    c2 == NewRows(obj[e.id].cnt, e)
                                    n == UpdPost(obj[e.id], e.x, e.w, c2, e.off) IN
          /\ Chk(PN(e, "bracket"), Bracket(n))
          /\ Chk(PN(e, "epsilon"), EpsOK(n))
          /\ Update(e.id, e.x, e.w, c2, e.off)
          /\ Scalars(e, obj'[e.id])
          /\ Chk("doc-lb-touched", e.lbx = Get(c2, e.x))
          /\ DesignUpdate(e, obj[e.id], c2)
          /\ GeneratedOK(e, c2)
          /\ SetLg(e.id, e.lgCur)
          /\ UNCHANGED blob
TUpdateZero == IsEvent("UpdateZero") /\ LET e == Log[l] IN
          /\ UpdateZero(e.id)
          /\ Chk("zero-weight-ignored", NoChange(e))
          /\ Scalars(e, obj[e.id])
          /\ (IF CheckDesign THEN Chk("B:design-lg-cur", e.lgCur = lgc[e.id]) ELSE TRUE)
          /\ GeneratedOK(e, obj[e.id].cnt)
          /\ SetLg(e.id, e.lgCur)
          /\ UNCHANGED blob
TUpdateRefused == IsEvent("UpdateRefused") /\ LET e == Log[l] IN
          /\ UpdateRefused(e.id)
          /\ Chk("refused-update-throws", e.outcome = "throw")
          /\ Chk("refused-update-changes-nothing", NoChange(e))
          /\ Scalars(e, obj[e.id])
          /\ (IF CheckDesign THEN Chk("B:design-lg-cur", e.lgCur = lgc[e.id]) ELSE TRUE)
          /\ UNCHANGED <<blob, lgc>>
TMerge == IsEvent("Merge") /\ LET e == Log[l]
                                  c2 == NewRows(obj[e.dst].cnt, e)
                                  n == MergePost(obj[e.dst], obj[e.src], c2, e.off) IN
          /\ Chk("total-weight", e.total = n.total)
          /\ Chk(PN(e, "bracket"), Bracket(n))
          /\ Chk(PN(e, "epsilon"), EpsOK(n))
          /\ Merge(e.dst, e.src, c2, e.off)
          /\ Scalars(e, obj'[e.dst])
          /\ DesignMerge(e, obj[e.dst], obj[e.src], c2)
          /\ SetLg(e.dst, e.lgCur)
          /\ UNCHANGED blob
TObs == IsEvent("Obs") /\ LET e == Log[l]  o == obj[e.id]  rf == RowsFn(e) IN
          /\ Scalars(e, o)
          /\ Chk("driver:dense-rows", DenseOK(e))
          /\ Chk("doc-rows-stable", rf = o.cnt)
          /\ RowsOK(e.rows, o, e.off)
          \* published epsilon = 3.5 / 2^lg_max_map_size, logged as epsilon * 2^20
          /\ Chk("doc-epsilon", e.epsQ * 2^o.lgMax = 7 * 2^19 /\ e.epsQs = e.epsQ)
          \* direct queries <<item, est, lb, ub>> for a probe set that includes untracked and never-offered items
          /\ Chk("bracket", \A k \in DOMAIN e.q : NLeq(e.q[k][3], Get(o.truth, e.q[k][1])) /\ NLeq(Get(o.truth, e.q[k][1]), e.q[k][4]))
          /\ Chk("estimate-between-bounds", \A k \in DOMAIN e.q : NLeq(e.q[k][3], e.q[k][2]) /\ NLeq(e.q[k][2], e.q[k][4]))
          /\ Chk("ub-lb=maximum-error", \A k \in DOMAIN e.q : e.q[k][4] = NAdd(e.q[k][3], e.off))
          /\ Chk("doc-query=row", \A k \in DOMAIN e.q : LET x == e.q[k][1] IN
                   IF x \in DOMAIN rf THEN \E p \in DOMAIN e.rows : e.rows[p] = e.q[k] ELSE e.q[k][3] = NZero)
          \* get_frequent_items(err_type, threshold)
          /\ \A k \in DOMAIN e.fr : LET f == e.fr[k]  got == ToSet(f.it) IN
               /\ Chk("doc-rows-distinct", Distinct(f.it))
               /\ Chk("descending-estimate", NonInc(f.est))
               /\ Chk("doc-row-values", \A p \in DOMAIN f.it : /\ f.it[p] \in DOMAIN o.cnt
                                                                /\ f.lb[p] = o.cnt[f.it[p]]
                                                                /\ f.ub[p] = NAdd(f.lb[p], e.off)
                                                                /\ NLeq(f.lb[p], f.est[p]) /\ NLeq(f.est[p], f.ub[p]))
               /\ IF f.t = "NFN"
                  THEN /\ Chk("no-false-negatives", {x \in DOMAIN o.truth : NLt(NMax(f.thr, e.off), o.truth[x])} \subseteq got)
                       /\ Chk("doc-nfn-set", got = FreqNFN(o, f.thr))
                  ELSE /\ Chk("no-false-positives", \A x \in got : NLt(f.thr, Get(o.truth, x)))
                       /\ Chk("doc-nfp-set", got = FreqNFP(o, f.thr))
               /\ Chk("doc-default-threshold", f.dflt => f.thr = e.off)
          /\ UNCHANGED <<obj, blob, lgc>>
TCopy == IsEvent("Copy") /\ LET e == Log[l] IN
          /\ Copy(e.src, e.dst)
          /\ Scalars(e, obj'[e.dst])
          /\ Chk("driver:dense-rows", DenseOK(e))
          /\ Chk("copy-rows", RowsFn(e) = obj[e.src].cnt)
          /\ (IF CheckDesign THEN Chk("B:design-lg-cur", e.lgCur = lgc[e.src]) ELSE TRUE)
          /\ SetLg(e.dst, e.lgCur)
          /\ UNCHANGED blob
TDrop == IsEvent("Drop") /\ LET e == Log[l] IN Destroy(e.id) /\ UNCHANGED <<blob, lgc>>

\* ---- C09 ------------------------------------------------------------------------------------
TSer == IsEvent("Ser") /\ LET e == Log[l] IN
          /\ Chk("C09:bytes=stream", e.img = e.simg)
          /\ Chk("C09:advertised-size", e.size = e.adv)
          /\ Chk("C09:header", e.tot = e.hdr + e.size /\ e.img = e.img0)
          /\ blob' = (e.blob :> [st |-> obj[e.src], cimg |-> e.cimg, size |-> e.size, lgCur |-> lgc[e.src]]) @@ blob
          /\ UNCHANGED <<obj, lgc>>
TDeser == IsEvent("Deser") /\ LET e == Log[l]  b == blob[e.blob]  rf == RowsFn(e) IN
          \* the statement of C12 itself holds "after any merges or round-trips": the bounds of a restored sketch still bracket the
          \* ground truth of everything offered before the round trip, and its total weight is still the exact sum
          /\ Chk("C12:after-round-trip",
                 /\ e.total = b.st.total
                 \* the published epsilon (get_epsilon(), logged as lg_max) is the one the error clause is stated for: it survives
                 /\ e.lgMax = b.st.lgMax
                 /\ \A x \in DOMAIN b.st.truth : IF x \in DOMAIN rf THEN NLeq(rf[x], b.st.truth[x]) /\ NLeq(b.st.truth[x], NAdd(rf[x], e.off))
                                                                     ELSE NLeq(b.st.truth[x], e.off)
                 /\ \A x \in DOMAIN rf : x \in DOMAIN b.st.truth)
          /\ Chk("C09:total-weight", e.total = b.st.total)
          /\ Chk("C09:maximum-error", e.off = b.st.offset)
          /\ Chk("driver:dense-rows", DenseOK(e))
          /\ Chk("C09:rows", RowsFn(e) = b.st.cnt)
          /\ Chk("C09:num-active", e.n = Cardinality(DOMAIN b.st.cnt))
          /\ Chk("C09:lg-max", e.lgMax = b.st.lgMax)
          /\ RowsOK(e.rows, b.st, e.off)
          /\ Chk("C09:consumed", e.consumed = b.size)
          /\ Chk("C09:reserialize", e.recimg = b.cimg)
          /\ obj' = (e.dst :> b.st) @@ [x \in Live \ {e.dst} |-> obj[x]]
          /\ (IF CheckDesign THEN Chk("B:design-lg-cur", e.lgCur = b.lgCur) ELSE TRUE)
          /\ SetLg(e.dst, e.lgCur)
          /\ UNCHANGED blob
\* original and restored object after the same continued operations (deterministic while maps <= purge sample)
TTwinObs == IsEvent("TwinObs") /\ LET e == Log[l]  a == obj[e.a]  b == obj[e.b] IN
          /\ Chk("C09:twin-equal", a.lgHi <= LgSample => a.cnt = b.cnt /\ a.offset = b.offset /\ a.total = b.total)
          /\ UNCHANGED <<obj, blob, lgc>>

TInit == obj = <<>> /\ l = 1 /\ blob = <<>> /\ lgc = <<>>
TNext == TBegin \/ TNew \/ TUpdate \/ TUpdateZero \/ TUpdateRefused \/ TMerge \/ TObs \/ TCopy \/ TDrop \/ TSer \/ TDeser \/ TTwinObs
TSpec == TInit /\ [][TNext]_tvars
====
