---- MODULE TraceCountMin ----
(***************************************************************************)
(* Trace validation of recorded executions of count_min_sketch<W>          *)
(* (harness/cm_rec.cpp) against the CountMin contract (C14) and the Serde  *)
(* clauses of C09.  One successor per event: the free outcome of Update /  *)
(* Merge (the new cell array) is bound to the logged post-state, logged    *)
(* losslessly as the difference d = <<<<cell index, new value>>, ...>>     *)
(* against the previous event on the same object (or as the whole array     *)
(* when more than 48 cells changed).  Items are small                       *)
(* integers; ground truth and stream lineage are accumulated by the        *)
(* contract from the logged INPUTS only.  For every sketch the driver      *)
(* maintains a witness sketch (another real object with its own id) that   *)
(* is fed the concatenated stream before a merge is executed.              *)
(*                                                                         *)
(* TierB = TRUE additionally evaluates the design-level clauses "B:..."    *)
(* (learned row-hash function, estimate = row minimum, upper-bound         *)
(* formula, merge = cell-wise sum): a rejection there is reported as model *)
(* drift, never as a violation.                                            *)
(***************************************************************************)
EXTENDS CountMin, TraceCommon
CONSTANT TierB
VARIABLES blob, hloc
tvars == <<obj, l, blob, hloc>>

RECURSIVE ApplyD(_, _, _)
ApplyD(c, d, k) == IF k > Len(d) THEN c ELSE ApplyD([c EXCEPT ![d[k][1]] = d[k][2]], d, k + 1)
Apply(c, d) == ApplyD(c, d, 1)
InRange(o, d) == \A k \in DOMAIN d : d[k][1] \in 1..NumCells(o.cfg)
\* the logged new cell array: a short difference d, or (when many cells changed) the whole array
NewCells(o, e) == IF Has(e, "cells") THEN e.cells ELSE Apply(o.cells, e.d)
DeltaOK(o, e) == IF Has(e, "cells") THEN Len(e.cells) = NumCells(o.cfg) ELSE InRange(o, e.d)
Unchanged(o, e) == IF Has(e, "cells") THEN e.cells = o.cells ELSE Len(e.d) = 0
Changed(o, c2) == {k \in DOMAIN c2 : c2[k] # o.cells[k]}

CfgOf(e) == [rows |-> e.rows, buckets |-> e.buckets, seed |-> e.seed]
Scalars(e, o) ==
  /\ Chk("total-weight", e.total = o.total)
  /\ Chk("doc-config-getters", e.rows = o.cfg.rows /\ e.buckets = o.cfg.buckets /\ e.seed = o.cfg.seed)
\* returned triples <<item, estimate, lower bound, upper bound>> against the ground truth of o
ProbesOK(q, o) ==
  /\ Chk("never-under-estimates", \A k \in DOMAIN q : NLeq(Get(o.truth, q[k][1]), q[k][2]))
  /\ Chk("estimate<=total-weight", \A k \in DOMAIN q : NLeq(q[k][2], o.total))
  /\ Chk("lb<=estimate<=ub", \A k \in DOMAIN q : NLeq(q[k][3], q[k][2]) /\ NLeq(q[k][2], q[k][4]))
  /\ \A k \in DOMAIN q : EstOK(o, q[k][1], q[k][2], q[k][3], q[k][4])

\* ---- tier B (design) clauses ---------------------------------------------------------------------
HKnown(c, x) == c \in DOMAIN hloc /\ x \in DOMAIN hloc[c]
RowOf(c, idx) == ((idx - 1) \div c.buckets) + 1
\* the difference of an update by w > 0 touches exactly one cell per row, each by +w
OneCellPerRow(o, c2, w) == LET chg == Changed(o, c2) IN
  /\ Cardinality(chg) = o.cfg.rows
  /\ {RowOf(o.cfg, k) : k \in chg} = 1..o.cfg.rows
  /\ \A k \in chg : c2[k] = o.cells[k] + w
\* rows are meant to use separate hash functions ("Generate _num_hashes separate hashes"; Cormode-Muthukrishnan): the learned
\* buckets of an item over the rows must not form an arithmetic progression modulo buckets for EVERY item (as they would
\* if row i used h1 + i * h2 with a bucket count dividing 2^64); judged once >= 8 items are learned, rows >= 4
BucketAt(c, S, r) == (CHOOSE k \in S : RowOf(c, k) = r) - (r - 1) * c.buckets - 1
Arith(c, S) == \A r \in 1..(c.rows - 2) :
  (BucketAt(c, S, r + 1) + c.buckets - BucketAt(c, S, r)) % c.buckets = (BucketAt(c, S, r + 2) + c.buckets - BucketAt(c, S, r + 1)) % c.buckets
RowsIndependent(c) ==
  (c \in DOMAIN hloc /\ c.rows >= 4 /\ c.rows <= 16 /\ Cardinality(DOMAIN hloc[c]) >= 8) => \E x \in DOMAIN hloc[c] : ~Arith(c, hloc[c][x])
MinOf(S) == CHOOSE v \in S : \A u \in S : v <= u
BEst(o, x) == MinOf({o.cells[k] : k \in hloc[o.cfg][x]})
BProbes(q, o) ==
  IF ~TierB THEN TRUE ELSE
  /\ Chk("B:estimate=row-min", \A k \in DOMAIN q : HKnown(o.cfg, q[k][1]) => q[k][2] = BEst(o, q[k][1]))
  /\ Chk("B:lb=estimate", \A k \in DOMAIN q : q[k][3] = q[k][2])
  \* ub = estimate + floor(e / buckets * total), e enclosed by 2718/1000 and 2719/1000
  /\ Chk("B:ub-formula", \A k \in DOMAIN q : LET g == q[k][4] - q[k][2] IN
            \* one unit of slack either way: for W = float the sum is rounded to a 24-bit mantissa before it is truncated
            /\ (g - 1) * o.cfg.buckets * 1000 <= 2719 * o.total
            /\ (g + 2) * o.cfg.buckets * 1000 > 2718 * o.total)

TBegin == IsEvent("Begin") /\ obj' = <<>> /\ blob' = <<>> /\ hloc' = <<>>
TNew == IsEvent("New") /\ LET e == Log[l] IN
          /\ New(e.id, CfgOf(e))
          /\ Scalars(e, obj'[e.id])
          /\ Chk("doc-new-cells-zero", e.allzero)
          /\ UNCHANGED <<blob, hloc>>
TUpdate == IsEvent("Update") /\ LET e == Log[l]  o == obj[e.id]  c2 == NewCells(o, e) IN
          /\ Chk("cells-in-range", DeltaOK(o, e))
          /\ (IF WideNums THEN Chk("driver:wide-numbers", WIsNum(e.w) /\ WIsNum(e.total) /\ \A k \in DOMAIN c2 : WIsNum(c2[k])) ELSE TRUE)
          /\ Update(e.id, e.x, e.w, c2)
          /\ Scalars(e, obj'[e.id])
          /\ IF TierB /\ e.w > 0
             THEN IF HKnown(o.cfg, e.x)
                  THEN /\ Chk("B:same-cells-as-before", Changed(o, c2) = hloc[o.cfg][e.x])
                       /\ Chk("B:one-cell-per-row+w", OneCellPerRow(o, c2, e.w))
                       /\ UNCHANGED hloc
                  ELSE /\ Chk("B:one-cell-per-row+w", OneCellPerRow(o, c2, e.w))
                       /\ hloc' = (o.cfg :> ((e.x :> Changed(o, c2)) @@ (IF o.cfg \in DOMAIN hloc THEN hloc[o.cfg] ELSE <<>>))) @@ hloc
             ELSE /\ (IF TierB THEN Chk("B:zero-weight-no-change", Unchanged(o, e)) ELSE TRUE)
                  /\ UNCHANGED hloc
          /\ UNCHANGED blob
TMerge == IsEvent("Merge") /\ LET e == Log[l]  o == obj[e.dst]  p == obj[e.src] IN
          /\ Chk("merge-refused", (e.outcome = "throw") = ~Compatible(e.dst, e.src))
          /\ IF e.outcome = "throw"
             THEN /\ MergeRefused(e.dst, e.src)
                  /\ Chk("refused-merge-changes-nothing", Unchanged(o, e))
                  /\ Scalars(e, o)
             ELSE LET c2 == NewCells(o, e)
                      n == MergePost(o, p, c2)
                      w == obj[e.wit] IN
                  /\ Chk("cells-in-range", DeltaOK(o, e))
                  \* the driver's witness really was fed the concatenated stream (a property of the driver, checked to exclude vacuity)
                  /\ Chk("driver:witness-stream", e.wit # e.dst /\ w.cfg = o.cfg /\ w.stream = n.stream)
                  /\ Chk("merge=witness-cells", c2 = w.cells)
                  /\ Chk("merge=witness-estimates", e.q = e.qw)
                  /\ Merge(e.dst, e.src, c2)
                  /\ Scalars(e, obj'[e.dst])
                  /\ ProbesOK(e.q, n)
                  /\ (IF TierB THEN Chk("B:merge=cell-wise-sum", \A k \in DOMAIN c2 : c2[k] = o.cells[k] + p.cells[k]) ELSE TRUE)
                  /\ BProbes(e.q, n)
          /\ UNCHANGED <<blob, hloc>>
TObs == IsEvent("Obs") /\ LET e == Log[l]  o == obj[e.id] IN
          /\ Scalars(e, o)
          /\ ProbesOK(e.q, o)
          /\ (IF Has(e, "cells") THEN Chk("doc-cells-stable", e.cells = o.cells) ELSE TRUE)
          /\ BProbes(e.q, o)
          /\ (IF TierB THEN Chk("B:rows-not-affinely-related", RowsIndependent(o.cfg)) ELSE TRUE)
          /\ UNCHANGED <<obj, blob, hloc>>
TCopy == IsEvent("Copy") /\ LET e == Log[l] IN
          /\ Copy(e.src, e.dst)
          /\ Scalars(e, obj'[e.dst])
          /\ Chk("copy-cells", e.cells = obj[e.src].cells)
          /\ UNCHANGED <<blob, hloc>>
TDrop == IsEvent("Drop") /\ LET e == Log[l] IN Destroy(e.id) /\ UNCHANGED <<blob, hloc>>

\* ---- C09 -----------------------------------------------------------------------------------------
TSer == IsEvent("Ser") /\ LET e == Log[l] IN
          /\ Chk("C09:bytes=stream", e.img = e.simg)
          /\ Chk("C09:advertised-size", e.size = e.adv)
          /\ Chk("C09:header", e.tot = e.hdr + e.size /\ e.img = e.img0)
          /\ blob' = (e.blob :> [st |-> obj[e.src], img |-> e.img, size |-> e.size]) @@ blob
          /\ UNCHANGED <<obj, hloc>>
TDeser == IsEvent("Deser") /\ LET e == Log[l]  b == blob[e.blob] IN
          \* the statement of C14 itself quantifies over serialization points: the answers of a restored sketch still bracket the
          \* ground truth of everything offered before the round trip, and its total weight is still the exact sum
          /\ Chk("C14:after-round-trip", /\ e.total = b.st.total
                                          /\ \A k \in DOMAIN e.q : EstOK(b.st, e.q[k][1], e.q[k][2], e.q[k][3], e.q[k][4]))
          /\ Chk("C09:total-weight", e.total = b.st.total)
          /\ Chk("C09:config", CfgOf(e) = b.st.cfg)
          /\ Chk("C09:cells", e.cells = b.st.cells)
          /\ Chk("C09:consumed", e.consumed = b.size)
          /\ Chk("C09:reserialize", e.reimg = b.img)
          /\ ProbesOK(e.q, b.st)
          /\ obj' = (e.dst :> b.st) @@ [x \in Live \ {e.dst} |-> obj[x]]
          /\ UNCHANGED <<blob, hloc>>
TTwinObs == IsEvent("TwinObs") /\ LET e == Log[l]  a == obj[e.a]  b == obj[e.b] IN
          /\ Chk("C09:twin-equal", a.cells = b.cells /\ a.total = b.total /\ a.cfg = b.cfg)
          /\ UNCHANGED <<obj, blob, hloc>>

\* ---- statistical clause --------------------------------------------------------------------------
TStat == IsEvent("Stat") /\ LET e == Log[l]
                                K == Cardinality({k \in DOMAIN e.over : e.over[k] > e.thr}) IN
          /\ Chk("stat-sample-size", Len(e.over) = e.S * e.m /\ e.S * e.m >= 10000)
          /\ Chk("never-under-estimates", \A k \in DOMAIN e.over : e.over[k] >= 0)
          \* thr = floor(get_relative_error() * total weight); relative error = e / buckets
          /\ Chk("doc-relative-error", /\ e.thr * e.buckets * 1000 <= 2719 * e.total
                                       /\ (e.thr + 1) * e.buckets * 1000 > 2718 * e.total)
          /\ Chk("exceedance-rate", Verdict(K, e.S, e.m, e.rows, 10))
          /\ PrintT(<<"STAT", e.rows, e.buckets, K, Len(e.over)>>)
          /\ UNCHANGED <<obj, blob, hloc>>

TInit == obj = <<>> /\ l = 1 /\ blob = <<>> /\ hloc = <<>>
TNext == TBegin \/ TNew \/ TUpdate \/ TMerge \/ TObs \/ TCopy \/ TDrop \/ TSer \/ TDeser \/ TTwinObs \/ TStat
TSpec == TInit /\ [][TNext]_tvars
====
