\* NEGATIVE config (bin/selftest; not part of bin/check): the pinned tree's req_compactor::merge keeps its own, never drawn coin with an odd merged state: EUnbiased must be violated
\* SecSizes: section sizes by generation (code k = 12: <<12, 8, 6, 4, 4>>), InitSec: initial number of sections (code: 3)
SPECIFICATION ESpec
CONSTANTS Ids = {1, 2}
 Items = {1, 2}
 SecSizes <- Sec22
 InitSec = 1
 Hras = {TRUE}
 MaxN = 12
 MergeCoin = "own"
INVARIANT EUnbiased ESchedule
CONSTRAINT ENBound ESmallOthers
CHECK_DEADLOCK FALSE
