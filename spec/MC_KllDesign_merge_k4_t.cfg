\* two sketches, k = 4 (thorough tier), minimum level width 2 (code: 8), items 1..2, every pair of streams with at most 10 items in total,
\* every interleaving of updates / sort-on-read with merges in both directions (lvalue and rvalue) and continued updates,
\* every coin string of every merge (general_compress compacts inside merges from 8 items on for k = 3)
SPECIFICATION Spec
CONSTANTS Ids = {1, 2}
 Items = {1, 2}
 Ks = {4}
 M = 2
 MaxN = 10
 HalveUpParityFlip = 0
INVARIANT RepOK ShadowOK CInv Martingale
PROPERTY Refines
CONSTRAINT NBound
CHECK_DEADLOCK FALSE
