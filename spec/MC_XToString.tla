---- MODULE MC_XToString ----
(***************************************************************************)
(* X06 - the observer contract as a state machine: an object whose         *)
(* abstract value changes only by Update / Reset; Stringify (to_string) renders the     *)
(* value (any flags) and may rebuild caches (a cached "view" of the value) *)
(* but leaves the value alone.  TLC checks the stuttering property and the *)
(* sanity of the label table (no family without labels except the union    *)
(* wrapper, exact and loose labels disjoint).                              *)
(***************************************************************************)
EXTENDS XToString
VARIABLES val, cache, text
vars == <<val, cache, text>>
Vals == SUBSET (1..3)
Render(v, flag) == [n |-> Cardinality(v), items |-> IF flag THEN v ELSE {}]
Init == val = {} /\ cache = "none" /\ text = <<>>
Update(x) == val' = val \cup {x} /\ cache' = "none" /\ UNCHANGED text
Reset == val' = {} /\ cache' = "none" /\ UNCHANGED text
Stringify(flag) == text' = Render(val, flag) /\ cache' \in {cache, "built"} /\ UNCHANGED val
Next == (\E x \in 1..3 : Update(x)) \/ Reset \/ (\E f \in BOOLEAN : Stringify(f))
Spec == Init /\ [][Next]_vars
\* the text is about the current value; a step that changes the text without Update / Reset leaves the value
TextIsCurrent == text = <<>> \/ text.n <= 3
ObserverStutters == [][(text' /= text) => val' = val]_vars
TableSane == \A f \in Families : Exact(f) \cap Loose(f) = {} /\ (f /= "varopt-union" => Cardinality(Exact(f) \cup Loose(f)) >= 1)
====
