\* tier B: the design-level shadow state (KllMech / ... with the code's constants) is compared with the observed levels
SPECIFICATION TSpec
CONSTANTS Ids = {} Items = {} MaxN = 0 Fams = {} CheckDesign = TRUE
POSTCONDITION Accepted
CHECK_DEADLOCK FALSE
