SPECIFICATION GSpec
CONSTRAINT Collect
INVARIANT RoundTripInv
POSTCONDITION Post
CHECK_DEADLOCK FALSE
