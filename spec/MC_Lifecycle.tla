---- MODULE MC_Lifecycle ----
(***************************************************************************)
(* Exhaustive TLC run of the Lifecycle contract itself (small constants):  *)
(* every call of the alphabet with every digest vector over DigVals and    *)
(* every environment record of EnvCands (legal and illegal ones: the       *)
(* illegal ones must simply never be accepted); checks that the contract   *)
(* keeps                                                                   *)
(* its invariant Inv (digest of a live slot = the digest learned for its   *)
(* history, no digest for dead / moved-from slots, nothing allocated when  *)
(* no object exists).                                                     *)
(* Slots = {1,2}, histories bounded by MaxLen calls.                       *)
(***************************************************************************)
EXTENDS Lifecycle
CONSTANTS DigVals, MaxLen, MCKinds

E0 == [A |-> <<>>, F |-> <<>>, ic |-> <<>>, ov |-> <<>>, id |-> <<>>, iu |-> <<>>, im |-> <<>>]
B1 == <<1, 8, 1>>      \* block 1, 8 bytes, allocator 1
B1s == <<1, 16, 1>>    \* same block released with another size
B1a == <<1, 8, 2>>     \* same block released through another allocator
EnvCands == { E0,
              [E0 EXCEPT !.A = <<B1>>], [E0 EXCEPT !.F = <<B1>>], [E0 EXCEPT !.F = <<B1s>>], [E0 EXCEPT !.F = <<B1a>>],
              [E0 EXCEPT !.F = <<B1, B1>>],
              [E0 EXCEPT !.ic = << <<1, 1>> >>], [E0 EXCEPT !.id = << <<1, 1>> >>], [E0 EXCEPT !.iu = << <<-1, -1>> >>], [E0 EXCEPT !.im = <<1>>],
              [E0 EXCEPT !.ic = << <<2, 2>> >>, !.ov = << <<2, 1>> >>] }

Unary == {"Construct", "Mutate", "SelfAssign", "Serialize", "Reset", "Destroy"}
MCNext == \E kind \in MCKinds, i \in Slots :
            \E j \in (IF kind \in Unary THEN {0} ELSE Slots \ {i}), op \in (IF kind = "Mutate" THEN MutOps ELSE {""}) :
              /\ Pre(kind, i, j, 0, op)        \* (evaluated first: the digest / environment candidates are only tried for enabled calls)
              /\ \E D \in {d \in [Slots -> DigVals \cup {0}] : DigShape(NewSlot(kind, i, j, 0, op), d)}, env \in EnvCands :
                    Act(kind, i, j, 0, op, D, env)
MCSpec == Init /\ [][MCNext]_vars
Bound == /\ \A s \in Slots : Len(slot[s].hist) <= MaxLen /\ \A n \in DOMAIN slot[s].hist : Len(slot[s].hist[n].a) = 0
         /\ Cardinality(DOMAIN known) <= 3
====
