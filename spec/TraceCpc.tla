---- MODULE TraceCpc ----
(***************************************************************************)
(* Trace validation of recorded executions of cpc_sketch / cpc_union       *)
(* (harness/cpc_rec.cpp) against the Cpc contract (C05), the estimate /    *)
(* bound coherence clauses of C06 ("C06:...") and the serialization        *)
(* clauses of C09 ("C09:...").  One successor per event: every free choice *)
(* of the contract is bound to the logged value.                           *)
(*                                                                         *)
(* Logged cells are REFERENCE coupons (row, col) computed by the harness   *)
(* from its own MurmurHash3; e.r is the projection of the real object:     *)
(* lgk, C = get_num_coupons(), validate(), the reconstructed bit matrix    *)
(* as a list of cells row*64+col (hook verif_bit_matrix), merged / window  *)
(* offset / kxp / hip as printed by to_string(), est / lb[1..3] / ub[1..3] *)
(* as order-isomorphically renamed doubles.                                *)
(***************************************************************************)
EXTENDS Cpc, TraceCommon
VARIABLES bl,     \* per image: bytes token, size, scalars of the serialized object (observations, not model state)
          icon,   \* learned function <<lgK, C>> -> estimate of merged-form sketches
          last    \* estimate logged by the latest update of each sketch (original/restored lock-step clause)
tvars == <<obj, uni, blob, l, bl, icon, last>>

IconKey(o) == <<o.lgK, C(o)>>
\* merged-form estimate is a function of (lgK, C) only
IconOK(o, est) == Chk("icon-function-of-lgk-C", (o.merged /\ IconKey(o) \in DOMAIN icon) => icon[IconKey(o)] = est)
Learn(ic, o, est) == IF o.merged /\ IconKey(o) \notin DOMAIN ic THEN (IconKey(o) :> est) @@ ic ELSE ic

\* logged projection r of a real sketch against the model value o
ValOK(r, o) ==
  /\ Chk("lg_k", r.lgk = o.lgK)
  /\ Chk("coupon-count", r.C = C(o))
  /\ Chk("empty", r.empty = Empty(o))
  /\ Chk("validate", r.valid)
  /\ (Has(r, "cells") => /\ Chk("matrix", ToSet(r.cells) = Matrix(o))
                         /\ Chk("matrix-count", Len(r.cells) = r.C))
  /\ Chk("merged-flag", r.merged = o.merged)
  \* flavor and window offset are the documented functions of (lgK, C) - what every reader of an image assumes
  /\ Chk("flavor-of-count", r.flavor = DocFlavor(o.lgK, r.C))
  /\ Chk("window-offset-of-count", r.alloc => r.woff = DocOffset(o.lgK, r.C))
  /\ IconOK(o, r.est)
  \* C06(a): lb3 <= lb2 <= lb1 <= est <= ub1 <= ub2 <= ub3 (order on renamed doubles)
  /\ Chk("C06:bounds", /\ r.lb[3] <= r.lb[2] /\ r.lb[2] <= r.lb[1] /\ r.lb[1] <= r.est
                      /\ r.est <= r.ub[1] /\ r.ub[1] <= r.ub[2] /\ r.ub[2] <= r.ub[3])
  /\ Chk("C06:empty-degenerate", Empty(o) => r.lb[3] = r.est /\ r.ub[3] = r.est)

\* observations that the property says survive a round trip besides the value itself
Scal(r) == [woff |-> r.woff, kxps |-> r.kxps, hips |-> r.hips, est |-> r.est, lb |-> r.lb, ub |-> r.ub, merged |-> r.merged]

\* estimates and bounds are finite numbers; on an object restored from an image this is a C09 clause (restore, then continue)
FinName(e) == IF Has(e, "restored") THEN "C09:restored-estimate-finite" ELSE "C06:estimate-finite"
UpdScalars(e, o) ==
  /\ Chk("coupon-count", e.C = C(o))
  /\ Chk(FinName(e), e.fin)
  /\ IconOK(o, e.est)
  \* C09: original and restored sketch fed the same items report the same estimate, bit for bit
  /\ (Has(e, "twin") => Chk("C09:continued-estimate", e.est = last[e.twin]))

TBegin == IsEvent("Begin") /\ obj' = <<>> /\ uni' = <<>> /\ blob' = <<>> /\ bl' = <<>> /\ icon' = <<>> /\ last' = <<>>
TNew == IsEvent("New") /\ LET e == Log[l] IN New(e.id, e.lgk) /\ UNCHANGED <<bl, icon, last>>
TUpdate == IsEvent("Update") /\ LET e == Log[l] IN
             /\ Chk("col-range", e.col >= 0 /\ e.col <= 63)
             /\ Update(e.id, Cell(e.row, e.col))
             /\ UpdScalars(e, obj'[e.id])
             /\ icon' = Learn(icon, obj'[e.id], e.est)
             /\ last' = (e.id :> e.est) @@ last
             /\ UNCHANGED bl
TUpdateMany == IsEvent("UpdateMany") /\ LET e == Log[l] IN
             /\ UpdateAll(e.id, {Cell(e.rows[k], e.cols[k]) : k \in DOMAIN e.rows})
             /\ UpdScalars(e, obj'[e.id])
             /\ icon' = Learn(icon, obj'[e.id], e.est)
             /\ last' = (e.id :> e.est) @@ last
             /\ UNCHANGED bl
TUpdateIgnored == IsEvent("UpdateIgnored") /\ LET e == Log[l] IN
             /\ UpdateIgnored(e.id)
             /\ UpdScalars(e, obj[e.id])
             /\ last' = (e.id :> e.est) @@ last
             /\ UNCHANGED <<bl, icon>>
TObs == IsEvent("Obs") /\ LET e == Log[l] IN
             /\ e.id \in Live
             /\ Chk(FinName(e), e.r.fin)
             /\ ValOK(e.r, obj[e.id])
             /\ icon' = Learn(icon, obj[e.id], e.r.est)
             /\ UNCHANGED <<obj, uni, blob, bl, last>>
TCopy == IsEvent("Copy") /\ LET e == Log[l] IN
             /\ Copy(e.src, e.dst)
             /\ ValOK(e.r, obj'[e.dst])
             /\ icon' = Learn(icon, obj'[e.dst], e.r.est)
             /\ UNCHANGED <<bl, last>>
TUNew == IsEvent("UNew") /\ LET e == Log[l] IN UnionNew(e.u, e.lgk) /\ UNCHANGED <<bl, icon, last>>
TUUpdate == IsEvent("UUpdate") /\ LET e == Log[l] IN
             /\ IF e.rvalue THEN UnionUpdateMove(e.u, e.src) ELSE UnionUpdate(e.u, e.src)
             /\ UNCHANGED <<bl, icon, last>>
TUCopy == IsEvent("UCopy") /\ LET e == Log[l] IN UnionCopy(e.u, e.v) /\ UNCHANGED <<bl, icon, last>>
TUResult == IsEvent("UResult") /\ LET e == Log[l] IN
             /\ e.u \in ULive
             /\ Chk("result-merged-form", UnionDef(uni[e.u]) # {} => e.r.merged)
             /\ GetResult(e.u, e.dst, e.r.merged)
             /\ ValOK(e.r, obj'[e.dst])
             /\ icon' = Learn(icon, obj'[e.dst], e.r.est)
             /\ UNCHANGED <<bl, last>>
TSer == IsEvent("Ser") /\ LET e == Log[l] IN
             /\ SerializeTo(e.src, e.blob)
             /\ ValOK(e.r, obj[e.src])
             /\ Chk("C09:bytes=stream", e.img = e.simg /\ e.size = e.ssize)
             /\ Chk("C09:header", e.total = e.hdr + e.size)
             /\ bl' = (e.blob :> [img |-> e.img, size |-> e.size, scal |-> Scal(e.r)]) @@ bl
             /\ icon' = Learn(icon, obj[e.src], e.r.est)
             /\ UNCHANGED last
TDeser == IsEvent("Deser") /\ LET e == Log[l]  b == bl[e.blob] IN
             /\ DeserializeFrom(e.blob, e.dst)
             \* same coupon set, coupon count, lgK, merged form
             /\ ValOK(e.r, obj'[e.dst])
             /\ Chk("C09:restored-estimate-finite", e.r.fin)
             /\ Chk("C09:window-offset", e.r.woff = b.scal.woff)
             /\ Chk("C09:estimator-state", e.r.kxps = b.scal.kxps /\ e.r.hips = b.scal.hips /\ e.r.est = b.scal.est)
             /\ Chk("C09:bounds", e.r.lb = b.scal.lb /\ e.r.ub = b.scal.ub)
             /\ Chk("C09:consumed", e.consumed = b.size)
             /\ (Has(e, "reimg") => Chk("C09:reserialize", e.reimg = b.img))
             /\ icon' = Learn(icon, obj'[e.dst], e.r.est)
             /\ last' = (e.dst :> e.r.est) @@ last
             /\ UNCHANGED bl

\* serialize() of a restored, not yet updated object as an event of its own: the same image, readable with the segment's seed
TReser == IsEvent("Reser") /\ LET e == Log[l] IN
             /\ e.id \in Live
             /\ Chk("C09:reserialize", e.reimg = bl[e.blob].img)
             /\ Chk("C09:reserialized-image-readable-with-the-seed", e.readable)
             /\ UNCHANGED <<obj, uni, blob, bl, icon, last>>
\* update(sketch of another seed), non-empty: the call is refused (throws) and leaves no trace - the model state is unchanged and
\* every later result of this union is checked against it
TURefused == IsEvent("URefused") /\ LET e == Log[l] IN
             /\ e.u \in ULive
             /\ Chk("foreign-seed-operand-refused", e.C > 0 => e.threw)
             /\ UNCHANGED <<obj, uni, blob, bl, icon, last>>

TInit == Init /\ l = 1 /\ bl = <<>> /\ icon = <<>> /\ last = <<>>
TNext == TBegin \/ TNew \/ TUpdate \/ TUpdateMany \/ TUpdateIgnored \/ TObs \/ TCopy
         \/ TUNew \/ TUUpdate \/ TUCopy \/ TUResult \/ TSer \/ TDeser \/ TReser \/ TURefused
TSpec == TInit /\ [][TNext]_tvars
====
