\* X01 negative configuration (TLC must report a violation): the shipped merge walk is NOT the Kolmogorov-Smirnov statistic
\* when both views hold an equal item with different multiplicity / weight (e.g. {5,5} against {5}: 1/2 instead of 0).
SPECIFICATION Spec
CONSTANTS MaxItem = 2 MaxWeight = 2 MaxLen = 2
INVARIANT WalkExact
CHECK_DEADLOCK FALSE
