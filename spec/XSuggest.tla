---- MODULE XSuggest ----
(***************************************************************************)
(* X05 - contract of the sizing helpers                                    *)
(*   count_min_sketch::suggest_num_buckets(eps)   = ceil(e / eps)          *)
(*   count_min_sketch::suggest_num_hashes(conf)   = ceil(ln(1 / (1-conf))) *)
(*      ("[1] Section 3": w = ceil(e/eps), d = ceil(ln 1/delta))           *)
(*   bloom builder suggest_num_hashes(n, m)       = ceil(m / n * ln 2)     *)
(*   bloom builder suggest_num_hashes(fpp)        = ceil(-log2 fpp)        *)
(*   bloom builder suggest_num_filter_bits(n,fpp) = ceil(-n ln fpp/(ln2)^2)*)
(*      (the optimal size / number of hash functions of a Bloom filter)    *)
(* in integer arithmetic.  Arguments are exact rationals chosen by the     *)
(* driver (eps = q / p, 1 - conf = 1 / den, fpp = 1 / den); irrational     *)
(* constants are bracketed by rationals lo / S < c < (lo + 1) / S, so a    *)
(* result x = ceil(c * p / q) must lie in                                  *)
(*     CeilDiv(p * lo, q * S) .. CeilDiv(p * (lo + 1), q * S).             *)
(* S = 10^6 where the products fit in 32 bits, else 10^4, else 10^2 (the   *)
(* stated tolerance: 1e-6 / 1e-4 / 1e-2 of the constant, plus one unit).   *)
(***************************************************************************)
EXTENDS Integers, Sequences, TLC

MaxInt == 2147483647
CeilDiv(a, b) == (a \div b) + (IF a % b = 0 THEN 0 ELSE 1)         \* no a + b - 1: that overflows 32 bits near the top of the range
\* constants in units of 1e-6 (floor)
E6 == 2718281                       \* e
LN2x6 == 693147                     \* ln 2
\* ln(den) / (ln 2)^2 for the false positive probabilities 1 / den used by the driver
C6(den) == CASE den = 2 -> 1442695 [] den = 3 -> 2286617 [] den = 4 -> 2885390 [] den = 5 -> 3349834 [] den = 8 -> 4328085
             [] den = 10 -> 4792529 [] den = 16 -> 5770780 [] den = 20 -> 6235224 [] den = 50 -> 8142363 [] den = 100 -> 9585058
             [] den = 128 -> 10098865 [] den = 1000 -> 14377587 [] den = 1024 -> 14426950 [] den = 10000 -> 19170116
             [] den = 65536 -> 23083120 [] den = 100000 -> 23962645 [] den = 1000000 -> 28755175 [] den = 10000000 -> 33547704
             [] den = 100000000 -> 38340233 [] den = 1000000000 -> 43132762
FppDens == {2, 3, 4, 5, 8, 10, 16, 20, 50, 100, 128, 1000, 1024, 10000, 65536, 100000, 1000000, 10000000, 100000000, 1000000000}
\* floor(e^d * 1000), d = 0..14
EPowK == <<1000, 2718, 7389, 20085, 54598, 148413, 403428, 1096633, 2980957, 8103083, 22026465, 59874141, 162754791, 442413392, 1202604284>>

\* the finest scale at which p * (c + 1) and q * S stay below 2^31; 0 if none
ScaleFor(p, q, c6) == IF p <= MaxInt \div (c6 + 1) /\ q <= MaxInt \div 1000000 THEN 1000000
                      ELSE IF p <= MaxInt \div (c6 \div 100 + 1) /\ q <= MaxInt \div 10000 THEN 10000
                      ELSE IF p <= MaxInt \div (c6 \div 10000 + 1) /\ q <= MaxInt \div 100 THEN 100
                      ELSE 0
Lo(p, q, c6) == LET S == ScaleFor(p, q, c6) IN CeilDiv(p * (c6 \div (1000000 \div S)), q * S)
Hi(p, q, c6) == LET S == ScaleFor(p, q, c6) IN CeilDiv(p * (c6 \div (1000000 \div S) + 1), q * S)
\* x = ceil(c * p / q) for the constant c bracketed by c6
IsCeilOf(x, p, q, c6) == ScaleFor(p, q, c6) = 0 \/ (Lo(p, q, c6) <= x /\ x <= Hi(p, q, c6))

\* ---- count-min
\* eps = q / p: buckets = ceil(e * p / q)
BucketsOK(w, p, q) == IsCeilOf(w, p, q, E6)
\* 1 - conf = num / den, num <= 1000, den <= 2*10^6: hashes = d with e^(d-1) < den / num <= e^d (ambiguous within the rounding of the table)
HashesOK(d, num, den) ==
  /\ d >= 0 /\ d <= 15
  /\ (d >= 1 => num * EPowK[d] < den * 1000 + num)                      \* not: e^(d-1) >= den / num
  /\ (d <= 14 => den * 1000 <= num * (EPowK[d + 1] + 1))                \* not: den / num > e^d
\* ---- Bloom
BloomHashesNM_OK(k, n, m) == IsCeilOf(k, m, n, LN2x6)                   \* ceil(m / n * ln 2)
\* ceil(log2 den), den <= 2^30; at an exact power of two the quotient of two logarithms may land one ulp above the integer
\* (observed: 2^-29 -> 30), so there k = log2 den + 1 is tolerated (a relative tolerance of 1e-15 on fpp)
BloomHashesP_OK(k, den) == /\ k \in 0..31
                           /\ \/ (k <= 30 /\ 2^k >= den /\ (k = 0 \/ 2^(k - 1) < den))
                              \/ (k >= 1 /\ 2^(k - 1) = den)
BloomBitsOK(bits, n, den) == IsCeilOf(bits, n, 1, C6(den))             \* ceil(n * ln(den) / (ln 2)^2)
\* a filter holds the bits asked for, and less than one 64-bit word more
CapacityOK(cap, bits) == cap >= bits /\ cap < bits + 64
====
