\* every sequence of <= 3 inputs from the 9-sketch catalogue (all flavors, lgK 3..6, empty inputs with the smallest lgK,
\* a merged input) into unions configured with lg_k 4, 5 or 6
SPECIFICATION Spec
CONSTANTS ULgKs = {4, 5, 6}
 MaxIn = 3
 FoldBug = 0
INVARIANT RestInv ResultInv CInv
PROPERTY Refines
CHECK_DEADLOCK FALSE
