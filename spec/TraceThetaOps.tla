---- MODULE TraceThetaOps ----
(***************************************************************************)
(* Trace validation of theta_union / theta_intersection / theta_a_not_b /  *)
(* theta_jaccard_similarity executions against the ThetaOps contract (C02) *)
(* Inputs are logged with their observed content (whatever physical form:  *)
(* update sketch, compact ordered/unordered, wrapped, deserialized); every *)
(* result is compared with the declarative definition over the SET of      *)
(* inputs presented so far.                                                *)
(***************************************************************************)
EXTENDS ThetaOps, TraceCommon
VARIABLES sv, un, ix, maxH
tvars == <<l, sv, un, ix, maxH>>

V(r) == [thetaH |-> r.thetaH, ent |-> ToSet(r.ent), empty |-> r.empty]
\* a logged projection r is internally consistent
ProjOK(r) == /\ Chk("no-duplicates", Len(r.ent) = Cardinality(ToSet(r.ent)))
             /\ Chk("num_retained", r.n = Len(r.ent))
             /\ Chk("ordered-list", r.ordered => Asc(r.ent))
             /\ Chk("C06:bounds", /\ r.lb[3] <= r.lb[2] /\ r.lb[2] <= r.lb[1] /\ r.lb[1] <= r.est
                                  /\ r.est <= r.ub[1] /\ r.ub[1] <= r.ub[2] /\ r.ub[2] <= r.ub[3])
             /\ Chk("C06:exact-estimate", (r.thetaH = maxH \/ r.empty) => /\ r.estI = Len(r.ent) /\ ~r.estMode
                                            /\ \A k \in 1..3 : r.lb[k] = r.est /\ r.ub[k] = r.est)
\* logged result r equals the defined value d
ResOK(r, d, ordered) ==
  /\ ProjOK(r)
  /\ Chk("result-theta", r.thetaH = d.thetaH)
  /\ Chk("result-entries", ToSet(r.ent) = d.ent)
  /\ Chk("result-empty", r.empty = d.empty)
  /\ Chk("result-ordered", ordered => r.ordered)

TBegin == IsEvent("Begin") /\ sv' = <<>> /\ un' = <<>> /\ ix' = <<>> /\ maxH' = Log[l].maxH
\* a new input value in slot id (any physical form)
TSk == IsEvent("Sk") /\ LET e == Log[l] IN
         /\ ProjOK(e.r)
         /\ Chk("input-wellformed", WellFormed(V(e.r), maxH))
         /\ sv' = (e.id :> V(e.r)) @@ sv /\ UNCHANGED <<un, ix, maxH>>
\* the same value re-expressed in another physical form must expose the same content
TForm == IsEvent("Form") /\ LET e == Log[l] IN
         /\ ProjOK(e.r)
         /\ Chk("form-same-content", V(e.r) = sv[e.src])
         /\ sv' = (e.id :> V(e.r)) @@ sv /\ UNCHANGED <<un, ix, maxH>>
TUNew == IsEvent("UNew") /\ LET e == Log[l] IN
         /\ un' = (e.u :> [k |-> e.k, th0 |-> e.startH, inputs |-> {}]) @@ un /\ UNCHANGED <<sv, ix, maxH>>
TUUpdate == IsEvent("UUpdate") /\ LET e == Log[l] IN
         /\ un' = [un EXCEPT ![e.u].inputs = @ \cup {sv[e.src]}] /\ UNCHANGED <<sv, ix, maxH>>
TUReset == IsEvent("UReset") /\ LET e == Log[l] IN
         /\ un' = [un EXCEPT ![e.u].inputs = {}] /\ UNCHANGED <<sv, ix, maxH>>
TUResult == IsEvent("UResult") /\ LET e == Log[l]  u == un[e.u]
                                      d == UnionDef(u.inputs, u.k, u.th0, maxH) IN
         /\ ResOK(e.r, d, e.ordered)
         /\ sv' = (e.dst :> d) @@ sv /\ UNCHANGED <<un, ix, maxH>>
TINew == IsEvent("INew") /\ ix' = (Log[l].i :> [set |-> {}, fold |-> <<>>]) @@ ix /\ UNCHANGED <<sv, un, maxH>>
TIUpdate == IsEvent("IUpdate") /\ LET e == Log[l] IN
         /\ ix' = [ix EXCEPT ![e.i] = [set |-> @.set \cup {sv[e.src]}, fold |-> InterStep(@.fold, sv[e.src], maxH)]]
         /\ UNCHANGED <<sv, un, maxH>>
TIResult == IsEvent("IResult") /\ LET e == Log[l] IN
         /\ IF ix[e.i].set = {}
            THEN Chk("result-before-update-refused", e.outcome = "throw") /\ UNCHANGED sv
            ELSE /\ Chk("has-result", e.outcome = "ok")
                 /\ LET d == InterDef(ix[e.i].set, maxH)  f == ix[e.i].fold IN
                    \* KNOWN FINDING (known_findings.json, C02:inter-sticky-empty): the running intersection became exactly
                    \* empty (disjoint exact operands) before an operand with a lower theta arrived; the object keeps
                    \* (max theta, {}, empty) - the documented semantics applied input by input - instead of the order-free value
                    IF d # f /\ f.empty /\ d.ent = {} /\ V(e.r) = f
                    THEN Known("C02:inter-sticky-empty") /\ ProjOK(e.r) /\ sv' = (e.dst :> f) @@ sv
                    ELSE ResOK(e.r, d, e.ordered) /\ sv' = (e.dst :> d) @@ sv
         /\ UNCHANGED <<un, ix, maxH>>
TAnotB == IsEvent("AnotB") /\ LET e == Log[l]  d == AnotBDef(sv[e.a], sv[e.b], maxH) IN
         /\ ResOK(e.r, d, e.ordered)
         /\ sv' = (e.dst :> d) @@ sv /\ UNCHANGED <<un, ix, maxH>>
\* seed-hash mismatch must be refused (non-empty foreign-seed operand)
\* (offered to a LIVE union / intersection too: their state in the specification does not change, so a side effect of
\* the refused call shows in their later results; an intersection that is already empty may ignore the operand)
TMismatch == IsEvent("Mismatch") /\ Chk("seed-mismatch-refused", Log[l].outcome = "throw" \/ (Log[l].which = 4 /\ Log[l].liveEmpty))
             /\ UNCHANGED <<sv, un, ix, maxH>>
TJaccard == IsEvent("Jaccard") /\ LET e == Log[l]  a == sv[e.a]  b == sv[e.b] IN
         /\ Chk("jaccard-order", e.lb <= e.est /\ e.est <= e.ub)
         /\ Chk("jaccard-range", e.estI >= 0 /\ e.estI <= 1000000)
         /\ (Exact(a, maxH) /\ Exact(b, maxH)) =>
              LET i == Cardinality(a.ent \cap b.ent)  u == Cardinality(a.ent \cup b.ent)
                  x == (1000000 * i) \div u IN
              /\ Chk("jaccard-exact-bounds", e.lb = e.est /\ e.ub = e.est)
              /\ Chk("jaccard-exact-ratio", e.estI >= x - 1 /\ e.estI <= x + 1)
              /\ Chk("exactly-equal", e.eq = (a.ent = b.ent))
         /\ (a.empty /\ b.empty) => Chk("jaccard-both-empty", e.estI = 1000000 /\ e.lb = e.est /\ e.ub = e.est)
         /\ (a.empty # b.empty) => Chk("jaccard-one-empty", e.estI = 0 /\ e.lb = e.est /\ e.ub = e.est)
         /\ UNCHANGED <<sv, un, ix, maxH>>

TInit == l = 1 /\ sv = <<>> /\ un = <<>> /\ ix = <<>> /\ maxH = 0
TNext == TBegin \/ TSk \/ TForm \/ TUNew \/ TUUpdate \/ TUReset \/ TUResult \/ TINew \/ TIUpdate \/ TIResult
         \/ TAnotB \/ TMismatch \/ TJaccard
TSpec == TInit /\ [][TNext]_tvars
====
