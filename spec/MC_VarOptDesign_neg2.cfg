\* NEGATIVE config (expected verdict: violation of the contract): design variant 2 (see VarOptDesign.tla), k = 3
SPECIFICATION Spec
CONSTANTS K = 3
 MaxN = 6
 Wts = {1, 2, 3, 10}
 Variant = 2
INVARIANT CInv
PROPERTY Refines
CHECK_DEADLOCK FALSE
