\* enumeration mode: report every forbidden outcome and continue (see TraceReader.tla)
SPECIFICATION TSpec
CONSTANTS MaxSize = 0 Paths = {} Vals = {} Strict = FALSE
POSTCONDITION AcceptedR
CHECK_DEADLOCK FALSE
