---- MODULE TraceEst ----
(***************************************************************************)
(* C06 - acceptance specification for (b) the shared binomial-bound        *)
(* functions over a dense grid and (c) seeded accuracy trials of Theta /   *)
(* HLL / CPC sketches and their union results.  The harness logs only      *)
(* observations (error in ppm, bounds and the true count as order-ranked   *)
(* doubles); bias, spread and coverage statistics are accumulated and      *)
(* judged here, in integer arithmetic.  Thresholds sit at >= 6 standard    *)
(* errors of each statistic plus a stated slack, so that any seed passes   *)
(* on a tree where the property holds.                                     *)
(***************************************************************************)
EXTENDS TraceCommon, Integers
VARIABLES cell, acc
tvars == <<l, cell, acc>>

\* lb3 <= lb2 <= lb1 <= est <= ub1 <= ub2 <= ub3 : bounds bracket the estimate and widen with the number of std devs
Coherent(e) == /\ e.lb[3] <= e.lb[2] /\ e.lb[2] <= e.lb[1] /\ e.lb[1] <= e.est
               /\ e.est <= e.ub[1] /\ e.ub[1] <= e.ub[2] /\ e.ub[2] <= e.ub[3]

\* published relative standard error of a configuration, in ppm: c / sqrt(k) with the documented constant c (x1000):
\* Theta 1/sqrt(k); HLL 0.8326/sqrt(k) (HIP, in-order) and 1.04/sqrt(k) (union result, composite);
\* CPC 0.589/sqrt(k) (HIP) and 0.694/sqrt(k) (union result, ICON)
CMilli(f) == CASE f = "theta" -> 1000 [] f = "theta-union" -> 1000
               [] f \in {"hll4", "hll6", "hll8"} -> 833 [] f = "hll-union" -> 1040
               [] f = "cpc" -> 589 [] f = "cpc-union" -> 694
SqrtK1000(lgk) == IF lgk % 2 = 0 THEN 1000 * 2^(lgk \div 2) ELSE 1414 * 2^((lgk - 1) \div 2)
RsePpm(f, lgk) == (CMilli(f) * 1000000) \div SqrtK1000(lgk)

RECURSIVE IsqrtB(_, _, _)
IsqrtB(x, lo, hi) == IF lo >= hi THEN lo
                     ELSE LET m == (lo + hi + 1) \div 2 IN IF m * m <= x THEN IsqrtB(x, m, hi) ELSE IsqrtB(x, lo, m - 1)
Isqrt(x) == IsqrtB(x, 0, 46340)
Abs(x) == IF x < 0 THEN -x ELSE x
Nominal == <<683, 954, 997>>      \* per mille, 1..3 standard deviations

TBeginGrid == IsEvent("Begin") /\ Log[l].mode = "grid" /\ cell' = [mode |-> "grid"] /\ acc' = <<>>
TBB == IsEvent("BB") /\ LET e == Log[l] IN
         /\ Chk("C06:binomial-bounds-order", Coherent(e))
         /\ Chk("C06:binomial-bounds-exact", e.thetaOne => \A k \in 1..3 : e.lb[k] = e.count /\ e.ub[k] = e.count /\ e.est = e.count)
         /\ UNCHANGED <<cell, acc>>
\* ICON estimator of the CPC merged form as a function of (lg_k, C): non-decreasing in C (the documented reason for its
\* crossover thresholds), never below the number of coupons, and within a tenth of the published RSE of an independent
\* evaluation of its definition (expected-coupon-count inversion computed by the harness)
TIcon == IsEvent("ICON") /\ LET e == Log[l] IN
         /\ Chk("C06:icon-monotone", ~e.first => acc.lastEst <= e.est)
         /\ Chk("C06:icon-ge-coupons", e.cD <= e.est)
         /\ Chk("C06:icon-matches-definition", e.c >= 2^e.lgk \div 4 => Abs(e.devPpm) * 10 <= RsePpm("cpc-union", e.lgk))
         /\ acc' = [lastEst |-> e.est] /\ UNCHANGED cell
\* exact (not sampled) one-sided miss probability of the interval for a sketch of n items at sampling fraction theta, in ppm:
\* the interval must contain the true count at least as often as its nominal confidence; stated tolerance: 1.5 x the
\* nominal tail probability + 5 ppm (the pinned approximations reach 1.35 x at 3 std devs, 1.04 x at 2, < 1 at 1)
TailPpm == <<158655, 22750, 1350>>
TBBCov == IsEvent("BBCov") /\ LET e == Log[l] IN
         /\ Chk("C06:binomial-bounds-exact-coverage-upper", \A k \in 1..3 : e.missUbPpm[k] * 2 <= TailPpm[k] * 3 + 10)
         /\ Chk("C06:binomial-bounds-exact-coverage-lower", \A k \in 1..3 : e.missLbPpm[k] * 2 <= TailPpm[k] * 3 + 10)
         /\ UNCHANGED <<cell, acc>>
TBBInvalid == IsEvent("BBInvalid") /\ Chk("C06:invalid-arguments-refused", Log[l].refused = Log[l].of) /\ UNCHANGED <<cell, acc>>

TBeginTrials == IsEvent("Begin") /\ Log[l].mode = "trials" /\ LET e == Log[l] IN
         /\ cell' = [mode |-> "trials", family |-> e.family, lgk |-> e.lgk, n |-> e.n, T |-> e.T]
         /\ acc' = [t |-> 0, sumZ |-> 0, sumZ2 |-> 0, cov |-> <<0, 0, 0>>]
TTrial == IsEvent("Trial") /\ LET e == Log[l]
                                  z == (e.errPpm * 100) \div RsePpm(cell.family, cell.lgk)   \* error in 1/100 of the published RSE
                              IN
         /\ Chk("C06:bounds-order", Coherent(e))
         \* a Theta sketch (or union result) that is not in estimation mode is exact
         /\ Chk("C06:exact-mode", (cell.family \in {"theta", "theta-union"} /\ cell.n <= 2^cell.lgk) =>
                                    e.errPpm = 0 /\ \A k \in 1..3 : e.lb[k] = e.est /\ e.ub[k] = e.est)
         /\ acc' = [t |-> acc.t + 1, sumZ |-> acc.sumZ + (IF z > 1000 THEN 1000 ELSE IF z < -1000 THEN -1000 ELSE z), sumZ2 |-> LET zz == IF Abs(z) > 1000 THEN 1000000 ELSE z * z IN      \* saturating: stays within 32 bits
                                  IF acc.sumZ2 > 2000000000 - zz THEN 2000000000 ELSE acc.sumZ2 + zz,
                    cov |-> [k \in 1..3 |-> acc.cov[k] + (IF e.lb[k] <= e.nD /\ e.nD <= e.ub[k] THEN 1 ELSE 0)]]
         /\ UNCHANGED cell
TVerdict == IsEvent("Verdict") /\ LET T == cell.T  s == Isqrt(T)
                                      B == 105 + (600 * 100) \div Isqrt(2 * T * 10000) IN
         /\ Chk("C06:trial-count", acc.t = T)
         \* negligible bias: |mean z| <= 6/sqrt(T) + 0.05 (in RSE units)
         /\ Chk("C06:bias", Abs(acc.sumZ) <= 600 * s + 600 + 5 * T)
         \* spread no larger than the published RSE: rms z <= 1 + 6/sqrt(2T) + 0.05
         /\ Chk("C06:spread", acc.sumZ2 <= T * B * B)
         \* the interval contains the true count at least as often as its nominal confidence (6 sigma of the count + 2 % slack)
         /\ Chk("C06:coverage", \A k \in 1..3 :
                  acc.cov[k] * 1000 + 6 * Isqrt(T * Nominal[k] * (1000 - Nominal[k])) + 20 * T >= T * Nominal[k])
         /\ PrintT(<<"CELL", cell.family, cell.lgk, cell.n, "meanZ%", acc.sumZ \div T, "rmsZ%", Isqrt(acc.sumZ2 \div T), "cov", acc.cov>>)
         /\ UNCHANGED <<cell, acc>>

TInit == l = 1 /\ cell = <<>> /\ acc = <<>>
TNext == TBeginGrid \/ TBB \/ TBBCov \/ TIcon \/ TBBInvalid \/ TBeginTrials \/ TTrial \/ TVerdict
TSpec == TInit /\ [][TNext]_tvars
====
