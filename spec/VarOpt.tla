---- MODULE VarOpt ----
(***************************************************************************)
(* Tier A contract of var_opt_sketch and of var_opt_union at result level  *)
(* (property C16), written from the property statement and the public      *)
(* documentation only.                                                     *)
(*                                                                         *)
(* A sketch value is what iteration exposes: H : Item -> Wt, the items     *)
(* iterated with their own weight; R, the items iterated with the common   *)
(* weight tau; twr = tau * |R| (an integer when the weights are integers:  *)
(* it is the total weight of everything the reservoir absorbed).  Ghost:   *)
(* stream : Item -> Wt, everything offered (the drivers offer DISTINCT     *)
(* items with INTEGER weights, so every comparison is exact), tot = its    *)
(* sum.  The property fixes the sample only through the clauses below;     *)
(* which light item is evicted is free, hence the new sample is an         *)
(* explicit parameter of Update (model checking enumerates it, trace       *)
(* validation passes the logged post-state).                               *)
(*                                                                         *)
(* The union's internal gadget is not modelled: UnionUpdate only           *)
(* accumulates the ground truth, UnionResult states what a result must     *)
(* satisfy.  "At most the smallest effective k": the library documents     *)
(* that the union lets k float ("largest k a valid sketch could have");    *)
(* the effective k is the k the result itself reports, bounded by max_k,   *)
(* and the result holds min(n, that k) items (see notes/C16-report.md).    *)
(***************************************************************************)
EXTENDS Naturals, FiniteSets, Sequences, TLC
CONSTANTS Ids, UIds, Items, Wts, Ks    \* bounds used only by Next (model checking)
VARIABLES obj, un
vars == <<obj, un>>

Live == DOMAIN obj
ULive == DOMAIN un
Min(a, b) == IF a <= b THEN a ELSE b
RECURSIVE SumF(_, _)
SumF(f, S) == IF S = {} THEN 0 ELSE LET x == CHOOSE y \in S : TRUE IN f[x] + SumF(f, S \ {x})

Fresh(k) == [k |-> k, n |-> 0, H |-> <<>>, R |-> {}, twr |-> 0, stream |-> <<>>, tot |-> 0]
Sample(o) == DOMAIN o.H \cup o.R
NumR(o) == Cardinality(o.R)

\* ---- the clauses of the statement, per sketch value ----
\* "holds min(n, k) items drawn from the input" (distinct items: H and R do not overlap)
Distinct(o) == DOMAIN o.H \cap o.R = {}
FromInput(o) == Sample(o) \subseteq DOMAIN o.stream
SizeOK(o) == Cardinality(DOMAIN o.H) + NumR(o) = Min(o.n, o.k)
\* an item iterated with a weight other than the common tau carries its exact weight
ExactWeights(o) == \A x \in DOMAIN o.H : o.H[x] = o.stream[x]
\* "the adjusted weights of all samples sum to the exact total input weight"
WeightConserved(o) == SumF(o.H, DOMAIN o.H) + o.twr = o.tot /\ (o.R = {} => o.twr = 0)
\* "every item whose weight exceeds the current threshold is present with its exact weight"
\*   w > tau  <=>  w * |R| > twr   (no threshold while nothing is sampled: then everything is present by SizeOK)
HeavyKept(o) == \A x \in DOMAIN o.stream : o.stream[x] * NumR(o) > o.twr => x \in DOMAIN o.H
SampleOK(o) == /\ Distinct(o) /\ FromInput(o) /\ SizeOK(o) /\ ExactWeights(o) /\ WeightConserved(o) /\ HeavyKept(o)

\* what estimate_subset_sum must report for the predicate TRUE
EstimateAll(o) == o.tot

Init == obj = <<>> /\ un = <<>>
New(i, k) == k >= 1 /\ obj' = (i :> Fresh(k)) @@ obj /\ UNCHANGED un
\* invalid k (0 or above MAX_K) and invalid weights (negative, NaN, infinite) are refused: nothing changes
Refused == UNCHANGED vars
Post(o, x, w, Hn, Rn, twrn) ==
  [o EXCEPT !.n = @ + 1, !.stream = (x :> w) @@ @, !.tot = @ + w, !.H = Hn, !.R = Rn, !.twr = twrn]
Update(i, x, w, Hn, Rn, twrn) ==
  /\ i \in Live /\ w >= 1
  /\ x \notin DOMAIN obj[i].stream          \* driver assumption: distinct items
  /\ LET new == Post(obj[i], x, w, Hn, Rn, twrn) IN
       /\ SampleOK(new)
       /\ obj' = [obj EXCEPT ![i] = new]
  /\ UNCHANGED un
\* update with weight 0: ignored, no observable changes (n, emptiness, sample, image)
UpdateIgnored(i) == i \in Live /\ UNCHANGED vars
Reset(i) == i \in Live /\ obj' = [obj EXCEPT ![i] = Fresh(@.k)] /\ UNCHANGED un
Copy(i, j) == i \in Live /\ obj' = (j :> obj[i]) @@ obj /\ UNCHANGED un
Destroy(i) == i \in Live /\ obj' = [x \in Live \ {i} |-> obj[x]] /\ UNCHANGED un

\* ---- union, at result level ----
UFresh(maxK) == [maxK |-> maxK, n |-> 0, tot |-> 0, stream |-> <<>>, pool |-> {}]
UnionNew(u, maxK) == maxK >= 1 /\ un' = (u :> UFresh(maxK)) @@ un /\ UNCHANGED obj
UnionUpdate(u, i) ==
  /\ u \in ULive /\ i \in Live
  /\ DOMAIN obj[i].stream \cap DOMAIN un[u].stream = {}     \* driver assumption: streams of distinct items
  /\ LET o == obj[i] IN
       un' = [un EXCEPT ![u] = [@ EXCEPT !.n = @ + o.n, !.tot = @ + o.tot, !.stream = o.stream @@ @,
                                          !.pool = @ \cup Sample(o)]]
  /\ UNCHANGED obj
ResultValue(v, kres, Hn, Rn, twrn) ==
  [k |-> kres, n |-> v.n, H |-> Hn, R |-> Rn, twr |-> twrn, stream |-> v.stream, tot |-> v.tot]
\* n = sum of n_i, adjusted weights sum to the sum of the totals, at most min(max_k, effective k) samples,
\* items only out of the input samples, exact-weight items keep their stream weight, heavy items kept
ResultOK(v, new) == /\ new.k >= 1 /\ new.k <= v.maxK
                    /\ SampleOK(new)
                    /\ Sample(new) \subseteq v.pool
UnionResult(u, j, kres, Hn, Rn, twrn) ==
  /\ u \in ULive
  /\ LET new == ResultValue(un[u], kres, Hn, Rn, twrn) IN
       /\ ResultOK(un[u], new)
       /\ obj' = (j :> new) @@ obj
  /\ UNCHANGED un
UnionReset(u) == u \in ULive /\ un' = [un EXCEPT ![u] = UFresh(@.maxK)] /\ UNCHANGED obj
UnionCopy(u, v) == u \in ULive /\ un' = (v :> un[u]) @@ un /\ UNCHANGED obj      \* construction or assignment, copy or move
UnionDestroy(u) == u \in ULive /\ un' = [x \in ULive \ {u} |-> un[x]] /\ UNCHANGED obj

\* ---- bounded next-state relation for model checking ----
Used == UNION ({DOMAIN obj[i].stream : i \in Live} \cup {DOMAIN un[u].stream : u \in ULive})
\* items are interchangeable: the next offered item is the smallest unused one
NextItem == {y \in Items \ Used : \A z \in Items \ Used : y <= z}
\* all samples over stream st with total t: H is determined by its domain, twr by conservation
Samples(st, t) ==
  {<<[y \in p[1] |-> st[y]], p[2], t - SumF(st, p[1])>> :
      p \in {q \in (SUBSET (DOMAIN st)) \X (SUBSET (DOMAIN st)) : q[1] \cap q[2] = {}}}
Next ==
  \/ \E i \in Ids :
       \/ i \notin Live /\ \E k \in Ks : New(i, k)
       \/ i \in Live /\ \E x \in NextItem, w \in Wts :
            \E s \in Samples((x :> w) @@ obj[i].stream, obj[i].tot + w) : Update(i, x, w, s[1], s[2], s[3])
       \/ UpdateIgnored(i)
       \/ Reset(i)
       \/ \E j \in Ids \ {i} : Copy(i, j)
       \/ Destroy(i)
  \/ \E u \in UIds :
       \/ u \notin ULive /\ \E k \in Ks : UnionNew(u, k)
       \/ \E i \in Live : UnionUpdate(u, i)
       \/ u \in ULive /\ \E j \in Ids, k \in Ks : \E s \in Samples(un[u].stream, un[u].tot) :
            UnionResult(u, j, k, s[1], s[2], s[3])
       \/ UnionReset(u)
       \/ \E v \in UIds \ {u} : UnionCopy(u, v)
Spec == Init /\ [][Next]_vars

\* invariants: the property's clauses, and what they imply
Inv == /\ \A i \in Live : LET o == obj[i] IN
            /\ SampleOK(o)
            \* the estimate over everything is the exact total
            /\ SumF(o.H, DOMAIN o.H) + o.twr = EstimateAll(o)
            \* nothing is sampled away while everything fits
            /\ (o.n <= o.k /\ o.n = Cardinality(DOMAIN o.stream) => Sample(o) = DOMAIN o.stream)
            \* a reservoir item is never heavier than the threshold
            /\ \A x \in o.R : o.stream[x] * NumR(o) <= o.twr
       /\ \A u \in ULive : LET v == un[u] IN v.pool \subseteq DOMAIN v.stream /\ v.n >= Cardinality(v.pool)
====
