---- MODULE TraceQuantErr ----
(***************************************************************************)
(* C08(c): acceptance of the published rank error over seeded long-stream  *)
(* trials of the real classes (harness/quant_err_rec.cpp).  All quantities  *)
(* are integers: normalized ranks in ppm.  Claims judged:                   *)
(*  KLL / classic: |estimated - true| rank <= get_normalized_rank_error     *)
(*    (false) and the largest PMF bin error <= get_normalized_rank_error    *)
(*    (true), each with 99 % confidence, also after a merge tree of 8;      *)
(*  REQ: the true rank lies within [get_rank_lower_bound, get_rank_upper_   *)
(*    bound](estimate, s) with the usual confidence of s = 1, 2, 3 standard *)
(*    deviations (68.27 %, 95.45 %, 99.73 %).                               *)
(* Verdict: the observed failure fraction must not exceed                   *)
(*    p + 6 * sqrt(p (1 - p) / T) + 0.02   (p = claimed failure rate,       *)
(* T = number of TRIALS: the 100 queries of a trial are correlated, so only *)
(* trials count as independent samples; 6 standard errors + slack: any seed *)
(* passes on a tree where the claim holds).  Units of 1e-4.                 *)
(***************************************************************************)
EXTENDS TraceCommon
VARIABLES T, q, exc, pmfexc, fail
tvars == <<l, T, q, exc, pmfexc, fail>>
ISqrt(x) == CHOOSE r \in 0..5000 : r * r <= x /\ x < (r + 1) * (r + 1)
\* allowed failure fraction (units of 1e-4) for a claimed failure rate p4 (units of 1e-4) over t trials
Allowed(p4, t) == p4 + 6 * ISqrt((p4 * (10000 - p4)) \div t) + 200
Count(s, P(_)) == Cardinality({i \in DOMAIN s : P(i)})
TBegin == IsEvent("Begin") /\ T' = 0 /\ q' = 0 /\ exc' = 0 /\ pmfexc' = 0 /\ fail' = <<0, 0, 0>>
TTrial == IsEvent("Trial") /\ LET e == Log[l] IN
  /\ Chk("n", e.sn = e.n)
  /\ T' = T + 1
  /\ IF e.kind = "eps"
     THEN /\ q' = q + Len(e.errs)
          /\ exc' = exc + Count(e.errs, LAMBDA i : e.errs[i] > e.eps)
          /\ pmfexc' = pmfexc + (IF e.pmferr > e.epspmf THEN 1 ELSE 0)
          /\ UNCHANGED fail
     ELSE /\ q' = q + Len(e.truth)
          /\ fail' = <<fail[1] + Count(e.truth, LAMBDA i : ~(e.lb1[i] - 1 <= e.truth[i] /\ e.truth[i] <= e.ub1[i] + 1)),
                       fail[2] + Count(e.truth, LAMBDA i : ~(e.lb2[i] - 1 <= e.truth[i] /\ e.truth[i] <= e.ub2[i] + 1)),
                       fail[3] + Count(e.truth, LAMBDA i : ~(e.lb3[i] - 1 <= e.truth[i] /\ e.truth[i] <= e.ub3[i] + 1))>>
          /\ UNCHANGED <<exc, pmfexc>>
TVerdict == IsEvent("Verdict") /\ LET e == Log[l] IN
  /\ Chk("harness:trials", e.trials = T /\ T >= 8)
  /\ Chk("rank-error-within-published-epsilon", exc * 10000 <= Allowed(100, T) * q)
  /\ Chk("pmf-error-within-published-epsilon", pmfexc * 10000 <= Allowed(100, T) * T)
  /\ Chk("req-bounds-1-std-dev", fail[1] * 10000 <= Allowed(3173, T) * q)
  /\ Chk("req-bounds-2-std-dev", fail[2] * 10000 <= Allowed(455, T) * q)
  /\ Chk("req-bounds-3-std-dev", fail[3] * 10000 <= Allowed(27, T) * q)
  /\ UNCHANGED <<T, q, exc, pmfexc, fail>>
TInit == l = 1 /\ T = 0 /\ q = 0 /\ exc = 0 /\ pmfexc = 0 /\ fail = <<0, 0, 0>>
TNext == TBegin \/ TTrial \/ TVerdict
TSpec == TInit /\ [][TNext]_tvars
====
