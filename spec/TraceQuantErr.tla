---- MODULE TraceQuantErr ----
(***************************************************************************)
(* C08(c): acceptance of the published rank error, and of unbiasedness     *)
(* where the randomness is not the hooked coin, over seeded trials of the  *)
(* real classes (harness/quant_err_rec.cpp).  All quantities are integers. *)
(* Trials carry a `group`; every group is judged on its own:               *)
(*  kind "eps" (KLL / classic; groups "flat": one sketch or an 8-way merge, *)
(*    "tree": depth-2 merge trees A.merge(B.merge(C)) with k 16 vs 200 /    *)
(*    128 in every position): |estimated - true| rank (ppm) <= the sketch's *)
(*    own get_normalized_rank_error(false), and the largest PMF bin error   *)
(*    <= get_normalized_rank_error(true), each with 99 % confidence;        *)
(*  kind "bounds" (REQ): the true rank lies within [get_rank_lower_bound,   *)
(*    get_rank_upper_bound](estimate, s), s = 1, 2, 3 standard deviations   *)
(*    (68.27 %, 95.45 %, 99.73 %);                                          *)
(*  kind "bias" (classic down-sampling merge, groups ds2 / ds4 / ds8 = k    *)
(*    ratio, both operands estimating): signed rank error in units of 1e-3  *)
(*    at 9 ranks; the mean must be 0: |sum| <= 6 sqrt(sum of squares)       *)
(*    + 0.002 T  (6 standard errors of the sum, the second moment bounding  *)
(*    the variance, + slack).                                               *)
(* The directed REQ group "req-mixed-k" (depth-2 trees with the small k      *)
(* below the top, e.g. A(24).merge(B(24).merge(C(4)))) is judged apart: a   *)
(* failure of its coverage prints Known("C08:req-mixed-k-merge-bounds")     *)
(* (known_findings.json) and the trace continues; its other clauses (n,     *)
(* bounds ordered around the estimate) are hard checks.                     *)
(* REQ groups "req-ordered-k<k>-b<band>": sorted streams whose accurate-end   *)
(* items arrive first, one sketch or two merged halves, both modes; band b   *)
(* = items (b k, (b+1) k] from the accurate end.  Hard clause on every REQ   *)
(* trial: an exactness claim (zero-width 3-sd bounds) must be exactly right. *)
(* Failure fractions: observed <= p + 6 sqrt(p (1 - p) / T) + 0.02 with     *)
(* p the claimed failure rate and T the number of TRIALS of the group (the  *)
(* queries of one trial are correlated).  Any seed passes on a tree where   *)
(* the claims hold.  Units of 1e-4.                                         *)
(***************************************************************************)
EXTENDS TraceCommon, Integers
VARIABLES acc     \* group -> [T, q, exc, pmfexc, fail, sum, sq]
tvars == <<l, acc>>
ISqrt(x) == CHOOSE r \in 0..46341 : r * r <= x /\ x < (r + 1) * (r + 1)
Allowed(p4, t) == p4 + 6 * ISqrt((p4 * (10000 - p4)) \div t) + 200
Count(s, P(_)) == Cardinality({i \in DOMAIN s : P(i)})
Abs(x) == IF x < 0 THEN 0 - x ELSE x
Zero == [T |-> 0, q |-> 0, exc |-> 0, pmfexc |-> 0, fail |-> <<0, 0, 0>>, sum |-> <<>>, sq |-> <<>>, band |-> -1]
Get(g) == IF g \in DOMAIN acc THEN acc[g] ELSE Zero
Out(e, s) == Count(e.truth, LAMBDA i : ~(e["lb" \o s][i] - 1 <= e.truth[i] /\ e.truth[i] <= e["ub" \o s][i] + 1))
Coverage(a) == /\ a.fail[1] * 10000 <= Allowed(3173, a.T) * a.q
               /\ a.fail[2] * 10000 <= Allowed(455, a.T) * a.q
               /\ a.fail[3] * 10000 <= Allowed(27, a.T) * a.q
\* lb3 <= lb2 <= lb1 <= estimate <= ub1 <= ub2 <= ub3 (ppm; the library does not clamp the bounds to [0, 1] and nothing claims it does)
BoundsOrdered(e) == \A i \in DOMAIN e.truth :
  /\ e.lb3[i] <= e.lb2[i] /\ e.lb2[i] <= e.lb1[i] /\ e.lb1[i] <= e.est[i]
  /\ e.est[i] <= e.ub1[i] /\ e.ub1[i] <= e.ub2[i] /\ e.ub2[i] <= e.ub3[i]
\* REQ exactness claim: a bound pair of zero width at 3 standard deviations (lb = estimate = ub) says the rank is exact, so the
\* TRUE rank must equal it - integer comparison of rank * n, no statistics.  req_sketch documents the ranks within
\* INIT_NUM_SECTIONS * k = 3k items of the accurate end as exact (the part of level 0 that is never compacted).
Claims(e, i) == e.lb3D[i] = e.estD[i] /\ e.ub3D[i] = e.estD[i]
WrongClaims(e) == {i \in DOMAIN e.truth : Claims(e, i) /\ e.estW[i] # e.trueW[i]}
\* distance of the ESTIMATE from the accurate end, in items
EstDist(e, i) == IF e.hra THEN e.n - e.estW[i] ELSE e.estW[i]
\* recorded known finding C08:req-exact-boundary: the exactness test is applied to the ESTIMATED rank; an item just outside the exact
\* region (true distance 3k + 1) whose estimate falls exactly on the boundary 3k is claimed exact although it is one item off
OnBoundary(e, i) == EstDist(e, i) = 3 * e.k /\ (e.estW[i] - e.trueW[i] = 1 \/ e.trueW[i] - e.estW[i] = 1)
ExactClaims(e) ==
  LET bad == WrongClaims(e) IN
  IF bad = {} THEN TRUE
  ELSE IF e.group = "req-mixed-k" THEN Known("C08:req-mixed-k-merge-bounds")
  ELSE /\ Chk("req-exact-rank-claim", \A i \in bad : OnBoundary(e, i))
       /\ Known("C08:req-exact-boundary")
TBegin == IsEvent("Begin") /\ acc' = <<>>
TTrial == IsEvent("Trial") /\ LET e == Log[l]  a == Get(e.group) IN
  /\ Chk("n", e.sn = e.n)
  /\ Chk("published-error-survives-round-trip", (e.kind = "eps" /\ Has(e, "epsrt")) => e.epsrt = <<e.eps, e.epspmf, e.eps, e.epspmf>>)
  /\ Chk("req-bounds-ordered", e.kind = "bounds" => BoundsOrdered(e))
  /\ (e.kind = "bounds" => ExactClaims(e))
  /\ Chk("harness:mixed-k-group-is-bounds", e.group = "req-mixed-k" => e.kind = "bounds")
  /\ acc' = (e.group :>
      (CASE e.kind = "eps" ->
              [a EXCEPT !.T = @ + 1, !.q = @ + Len(e.errs), !.exc = @ + Count(e.errs, LAMBDA i : e.errs[i] > e.eps),
                        !.pmfexc = @ + (IF e.pmferr > e.epspmf THEN 1 ELSE 0)]
         [] e.kind = "bounds" ->
              [a EXCEPT !.T = @ + 1, !.q = @ + Len(e.truth), !.band = e.band,
                        !.fail = <<@[1] + Out(e, "1"), @[2] + Out(e, "2"), @[3] + Out(e, "3")>>]
         [] e.kind = "bias" ->
              [a EXCEPT !.T = @ + 1,
                        !.sum = [j \in DOMAIN e.errs |-> (IF j \in DOMAIN a.sum THEN a.sum[j] ELSE 0) + e.errs[j]],
                        !.sq = [j \in DOMAIN e.errs |-> (IF j \in DOMAIN a.sq THEN a.sq[j] ELSE 0) + e.errs[j] * e.errs[j]]])) @@ acc
TVerdict == IsEvent("Verdict") /\ LET e == Log[l] IN
  /\ Chk("harness:groups", DOMAIN acc # {} /\ \A g \in DOMAIN acc : acc[g].T >= 6)
  /\ \A g \in DOMAIN acc : LET a == acc[g] IN
       /\ Chk("rank-error-within-published-epsilon", a.exc * 10000 <= Allowed(100, a.T) * a.q)
       /\ Chk("pmf-error-within-published-epsilon", a.pmfexc * 10000 <= Allowed(100, a.T) * a.T)
       \* REQ bound coverage.  The directed group "req-mixed-k" (small k below the top of a merge tree) demonstrates the recorded
       \* known finding C08:req-mixed-k-merge-bounds in every run: where its coverage fails the marker is printed and the trace
       \* continues; in every other group the same clause is a hard check
       /\ IF g = "req-mixed-k"
          THEN IF Coverage(a) THEN TRUE ELSE Known("C08:req-mixed-k-merge-bounds")
          \* ordered streams (accurate end first), bands beyond the exact region: recorded known finding C08:req-ordered-stream-bounds -
          \* for several k the published bounds cover ~77 % at 3 standard deviations in the band (4..5] k; recognised only where at
          \* most 35 % of a band's queries fail at 3 standard deviations, anything worse (or in the exact bands 0..2) is a violation
          ELSE IF a.band >= 3 /\ ~Coverage(a) /\ a.fail[3] * 100 <= 35 * a.q THEN Known("C08:req-ordered-stream-bounds")
          ELSE /\ Chk("req-bounds-1-std-dev", a.fail[1] * 10000 <= Allowed(3173, a.T) * a.q)
               /\ Chk("req-bounds-2-std-dev", a.fail[2] * 10000 <= Allowed(455, a.T) * a.q)
               /\ Chk("req-bounds-3-std-dev", a.fail[3] * 10000 <= Allowed(27, a.T) * a.q)
       /\ \A j \in DOMAIN a.sum :
            Chk("downsampling-merge-unbiased", Abs(a.sum[j]) <= 6 * ISqrt(a.sq[j]) + 2 * a.T)
  /\ UNCHANGED acc
TInit == l = 1 /\ acc = <<>>
TNext == TBegin \/ TTrial \/ TVerdict
TSpec == TInit /\ [][TNext]_tvars
====
