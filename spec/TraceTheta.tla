---- MODULE TraceTheta ----
(***************************************************************************)
(* Trace validation of recorded executions of update_theta_sketch /        *)
(* compact_theta_sketch / wrapped_compact_theta_sketch against the Theta   *)
(* contract (C01), the bound-coherence clauses of C06 and the Serde        *)
(* clauses of C09.  One successor per event: every free choice of the      *)
(* contract is bound to the logged value.                                  *)
(***************************************************************************)
EXTENDS Theta, TraceCommon
CONSTANT CheckDesign   \* TRUE only in the tier-B configuration (TraceThetaB.cfg): compare with the design model's expected state
VARIABLES cv, blob
tvars == <<obj, l, cv, blob>>

\* model value of a compact sketch: what the API must expose
Val(o) == CompactValue(o) @@ [maxH |-> o.maxH]

\* logged projection r of a real object against the model value v
ValOK(r, v) ==
  /\ Chk("theta", r.thetaH = v.thetaH)
  /\ Chk("entries", ToSet(r.ent) = v.ent)
  /\ Chk("no-duplicates", Len(r.ent) = Cardinality(v.ent))
  /\ Chk("num_retained", r.n = Len(r.ent))
  /\ Chk("seed-hash", Has(r, "seedHash") => r.seedHash = r.xSeedHash)
  /\ Chk("empty", r.empty = v.empty)
  /\ Chk("ordered-list", r.ordered => Asc(r.ent))
  /\ Chk("all-below-theta", \A x \in ToSet(r.ent) : x < r.thetaH)
  /\ LET est == (v.thetaH < v.maxH /\ ~v.empty) IN
     /\ Chk("estimation-mode", r.estMode = est)
     /\ Chk("exact-estimate", ~est => /\ r.estI = Cardinality(v.ent)
                                       /\ \A k \in 1..3 : r.lb[k] = r.est /\ r.ub[k] = r.est)
  \* C06(a): lb3 <= lb2 <= lb1 <= est <= ub1 <= ub2 <= ub3 (order on renamed doubles)
  /\ Chk("C06:bounds", /\ r.lb[3] <= r.lb[2] /\ r.lb[2] <= r.lb[1] /\ r.lb[1] <= r.est
                   /\ r.est <= r.ub[1] /\ r.ub[1] <= r.ub[2] /\ r.ub[2] <= r.ub[3])

Scalars(e, o) == /\ Chk("theta", e.thetaH = ObsTheta(o))
                 /\ Chk("num_retained", e.n = Cardinality(Ret(o)))
                 /\ Chk("empty", e.empty = o.empty)
\* tier B (drift only): replayed behaviours of the design model carry its expected state in x* fields
DesignOK(e) == (CheckDesign /\ Has(e, "xThetaH")) =>
                 /\ Chk("B:design-theta", e.thetaH = e.xThetaH)
                 /\ Chk("B:design-num-retained", e.n = e.xN)
                 /\ Chk("B:design-empty", e.empty = e.xEmpty)
                 /\ Chk("B:design-lg-cur-size", e.lgCur = e.xLgCur)
TParam(o, logged) == IF o.empty THEN o.thetaH ELSE logged

TBegin == IsEvent("Begin") /\ obj' = <<>> /\ cv' = <<>> /\ blob' = <<>>
TNew == IsEvent("New") /\ LET e == Log[l] IN New(e.id, e.k, e.startH, e.maxH) /\ UNCHANGED <<cv, blob>>
TUpdate == IsEvent("Update") /\ LET e == Log[l] IN
             /\ Update(e.id, e.hH, e.thetaH)
             /\ Scalars(e, obj'[e.id]) /\ DesignOK(e)
             /\ UNCHANGED <<cv, blob>>
TUpdateIgnored == IsEvent("UpdateIgnored") /\ LET e == Log[l] IN
             /\ UpdateIgnored(e.id) /\ Scalars(e, obj[e.id]) /\ UNCHANGED <<cv, blob>>
TTrim == IsEvent("Trim") /\ LET e == Log[l] IN
             /\ Trim(e.id, TParam(obj[e.id], e.thetaH))
             /\ Scalars(e, obj'[e.id]) /\ DesignOK(e) /\ UNCHANGED <<cv, blob>>
TReset == IsEvent("Reset") /\ LET e == Log[l] IN
             /\ Reset(e.id) /\ Scalars(e, obj'[e.id]) /\ DesignOK(e) /\ UNCHANGED <<cv, blob>>
TObs == IsEvent("Obs") /\ LET e == Log[l] IN
             /\ ValOK(e.r, Val(obj[e.id])) /\ UNCHANGED <<obj, cv, blob>>
TCopy == IsEvent("Copy") /\ LET e == Log[l] IN
             /\ Copy(e.src, e.dst) /\ ValOK(e.r, Val(obj'[e.dst])) /\ UNCHANGED <<cv, blob>>
TCompact == IsEvent("Compact") /\ LET e == Log[l]
                                      v == Val(obj[e.src]) @@ [ordered |-> e.r.ordered] IN
             /\ ValOK(e.r, v)
             /\ Chk("ordered-requested", e.ordered => e.r.ordered)
             /\ cv' = (e.dst :> v) @@ cv /\ UNCHANGED <<obj, blob>>
\* a compact sketch read from an image whose abstract content the driver chose (every packing width of the compressed form)
TInject == IsEvent("Inject") /\ LET e == Log[l]
                                    v == [thetaH |-> e.thetaH, ent |-> ToSet(e.ent), empty |-> e.empty, maxH |-> e.maxH, ordered |-> e.r.ordered] IN
             /\ Chk("C09:injected-image-read", e.r.ent = e.ent)
             /\ ValOK(e.r, v)
             /\ cv' = (e.dst :> v) @@ cv /\ UNCHANGED <<obj, blob>>
TSer == IsEvent("Ser") /\ LET e == Log[l] IN
             /\ Chk("C09:bytes=stream", e.img = e.simg)
             /\ Chk("C09:advertised-size", e.size = e.advertised)
             /\ Chk("C09:header", e.total = e.hdr + e.size)
             /\ Chk("C09:max-size", e.size <= e.maxsize)
             /\ Chk("C09:entry-bits", Has(e, "w") => e.entryBits = e.w)
             \* equal values serialize to equal images in the same variant (same entry order: same object lineage)
             /\ blob' = (e.blob :> [val |-> cv[e.src], img |-> e.img, size |-> e.size]) @@ blob
             /\ UNCHANGED <<obj, cv>>
TDeser == IsEvent("Deser") /\ LET e == Log[l]  b == blob[e.blob] IN
             /\ ValOK(e.r, b.val)
             /\ Chk("ordered-flag", e.r.ordered = b.val.ordered)
             /\ Chk("C09:consumed", e.consumed = b.size)
             /\ Chk("C09:reserialize", e.reimg = b.img)
             /\ cv' = (e.dst :> b.val) @@ cv /\ UNCHANGED <<obj, blob>>
TWrap == IsEvent("Wrap") /\ LET e == Log[l]  b == blob[e.blob] IN
             /\ ValOK(e.r, b.val) /\ ValOK(e.r2, b.val)
             /\ Chk("ordered-flag", e.r.ordered = b.val.ordered /\ e.r2.ordered = b.val.ordered)
             /\ cv' = (e.dst :> b.val) @@ cv /\ UNCHANGED <<obj, blob>>

\* a refused builder setter leaves the builder as it was (the New event that follows states the configuration);
\* an image is refused with another seed unless it is empty
TBuilderRefusal == IsEvent("BuilderRefusal") /\ Chk("invalid-setting-refused", Log[l].refused = Log[l].of) /\ UNCHANGED <<obj, cv, blob>>
TSeedMismatch == IsEvent("SeedMismatch") /\ Chk("C09:other-seed-refused", Log[l].refused) /\ UNCHANGED <<obj, cv, blob>>

TInit == obj = <<>> /\ l = 1 /\ cv = <<>> /\ blob = <<>>
TNext == TBegin \/ TNew \/ TUpdate \/ TUpdateIgnored \/ TTrim \/ TReset \/ TObs \/ TCopy \/ TCompact
         \/ TSer \/ TDeser \/ TWrap \/ TInject \/ TBuilderRefusal \/ TSeedMismatch
TSpec == TInit /\ [][TNext]_tvars
====
