---- MODULE TraceTheta ----
(***************************************************************************)
(* Trace validation of recorded executions of update_theta_sketch /        *)
(* compact_theta_sketch / wrapped_compact_theta_sketch against the Theta   *)
(* contract (C01), the bound-coherence clauses of C06 and the Serde        *)
(* clauses of C09.  One successor per event: every free choice of the      *)
(* contract is bound to the logged value.                                  *)
(***************************************************************************)
EXTENDS Theta, Json, IOUtils
VARIABLES l, cv, blob, nt
tvars == <<obj, l, cv, blob, nt>>
Log == ndJsonDeserialize(IOEnv.TRACE)
Chk(name, c) == IF c THEN TRUE ELSE PrintT(<<"REJECT", name, l>>) /\ FALSE
ToSet(s) == {s[i] : i \in DOMAIN s}
Asc(s) == \A i \in 1..(Len(s) - 1) : s[i] < s[i + 1]
IsEvent(k) == l <= Len(Log) /\ Log[l].e = k /\ l' = l + 1

\* model value of a compact sketch: what the API must expose
Val(o) == CompactValue(o) @@ [maxH |-> o.maxH]

\* logged projection r of a real object against the model value v
ValOK(r, v) ==
  /\ Chk("theta", r.thetaH = v.thetaH)
  /\ Chk("entries", ToSet(r.ent) = v.ent)
  /\ Chk("no-duplicates", Len(r.ent) = Cardinality(v.ent))
  /\ Chk("num_retained", r.n = Len(r.ent))
  /\ Chk("empty", r.empty = v.empty)
  /\ Chk("ordered-list", r.ordered => Asc(r.ent))
  /\ Chk("all-below-theta", \A x \in ToSet(r.ent) : x < r.thetaH)
  /\ LET est == (v.thetaH < v.maxH /\ ~v.empty) IN
     /\ Chk("estimation-mode", r.estMode = est)
     /\ Chk("exact-estimate", ~est => /\ r.estI = Cardinality(v.ent)
                                       /\ \A k \in 1..3 : r.lb[k] = r.est /\ r.ub[k] = r.est)
  \* C06(a): lb3 <= lb2 <= lb1 <= est <= ub1 <= ub2 <= ub3 (order on renamed doubles)
  /\ Chk("bounds", /\ r.lb[3] <= r.lb[2] /\ r.lb[2] <= r.lb[1] /\ r.lb[1] <= r.est
                   /\ r.est <= r.ub[1] /\ r.ub[1] <= r.ub[2] /\ r.ub[2] <= r.ub[3])

Scalars(e, o) == /\ Chk("theta", e.thetaH = ObsTheta(o))
                 /\ Chk("num_retained", e.n = Cardinality(Ret(o)))
                 /\ Chk("empty", e.empty = o.empty)
TParam(o, logged) == IF o.empty THEN o.thetaH ELSE logged

TBegin == IsEvent("Begin") /\ obj' = <<>> /\ cv' = <<>> /\ blob' = <<>> /\ UNCHANGED nt
TNew == IsEvent("New") /\ LET e == Log[l] IN New(e.id, e.k, e.startH, e.maxH) /\ UNCHANGED <<cv, blob, nt>>
TUpdate == IsEvent("Update") /\ LET e == Log[l] IN
             /\ Update(e.id, e.hH, e.thetaH)
             /\ Scalars(e, obj'[e.id])
             /\ nt' = IF obj'[e.id].thetaH < obj[e.id].thetaH THEN nt + 1 ELSE nt
             /\ UNCHANGED <<cv, blob>>
TUpdateIgnored == IsEvent("UpdateIgnored") /\ LET e == Log[l] IN
             /\ UpdateIgnored(e.id) /\ Scalars(e, obj[e.id]) /\ UNCHANGED <<cv, blob, nt>>
TTrim == IsEvent("Trim") /\ LET e == Log[l] IN
             /\ Trim(e.id, TParam(obj[e.id], e.thetaH))
             /\ Scalars(e, obj'[e.id]) /\ UNCHANGED <<cv, blob, nt>>
TReset == IsEvent("Reset") /\ LET e == Log[l] IN
             /\ Reset(e.id) /\ Scalars(e, obj'[e.id]) /\ UNCHANGED <<cv, blob, nt>>
TObs == IsEvent("Obs") /\ LET e == Log[l] IN
             /\ ValOK(e.r, Val(obj[e.id])) /\ UNCHANGED <<obj, cv, blob, nt>>
TCopy == IsEvent("Copy") /\ LET e == Log[l] IN
             /\ Copy(e.src, e.dst) /\ ValOK(e.r, Val(obj'[e.dst])) /\ UNCHANGED <<cv, blob, nt>>
TCompact == IsEvent("Compact") /\ LET e == Log[l]
                                      v == Val(obj[e.src]) @@ [ordered |-> e.r.ordered] IN
             /\ ValOK(e.r, v)
             /\ Chk("ordered-requested", e.ordered => e.r.ordered)
             /\ cv' = (e.dst :> v) @@ cv /\ UNCHANGED <<obj, blob, nt>>
TSer == IsEvent("Ser") /\ LET e == Log[l] IN
             /\ Chk("bytes=stream", e.img = e.simg)
             /\ Chk("advertised-size", e.size = e.advertised)
             /\ Chk("header", e.total = e.hdr + e.size)
             /\ Chk("max-size", e.size <= e.maxsize)
             \* equal values serialize to equal images in the same variant (same entry order: same object lineage)
             /\ blob' = (e.blob :> [val |-> cv[e.src], img |-> e.img, size |-> e.size]) @@ blob
             /\ UNCHANGED <<obj, cv, nt>>
TDeser == IsEvent("Deser") /\ LET e == Log[l]  b == blob[e.blob] IN
             /\ ValOK(e.r, b.val)
             /\ Chk("ordered-flag", e.r.ordered = b.val.ordered)
             /\ Chk("consumed", e.consumed = b.size)
             /\ Chk("reserialize", e.reimg = b.img)
             /\ cv' = (e.dst :> b.val) @@ cv /\ UNCHANGED <<obj, blob, nt>>
TWrap == IsEvent("Wrap") /\ LET e == Log[l]  b == blob[e.blob] IN
             /\ ValOK(e.r, b.val) /\ ValOK(e.r2, b.val)
             /\ Chk("ordered-flag", e.r.ordered = b.val.ordered /\ e.r2.ordered = b.val.ordered)
             /\ cv' = (e.dst :> b.val) @@ cv /\ UNCHANGED <<obj, blob, nt>>

TInit == obj = <<>> /\ l = 1 /\ cv = <<>> /\ blob = <<>> /\ nt = 0
TNext == TBegin \/ TNew \/ TUpdate \/ TUpdateIgnored \/ TTrim \/ TReset \/ TObs \/ TCopy \/ TCompact
         \/ TSer \/ TDeser \/ TWrap
TSpec == TInit /\ [][TNext]_tvars
Accepted == /\ TLCGet("stats").diameter = Len(Log) + 1
            /\ PrintT(<<"ACCEPTED", Len(Log)>>)
====
