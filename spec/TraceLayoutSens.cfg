SPECIFICATION SSpec
CHECK_DEADLOCK FALSE
