SPECIFICATION BSpec
POSTCONDITION Accepted
CHECK_DEADLOCK FALSE
