\* X05: the acceptance brackets of the sizing formulas over a grid of 5 helpers x 84 sizes x up to 20 rational arguments
SPECIFICATION Spec
INVARIANT BracketSane
INVARIANT BucketsPurpose
INVARIANT HashesPExact
INVARIANT HashesCMSane
CHECK_DEADLOCK FALSE
