---- MODULE GenLayout ----
(***************************************************************************)
(* Writes the images of LayoutGenCat!GenCat to IOEnv.GEN_OUT (ND-JSON) for *)
(* the harness' replay mode, and checks, entry by entry, that the          *)
(* documented reader applied to the documented writer's image returns the  *)
(* abstract state (self-consistency of the transcription).                 *)
(*   GEN_OUT=/abs/path tlc -workers 1 -config GenLayout.cfg GenLayout.tla  *)
(***************************************************************************)
EXTENDS LayoutGenCat, Json, IOUtils, TLCExt
VARIABLE i
GInit == TLCSet(1, <<>>) /\ i = 0
GNext == i < Len(GenCat) /\ i' = i + 1
GSpec == GInit /\ [][GNext]_i
Collect == IF i > 0 THEN TLCSet(1, Append(TLCGet(1), [id |-> i, variant |-> GenCat[i].variant, aux |-> GenCat[i].aux, img |-> GenCat[i].img]))
           ELSE TRUE
RoundTripInv == i > 0 => RoundTrip(GenCat[i])
Post == ndJsonSerialize(IOEnv.GEN_OUT, TLCGet(1))
====
