\* Ids: sketch identities; Items/Weights: update alphabet (zero weight included); Cfgs: two configurations differing in the seed;
\* MaxTotal: bound on weight / number of updates per sketch and on cell values
SPECIFICATION Spec
CONSTANTS Ids = {1, 2}
 Items = {1, 2}
 Weights = {0, 1}
 Cfgs <- MCCfgs
 MaxTotal = 1
INVARIANT Inv
CONSTRAINT Bound
CONSTANT WideNums = FALSE
CHECK_DEADLOCK FALSE
