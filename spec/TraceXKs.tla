---- MODULE TraceXKs ----
(***************************************************************************)
(* X01 - trace validation of kolmogorov_smirnov::delta / threshold / test  *)
(* on pairs of real KLL / classic quantiles sketches against the contract  *)
(* XKs.  The harness logs the two sorted views (item keys, inclusive        *)
(* cumulative weights as the view iterator reports them) and the results;   *)
(* the statistic is computed here, exactly, over the denominator n1 * n2.   *)
(***************************************************************************)
EXTENDS XKs, TraceCommon
VARIABLES fam
tvars == <<l, fam>>

\* c(p)^2 = -ln(p / 2) / 2 in ppm, p given in units of 1e-4 (cited reference: c(alpha) = sqrt(-ln(alpha / 2) * 1/2))
C2ppm(p) == CASE p = 10 -> 3800451 [] p = 100 -> 2649159 [] p = 500 -> 1844440 [] p = 1000 -> 1497866 [] p = 5000 -> 693147
Tol == 50      \* ppm of c^2 (1e-5 relative): rounding of the double evaluation

TBegin == IsEvent("Begin") /\ fam' = Log[l].fam

\* "if the given sketches have insufficient data ... this will return false": with an empty operand test() is false (and returns)
TEmpty == IsEvent("Empty") /\ LET e == Log[l] IN
  /\ Chk("empty-operand-test-returns", ~e.threw)
  /\ Chk("empty-operand-test-false", \A i \in DOMAIN e.test : e.test[i] = 0)
  /\ UNCHANGED fam

TKS == IsEvent("KS") /\ LET e == Log[l] IN
  \A v1 \in {[it |-> e.it1, cw |-> e.cw1]} : \A v2 \in {[it |-> e.it2, cw |-> e.cw2]} : \A num \in {KsNum(v1, v2)} :
  /\ Chk("view-well-formed", /\ WellFormed(v1) /\ WellFormed(v2) /\ ViewN(v1) = e.n1 /\ ViewN(v2) = e.n2
                             /\ Len(e.it1) = e.r1 /\ Len(e.it2) = e.r2)
  /\ Chk("delta-finite", e.finite)
  /\ Chk("delta-in-unit-interval", 0 <= e.dNum /\ e.dNum <= e.n1 * e.n2)
  \* the statistic: max over the union of retained items of |F1 - F2| (one unit of 1 / (n1 n2) for the rounding of the log)
  /\ Chk("delta-is-ks-statistic", Abs(e.dNum - num) <= 1)
  /\ Chk("delta-symmetric", Abs(e.dRevNum - num) <= 1)
  /\ Chk("delta-identical-zero", e.self1Num = 0 /\ e.self2Num = 0)
  /\ Chk("test-is-delta-above-threshold", \A i \in DOMAIN e.p : (e.test[i] = 1) = (e.dD > e.thr[i]))
  /\ Chk("test-symmetric-result", \A i \in DOMAIN e.p : (e.testRev[i] = 1) = (e.dD > e.thr[i]))
  /\ Chk("threshold-decreases-with-p", \A i \in 1..(Len(e.p) - 1) : e.thr[i] >= e.thr[i + 1])
  /\ Chk("threshold-adjusted-by-epsilons", \A i \in DOMAIN e.p : e.thr[i] > e.eps1 /\ e.thr[i] > e.eps2 /\ e.eps1 > e.zero /\ e.eps2 > e.zero)
  \* (threshold - eps1 - eps2)^2 * h(m) = c(p)^2 for effective sample sizes r_i <= m_i <= n_i, h(m) = m1 m2 / (m1 + m2)
  /\ Chk("threshold-formula", \A i \in DOMAIN e.p : e.c2r[i] <= C2ppm(e.p[i]) + Tol /\ C2ppm(e.p[i]) <= e.c2n[i] + Tol)
  /\ UNCHANGED fam

TInit == l = 1 /\ fam = ""
TNext == TBegin \/ TEmpty \/ TKS
TSpec == TInit /\ [][TNext]_tvars
====
