---- MODULE TraceDensity ----
(***************************************************************************)
(* Trace validation of recorded executions of density_sketch<T, Kernel>    *)
(* (T = float / double; Kernel = the integer-valued L1 "tent" kernel       *)
(* max(0, R - |p-q|_1) supplied by the harness, or the default Gaussian)   *)
(* against the Density contract (C20) and the Serde clauses of C09.        *)
(* One successor per event: the levels after every mutating call are the   *)
(* logged ones (the witness of the contract's free compaction).            *)
(***************************************************************************)
EXTENDS Density, TraceCommon
VARIABLES blob, env
tvars == <<obj, l, blob, env>>

\* the logged levels (lists of point ids per level, as iterated: weight 2^h -> level h) as bags
Wit(e) == [h \in 1..Len(e.lev) |-> BOfSeq(e.lev[h])]

\* observations that do not depend on the model: the iterator and the counters agree
IterOK(e) ==
  /\ Chk("iterated-count", e.itn = e.retained)                       \* retained = number of points visible through iteration
  /\ Chk("iterator-weights", /\ e.badw = 0                           \* every weight is a power of two ...
                             /\ Len(e.lsz) = e.nlev /\ Len(e.lev) = e.nlev
                             /\ \A h \in 1..e.nlev : e.lsz[h] = Len(e.lev[h]))   \* ... 2^h for exactly the points of level h
\* the clauses of PostOK, named, for the post-state n the contract prescribes with the logged witness
Named(e, n) ==
  /\ Chk("n-exact", e.n = n.n)
  /\ Chk("retained-count", e.retained = Retained(n.lev))
  /\ Chk("retained-bound", e.retained <= n.k * e.nlev)
  /\ Chk("retained-are-inputs", \A h \in DOMAIN n.lev : \A x \in DOMAIN n.lev[h] : x \in DOMAIN n.inp)
  /\ Chk("exact-before-compaction", ~n.est => n.lev[1] = n.inp /\ \A h \in 2..Len(n.lev) : n.lev[h] = EmptyB)
  /\ Chk("empty", e.n = 0 => e.empty)
Unchanged(e, o) == Chk("unchanged", e.n = o.n /\ Wit(e) = o.lev /\ e.est = o.est)
\* full projection against a model value (restored objects)
ProjOK(e, o) ==
  /\ Chk("config", e.k = o.k /\ e.dim = o.dim)
  /\ Chk("n-exact", e.n = o.n)
  /\ Chk("levels", Wit(e) = o.lev)
  /\ Chk("estimation-mode", e.est = o.est)
  /\ Chk("retained-count", e.retained = Retained(o.lev))

TBegin == IsEvent("Begin") /\ LET e == Log[l] IN
            /\ obj' = <<>> /\ blob' = <<>>
            /\ env' = [coord |-> e.pts, R |-> e.R, S |-> e.S, kernel |-> e.kernel, zero |-> e.zero, wide |-> <<>>]
TNew == IsEvent("New") /\ LET e == Log[l] IN
            /\ New(e.id, e.k, e.dim) /\ IterOK(e) /\ Named(e, obj'[e.id]) /\ UNCHANGED <<blob, env>>
TUpdate == IsEvent("Update") /\ LET e == Log[l]  o == obj[e.id]
                                    n == [o EXCEPT !.n = @ + 1, !.inp = BAdd(@, e.p), !.lev = Wit(e), !.est = e.est] IN
            /\ IterOK(e) /\ Named(e, n)
            /\ Update(e.id, e.p, Wit(e), e.est)
            /\ UNCHANGED <<blob, env>>
TUpdateBad == IsEvent("UpdateBad") /\ LET e == Log[l] IN
            /\ Chk("dimension-refused", e.threw)
            /\ IterOK(e) /\ Unchanged(e, obj[e.id])
            /\ UpdateRefused(e.id) /\ UNCHANGED <<blob, env>>
TMerge == IsEvent("Merge") /\ LET e == Log[l]  a == obj[e.dst]  b == obj[e.src]
                                  n == [a EXCEPT !.n = a.n + b.n, !.inp = BUnion(a.inp, b.inp), !.lev = Wit(e), !.est = e.est] IN
            /\ Chk("merge-accepted", ~e.threw)
            /\ IterOK(e) /\ Named(e, n)
            /\ Merge(e.dst, e.src, Wit(e), e.est)
            /\ UNCHANGED <<blob, env>>
TMergeBad == IsEvent("MergeBad") /\ LET e == Log[l] IN
            /\ Chk("dimension-refused", e.threw)
            /\ IterOK(e) /\ Unchanged(e, obj[e.dst])
            /\ MergeRefused(e.dst, e.src) /\ UNCHANGED <<blob, env>>
\* get_estimate(q)
TEst == IsEvent("Est") /\ LET e == Log[l]  o == obj[e.id] IN
            /\ Chk("estimate-defined", o.n > 0 => ~e.threw)
            /\ (~e.threw =>
                 /\ Chk("estimate-finite", e.fin)
                 /\ Chk("estimate-nonnegative", e.nonneg)
                 /\ (env.kernel = "l1" => Chk("exact-estimate", ExactEstimate(o, e.q, env.coord, env.R, e.estS, env.S))))
            /\ UNCHANGED <<obj, blob, env>>
TObs == IsEvent("Obs") /\ LET e == Log[l] IN
            /\ IterOK(e) /\ ProjOK(e, obj[e.id]) /\ Named(e, obj[e.id]) /\ UNCHANGED <<obj, blob, env>>
TCopy == IsEvent("Copy") /\ LET e == Log[l] IN
            /\ Copy(e.src, e.dst) /\ IterOK(e) /\ ProjOK(e, obj'[e.dst]) /\ UNCHANGED <<blob, env>>

TSer == IsEvent("Ser") /\ LET e == Log[l] IN
            /\ Chk("C09:header-accepted", ~e.threw)
            /\ Chk("C09:header", e.bytes = e.hdr + e.size)
            /\ Chk("C09:header-same-image", e.himg = e.img)
            /\ Chk("C09:bytes=stream", e.img = e.simg)
            /\ blob' = (e.blob :> [st |-> obj[e.src], img |-> e.img, size |-> e.size]) @@ blob
            /\ UNCHANGED <<obj, env>>
TDeser == IsEvent("Deser") /\ LET e == Log[l]  b == blob[e.blob] IN
            /\ IterOK(e) /\ ProjOK(e, b.st)
            /\ Chk("C09:consumed", e.consumed = b.size)
            /\ Chk("C09:reserialize", e.reimg = b.img)
            /\ obj' = (e.dst :> b.st) @@ obj
            /\ UNCHANGED <<blob, env>>

\* an original and the sketch restored from its image received the same calls with the same coin / shuffle seeds
TTwin == IsEvent("Twin") /\ LET e == Log[l]  a == obj[e.a]  b == obj[e.b] IN
            /\ Chk("C09:lockstep", a.k = b.k /\ a.dim = b.dim /\ a.n = b.n /\ a.est = b.est /\ a.lev = b.lev)
            /\ UNCHANGED <<obj, blob, env>>

(***************************************************************************)
(* Wide counters: n driven past 2^32 by merge doublings (merge adds n).    *)
(* The ghost bag of inputs no longer fits TLC integers, so these sketches  *)
(* are tracked by a reduced model env.wide[id] = [k, dim, n, ids]: n exact *)
(* in limb arithmetic, the retained bound, iterator consistency, retained  *)
(* points among the offered ids, and the C09 clauses.                      *)
(***************************************************************************)
WideOK(e, w) ==
  /\ IterOK(e)
  /\ Chk("n-exact", e.n = w.n)
  /\ Chk("retained-bound", e.retained <= w.k * e.nlev)
  /\ Chk("retained-are-inputs", \A h \in 1..Len(e.lev) : \A x \in 1..Len(e.lev[h]) : e.lev[h][x] \in w.ids)
TWNew == IsEvent("WNew") /\ LET e == Log[l] IN
            /\ env' = [env EXCEPT !.wide = (e.id :> [k |-> e.k, dim |-> e.dim, n |-> <<0, 0>>, ids |-> {}]) @@ @]
            /\ UNCHANGED <<obj, blob>>
TWStep == IsEvent("WStep") /\ LET e == Log[l]  w == env.wide[e.id]
                                  nw == IF e.op = "update" THEN [w EXCEPT !.n = WAdd(@, <<1, 0>>), !.ids = @ \cup {e.p}]
                                        ELSE [w EXCEPT !.n = WAdd(@, env.wide[e.src].n), !.ids = @ \cup env.wide[e.src].ids] IN
            /\ WideOK(e, nw)
            /\ env' = [env EXCEPT !.wide = [@ EXCEPT ![e.id] = nw]]
            /\ UNCHANGED <<obj, blob>>
TWSer == IsEvent("WSer") /\ LET e == Log[l] IN
            /\ WideOK(e, env.wide[e.src])
            /\ Chk("C09:bytes=stream", e.img = e.simg)
            /\ blob' = (e.blob :> [w |-> env.wide[e.src], lev |-> Wit(e), est |-> e.est, img |-> e.img, size |-> e.size]) @@ blob
            /\ UNCHANGED <<obj, env>>
TWDeser == IsEvent("WDeser") /\ LET e == Log[l]  b == blob[e.blob] IN
            /\ Chk("C20:n-exact-wide", e.n = b.w.n)                       \* (n exact is C20's clause, also through an image)
            /\ Chk("C09:config", e.k = b.w.k /\ e.dim = b.w.dim)
            /\ Chk("C09:levels", Wit(e) = b.lev /\ e.est = b.est)
            /\ WideOK(e, b.w)
            /\ Chk("C09:consumed", e.consumed = b.size)
            /\ Chk("C09:reserialize", e.reimg = b.img)
            /\ env' = [env EXCEPT !.wide = (e.dst :> b.w) @@ @]
            /\ UNCHANGED <<obj, blob>>

\* a sketch restored from an image is adopted AS IT IS (its level structure is not judged here: an image with an empty top
\* level does not round-trip, the recorded known finding, judged at Deser events); n, configuration and the own clauses are
TWAdopt == IsEvent("WAdopt") /\ LET e == Log[l]  b == blob[e.blob] IN
            /\ Chk("C20:n-exact-wide", e.n = b.w.n)
            /\ Chk("C09:config", e.k = b.w.k /\ e.dim = b.w.dim)
            /\ WideOK(e, b.w)
            /\ env' = [env EXCEPT !.wide = (e.dst :> b.w) @@ @]
            /\ UNCHANGED <<obj, blob>>

TInit == obj = <<>> /\ l = 1 /\ blob = <<>> /\ env = [coord |-> <<>>, R |-> 0, S |-> 1, kernel |-> "l1", zero |-> 0, wide |-> <<>>]
TNext == TBegin \/ TNew \/ TUpdate \/ TUpdateBad \/ TMerge \/ TMergeBad \/ TEst \/ TObs \/ TCopy \/ TSer \/ TDeser \/ TTwin
         \/ TWNew \/ TWStep \/ TWSer \/ TWDeser \/ TWAdopt
TSpec == TInit /\ [][TNext]_tvars
====
