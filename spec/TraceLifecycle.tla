---- MODULE TraceLifecycle ----
(***************************************************************************)
(* Trace validation for C19: the event stream written by                   *)
(* harness/life_rec.cpp (real classes on the tracking allocator / probe    *)
(* item, replaying the behaviours enumerated by GenLifecycle) must be a    *)
(* behaviour of the Lifecycle contract.  One candidate successor per       *)
(* event; the contract's free parameters (digests D, environment events    *)
(* env) are bound to the logged values.  Every contract clause is checked  *)
(* through Chk so that a rejection names the clause.                       *)
(*   Begin  new segment (one behaviour of one family): reset everything    *)
(*   Step   one public call: k i j c op, D (digest per slot, 0 = no live   *)
(*          object), env (Alloc/Dealloc/Item* events of the call and of    *)
(*          the observation that follows it)                               *)
(*          (the harness ends a segment by destroying every remaining      *)
(*          object: Steps flagged td)                                      *)
(*   End    optional: nothing may exist or remain allocated                *)
(*   Exception / Crash   the library threw / the process died: never a     *)
(*          behaviour of the contract (all calls of the alphabet are valid)*)
(***************************************************************************)
(* Global operator new (fields gnew = during the call, gobs = during the    *)
(* digest observation, both must be 0).  What is NOT counted, and why the  *)
(* property does not cover it:                                             *)
(*  - gtmp: the nothrow forms of operator new, i.e. the scratch buffer of  *)
(*    std::inplace_merge (req_compactor::compact/merge) and                *)
(*    std::stable_sort (tdigest::merge) obtained through                   *)
(*    std::get_temporary_buffer: the standard algorithms have no allocator *)
(*    parameter; logged, not judged;                                       *)
(*  - the CPC compression tables: one process-wide immutable object        *)
(*    created on first use ("use new for global initialization"), not      *)
(*    memory of any sketch: created by the harness before the first call;  *)
(*  - the caller's std::ostream in serialize(ostream&): the harness passes *)
(*    a fixed-buffer stream, the stream's memory is the caller's business; *)
(*  - to_string() (std::ostringstream, documented in the sources: "the     *)
(*    stream does not support passing an allocator instance") and          *)
(*    exception messages of refused calls: not in the alphabet (every call *)
(*    of the alphabet is valid);                                           *)
(*  - the AddressSanitizer build owns operator new: gnew = gobs = 0 there. *)
(* Everything else, for every family and every call kind, is judged.       *)
EXTENDS Lifecycle, TraceCommon
tvars == <<vars, l>>

TBegin == IsEvent("Begin") /\ slot' = [s \in Slots |-> Dead] /\ dig' = [s \in Slots |-> 0] /\ known' = <<>>
          /\ liveBlocks' = {} /\ liveItems' = {}

TStep == IsEvent("Step") /\ LET e == Log[l]
                                D == e.D
                                ns == NewSlot(e.k, e.i, e.j, e.c, e.op)
                                s == EnvAfter(e.env) IN
  /\ Chk("call-enabled-in-contract", e.k \in Kinds /\ e.i \in Slots /\ Pre(e.k, e.i, e.j, e.c, e.op))
  /\ slot' = ns
  /\ Chk(s.bad, s.bad = "")
  /\ Chk("everything-released-when-last-object-dies", Balanced(ns, s))
  /\ Chk("no-global-allocation-inside-library-call", NoGlobalAlloc(e.gnew, e.gobs))
  /\ Chk("digest-shape", DigShape(ns, D))
  /\ Chk("independent-of-other-objects", Independent(e.k, e.i, e.j, e.c, D))
  /\ Chk("copy-equals-source", CopyEqual(e.k, e.i, e.j, e.c, D))
  /\ Chk("move-transfers-exact-state", MoveExact(e.k, e.i, e.j, D))
  /\ Chk("equal-history-equal-content", Deterministic(ns, D))
  /\ dig' = D /\ known' = Learn(ns, D)
  /\ liveBlocks' = s.b /\ liveItems' = s.it

TEnd == IsEvent("End")
  /\ Chk("everything-released-when-last-object-dies", NoObject(slot) /\ liveBlocks = {} /\ liveItems = {})
  /\ UNCHANGED vars

TException == IsEvent("Exception") /\ Chk("no-exception-from-valid-call", FALSE) /\ UNCHANGED vars
TCrash == IsEvent("Crash") /\ Chk("no-crash", FALSE) /\ UNCHANGED vars
\* written by bin/vlib/p_lifecycle.py when a member of the alphabet does not even compile (harness/life_probe.cpp)
TCompileProbe == IsEvent("CompileProbe") /\ Chk("operation-compiles", FALSE) /\ UNCHANGED vars

TInit == Init /\ l = 1
TNext == TBegin \/ TStep \/ TEnd \/ TException \/ TCrash \/ TCompileProbe
TSpec == TInit /\ [][TNext]_tvars
====
