---- MODULE TraceLifecycle ----
(***************************************************************************)
(* Trace validation for C19: the event stream written by                   *)
(* harness/life_rec.cpp (real classes on the tracking allocator / probe    *)
(* item, replaying the behaviours enumerated by GenLifecycle) must be a    *)
(* behaviour of the Lifecycle contract.  One candidate successor per       *)
(* event; the contract's free parameters (digests D, environment events    *)
(* env) are bound to the logged values.  Every contract clause is checked  *)
(* through Chk so that a rejection names the clause.                       *)
(*   Begin  new segment (one behaviour of one family): reset everything    *)
(*   Step   one public call: k i j c op, D (digest per slot, 0 = no live   *)
(*          object), env (Alloc/Dealloc/Item* events of the call and of    *)
(*          the observation that follows it)                               *)
(*          (the harness ends a segment by destroying every remaining      *)
(*          object: Steps flagged td)                                      *)
(*   End    optional: nothing may exist or remain allocated                *)
(*   Exception / Crash   the library threw / the process died: never a     *)
(*          behaviour of the contract (all calls of the alphabet are valid)*)
(***************************************************************************)
EXTENDS Lifecycle, TraceCommon
tvars == <<vars, l>>

TBegin == IsEvent("Begin") /\ slot' = [s \in Slots |-> Dead] /\ dig' = [s \in Slots |-> 0] /\ known' = <<>>
          /\ liveBlocks' = {} /\ liveItems' = {}

TStep == IsEvent("Step") /\ LET e == Log[l]
                                D == e.D
                                ns == NewSlot(e.k, e.i, e.j, e.c, e.op)
                                s == EnvAfter(e.env) IN
  /\ Chk("call-enabled-in-contract", e.k \in Kinds /\ e.i \in Slots /\ Pre(e.k, e.i, e.j, e.c, e.op))
  /\ slot' = ns
  /\ Chk(s.bad, s.bad = "")
  /\ Chk("everything-released-when-last-object-dies", Balanced(ns, s))
  /\ Chk("digest-shape", DigShape(ns, D))
  /\ Chk("independent-of-other-objects", Independent(e.k, e.i, e.j, e.c, D))
  /\ Chk("copy-equals-source", CopyEqual(e.k, e.i, e.j, e.c, D))
  /\ Chk("move-transfers-exact-state", MoveExact(e.k, e.i, e.j, D))
  /\ Chk("equal-history-equal-content", Deterministic(ns, D))
  /\ dig' = D /\ known' = Learn(ns, D)
  /\ liveBlocks' = s.b /\ liveItems' = s.it

TEnd == IsEvent("End")
  /\ Chk("everything-released-when-last-object-dies", NoObject(slot) /\ liveBlocks = {} /\ liveItems = {})
  /\ UNCHANGED vars

TException == IsEvent("Exception") /\ Chk("no-exception-from-valid-call", FALSE) /\ UNCHANGED vars
TCrash == IsEvent("Crash") /\ Chk("no-crash", FALSE) /\ UNCHANGED vars
\* written by bin/vlib/p_lifecycle.py when a member of the alphabet does not even compile (harness/life_probe.cpp)
TCompileProbe == IsEvent("CompileProbe") /\ Chk("operation-compiles", FALSE) /\ UNCHANGED vars

TInit == Init /\ l = 1
TNext == TBegin \/ TStep \/ TEnd \/ TException \/ TCrash \/ TCompileProbe
TSpec == TInit /\ [][TNext]_tvars
====
