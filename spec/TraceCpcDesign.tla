---- MODULE TraceCpcDesign ----
(***************************************************************************)
(* Tier B trace validation (drift detection, DESIGN 2): the same recorded  *)
(* executions of cpc_sketch / cpc_union are replayed through the design    *)
(* operators of CpcMech, and the mechanism-level observables printed by    *)
(* to_string() - window allocated, window offset, first interesting        *)
(* column, number of table entries, flavor - plus C and the matrix are     *)
(* compared.  A rejection here on a tree that tier A accepts is reported   *)
(* as MODEL-DRIFT (exit 0), never as a violation: it means the code no     *)
(* longer follows the modelled mechanism.  On the unchanged tree it must   *)
(* accept: that is what ties the model-checked design to the real code.    *)
(***************************************************************************)
EXTENDS CpcMech, TraceCommon
VARIABLES d,     \* sketch id -> sketch record
          du,    \* union id -> union record
          dimg   \* image id -> Image(sketch)
bvars == <<d, du, dimg, l>>

ProjOK(r, s) ==
  /\ Chk("B:lg_k", r.lgk = s.lgK)
  /\ Chk("B:C", r.C = s.C)
  /\ Chk("B:flavor", r.flavor = Flavor(s.lgK, s.C))
  /\ Chk("B:window-allocated", r.alloc = s.alloc)
  /\ Chk("B:window-offset", r.woff = IF s.alloc THEN s.off ELSE 0 - 1)
  /\ Chk("B:first-interesting-column", r.fic = s.fic)
  /\ Chk("B:table-entries", r.ntab = Cardinality(s.tab))
  /\ Chk("B:merged", r.merged = s.merged)
  /\ (Has(r, "cells") => Chk("B:matrix", ToSet(r.cells) = BitMatrix(s)))

RECURSIVE FeedAll(_, _, _, _)
FeedAll(s, rows, cols, k) == IF k > Len(rows) \/ s.C < 0 THEN s   \* s.C < 0 never holds: forces evaluation level by level
                             ELSE FeedAll(Upd(s, Cell(rows[k], cols[k])), rows, cols, k + 1)

BBegin == IsEvent("Begin") /\ d' = <<>> /\ du' = <<>> /\ dimg' = <<>>
BNew == IsEvent("New") /\ LET e == Log[l] IN d' = (e.id :> Fresh(e.lgk)) @@ d /\ UNCHANGED <<du, dimg>>
BUpdate == IsEvent("Update") /\ LET e == Log[l] IN
             /\ d' = [d EXCEPT ![e.id] = Upd(@, Cell(e.row, e.col))]
             /\ Chk("B:C", e.C = d'[e.id].C)
             /\ UNCHANGED <<du, dimg>>
BUpdateMany == IsEvent("UpdateMany") /\ LET e == Log[l] IN
             /\ d' = [d EXCEPT ![e.id] = FeedAll(@, e.rows, e.cols, 1)]
             /\ Chk("B:C", e.C = d'[e.id].C)
             /\ UNCHANGED <<du, dimg>>
BUpdateIgnored == IsEvent("UpdateIgnored") /\ LET e == Log[l] IN
             /\ Chk("B:C", e.C = d[e.id].C) /\ UNCHANGED <<d, du, dimg>>
BObs == IsEvent("Obs") /\ LET e == Log[l] IN ProjOK(e.r, d[e.id]) /\ UNCHANGED <<d, du, dimg>>
BCopy == IsEvent("Copy") /\ LET e == Log[l] IN
             /\ d' = (e.dst :> d[e.src]) @@ d /\ ProjOK(e.r, d'[e.dst]) /\ UNCHANGED <<du, dimg>>
BUNew == IsEvent("UNew") /\ LET e == Log[l] IN du' = (e.u :> UNew(e.lgk)) @@ du /\ UNCHANGED <<d, dimg>>
BUUpdate == IsEvent("UUpdate") /\ LET e == Log[l] IN
             /\ du' = [du EXCEPT ![e.u] = InternalUpdate(@, d[e.src])]
             /\ d' = IF e.rvalue THEN [x \in DOMAIN d \ {e.src} |-> d[x]] ELSE d
             /\ UNCHANGED dimg
BUCopy == IsEvent("UCopy") /\ LET e == Log[l] IN du' = (e.v :> du[e.u]) @@ du /\ UNCHANGED <<d, dimg>>
BUResult == IsEvent("UResult") /\ LET e == Log[l] IN
             /\ d' = (e.dst :> UGetResult(du[e.u])) @@ d /\ ProjOK(e.r, d'[e.dst]) /\ UNCHANGED <<du, dimg>>
BSer == IsEvent("Ser") /\ LET e == Log[l] IN
             /\ ProjOK(e.r, d[e.src])
             /\ dimg' = (e.blob :> Image(d[e.src])) @@ dimg /\ UNCHANGED <<d, du>>
BDeser == IsEvent("Deser") /\ LET e == Log[l] IN
             /\ d' = (e.dst :> Restore(dimg[e.blob])) @@ d /\ ProjOK(e.r, d'[e.dst]) /\ UNCHANGED <<du, dimg>>

BReser == IsEvent("Reser") /\ UNCHANGED <<d, du, dimg>>
BURefused == IsEvent("URefused") /\ UNCHANGED <<d, du, dimg>>     \* the seed-hash check comes first: nothing happens

BInit == d = <<>> /\ du = <<>> /\ dimg = <<>> /\ l = 1
BNext == BBegin \/ BNew \/ BUpdate \/ BUpdateMany \/ BUpdateIgnored \/ BObs \/ BCopy
         \/ BUNew \/ BUUpdate \/ BUCopy \/ BUResult \/ BSer \/ BDeser \/ BReser \/ BURefused
BSpec == BInit /\ [][BNext]_bvars
====
