SPECIFICATION Spec
CONSTANTS Ids = {1, 2}
 Hashes = {1, 2, 3, 4, 5}
 Ks = {1, 2}
 Starts = {4, 6}
 MaxH = 6
INVARIANT Inv
CONSTRAINT Bound
CHECK_DEADLOCK FALSE
