\* exhaustive run of the C19 contract: 2 slots, one mutating op, digests from {1,2}, histories of at most MaxLen = 1 call
\* (merge arguments = the empty history), at most 3 learned history->digest pairs, 11 environment records (legal and
\* illegal ones: wrong size / wrong allocator / double free, item destroyed twice, dead or moved-from item read,
\* construction over a live item); MCKinds = the calls that change which objects exist or how they are related.
\* 7 201 distinct states, ~35 s with 8 workers.
SPECIFICATION MCSpec
CONSTANTS Slots = {1, 2}
 MutOps = {"m"}
 DigVals = {1, 2}
 MaxLen = 1
 MCKinds = {"Construct", "Mutate", "CopyConstruct", "MoveConstruct", "CopyAssign", "MoveAssign", "MergeRef", "MergeCRef", "MergeMove", "Destroy"}
INVARIANT Inv
CONSTRAINT Bound
CHECK_DEADLOCK FALSE
