\* dense and sparse ghost representation side by side (Inv: the near-linear PairsMatch test is exactly PairsOf; SameContent:
\* both representations give the same registers); one type, not full-size.  Otherwise as MC_Hll.cfg:
\* two sketches, lgK 2 (4 slots), four coupons two of which share a slot (addresses 1 and 5), at most 2 distinct per sketch
SPECIFICATION Spec
CONSTANTS Ids = {1, 2}
 LgKs = {2}
 Coupons <- MCCoupons
 Bigs = {FALSE, TRUE}
 TrackFed = TRUE
INVARIANT Inv SameContent
CONSTRAINT BoundSparse
CHECK_DEADLOCK FALSE
