---- MODULE ClassicQMech ----
(***************************************************************************)
(* The mechanism of the classic quantiles_sketch as pure operators over    *)
(* records [k, n, bb, lv, bp, ...] (quantiles/include/                     *)
(* quantiles_sketch_impl.hpp): bb = base buffer in BUFFER order (sorted    *)
(* only when it is full, or in place by an observer), lv[j] = level j      *)
(* (1-based, weight 2^j, exactly k ascending items or empty), bp =         *)
(* bit_pattern.  update -> process_full_base_buffer ->                     *)
(* in_place_propagate_carry with zip_buffer / merge_two_size_k_buffers;    *)
(* merge of an exact operand (replay of its base buffer in buffer order),  *)
(* standard_merge (equal k), "this is exact" merge (copy of the other      *)
(* sketch + replay of this base buffer).  The down-sampling merge is not   *)
(* modelled.  Shared by spec/ClassicQDesign.tla (exhaustive checks, base   *)
(* buffer canonicalised after every step) and by the tier-B shadow state   *)
(* of spec/TraceQuantiles.tla (real k, logged coins).                      *)
(***************************************************************************)
EXTENDS Naturals, Sequences, FiniteSets, SequencesExt, TLC
CONSTANT ZipIgnoresCoin    \* 0 = the code; 1 = negative model config (zip_buffer always takes the even positions)

Max2(a, b) == IF a > b THEN a ELSE b
Min2(a, b) == IF a < b THEN a ELSE b
SumSeq(s) == FoldLeft(LAMBDA a, b : a + b, 0, s)
Bit(x, e) == (x \div 2^e) % 2
PopCount(x) == SumSeq([e \in 1..10 |-> Bit(x, e - 1)])
BitLen(x) == IF x = 0 THEN 0 ELSE 1 + (CHOOSE e \in 0..30 : 2^e <= x /\ x < 2^(e + 1))
LowestZeroFrom(x, s) == CHOOSE t \in s..31 : Bit(x, t) = 0 /\ \A e \in s..(t - 1) : Bit(x, e) = 1
RECURSIVE MergeSorted(_, _)
MergeSorted(a, b) == IF a = <<>> THEN b ELSE IF b = <<>> THEN a
   ELSE IF Head(a) < Head(b) THEN <<Head(a)>> \o MergeSorted(Tail(a), b)
   ELSE <<Head(b)>> \o MergeSorted(a, Tail(b))
CoinAt(cs, i) == IF i <= Len(cs) THEN cs[i] ELSE 0
\* zip_buffer: positions offset, offset + 2, ... of a sorted buffer of 2k items
ZipBuf(buf, c) == LET p == IF ZipIgnoresCoin = 1 THEN 0 ELSE c IN [i \in 1..(Len(buf) \div 2) |-> buf[2 * i - 1 + p]]
LevelOr(lv, j) == IF j <= Len(lv) THEN lv[j] ELSE <<>>
Pad(lv, need) == [j \in 1..Max2(Len(lv), need) |-> LevelOr(lv, j)]

\* in_place_propagate_carry(starting level st (0-based), size-k buffer, size-2k buffer, as update?) on [lv, bp]: [lv, bp, used]
RECURSIVE Carry(_, _, _, _, _, _)
Carry(lv, cur, lvl, ending, cs, ci) ==     \* cur = content of lv[ending]; merge the levels lvl .. ending - 1 into it
  IF lvl = ending THEN [lv |-> [lv EXCEPT ![ending + 1] = cur], used |-> ci]
  ELSE Carry([lv EXCEPT ![lvl + 1] = <<>>], ZipBuf(MergeSorted(lv[lvl + 1], cur), CoinAt(cs, ci + 1)), lvl + 1, ending, cs, ci + 1)
Propagate(lv, bp, st, bufk, buf2k, asUpdate, cs, ci) ==
  LET ending == LowestZeroFrom(bp, st)
      lv1 == Pad(lv, ending + 1)
      first == IF asUpdate THEN ZipBuf(buf2k, CoinAt(cs, ci + 1)) ELSE bufk
      r == Carry(lv1, first, st, ending, cs, IF asUpdate THEN ci + 1 ELSE ci)
  IN [lv |-> r.lv, bp |-> bp + 2^st, used |-> r.used]

SortAsc(s) == SortSeq(s, LAMBDA x, y : x < y)
\* quantiles_sketch::update on the representation: [s, used] (coins from position ci + 1)
Upd(s, v, cs, ci) ==
  LET bb1 == Append(s.bb, v)
      full == Len(bb1) = 2 * s.k
      p == Propagate(s.lv, s.bp, 0, <<>>, SortAsc(bb1), TRUE, cs, ci)
  IN IF full THEN [s |-> [s EXCEPT !.bb = <<>>, !.lv = p.lv, !.bp = p.bp, !.n = @ + 1], used |-> p.used]
     ELSE [s |-> [s EXCEPT !.bb = bb1, !.n = @ + 1], used |-> ci]
RECURSIVE Replay(_, _, _, _)
Replay(s, xs, cs, ci) == IF xs = <<>> THEN [s |-> s, used |-> ci]
                         ELSE LET r == Upd(s, Head(xs), cs, ci) IN Replay(r.s, Tail(xs), cs, r.used)
\* standard_merge: replay of the source base buffer, then one carry per source level
RECURSIVE Levels(_, _, _, _, _)
Levels(t, src, j, cs, ci) ==       \* j: 0-based source level
  IF j >= Len(src.lv) THEN [s |-> t, used |-> ci]
  ELSE IF src.lv[j + 1] = <<>> THEN Levels(t, src, j + 1, cs, ci)
  ELSE LET p == Propagate(t.lv, t.bp, j, src.lv[j + 1], <<>>, FALSE, cs, ci)
       IN Levels([t EXCEPT !.lv = p.lv, !.bp = p.bp], src, j + 1, cs, p.used)
\* the merges that do not down-sample (o non-empty): [s, used]; n is set to the sum
MergeCore(s, o, cs) ==
  LET n2 == s.n + o.n IN
  IF o.bp = 0 THEN LET r == Replay(s, o.bb, cs, 0) IN [s |-> [r.s EXCEPT !.n = n2], used |-> r.used]          \* other is exact
  ELSE IF s.bp # 0 THEN LET r == Replay(s, o.bb, cs, 0)                                                       \* standard_merge (equal k)
                            q == Levels(r.s, o, 0, cs, r.used)
                        IN [s |-> [q.s EXCEPT !.n = n2], used |-> q.used]
  ELSE LET r == Replay(o, s.bb, cs, 0) IN [s |-> [r.s EXCEPT !.n = n2], used |-> r.used]                       \* this is exact: copy of other + replay
\* does i.merge(o) go through downsampling_merge (not modelled)?
DownSamples(s, o) == o.n > 0 /\ o.bp # 0 /\ ((s.bp # 0 /\ s.k # o.k) \/ (s.bp = 0 /\ s.k > o.k))
====
