\* exhaustive run of the Reader contract over the outcome lattice: every image shape with size <= 3,
\* every attempt (3 paths x full / every prefix length / every preamble position x 3 values) x every outcome;
\* Bound cuts behaviours after two accepted attempts per image (attempts are independent of each other)
SPECIFICATION Spec
CONSTANTS MaxSize = 3
 Paths = {"bytes", "stream", "wrap"}
 Vals = {0, 128, 255}
INVARIANT Inv
CONSTRAINT Bound
CHECK_DEADLOCK FALSE
