---- MODULE TraceXCommon ----
(***************************************************************************)
(* X09 - trace validation of the shared helpers of common/include against  *)
(* XCommon.                                                                *)
(***************************************************************************)
EXTENDS XCommon, TraceCommon
VARIABLES part, prev
tvars == <<l, part, prev>>

Refused(o) == o /= "ok"
AllRefused(s) == \A i \in DOMAIN s : Refused(s[i])
Abs(x) == IF x < 0 THEN -x ELSE x

TBegin == IsEvent("Begin") /\ part' = Log[l].part /\ prev' = <<>>

TZeros == IsEvent("Zeros") /\ LET e == Log[l] IN
  /\ Chk("count-zeros", e.r = (IF e.fn \in {"clz64", "clz32"} THEN Clz(e.x, e.w) ELSE Ctz(e.x, e.w)))
  /\ UNCHANGED <<part, prev>>
TCeil == IsEvent("CeilPow2") /\ LET e == Log[l] IN
  /\ Chk("ceiling-power-of-2", CeilPow2Defined(e.n) => CeilPow2OK(e.n, e.r))
  /\ UNCHANGED <<part, prev>>
TLog2 == IsEvent("Log2") /\ Chk("floor-log2", Log2OK(Log[l].n, Log[l].r)) /\ UNCHANGED <<part, prev>>
TLgSize == IsEvent("LgSize") /\ LET e == Log[l] IN
  /\ Chk("lg-size-from-count-smallest-sufficient", LgSizeOK(e.n, e.num, e.den, e.g))
  /\ UNCHANGED <<part, prev>>
TInvPow2 == IsEvent("InvPow2") /\ Chk("inverse-power-of-2-exact", Log[l].bits = InvPow2Bits(Log[l].i)) /\ UNCHANGED <<part, prev>>
TSwap == IsEvent("Swap") /\ Chk("byteswap", Swapped(Log[l].x, Log[l].size, Log[l].r)) /\ UNCHANGED <<part, prev>>
TStreamRW == IsEvent("StreamRW") /\ LET e == Log[l] IN
  /\ Chk("write-is-host-order-image", e.img = LE(e.x, 8))
  /\ Chk("read-round-trip", e.back = e.x)
  /\ Chk("read-big-endian", Swapped(e.x, 8, e.bigEndian))
  /\ Chk("short-read-refused", Refused(e.shortRead))
  /\ UNCHANGED <<part, prev>>
\* check_memory_size(requested_index, capacity) refuses requested_index > capacity; ensure_minimum_memory(available, needed) refuses available < needed
TMem == IsEvent("Mem") /\ LET e == Log[l] IN
  /\ Chk("memory-checks", IF e.fn = "check_memory_size" THEN (e.out = "out_of_range") = (e.a > e.b) ELSE (e.out = "out_of_range") = (e.a < e.b))
  /\ Chk("memory-checks-no-other-outcome", e.out \in {"ok", "out_of_range"})
  /\ UNCHANGED <<part, prev>>

TSerdeNum == IsEvent("SerdeNum") /\ LET e == Log[l] IN \A img \in {FlatLE(e.items, e.size)} :
  /\ Chk("serde-accepts-exact-capacity", e.out = "ok" /\ e.outS = "ok" /\ e.din = "ok" /\ e.dinS = "ok")
  /\ Chk("serde-fixed-size-layout", e.bytes = img /\ e.sbytes = img)
  /\ Chk("serde-returns-bytes-used", e.ret = Len(img) /\ e.rret = Len(img) /\ e.sizeOf = e.size)
  /\ Chk("serde-writes-nothing-past-the-image", e.guard = <<238, 238, 238, 238>>)
  /\ Chk("serde-round-trip", e.back = e.items /\ e.backS = e.items)
  /\ Chk("serde-short-capacity-refused", AllRefused(e.cutW) /\ AllRefused(e.cutR) /\ AllRefused(e.cutS))
  /\ UNCHANGED <<part, prev>>

TSerdeStr == IsEvent("SerdeStr") /\ LET e == Log[l] IN \A img \in {StrImage(e.items)} :
  /\ Chk("serde-accepts-exact-capacity", e.out = "ok" /\ e.outS = "ok" /\ e.din = "ok" /\ e.dinS = "ok")
  /\ Chk("string-serde-length-prefixed-layout", e.bytes = img /\ e.sbytes = img)
  /\ Chk("string-serde-size-of-item", e.sizes = StrSizes(e.items) /\ e.ret = Len(img) /\ e.used = Len(img))
  /\ Chk("serde-writes-nothing-past-the-image", e.guard = <<238, 238, 238, 238>>)
  /\ Chk("string-serde-round-trip", e.back = e.items /\ e.backS = e.items)
  /\ Chk("string-serde-decoder-of-the-contract", StrDecode(e.bytes, Len(e.items)) = [ok |-> TRUE, strs |-> e.items])
  \* every proper prefix of the image is refused, by both readers (the contract's decoder refuses them, too), and a short buffer by the writer
  /\ Chk("string-serde-truncated-input-refused", AllRefused(e.cutR) /\ AllRefused(e.cutS) /\ AllRefused(e.cutW)
                                                 /\ \A cut \in 0..(Len(img) - 1) : ~StrDecode(SubSeq(img, 1, cut), Len(e.items)).ok)
  /\ UNCHANGED <<part, prev>>

\* erf / normal_cdf: "accurate to roughly 7 decimal digits" (2 units of 1e-6 incl. rounding of the log), odd / complementary
TErf == IsEvent("Erf") /\ LET e == Log[l] IN
  /\ Chk("erf-accuracy", e.x \in ErfXs /\ Abs(e.erf6 - Erf6(e.x)) <= 2)
  /\ Chk("erf-odd", e.erfNeg6 = -e.erf6)
  /\ Chk("normal-cdf-accuracy", e.x \in CdfXs => Abs(e.cdf6 - Cdf6(e.x)) <= 2)
  /\ Chk("normal-cdf-complement", Abs(e.cdf6 + e.cdfNeg6 - 1000000) <= 2)
  /\ UNCHANGED <<part, prev>>

\* k ascending within a segment (one n): both bounds never decrease with k; index 1..4 = 0.5, 1, 2, 3 standard deviations
TBinom == IsEvent("Binom") /\ LET e == Log[l] IN
  /\ Chk("binomial-bounds-bracket-estimate", \A s \in 1..4 : e.zero <= e.lb[s] /\ e.lb[s] <= e.est /\ e.est <= e.ub[s] /\ e.ub[s] <= e.one)
  /\ Chk("binomial-estimate-is-k-over-n", IF e.n = 0 THEN e.est = e.half ELSE Abs(e.est6 * e.n - e.k * 1000000) <= e.n)
  /\ Chk("binomial-bounds-widen-with-std-devs", \A s \in 1..3 : e.lb[s + 1] <= e.lb[s] /\ e.ub[s] <= e.ub[s + 1])
  /\ Chk("binomial-corners", /\ (e.n = 0 => \A s \in 1..4 : e.lb[s] = e.zero /\ e.ub[s] = e.one)
                             /\ (e.k = 0 => \A s \in 1..4 : e.lb[s] = e.zero)
                             /\ (e.k = e.n /\ e.n > 0 => \A s \in 1..4 : e.ub[s] = e.one)
                             /\ (e.n > 0 /\ e.k > 0 => \A s \in 1..4 : e.lb[s] > e.zero)
                             /\ (e.n > 0 /\ e.k < e.n => \A s \in 1..4 : e.ub[s] < e.one))
  /\ Chk("binomial-bounds-monotone-in-k", prev = <<>> \/ \A s \in 1..4 : prev.lb[s] <= e.lb[s] /\ prev.ub[s] <= e.ub[s])
  /\ prev' = [lb |-> e.lb, ub |-> e.ub] /\ UNCHANGED part
TBinomBad == IsEvent("BinomBad") /\ LET e == Log[l] IN
  /\ Chk("binomial-k-above-n-refused", e.lb = "invalid_argument" /\ e.ub = "invalid_argument" /\ e.est = "invalid_argument")
  /\ UNCHANGED <<part, prev>>

TInit == l = 1 /\ part = "" /\ prev = <<>>
TNext == TBegin \/ TZeros \/ TCeil \/ TLog2 \/ TLgSize \/ TInvPow2 \/ TSwap \/ TStreamRW \/ TMem \/ TSerdeNum \/ TSerdeStr \/ TErf \/ TBinom \/ TBinomBad
TSpec == TInit /\ [][TNext]_tvars
====
