---- MODULE CpcMech ----
(***************************************************************************)
(* Tier B: the representation mechanism of cpc_sketch_alloc                *)
(* (cpc/include/cpc_sketch_impl.hpp), as pure operators on a sketch record *)
(* so that the single-sketch design model (CpcDesign), the union design    *)
(* model (CpcUnionDesign) and the tier-B trace specification share one     *)
(* transcription.                                                          *)
(*                                                                         *)
(*   s.C      num_coupons                                                  *)
(*   s.alloc  sliding_window.size() > 0                                    *)
(*   s.win    sliding_window: row -> set of bit positions 0..7             *)
(*   s.off    window_offset                                                *)
(*   s.tab    surprising_value_table as a set of cells row*64+col          *)
(*            (the hash table itself - probing, growth - is abstracted)    *)
(*   s.fic    first_interesting_column (speed filter)                      *)
(*   s.merged was_merged                                                   *)
(* kxp / hip_est_accum are opaque to the model.                            *)
(***************************************************************************)
EXTENDS Naturals, FiniteSets, Sequences, TLC
Pow2(n) == 2 ^ n
Row(x) == x \div 64
Col(x) == x % 64
Cell(r, c) == r * 64 + c
MinOf(S) == CHOOSE m \in S : \A y \in S : m <= y
KOf(s) == Pow2(s.lgK)
Rows(s) == 0..(KOf(s) - 1)

Fresh(lgK) == [lgK |-> lgK, C |-> 0, alloc |-> FALSE, win |-> <<>>, off |-> 0, tab |-> {}, fic |-> 0, merged |-> FALSE]

\* determine_flavor: 0 EMPTY, 1 SPARSE (C < 3K/32), 2 HYBRID (C < K/2), 3 PINNED (C < 27K/8), 4 SLIDING
Flavor(lgK, c) == LET k == Pow2(lgK) IN
  IF c = 0 THEN 0 ELSE IF 32 * c < 3 * k THEN 1 ELSE IF 2 * c < k THEN 2 ELSE IF 8 * c < 27 * k THEN 3 ELSE 4
\* determine_correct_offset: max(0, 8C - 19K) div 8K
OffsetOf(lgK, c) == LET k == Pow2(lgK) IN IF 8 * c < 19 * k THEN 0 ELSE (8 * c - 19 * k) \div (8 * k)

\* build_bit_matrix: default rows have ones in the early zone (columns below the offset); window bits are OR-ed in at
\* the offset; every table entry FLIPS its bit (early zone: surprising 0, late zone: surprising 1)
DefaultCells(s) == {Cell(r, c) : r \in Rows(s), c \in 0..(s.off - 1)}
WinCells(s) == IF s.alloc THEN UNION {{Cell(r, s.off + b) : b \in s.win[r]} : r \in Rows(s)} ELSE {}
BitMatrix(s) == LET d == DefaultCells(s) \cup WinCells(s) IN (d \ s.tab) \cup (s.tab \ d)

\* promote_sparse_to_windowed: window rows from columns 0..7 of the table, the rest re-inserted into a new table
Promote(s) ==
  [s EXCEPT !.alloc = TRUE,
            !.win = [r \in Rows(s) |-> {c \in 0..7 : Cell(r, c) \in s.tab}],
            !.tab = {x \in s.tab : Col(x) >= 8}]

\* move_window: rebuild the matrix, slide by one column, re-derive window bytes and the surprising values,
\* first_interesting_column = lowest column holding a surprise, capped at the new offset
MoveWindow(s) ==
  LET no == s.off + 1
      m == BitMatrix(s)
      early == {Cell(r, c) : r \in Rows(s), c \in 0..(no - 1)}
      \* pattern &= ~(0xff << no);  pattern ^= (1 << no) - 1
      sur == (early \ m) \cup {x \in m : Col(x) >= no + 8}
  IN [s EXCEPT !.off = no,
               !.win = [r \in Rows(s) |-> {b \in 0..7 : Cell(r, no + b) \in m}],
               !.tab = sur,
               !.fic = MinOf({no} \cup {Col(x) : x \in sur})]

\* update_sparse
UpdSparse(s, x) ==
  IF x \in s.tab THEN s
  ELSE LET s1 == [s EXCEPT !.tab = @ \cup {x}, !.C = @ + 1] IN
       IF 32 * s1.C >= 3 * KOf(s) THEN Promote(s1) ELSE s1

\* update_windowed: three zones
UpdWindowed(s, x) ==
  LET col == Col(x)  row == Row(x)
      s1 == IF col < s.off
              THEN (IF x \in s.tab THEN [s EXCEPT !.tab = @ \ {x}] ELSE s)          \* maybe_delete: inverted logic
            ELSE IF col < s.off + 8
              THEN [s EXCEPT !.win[row] = @ \cup {col - s.off}]                      \* bit inside the window
            ELSE [s EXCEPT !.tab = @ \cup {x}]                                      \* maybe_insert: surprising 1
      novel == s1 # s
      s2 == [s1 EXCEPT !.C = @ + 1]
  IN IF ~novel THEN s
     ELSE IF 8 * s2.C >= (27 + 8 * s.off) * KOf(s) THEN MoveWindow(s2) ELSE s2

\* row_col_update
Upd(s, x) ==
  IF Col(x) < s.fic THEN s               \* speed filter: every row already has that column
  ELSE IF ~s.alloc THEN UpdSparse(s, x) ELSE UpdWindowed(s, x)

\* ---- the canonical representation of a coupon set (what the invariants below say the fields are) ----
CanonWin(lgK, S, off) == [r \in 0..(Pow2(lgK) - 1) |-> {b \in 0..7 : Cell(r, off + b) \in S}]
CanonTab(lgK, S, off, alloc) ==
  IF ~alloc THEN S
  ELSE ({Cell(r, c) : r \in 0..(Pow2(lgK) - 1), c \in 0..(off - 1)} \ S) \cup {x \in S : Col(x) >= off + 8}
\* a sketch holding exactly S (fic = 0 is always sound); used for the input catalogue of the union model
Canon(lgK, S, merged) ==
  LET c == Cardinality(S)  off == OffsetOf(lgK, c)  alloc == 32 * c >= 3 * Pow2(lgK) IN
  [lgK |-> lgK, C |-> c, alloc |-> alloc, win |-> IF alloc THEN CanonWin(lgK, S, off) ELSE <<>>, off |-> off,
   tab |-> CanonTab(lgK, S, off, alloc), fic |-> 0, merged |-> merged]

\* ---- representation invariants, relative to the ghost coupon set S ----
RepOK(s, S) ==
  /\ BitMatrix(s) = S                                        \* refinement mapping: the matrix IS the coupon set
  /\ s.C = Cardinality(S)
  /\ s.off = OffsetOf(s.lgK, s.C)
  /\ s.alloc = (32 * s.C >= 3 * KOf(s))
  /\ s.fic <= s.off
  /\ \A r \in Rows(s), c \in 0..(s.fic - 1) : Cell(r, c) \in S        \* the speed filter never drops a new coupon
  /\ s.tab = CanonTab(s.lgK, S, s.off, s.alloc)               \* table = surprises only, none inside the window
  /\ (s.alloc => s.win = CanonWin(s.lgK, S, s.off))
  /\ (~s.alloc => s.win = <<>>)

\* ---- compression round trip at the level of pairs / window bytes (cpc_compressor_impl.hpp, per flavor) ----
\* the entropy coder and the column permutation are bijections on their inputs and are not modelled; what is modelled
\* is which pairs go where and the column arithmetic (hybrid merge/split at column 8, pinned -8/+8, sliding rotation)
Image(s) ==
  LET f == Flavor(s.lgK, s.C) IN
  [lgK |-> s.lgK, C |-> s.C, fic |-> s.fic, hasHip |-> ~s.merged, flavor |-> f,
   window |-> IF f >= 3 THEN s.win ELSE <<>>,
   pairs |-> CASE f <= 1 -> s.tab
               [] f = 2 -> s.tab \cup WinCells(s)                                   \* offset is 0: window bits are cells
               [] f = 3 -> {x - 8 : x \in s.tab}
               [] OTHER -> {Cell(Row(x), (Col(x) + 56 - s.off) % 64) : x \in s.tab}]
Restore(im) ==
  LET f == Flavor(im.lgK, im.C)  off == OffsetOf(im.lgK, im.C)  rows == 0..(Pow2(im.lgK) - 1) IN
  [lgK |-> im.lgK, C |-> im.C, alloc |-> f >= 2, off |-> off, fic |-> im.fic, merged |-> ~im.hasHip,
   win |-> CASE f <= 1 -> <<>>
             [] f = 2 -> [r \in rows |-> {c \in 0..7 : Cell(r, c) \in im.pairs}]
             [] OTHER -> im.window,
   tab |-> CASE f <= 1 -> im.pairs
             [] f = 2 -> {x \in im.pairs : Col(x) >= 8}
             [] f = 3 -> {x + 8 : x \in im.pairs}
             [] OTHER -> {Cell(Row(x), (Col(x) + off + 8) % 64) : x \in im.pairs}]
RoundTrip(s) == /\ Restore(Image(s)) = s
                /\ \A x \in Image(s).pairs : Flavor(s.lgK, s.C) >= 3 => Col(x) < 56

(***************************************************************************)
(* The union mechanism of cpc_union_alloc (cpc/include/cpc_union_impl.hpp) *)
(* as pure operators on a union record                                     *)
(*   v.lgK, v.hasAcc / v.acc (accumulator sketch), v.hasBM / v.bm (matrix) *)
(* see CpcUnionDesign.tla for the case analysis in words.                  *)
(***************************************************************************)
NoSketch == Fresh(0)
FoldCell(x, lgK) == Cell(Row(x) % Pow2(lgK), Col(x))
FoldSet(S, lgK) == {FoldCell(x, lgK) : x \in S}

UNew(lgK) == [lgK |-> lgK, hasAcc |-> TRUE, acc |-> Fresh(lgK), hasBM |-> FALSE, bm |-> {}]

\* walk_table_updating_sketch: every table entry, row-masked to the ACCUMULATOR's K, through row_col_update.
\* (the code walks in a golden-ratio stride order; the final coupon set does not depend on the order, and the
\* accumulator's first_interesting_column is discarded or still 0 afterwards)
RECURSIVE Walk(_, _)
\* (a.C >= 0 is always true: it forces TLC to evaluate the accumulated sketch at every level instead of building a chain of lazy values)
Walk(a, T) == IF T = {} \/ a.C < 0 THEN a ELSE LET x == MinOf(T) IN Walk(Upd(a, FoldCell(x, a.lgK)), T \ {x})

\* switch_to_bit_matrix
Switch(v) == [v EXCEPT !.hasBM = TRUE, !.bm = BitMatrix(v.acc), !.hasAcc = FALSE, !.acc = NoSketch]

\* reduce_k
ReduceK(v, newLgK) ==
  IF v.hasBM THEN [v EXCEPT !.bm = FoldSet(@, newLgK), !.lgK = newLgK]                  \* or_matrix_into_matrix(old, old_lg_k)
  ELSE IF v.acc.C # 0
       THEN LET a2 == Walk(Fresh(newLgK), v.acc.tab)                                     \* only the TABLE of the old accumulator
                v2 == [v EXCEPT !.acc = a2, !.lgK = newLgK]
            IN IF Flavor(a2.lgK, a2.C) > 1 THEN Switch(v2) ELSE v2
       ELSE [v EXCEPT !.lgK = newLgK]                                                    \* the empty accumulator keeps its old lg_k

\* internal_update
InternalUpdateX(v, src, foldBug) ==
  LET f == Flavor(src.lgK, src.C) IN
  IF f = 0 THEN v
  ELSE LET v1 == IF src.lgK < v.lgK THEN ReduceK(v, src.lgK) ELSE v IN
    IF f = 1 /\ v1.hasAcc THEN                                                           \* case A
       IF Flavor(v1.acc.lgK, v1.acc.C) = 0 /\ v1.lgK = src.lgK
       THEN [v1 EXCEPT !.acc = src]
       ELSE LET a2 == Walk(v1.acc, src.tab)  v2 == [v1 EXCEPT !.acc = a2] IN
            IF Flavor(a2.lgK, a2.C) > 1 THEN Switch(v2) ELSE v2
    ELSE IF f = 1 THEN                                                                   \* case B
       [v1 EXCEPT !.bm = @ \cup (IF foldBug = 1 THEN src.tab ELSE FoldSet(src.tab, v1.lgK))]
    ELSE LET v2 == IF v1.hasAcc THEN Switch(v1) ELSE v1 IN
       IF f \in {2, 3}
       THEN [v2 EXCEPT !.bm = @ \cup FoldSet(WinCells(src), v2.lgK) \cup FoldSet(src.tab, v2.lgK)]   \* case C
       ELSE [v2 EXCEPT !.bm = @ \cup FoldSet(BitMatrix(src), v2.lgK)]                                \* case D

\* get_result_from_accumulator / get_result_from_bit_matrix
UGetResult(v) ==
  IF v.hasAcc THEN (IF v.acc.C = 0 THEN Fresh(v.lgK) ELSE [v.acc EXCEPT !.merged = TRUE])
  ELSE LET c == Cardinality(v.bm)
           off == OffsetOf(v.lgK, c)
           rows == 0..(Pow2(v.lgK) - 1)
           sur == ({Cell(r, q) : r \in rows, q \in 0..(off - 1)} \ v.bm) \cup {x \in v.bm : Col(x) >= off + 8}
       IN [lgK |-> v.lgK, C |-> c, alloc |-> TRUE, off |-> off,
           win |-> [r \in rows |-> {b \in 0..7 : Cell(r, off + b) \in v.bm}],
           tab |-> sur, fic |-> MinOf({off} \cup {Col(x) : x \in sur}), merged |-> TRUE]

InternalUpdate(v, src) == InternalUpdateX(v, src, 0)
====
