---- MODULE WideNum ----
(***************************************************************************)
(* Exact arithmetic on naturals beyond TLC's 32-bit integers: a number is  *)
(* a little-endian sequence of limbs in base 2^20 (the harnesses log       *)
(* 64-bit weights / totals / estimates as 4 limbs).  Only what the         *)
(* frequent-items and count-min contracts need: zero, addition, order,     *)
(* multiplication by a small constant.  No constants, no variables.        *)
(***************************************************************************)
EXTENDS Naturals, Sequences
WBase == 1048576
WLimbs == 4
WZero == <<0, 0, 0, 0>>
WIsNum(x) == Len(x) = WLimbs /\ \A i \in 1..WLimbs : x[i] \in 0..(WBase - 1)
RECURSIVE WAddC(_, _, _, _)
WAddC(x, y, i, c) == IF i > Len(x) THEN <<>> ELSE LET s == x[i] + y[i] + c IN <<s % WBase>> \o WAddC(x, y, i + 1, s \div WBase)
WAdd(x, y) == WAddC(x, y, 1, 0)                       \* 80 bits: no overflow for 64-bit operands
\* order: decided by the most significant differing limb
WLt(x, y) == \E i \in 1..Len(x) : x[i] < y[i] /\ \A j \in (i + 1)..Len(x) : x[j] = y[j]
WLeq(x, y) == x = y \/ WLt(x, y)
\* x * k for a small constant k (k <= 2048 keeps every intermediate below 2^31); one more limb than x
RECURSIVE WMulC(_, _, _, _)
WMulC(x, k, i, c) == IF i > Len(x) THEN <<c>> ELSE LET s == x[i] * k + c IN <<s % WBase>> \o WMulC(x, k, i + 1, s \div WBase)
WMulSmall(x, k) == WMulC(x, k, 1, 0)
====
