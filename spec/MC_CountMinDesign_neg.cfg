\* NEGATIVE config (TLC must report a violation): merge forgets the last row of the other sketch (Mode "skiprow").
\* Ids: two sketches and a third that can serve as witness of their merge; Items/Weights: update alphabet;
\* Cfgs: [rows, buckets, seed]; FreeCfgs: configurations whose hash function is arbitrary;
\* MaxTotal: bound on weight and number of updates per sketch (merge results may exceed it and are not extended); Mode "min" = the code
SPECIFICATION Spec
CONSTANTS Ids = {1, 2, 3}
 Items = {1, 2}
 Weights = {1, 2}
 Cfgs <- Cfg2x3
 FreeCfgs <- Cfg2x3
 MaxTotal = 2
 Mode = "skiprow"
INVARIANT EstInv CInv
PROPERTY Refines
CONSTRAINT Bound
CHECK_DEADLOCK FALSE
