\* two sketches, k = 2, items 1..2, every pair of streams with at most 14 items in total (thorough tier), merges in both directions
\* (lvalue / rvalue; exact, estimating and empty operands: replay, standard_merge, copy-and-replay) and continued updates
SPECIFICATION Spec
CONSTANTS Ids = {1, 2}
 Items = {1, 2}
 Ks = {2}
 MaxN = 14
 ZipIgnoresCoin = 0
INVARIANT RepOK CInv Martingale
PROPERTY Refines
CONSTRAINT NBound
CHECK_DEADLOCK FALSE
