---- MODULE XJaccard ----
(***************************************************************************)
(* X04 - contract of theta_jaccard_similarity (jaccard, exactly_equal,     *)
(* similarity_test, dissimilarity_test) and of                             *)
(* bounds_on_ratios_in_theta_sketched_sets / _in_sampled_sets, from the    *)
(* headers:                                                                *)
(*  "Jaccard similarity index J(A,B) = (A ^ B)/(A U B) ... returns         *)
(*   {LowerBound, Estimate, UpperBound} of the Jaccard index"              *)
(*  "bounds on the estimate of the ratio B / A, where A is a Theta sketch, *)
(*   B a Theta sketch of a subset of A obtained by an intersection of A    *)
(*   with some other sketch C"; "theta of B <= theta of A"                 *)
(*  "a = observed size of a sample of A obtained by Bernoulli sampling     *)
(*   with inclusion probability f, b = observed size of a subset";         *)
(*   "When f = 1.0 this returns the estimate."                             *)
(*                                                                         *)
(* A sketch is what its public API shows: [ent (set of retained hashes),   *)
(* theta, empty].  Hashes are abstract ordered values.  Both sketches are  *)
(* samples of their sets at their own theta, so they are comparable only   *)
(* below the common theta = min: the estimate of the Jaccard index is the  *)
(* exact ratio of the sample counts there.                                 *)
(***************************************************************************)
EXTENDS Integers, FiniteSets, TLC

Min2(a, b) == IF a < b THEN a ELSE b
Below(S, t) == {h \in S : h < t}
CommonTheta(A, B) == Min2(A.theta, B.theta)
UnionSample(A, B) == Below(A.ent \cup B.ent, CommonTheta(A, B))
InterSample(A, B) == Below(A.ent \cap B.ent, CommonTheta(A, B))
\* the estimate as a pair <<numerator, denominator>>
JaccardNum(A, B) == Cardinality(InterSample(A, B))
JaccardDen(A, B) == Cardinality(UnionSample(A, B))

\* "exactly equal": the same sample of the same set
SameSketch(A, B) == (A.empty /\ B.empty) \/ (~A.empty /\ ~B.empty /\ A.ent = B.ent /\ A.theta = B.theta)

\* B over A: B is a sketch of a subset of A's set (theta_B <= theta_A, B's entries are among A's)
SubsetSketch(A, B) == B.theta <= A.theta /\ B.ent \subseteq Below(A.ent, B.theta)
RatioNum(A, B) == Cardinality(B.ent)
RatioDen(A, B) == Cardinality(Below(A.ent, B.theta))
====
