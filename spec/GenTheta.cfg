SPECIFICATION GSpec
CONSTANTS LgK = 5
 LgRf = 1
 MaxHash = 160
 StartTheta = 161
 MinLgK = 5
 RebuildPivot = 33
 Depth = 150
 OutDir = "/verif/build/gen_theta"
CONSTRAINT Collect
CHECK_DEADLOCK FALSE
