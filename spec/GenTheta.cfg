SPECIFICATION GSpec
CONSTANTS LgK = 5
 LgRf = 1
 MaxHash = 160
 StartTheta = 161
 MinLgK = 5
 RebuildPivot = 33
 Depth = 150
CONSTRAINT Collect
CHECK_DEADLOCK FALSE
