---- MODULE BloomDesign ----
(***************************************************************************)
(* Tier B design model of bloom_filter_alloc (filters/include/             *)
(* bloom_filter_impl.hpp): the contract's state (flt, mem, out - same      *)
(* variables, so the refinement mapping is the identity) plus the code's   *)
(* bookkeeping of the number of set bits -                                 *)
(*   book[f]   : cached (num_bits_set_), dirty (is_dirty_) per object      *)
(*   stored[m] : the NumBitsSet long at byte 24 of the image in region m;  *)
(*               Dirty = DIRTY_BITS_VALUE                                  *)
(* and WHERE that count is and is not written through:                     *)
(*   update            sets bits, marks the object dirty                   *)
(*                     (+ stores the Dirty marker in the region iff        *)
(*                      WriteDirtyThrough - the repair; the pinned code    *)
(*                      does not; on EVERY call iff RemarkWhenDirty, also  *)
(*                      through a stale view whose object is dirty)        *)
(*   query_and_update  get_and_set_bit + update_num_bits_set(cached + new) *)
(*                     (only while not dirty iff QauKeepsDirty - repair;   *)
(*                      the pinned code overwrites a dirty count)          *)
(*   union/intersect/invert/reset  recount, update_num_bits_set            *)
(*                     (refused on read-only views iff RoCheckSetOps -     *)
(*                      repair; the pinned code checks only reset)         *)
(*   get_bits_used     recounts when dirty (object only)                   *)
(*   query             short-circuits on is_empty = ~dirty /\ cached = 0   *)
(*   serialize         empty form iff is_empty; count = Dirty if dirty     *)
(*   wrap / writable_wrap / deserialize   read `stored`                    *)
(* TLC checks that it refines the contract Bloom (PROPERTY Refines) for    *)
(* every history within the bounds; the negative configs (pinned           *)
(* behaviour) must violate it.                                             *)
(***************************************************************************)
EXTENDS Integers, FiniteSets, Sequences, TLC
CONSTANTS FltIds, MemIds, Cfgs, Items, MaxCalls,
          WriteDirtyThrough,   \* TRUE: repaired internal_update; FALSE: pinned code
          QauKeepsDirty,       \* TRUE: repaired internal_query_and_update; FALSE: pinned code
          RoCheckSetOps,       \* TRUE: repaired union_with/intersect/invert; FALSE: pinned code
          RemarkWhenDirty      \* TRUE: update stores the Dirty marker on EVERY call (the code); FALSE: only on the
                               \* clean -> dirty transition of the object (seeded regression, negative config)
VARIABLES flt, mem, out, book, stored
dvars == <<flt, mem, out, book, stored>>

C == INSTANCE Bloom       \* the contract on the same flt, mem, out: supplies the vocabulary and the refinement target

Dirty == -1                    \* code: DIRTY_BITS_VALUE = 0xFFFFFFFFFFFFFFFF (so that Dirty + 1 = 0 as in uint64)
Keep == -2                     \* "the stored count is not written"
Own == C!Own
Live == DOMAIN flt
Regions == DOMAIN mem
IsView(f) == flt[f].at # Own
Bits(f) == C!Bits(f)
Ins(f) == C!Ins(f)
Fresh(f) == C!Fresh(f)
EmptyD(f) == ~book[f].dirty /\ book[f].cached = 0          \* is_empty()
Bk(cached, dirty) == [cached |-> cached, dirty |-> dirty]

\* one critical section: f's bit store becomes (b, s) [exactly the contract's Write], its bookkeeping (cached, dirty),
\* and - for a view - the region's stored count becomes st (st = Keep: not written)
Commit(f, b, s, cached, dirty, st) ==
  /\ C!Write(f, b, s)
  /\ book' = [book EXCEPT ![f] = Bk(cached, dirty)]
  /\ stored' = IF IsView(f) /\ st # Keep THEN [stored EXCEPT ![flt[f].at] = st] ELSE stored
\* update_num_bits_set(n): cached = n, not dirty, written through unless read-only
SetCount(f, b, s, n) == Commit(f, b, s, n, FALSE, IF flt[f].ro THEN Keep ELSE n)
Throw == out' = C!Thrown /\ UNCHANGED <<flt, mem, book, stored>>
Same == UNCHANGED <<flt, mem, book, stored>>

Init == flt = <<>> /\ mem = <<>> /\ out = C!Ok /\ book = <<>> /\ stored = <<>>

New(f, c) == /\ flt' = (f :> C!Owned(c, {}, {}, FALSE)) @@ flt
             /\ book' = (f :> Bk(0, FALSE)) @@ book
             /\ out' = C!Ok /\ UNCHANGED <<mem, stored>>
InitMem(f, m, c) ==
  /\ C!NoViewAt(m)
  /\ mem' = (m :> C!Image(c, FALSE, {}, {})) @@ mem
  /\ stored' = (m :> 0) @@ stored
  /\ flt' = (f :> C!View(m, c, FALSE)) @@ flt
  /\ book' = (f :> Bk(0, FALSE)) @@ book
  /\ out' = C!Ok
\* internal_update
Update(f, x) ==
  /\ f \in Live                 \* also through a stale view (contract header)
  /\ IF flt[f].ro THEN Throw
     ELSE /\ Commit(f, Bits(f) \cup x, Ins(f) \cup {x}, book[f].cached, TRUE,
                    IF WriteDirtyThrough /\ (RemarkWhenDirty \/ ~book[f].dirty) THEN Dirty ELSE Keep)
          /\ out' = C!Ok
\* internal_query_and_update (no is_empty short-cut here)
QueryUpdate(f, x) ==
  /\ Fresh(f)
  /\ IF flt[f].ro THEN Throw
     ELSE LET a == x \subseteq Bits(f)
              new == Cardinality(x \ Bits(f))
              b == Bits(f) \cup x
              s == Ins(f) \cup {x} IN
          /\ IF QauKeepsDirty /\ book[f].dirty
             THEN Commit(f, b, s, book[f].cached, TRUE, Keep)
             ELSE SetCount(f, b, s, book[f].cached + new)     \* pinned: a dirty cached value (0 or Dirty) is trusted
          /\ out' = C!Ans(a)
\* internal_query
Query(f, x) == /\ Fresh(f)
               /\ out' = C!Ans(~EmptyD(f) /\ x \subseteq Bits(f))
               /\ Same
EmptyItem(f) == Fresh(f) /\ out' = C!Ans(FALSE) /\ Same
\* get_bits_used: recount into the object only
BitsUsed(f) ==
  /\ Fresh(f)
  /\ LET n == IF book[f].dirty THEN Cardinality(Bits(f)) ELSE book[f].cached IN
     /\ book' = [book EXCEPT ![f] = Bk(n, FALSE)]
     /\ out' = C!Num(n)
  /\ UNCHANGED <<flt, mem, stored>>
IsEmpty(f) == Fresh(f) /\ out' = C!Ans(EmptyD(f)) /\ Same
SetOp(f, g, b, s) ==
  /\ Fresh(f) /\ Fresh(g)
  /\ IF flt[f].cfg # flt[g].cfg \/ (RoCheckSetOps /\ flt[f].ro) THEN Throw
     ELSE SetCount(f, b, s, Cardinality(b)) /\ out' = C!Ok
Union(f, g) == SetOp(f, g, Bits(f) \cup Bits(g), Ins(f) \cup Ins(g))
Intersect(f, g) == SetOp(f, g, Bits(f) \cap Bits(g), Ins(f) \cap Ins(g))
Invert(f) ==
  /\ Fresh(f)
  /\ IF RoCheckSetOps /\ flt[f].ro THEN Throw
     ELSE LET b == C!All(flt[f].cfg) \ Bits(f) IN SetCount(f, b, {}, Cardinality(b)) /\ out' = C!Ok
Reset(f) ==
  /\ Fresh(f)
  /\ IF flt[f].ro THEN Throw ELSE SetCount(f, {}, {}, 0) /\ out' = C!Ok
Copy(f, g) == /\ Fresh(f) /\ g # f
              /\ flt' = (g :> flt[f]) @@ flt
              /\ book' = (g :> book[f]) @@ book
              /\ out' = C!Ok /\ UNCHANGED <<mem, stored>>
Move(f, g) == /\ Fresh(f) /\ g # f
              /\ flt' = [h \in (Live \cup {g}) \ {f} |-> IF h = g THEN flt[f] ELSE flt[h]]
              /\ book' = [h \in (Live \cup {g}) \ {f} |-> IF h = g THEN book[f] ELSE book[h]]
              /\ out' = C!Ok /\ UNCHANGED <<mem, stored>>
Drop(f) == /\ f \in Live
           /\ flt' = [h \in Live \ {f} |-> flt[h]]
           /\ book' = [h \in Live \ {f} |-> book[h]]
           /\ out' = C!Ok /\ UNCHANGED <<mem, stored>>
\* serialize: the image form follows is_empty(), the count field the dirty flag
Ser(f, m) ==
  /\ Fresh(f) /\ C!NoViewAt(m)
  /\ LET e == EmptyD(f) IN
     mem' = (m :> C!Image(flt[f].cfg, e, IF e THEN {} ELSE Bits(f), Ins(f))) @@ mem
  /\ stored' = (m :> IF book[f].dirty THEN Dirty ELSE book[f].cached) @@ stored
  /\ out' = C!Ok /\ UNCHANGED <<flt, book>>
Deser(m, f) ==
  /\ m \in Regions
  /\ LET r == mem[m] IN
     /\ flt' = (f :> C!Owned(r.cfg, r.bits, r.ins, FALSE)) @@ flt
     /\ book' = (f :> IF r.empty THEN Bk(0, FALSE) ELSE Bk(stored[m], stored[m] = Dirty)) @@ book
  /\ out' = C!Ok /\ UNCHANGED <<mem, stored>>
\* wrap: a read-only view recounts a Dirty stored count at construction (and stays flagged dirty)
Wrap(m, f) ==
  /\ m \in Regions
  /\ LET r == mem[m] IN
     IF r.empty
     THEN /\ flt' = (f :> C!Owned(r.cfg, {}, {}, FALSE)) @@ flt
          /\ book' = (f :> Bk(0, FALSE)) @@ book
     ELSE /\ flt' = (f :> C!View(m, r.cfg, TRUE)) @@ flt
          /\ book' = (f :> Bk(IF stored[m] = Dirty THEN Cardinality(r.bits) ELSE stored[m], stored[m] = Dirty)) @@ book
  /\ out' = C!Ok /\ UNCHANGED <<mem, stored>>
WritableWrap(m, f) ==
  /\ m \in Regions
  /\ LET r == mem[m] IN
     IF r.empty THEN Throw
     ELSE /\ flt' = (f :> C!View(m, r.cfg, FALSE)) @@ flt
          /\ book' = (f :> Bk(stored[m], stored[m] = Dirty)) @@ book
          /\ out' = C!Ok /\ UNCHANGED <<mem, stored>>

Next ==
  \/ \E f \in FltIds, c \in Cfgs : New(f, c)
  \/ \E f \in FltIds, m \in MemIds, c \in Cfgs : InitMem(f, m, c)
  \/ \E f \in FltIds, x \in Items : Update(f, x) \/ QueryUpdate(f, x) \/ Query(f, x)
  \/ \E f \in FltIds : EmptyItem(f) \/ BitsUsed(f) \/ IsEmpty(f) \/ Invert(f) \/ Reset(f) \/ Drop(f)
  \/ \E f \in FltIds, g \in FltIds : Union(f, g) \/ Intersect(f, g) \/ Copy(f, g) \/ Move(f, g)
  \/ \E f \in FltIds, m \in MemIds : Ser(f, m) \/ Deser(m, f) \/ Wrap(m, f) \/ WritableWrap(m, f)
Spec == Init /\ [][Next]_dvars

\* The same step relation with the refinement checked per step by WITNESS: each design action must be the contract's
\* action of the same name with the observable result (out', the image form, the read-only flag) as parameters.
\* Equivalent to PROPERTY Refines below but ~20x faster in TLC, which otherwise searches all contract parameters for
\* every transition; the deep configs use SpecR, MC_BloomDesign_ref.cfg checks Refines itself on shorter histories.
Ref(name, c) == IF c THEN TRUE ELSE Assert(FALSE, <<"design step is not a contract step", name>>)
NextR ==
  \/ \E f \in FltIds, c \in Cfgs : New(f, c) /\ Ref("New", C!New(f, c))
  \/ \E f \in FltIds, m \in MemIds, c \in Cfgs : InitMem(f, m, c) /\ Ref("InitMem", C!InitMem(f, m, c))
  \/ \E f \in FltIds, x \in Items :
        \/ Update(f, x) /\ Ref("Update", C!Update(f, x, out'.o))
        \/ QueryUpdate(f, x) /\ Ref("QueryUpdate", C!QueryUpdate(f, x, out'.o, out'.a))
        \/ Query(f, x) /\ Ref("Query", C!Query(f, x, out'.a))
  \/ \E f \in FltIds :
        \/ EmptyItem(f) /\ Ref("EmptyItem", C!EmptyItem(f, out'.a))
        \/ BitsUsed(f) /\ Ref("BitsUsed", C!BitsUsed(f, out'.n))
        \/ IsEmpty(f) /\ Ref("IsEmpty", C!IsEmpty(f, out'.a))
        \/ Invert(f) /\ Ref("Invert", C!Invert(f, out'.o))
        \/ Reset(f) /\ Ref("Reset", C!Reset(f, out'.o))
        \/ Drop(f) /\ Ref("Drop", C!Drop(f))
  \/ \E f \in FltIds, g \in FltIds :
        \/ Union(f, g) /\ Ref("Union", C!Union(f, g, out'.o))
        \/ Intersect(f, g) /\ Ref("Intersect", C!Intersect(f, g, out'.o))
        \/ Copy(f, g) /\ Ref("Copy", C!Copy(f, g))
        \/ Move(f, g) /\ Ref("Move", C!Move(f, g))
  \/ \E f \in FltIds, m \in MemIds :
        \/ Ser(f, m) /\ Ref("Ser", C!Ser(f, m, mem'[m].empty))
        \/ Deser(m, f) /\ Ref("Deser", C!Deser(m, f))
        \/ Wrap(m, f) /\ Ref("Wrap", C!Wrap(m, f, flt'[f].ro))
        \/ WritableWrap(m, f) /\ Ref("WritableWrap", C!WritableWrap(m, f, out'.o))
SpecR == Init /\ [][NextR]_dvars
Bound == TLCGet("level") <= MaxCalls + 1    \* the initial state has level 1

\* representation invariant of the repaired design: a clean count is the true count, in the object and in the region
CountOK == /\ \A f \in Live : Fresh(f) /\ ~book[f].dirty => book[f].cached = Cardinality(Bits(f))
           /\ \A m \in Regions : ~mem[m].empty /\ stored[m] # Dirty => stored[m] = Cardinality(mem[m].bits)

\* refinement: every design step is a contract step (or stutters on flt, mem, out) and yields a permitted result
Refines == C!Init /\ [][C!Next]_<<flt, mem, out>>
CInv == C!Inv
====
