---- MODULE TDigest ----
(***************************************************************************)
(* Tier A contract of tdigest<T> (property C17), written from the property *)
(* statement and the public documentation only.  There is no tier B model: *)
(* the clustering decision uses a logarithmic scale function that integer  *)
(* TLA+ cannot reproduce, so the contract is PERMISSIVE about which        *)
(* neighbours are merged and STRICT about everything the property states.  *)
(*                                                                         *)
(* Values and centroid means are abstract totally ordered values           *)
(* (naturals >= 1; in traces: doubles renamed order-isomorphically), the   *)
(* contract uses only = < <= min max on them.  Weights are plain integers. *)
(*                                                                         *)
(* State per sketch i:                                                     *)
(*   cent  : Seq([m, w])  centroids as exposed by the sketch               *)
(*   buf   : Seq(value)   buffered raw values (weight 1 each)              *)
(*   minD, maxD, total    what get_min_value/get_max_value/get_total_weight*)
(*                        must report                                      *)
(*   k, cap               configuration; cap = the centroid capacity the   *)
(*                        sketch itself reports (to_string)                *)
(*   g = [cnt, lo, hi]    GHOST: count and extremes of the multiset of     *)
(*                        accepted values (all the property needs of it)   *)
(*   inf                  an infinity was accepted: the statement speaks   *)
(*                        about finite values only, so from then on only   *)
(*                        weight and extremes are constrained              *)
(*                                                                         *)
(* What the property leaves open - WHEN a compress happens and WHICH       *)
(* neighbours it merges - is the explicit parameter nc (the new centroid   *)
(* sequence) of the actions; model checking enumerates every contiguous    *)
(* coarsening, trace validation passes the logged post-state as witness.   *)
(***************************************************************************)
EXTENDS Naturals, Sequences, SequencesExt, FiniteSets, TLC
CONSTANTS Ids, Vals, Ks, Cap, BufCap, MaxN     \* bounds used only by Next (model checking)
VARIABLE obj
vars == <<obj>>

Live == DOMAIN obj
Min2(a, b) == IF a <= b THEN a ELSE b
Max2(a, b) == IF a >= b THEN a ELSE b

\* (folds instead of recursion: traces hold sequences of several hundred items)
SumW(c) == FoldLeft(LAMBDA a, x : a + x.w, 0, c)
CumW(c) == FoldLeft(LAMBDA a, x : Append(a, (IF a = <<>> THEN 0 ELSE a[Len(a)]) + x.w), <<>>, c)
MinSeq(vs) == FoldLeft(LAMBDA a, x : Min2(a, x), vs[1], vs)
MaxSeq(vs) == FoldLeft(LAMBDA a, x : Max2(a, x), vs[1], vs)

\* counts beyond TLC's 32-bit integers (total weight >= 2^32 is reachable by merge doublings) are pairs <<lo, hi>> of limbs,
\* value = lo + hi * 2^24
WB == 16777216
WNorm(lo, hi) == <<lo % WB, hi + lo \div WB>>
WAdd(a, b) == WNorm(a[1] + b[1], a[2] + b[2])
WOfInt(n) == WNorm(n, 0)
WSum(ws) == FoldLeft(LAMBDA acc, w : WAdd(acc, w), <<0, 0>>, ws)

Fresh(k, cap) == [k |-> k, cap |-> cap, cent |-> <<>>, buf |-> <<>>, minD |-> 0, maxD |-> 0, total |-> 0,
                  g |-> [cnt |-> 0, lo |-> 0, hi |-> 0], inf |-> FALSE]

\* everything the sketch holds, as weighted items, in value order (order among equal means is irrelevant below)
Items(o) == o.cent \o [x \in 1..Len(o.buf) |-> [m |-> o.buf[x], w |-> 1]]
ByMean(s) == SortSeq(s, LAMBDA a, b : a.m < b.m)

(***************************************************************************)
(* out is a CONTIGUOUS COARSENING of the value-ordered sequence in:        *)
(* lay the weights of in along a line of unit positions 1..total; the      *)
(* weights of out must cut the same line into consecutive runs whose       *)
(* boundaries are boundaries of in, and every new mean lies between the    *)
(* smallest and the largest mean of its run (the means of the items        *)
(* covering the first and the last position of the run).  The order among  *)
(* items of EQUAL mean is not fixed by the property, so a run boundary may *)
(* also fall inside an item that has a neighbour of equal mean (Tied); an  *)
(* item with distinct neighbours is never split.                           *)
(***************************************************************************)
\* least index x in lo..hi with c[x] >= p (c increasing, c[hi] >= p): binary search
RECURSIVE FirstGE(_, _, _, _)
FirstGE(c, p, lo, hi) == IF lo >= hi THEN lo
                         ELSE LET mid == (lo + hi) \div 2 IN
                              IF c[mid] >= p THEN FirstGE(c, p, lo, mid) ELSE FirstGE(c, p, mid + 1, hi)
Tied(in, i) == \/ (i > 1 /\ in[i - 1].m = in[i].m)
               \/ (i < Len(in) /\ in[i + 1].m = in[i].m)
\* (TLC idiom: \A x \in {e} binds x to the VALUE of e; a LET would re-evaluate e at every use inside an action)
IsCoarsening(in, out) ==
  IF Len(in) = 0 THEN Len(out) = 0
  ELSE /\ Len(out) > 0
       /\ \A j \in 1..Len(out) : out[j].w > 0
       /\ \A ci \in {CumW(in)}, co \in {CumW(out)} :
            LET n == Len(in)
                At(p) == FirstGE(ci, p, 1, n)                            \* the item of in covering position p
            IN /\ ci[n] = co[Len(out)]                                  \* weight conserved
               /\ \A j \in 1..Len(out) :
                    \A a \in {At((IF j = 1 THEN 0 ELSE co[j - 1]) + 1)}, b \in {At(co[j])} :
                       /\ in[a].m <= out[j].m /\ out[j].m <= in[b].m
                       /\ (ci[b] # co[j] => Tied(in, b))

SortedCent(c) == \A j \in 1..(Len(c) - 1) : c[j].m <= c[j + 1].m

\* a compress may merge any neighbours but must conserve weight, keep means inside their runs and respect the capacity
\* (IF: TLC evaluates the condition as a state predicate; as a bare conjunct of an action its disjunctions would be
\* explored as alternative successors)
CompressOK(o, in, nc) == IF o.inf \/ (Len(nc) <= o.cap /\ \A s \in {ByMean(in)} : IsCoarsening(s, nc)) THEN TRUE ELSE FALSE
Compressed(o, nc) == [o EXCEPT !.cent = nc, !.buf = <<>>]

\* the values vs (none NaN) are accepted into the buffer
Buffer(o, vs) ==
  IF vs = <<>> THEN o
  ELSE LET lo == MinSeq(vs)  hi == MaxSeq(vs) IN
       [o EXCEPT !.buf = @ \o vs, !.total = @ + Len(vs),
                 !.minD = IF o.total = 0 THEN lo ELSE Min2(@, lo),
                 !.maxD = IF o.total = 0 THEN hi ELSE Max2(@, hi),
                 !.g = [cnt |-> @.cnt + Len(vs),
                        lo |-> IF @.cnt = 0 THEN lo ELSE Min2(@.lo, lo),
                        hi |-> IF @.cnt = 0 THEN hi ELSE Max2(@.hi, hi)]]

Init == obj = <<>>
New(i, k, cap) == obj' = (i :> Fresh(k, cap)) @@ obj

\* update(v) for each v of vs in turn, none NaN.  comp: the LAST of these calls compressed first (the property does
\* not say when a compress happens); nc is then the new centroid list
UpdateMany(i, vs, comp, nc) ==
  /\ i \in Live /\ Len(vs) > 0
  /\ LET o == Buffer(obj[i], SubSeq(vs, 1, Len(vs) - 1))
         o1 == IF comp THEN Compressed(o, nc) ELSE o
     IN /\ comp => CompressOK(o, Items(o), nc)
        /\ obj' = [obj EXCEPT ![i] = Buffer(o1, <<vs[Len(vs)]>>)]
Update(i, v, comp, nc) == UpdateMany(i, <<v>>, comp, nc)
\* same, v = +-infinity: outside the statement ("finite values"); the value is either counted like any other or ignored
UpdateInf(i, v, counted, comp, nc) ==
  /\ i \in Live
  /\ IF counted
     THEN LET o == [obj[i] EXCEPT !.inf = TRUE]
              o1 == IF comp THEN Compressed(o, nc) ELSE o
          IN obj' = [obj EXCEPT ![i] = Buffer(o1, <<v>>)]
     ELSE UNCHANGED obj
\* update(NaN) is ignored
UpdateNaN(i) == i \in Live /\ UNCHANGED obj

\* compress(), and the side effect of get_rank / get_quantile / get_CDF / get_PMF / serialize / get_serialized_size_bytes
Compress(i, nc) ==
  /\ i \in Live
  /\ CompressOK(obj[i], Items(obj[i]), nc)
  /\ obj' = [obj EXCEPT ![i] = Compressed(@, nc)]

\* i.merge(j): j is not changed; merging an empty sketch changes nothing
Merge(i, j, nc) ==
  /\ i \in Live /\ j \in Live /\ i # j
  /\ LET a == obj[i]  b == obj[j] IN
     IF b.total = 0 THEN UNCHANGED obj
     ELSE LET a1 == [a EXCEPT !.inf = a.inf \/ b.inf] IN
          /\ CompressOK(a1, Items(a) \o Items(b), nc)
          /\ obj' = [obj EXCEPT ![i] =
                 [a1 EXCEPT !.cent = nc, !.buf = <<>>, !.total = a.total + b.total,
                            !.minD = IF a.total = 0 THEN b.minD ELSE Min2(a.minD, b.minD),
                            !.maxD = IF a.total = 0 THEN b.maxD ELSE Max2(a.maxD, b.maxD),
                            !.g = [cnt |-> a.g.cnt + b.g.cnt,
                                   lo |-> IF a.g.cnt = 0 THEN b.g.lo ELSE Min2(a.g.lo, b.g.lo),
                                   hi |-> IF a.g.cnt = 0 THEN b.g.hi ELSE Max2(a.g.hi, b.g.hi)]]]
\* i.merge(i): the sketch absorbs its own content once more (the weight doubles, the extremes stay)
MergeSelf(i, nc) ==
  /\ i \in Live
  /\ LET a == obj[i] IN
     IF a.total = 0 THEN UNCHANGED obj
     ELSE /\ CompressOK(a, Items(a) \o Items(a), nc)
          /\ obj' = [obj EXCEPT ![i] = [a EXCEPT !.cent = nc, !.buf = <<>>, !.total = 2 * a.total,
                                                 !.g = [cnt |-> 2 * a.g.cnt, lo |-> a.g.lo, hi |-> a.g.hi]]]
Copy(i, j) == i \in Live /\ obj' = (j :> obj[i]) @@ obj
Destroy(i) == i \in Live /\ obj' = [x \in Live \ {i} |-> obj[x]]

(***************************************************************************)
(* Query clauses.  The answers themselves are not computable here (they    *)
(* are interpolations in floating point); the property constrains them:    *)
(* xs ascending query values with answers rs; ps ascending normalized      *)
(* ranks with answers qs; zero, one: the renamed constants 0.0 and 1.0.    *)
(***************************************************************************)
NonDecS(s) == \A x \in 1..(Len(s) - 1) : s[x] <= s[x + 1]
AscS(s) == \A x \in 1..(Len(s) - 1) : s[x] < s[x + 1]
RankMonotone(xs, rs) == AscS(xs) /\ Len(rs) = Len(xs) /\ NonDecS(rs)
RankBelowMin(o, xs, rs, zero) == \A x \in 1..Len(xs) : xs[x] < o.minD => rs[x] = zero
RankAboveMax(o, xs, rs, one) == \A x \in 1..Len(xs) : xs[x] > o.maxD => rs[x] = one
RankRange(rs, zero, one) == \A x \in 1..Len(rs) : zero <= rs[x] /\ rs[x] <= one
QuantMonotone(ps, qs) == AscS(ps) /\ Len(qs) = Len(ps) /\ NonDecS(qs)
QuantRange(o, qs) == \A x \in 1..Len(qs) : o.minD <= qs[x] /\ qs[x] <= o.maxD
QuantEnds(o, ps, qs, zero, one) == \A x \in 1..Len(ps) : /\ (ps[x] = zero => qs[x] = o.minD)
                                                         /\ (ps[x] = one => qs[x] = o.maxD)
\* get_CDF(split points) = the ranks of the split points followed by 1; get_PMF = its successive differences
CdfIsRank(cdf, ranks, one) == /\ Len(cdf) = Len(ranks) + 1
                              /\ \A x \in 1..Len(ranks) : cdf[x] = ranks[x]
                              /\ cdf[Len(cdf)] = one

(***************************************************************************)
(* Accuracy envelope (last sentence of the statement).  The scale function *)
(* documented in tdigest.hpp "generates cluster sizes proportional to      *)
(* q*(1-q)" with 2k as the compression, so the normalized rank error at    *)
(* true rank q is measured in units of  q(1-q)/k + 1/n  (one cluster plus  *)
(* one item).  Integers: q4 = q*10^4, errors and envelope in units 10^-7.  *)
(***************************************************************************)
Env7(q4, k, n) == (q4 * (10000 - q4)) \div (10 * k) + 10000000 \div n + 1
Ratio100(err7, q4, k, n) == (Min2(err7, 20000000) * 100) \div Env7(q4, k, n)

\* ------------------------------------------------------------------ model checking
RECURSIVE Coars(_)
Coars(s) ==
  IF s = <<>> THEN {<<>>}
  ELSE UNION { { <<[m |-> mm, w |-> SumW(SubSeq(s, 1, r))]>> \o rest :
                   mm \in {v \in Vals : s[1].m <= v /\ v <= s[r].m},
                   rest \in Coars(SubSeq(s, r + 1, Len(s))) } : r \in 1..Len(s) }
Cands(in, cap) == {c \in Coars(ByMean(in)) : Len(c) <= cap}

RECURSIVE TotalOver(_)
TotalOver(S) == IF S = {} THEN 0 ELSE LET x == CHOOSE y \in S : TRUE IN obj[x].total + TotalOver(S \ {x})
AllTotal == TotalOver(Live)            \* MaxN bounds the number of values accepted by all live sketches together
Next == \E i \in Ids :
          \/ i \notin Live /\ \E k \in Ks : New(i, k, Cap)
          \/ i \in Live /\ AllTotal < MaxN /\ \E v \in Vals :
                IF Len(obj[i].buf) < BufCap THEN Update(i, v, FALSE, <<>>)
                ELSE \E nc \in Cands(Items(obj[i]), Cap) : Update(i, v, TRUE, nc)
          \/ i \in Live /\ UpdateNaN(i)
          \/ i \in Live /\ obj[i].buf # <<>> /\ \E nc \in Cands(Items(obj[i]), Cap) : Compress(i, nc)
          \/ \E j \in Ids \ {i} : i \in Live /\ j \in Live /\ obj[i].total + obj[j].total <= MaxN
                /\ \E nc \in Cands(Items(obj[i]) \o Items(obj[j]), Cap) : Merge(i, j, nc)
          \/ i \in Live /\ 2 * obj[i].total <= MaxN /\ \E nc \in Cands(Items(obj[i]) \o Items(obj[i]), Cap) : MergeSelf(i, nc)
          \/ i \in Live /\ Destroy(i)
Spec == Init /\ [][Next]_vars

\* invariants = the state clauses of the property
Inv == \A i \in Live : LET o == obj[i] IN
         /\ o.total = SumW(o.cent) + Len(o.buf)                 \* weight conserved ...
         /\ o.total = o.g.cnt                                    \* ... and equal to the number of accepted values
         /\ (o.total > 0 => o.minD = o.g.lo /\ o.maxD = o.g.hi)  \* exact extremes
         /\ (~o.inf =>
              /\ SortedCent(o.cent)
              /\ \A c \in 1..Len(o.cent) : o.minD <= o.cent[c].m /\ o.cent[c].m <= o.maxD /\ o.cent[c].w > 0
              /\ \A b \in 1..Len(o.buf) : o.minD <= o.buf[b] /\ o.buf[b] <= o.maxD
              /\ Len(o.cent) <= o.cap)                          \* bounded by the reported capacity
\* the order of the buffer is irrelevant to every clause: identify states up to it
View == [i \in Live |-> [obj[i] EXCEPT !.buf = SortSeq(@, <)]]
====
