\* C08(b) ensemble semantics over THREE sketches (thorough tier): every merge shape and order over sketches whose level-0 compactors are never compacted / even non-zero / odd; section size 2, one section, no growth
\* SecSizes: section sizes by generation (code k = 12: <<12, 8, 6, 4, 4>>), InitSec: initial number of sections (code: 3)
SPECIFICATION ESpec
CONSTANTS Ids = {1, 2, 3}
 Items = {1, 2}
 SecSizes <- Sec2
 InitSec = 1
 Hras = {TRUE}
 MaxN = 13
 MergeCoin = "adopt"
INVARIANT EUnbiased ESchedule
CONSTRAINT ENBound EThree
CHECK_DEADLOCK FALSE
