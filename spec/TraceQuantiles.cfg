SPECIFICATION TSpec
CONSTANTS Ids = {} Items = {} MaxN = 0 Fams = {}
POSTCONDITION Accepted
CHECK_DEADLOCK FALSE
