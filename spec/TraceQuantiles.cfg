SPECIFICATION TSpec
CONSTANTS Ids = {} Items = {} MaxN = 0 Fams = {} CheckDesign = FALSE
POSTCONDITION Accepted
CHECK_DEADLOCK FALSE
