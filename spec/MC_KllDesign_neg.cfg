\* NEGATIVE config (bin/selftest; not part of bin/check): halve_up ignores the coin (always keeps the same parity).
\* Weight is conserved and the contract is still refined, but the martingale invariant C08(b) must be violated.
SPECIFICATION Spec
CONSTANTS Ids = {1}
 Items = {1, 2, 3}
 Ks = {4}
 M = 2
 MaxN = 6
 HalveUpParityFlip = 1
INVARIANT RepOK ShadowOK CInv Martingale
PROPERTY Refines
CONSTRAINT NBound
CHECK_DEADLOCK FALSE
