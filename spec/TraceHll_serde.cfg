\* job hll_serde (C09): everything of TraceHll.cfg plus the serialization clauses
SPECIFICATION TSpec
CONSTANTS Ids = {} LgKs = {} Coupons = {} Bigs = {} TrackFed = FALSE CheckDesign = FALSE Strict09 = TRUE SkPrefix = ""
INVARIANT TInv
POSTCONDITION Accepted
CHECK_DEADLOCK FALSE
