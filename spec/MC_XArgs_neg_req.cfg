\* X02 negative configuration (TLC must report a violation): the validation logic of the pinned tree at site req.k
SPECIFICATION Spec
CONSTANTS Variant = "shipped" Only = "req.k"
INVARIANT Conforms
CHECK_DEADLOCK FALSE
