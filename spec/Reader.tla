---- MODULE Reader ----
(***************************************************************************)
(* C11 contract: which outcomes a deserialize / wrap entry point may have  *)
(* when it is handed a truncated or corrupted image.                       *)
(*                                                                         *)
(* An image is known to the contract only through three numbers computed   *)
(* from the documented layout (harness/reader_rec.cpp, logged at Begin):   *)
(*   size     its length in bytes                                          *)
(*   infoLen  offset one past the last byte that carries information;      *)
(*            bytes infoLen..size-1 are trailing reserved padding (unused  *)
(*            preamble bytes of an empty image, unused capacity of an      *)
(*            updatable HLL array / aux area)                              *)
(*   preLen   length of the preamble (the bytes "corrupt" may change)      *)
(*                                                                         *)
(* An attempt is [mode, path, n, pos, val]:                                *)
(*   "full"    the whole image (n = size): the reference                   *)
(*   "prefix"  the first n < size bytes, as a buffer of exactly n bytes or *)
(*             a stream that ends there                                    *)
(*   "corrupt" the whole image with byte pos < preLen replaced by val      *)
(* and ends in exactly one outcome (the event the instrumentation logs).   *)
(* The property statement, clause by clause:                               *)
(*   prefix : "fails with an exception"                    -> Throw        *)
(*            "or, only where the missing tail is reserved padding that    *)
(*             carries no information, yields the very same sketch"        *)
(*                                                         -> Same iff     *)
(*                                                            n >= infoLen *)
(*            "in no case is memory outside the buffer touched" -> no OOB  *)
(*   corrupt: "either an exception or a usable sketch"     -> Throw,Usable *)
(*            "never an out-of-bounds access, an unbounded allocation, an  *)
(*             endless loop or a crash"      -> no OOB,HugeAlloc,Hang,Crash*)
(*            "a rejected image leaks no memory"           -> no Leak      *)
(* The path (bytes / stream / wrap / wwrap) does not change what is        *)
(* allowed: the statement quantifies over all of them alike.               *)
(***************************************************************************)
EXTENDS Naturals, FiniteSets, TLC
CONSTANTS MaxSize, Paths, Vals      \* bounds of Next (model checking only)
VARIABLES img, last, count
vars == <<img, last, count>>

Modes     == {"full", "prefix", "corrupt"}
Outcomes  == {"Ok", "Throw", "Same", "Different", "Usable", "OOB", "Crash", "Hang", "Leak", "HugeAlloc", "SizeMismatch"}
\* SizeMismatch: a heap block released with another size than it was allocated with (sized deallocation): undefined
\* behaviour, the allocator-level form of "never ... a crash" - refused on every path and in every mode, full included
Forbidden == {"Different", "OOB", "Crash", "Hang", "Leak", "HugeAlloc", "SizeMismatch"}     \* in every mode

NoImage == [size |-> 0, infoLen |-> 0, preLen |-> 0, loaded |-> FALSE]
None    == [mode |-> "none"]

WellFormedImage(i) == i.infoLen <= i.size /\ i.preLen <= i.size

WellFormedAttempt(i, a) ==
  CASE a.mode = "full"    -> a.n = i.size
    [] a.mode = "prefix"  -> a.n < i.size
    [] a.mode = "corrupt" -> a.n = i.size /\ a.pos >= 0 /\ a.pos < i.preLen /\ a.val >= 0 /\ a.val <= 255
    [] OTHER              -> FALSE

Allowed(i, a) ==
  CASE a.mode = "full"    -> {"Ok"}
    [] a.mode = "prefix"  -> {"Throw"} \cup (IF a.n >= i.infoLen THEN {"Same"} ELSE {})
    [] a.mode = "corrupt" -> {"Throw", "Usable"}
    [] OTHER              -> {}

(* actions *)
Load(i) == /\ WellFormedImage(i)
           /\ img' = i /\ last' = None /\ count' = 0

Attempt(a, o) == /\ img.loaded
                 /\ WellFormedAttempt(img, a)
                 /\ o \in Allowed(img, a)
                 /\ last' = [mode |-> a.mode, n |-> a.n, pos |-> a.pos, val |-> a.val, o |-> o]
                 /\ count' = count + 1
                 /\ UNCHANGED img

Init == img = NoImage /\ last = None /\ count = 0

Attempts(i) == [mode : {"full"}, path : Paths, n : {i.size}, pos : {0}, val : {0}]
          \cup [mode : {"prefix"}, path : Paths, n : 0..MaxSize, pos : {0}, val : {0}]
          \cup [mode : {"corrupt"}, path : Paths, n : {i.size}, pos : 0..MaxSize, val : Vals]

Next == \/ \E s \in 0..MaxSize, il \in 0..MaxSize, pl \in 0..MaxSize :
              Load([size |-> s, infoLen |-> il, preLen |-> pl, loaded |-> TRUE])
        \/ \E a \in Attempts(img), o \in Outcomes : Attempt(a, o)
Spec == Init /\ [][Next]_vars

(* sanity of the contract itself *)
TypeOK == /\ img.size \in 0..MaxSize /\ img.infoLen \in 0..img.size /\ img.preLen \in 0..img.size
          /\ count \in Nat
NeverForbidden == last.mode # "none" => last.o \notin Forbidden
SameOnlyOnPadding == (last.mode = "prefix" /\ last.o = "Same") => (last.n >= img.infoLen /\ last.n < img.size)
UsableOnlyCorrupt == (last.mode # "none" /\ last.o = "Usable") => (last.mode = "corrupt" /\ last.pos < img.preLen)
OkOnlyFull == (last.mode # "none" /\ last.o = "Ok") <=> (last.mode = "full")
\* the lattice: Throw is always available to a reader; no forbidden outcome is ever allowed
Lattice == \A a \in Attempts(img) :
             (img.loaded /\ WellFormedAttempt(img, a)) =>
               /\ Allowed(img, a) \cap Forbidden = {}
               /\ Allowed(img, a) # {}
               /\ (a.mode \in {"prefix", "corrupt"} => "Throw" \in Allowed(img, a))
               /\ (a.mode = "prefix" => ("Same" \in Allowed(img, a) <=> a.n >= img.infoLen))
Inv == TypeOK /\ NeverForbidden /\ SameOnlyOnPadding /\ UsableOnlyCorrupt /\ OkOnlyFull /\ Lattice
Bound == count <= 2
====
