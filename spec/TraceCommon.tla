---- MODULE TraceCommon ----
(***************************************************************************)
(* Shared prelude of every trace specification (DESIGN 3.1).               *)
(*   TRACE=<munged ndjson> tlc -workers 1 -config TraceX.cfg TraceX.tla    *)
(* The trace spec has exactly one candidate successor per logged event;    *)
(* acceptance = the search reached one state per event (POSTCONDITION      *)
(* Accepted, CHECK_DEADLOCK FALSE).  Chk prints the name of the failing    *)
(* clause; a clause name may carry the prefix "Cnn:" of the property it    *)
(* belongs to when that differs from the spec's owning property.           *)
(***************************************************************************)
EXTENDS Naturals, Sequences, FiniteSets, TLC, Json, IOUtils
VARIABLE l
Log == ndJsonDeserialize(IOEnv.TRACE)
Chk(name, c) == IF c THEN TRUE ELSE PrintT(<<"REJECT", name, l>>) /\ FALSE
\* marker of a recorded known finding (known_findings.json): the trace continues with the observed value
Known(name) == PrintT(<<"KNOWN", name, l>>)
IsEvent(k) == l <= Len(Log) /\ Log[l].e = k /\ l' = l + 1
ToSet(s) == {s[i] : i \in DOMAIN s}
Asc(s) == \A i \in 1..(Len(s) - 1) : s[i] < s[i + 1]
NonDec(s) == \A i \in 1..(Len(s) - 1) : s[i] <= s[i + 1]
Has(e, f) == f \in DOMAIN e
Accepted == /\ TLCGet("stats").diameter = Len(Log) + 1
            /\ PrintT(<<"ACCEPTED", Len(Log)>>)
====
