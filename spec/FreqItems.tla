---- MODULE FreqItems ----
(***************************************************************************)
(* Tier A contract of frequent_items_sketch (property C12), written from   *)
(* the property statement and the public documentation only.               *)
(*                                                                         *)
(* State: obj[i] for every live sketch i.                                  *)
(*   cnt    : Item -|-> Nat+   the rows as the API exposes them: cnt[x] is *)
(*            what get_lower_bound(x) / row::get_lower_bound() returns for *)
(*            a tracked item (items without a row have lower bound 0)      *)
(*   offset : what get_maximum_error() returns                             *)
(*   total  : what get_total_weight() returns                              *)
(*   lgMax  : configured lg_max_map_size                                   *)
(* Ghosts (ground truth, never taken from the implementation):             *)
(*   truth  : Item -|-> Nat+   exact weight offered per item (merge adds)  *)
(*   lgLo, lgHi : smallest / largest lg_max_map_size among the sketches    *)
(*            whose streams were merged into this one (lineage)            *)
(*                                                                         *)
(* What the property leaves open - which counters survive, by how much the *)
(* others are reduced, how the error grows - is the explicit parameter     *)
(* pair (c2, off2) of Update and Merge, constrained by exactly the clauses *)
(* of the statement (PostOK).                                              *)
(*                                                                         *)
(* Reading of two clauses (see notes/C12-report.md):                       *)
(*  - "NO_FALSE_NEGATIVES returns every item whose true weight exceeds the *)
(*    threshold": no summary can return an item it no longer tracks, and   *)
(*    the documented default threshold is get_maximum_error(); the clause  *)
(*    is taken for the effective threshold max(thr, get_maximum_error()),  *)
(*    which is also what the Java reference clamps a threshold to.         *)
(*  - "maximum error never exceeds the published epsilon times the total   *)
(*    weight": epsilon = 3.5 / 2^lg_max_map_size (documentation of         *)
(*    get_epsilon / get_apriori_error).  After a merge the smallest map in *)
(*    the lineage governs (a sketch cannot be more accurate than the       *)
(*    smallest sketch merged into it), so the clause uses 2^lgLo, and it   *)
(*    applies while every map in the lineage is no larger than the purge   *)
(*    sample (2^lgHi <= SampleSize).                                       *)
(***************************************************************************)
EXTENDS Naturals, FiniteSets, Sequences, TLC
CONSTANTS Ids, Items, Weights, LgMaxs, MaxTotal,  \* bounds used only by Next (model checking)
          WideNums      \* FALSE: weights, counters, offset and total are TLC integers (< 2^31).  TRUE: they are exact wide naturals
                        \* (module WideNum: 4 limbs of 20 bits), for traces with 64-bit weights (TraceFreqItemsW.cfg)
VARIABLE obj
vars == <<obj>>
INSTANCE WideNum
NZero == IF WideNums THEN WZero ELSE 0
NAdd(a, b) == IF WideNums THEN WAdd(a, b) ELSE a + b
NLeq(a, b) == IF WideNums THEN WLeq(a, b) ELSE a <= b
NLt(a, b) == IF WideNums THEN WLt(a, b) ELSE a < b
NMax(a, b) == IF NLeq(a, b) THEN b ELSE a

LgSample == 10       \* purge sample size 1024 = 2^10 (documented: "map sizes up to the purge sample size")

Live == DOMAIN obj
Get(f, x) == IF x \in DOMAIN f THEN f[x] ELSE NZero
Add(f, x, w) == IF x \in DOMAIN f THEN [f EXCEPT ![x] = NAdd(@, w)] ELSE f @@ (x :> w)
Plus(f, g) == [x \in DOMAIN f \cup DOMAIN g |-> NAdd(Get(f, x), Get(g, x))]
Min2(a, b) == IF a <= b THEN a ELSE b
Max2(a, b) == IF a >= b THEN a ELSE b

\* the answers of the API as functions of the abstract state
Lb(o, x)  == Get(o.cnt, x)
Ub(o, x)  == NAdd(Get(o.cnt, x), o.offset)
MaxErr(o) == o.offset
\* documented result sets of get_frequent_items (frequent_items_error_type)
FreqNFN(o, thr) == {x \in DOMAIN o.cnt : NLt(thr, NAdd(o.cnt[x], o.offset))}
FreqNFP(o, thr) == {x \in DOMAIN o.cnt : NLt(thr, o.cnt[x])}

Fresh(lg) == [lgMax |-> lg, lgLo |-> lg, lgHi |-> lg, cnt |-> <<>>, offset |-> NZero, total |-> NZero, truth |-> <<>>]

\* ---- the clauses of the statement, per object ------------------------------------------
\* lower bound <= true weight <= upper bound for EVERY item, tracked or not
Bracket(o) ==
  /\ \A x \in DOMAIN o.cnt : /\ NLt(NZero, o.cnt[x])
                             /\ NLeq(o.cnt[x], Get(o.truth, x))
                             /\ NLeq(Get(o.truth, x), NAdd(o.cnt[x], o.offset))
  /\ \A x \in DOMAIN o.truth : x \notin DOMAIN o.cnt => NLeq(o.truth[x], o.offset)
\* maximum error <= epsilon * total weight, epsilon = 3.5 / 2^lg  <=>  offset <= floor(7 total / 2^(lg+1))
\*                                                                   <=>  offset * 2^(lg+1) <= 7 total  (wide form)
EpsOK(o) == o.lgHi <= LgSample =>
  IF WideNums THEN WLeq(WMulSmall(o.offset, 2^(o.lgLo + 1)), WMulSmall(o.total, 7))
  ELSE o.offset <= (7 * o.total) \div (2^(o.lgLo + 1))
PostOK(o) == Bracket(o) /\ EpsOK(o)

Init == obj = <<>>
New(i, lg) == obj' = (i :> Fresh(lg)) @@ obj
\* post-state of update(x, w) / merge(j) with the free outcome (rows c2, maximum error off2)
UpdPost(o, x, w, c2, off2) == [o EXCEPT !.truth = Add(@, x, w), !.total = NAdd(@, w), !.cnt = c2, !.offset = off2]
MergePost(o, p, c2, off2) ==
  [o EXCEPT !.truth = Plus(@, p.truth), !.total = NAdd(@, p.total), !.cnt = c2, !.offset = off2,
            !.lgLo = IF p.total = NZero THEN @ ELSE Min2(@, p.lgLo),
            !.lgHi = IF p.total = NZero THEN @ ELSE Max2(@, p.lgHi)]
Update(i, x, w, c2, off2) ==
  /\ i \in Live /\ NLt(NZero, w)
  /\ LET n == UpdPost(obj[i], x, w, c2, off2)
     IN /\ PostOK(n)
        /\ obj' = [obj EXCEPT ![i] = n]
\* "a count of zero is a no-op"
UpdateZero(i) == i \in Live /\ UNCHANGED obj
\* "a negative count will throw an exception" (signed / floating weight types; also NaN and infinite weights): the call is
\* refused and nothing was offered, so no observable changes
UpdateRefused(i) == i \in Live /\ UNCHANGED obj
\* i.merge(j): everything offered to j is now also offered to i; j is not changed
Merge(i, j, c2, off2) ==
  /\ i \in Live /\ j \in Live /\ i # j
  /\ LET n == MergePost(obj[i], obj[j], c2, off2)
     IN /\ PostOK(n)
        /\ obj' = [obj EXCEPT ![i] = n]
Copy(i, j) == i \in Live /\ obj' = (j :> obj[i]) @@ [x \in Live \ {j} |-> obj[x]]
Destroy(i) == i \in Live /\ obj' = [x \in Live \ {i} |-> obj[x]]

\* ---- bounded next-state relation for model checking ------------------------------------
PartialFns(S, V) == UNION {[D -> V] : D \in SUBSET S}
Next == \E i \in Ids :
          \/ \E lg \in LgMaxs : i \notin Live /\ New(i, lg)
          \/ \E x \in Items, w \in Weights, c2 \in PartialFns(Items, 1..MaxTotal), off2 \in 0..MaxTotal :
                Update(i, x, w, c2, off2)
          \/ UpdateZero(i)
          \/ UpdateRefused(i)
          \/ \E j \in Ids, c2 \in PartialFns(Items, 1..MaxTotal), off2 \in 0..MaxTotal : Merge(i, j, c2, off2)
          \/ \E j \in Ids : i # j /\ j \notin Live /\ Copy(i, j)
          \/ Destroy(i)
Spec == Init /\ [][Next]_vars

\* ---- invariants = the property's clauses (consequences checked by TLC) -----------------
RECURSIVE SumF(_)
SumF(f) == IF DOMAIN f = {} THEN 0
           ELSE LET x == CHOOSE y \in DOMAIN f : TRUE IN f[x] + SumF([y \in DOMAIN f \ {x} |-> f[y]])
Est(o, x) == IF x \in DOMAIN o.cnt THEN o.cnt[x] + o.offset ELSE 0   \* any value in [Lb, Ub] honours the statement
Inv == \A i \in Live : LET o == obj[i]  U == DOMAIN o.truth \cup DOMAIN o.cnt \cup Items IN
         /\ PostOK(o)
         /\ \A x \in U : /\ Lb(o, x) <= Get(o.truth, x) /\ Get(o.truth, x) <= Ub(o, x)
                         /\ Lb(o, x) <= Est(o, x) /\ Est(o, x) <= Ub(o, x)
                         /\ Ub(o, x) - Lb(o, x) = MaxErr(o)
         /\ o.total = SumF(o.truth)
         /\ o.lgLo <= o.lgMax /\ o.lgMax <= o.lgHi
         \* result-set guarantees for every threshold
         /\ \A thr \in 0..(o.total + 1) :
              /\ {x \in DOMAIN o.truth : o.truth[x] > Max2(thr, MaxErr(o))} \subseteq FreqNFN(o, thr)
              /\ FreqNFP(o, thr) \subseteq {x \in DOMAIN o.truth : o.truth[x] > thr}
====
