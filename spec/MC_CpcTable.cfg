\* items of 4 bits (16 items), tables of 4 and 8 slots (growth at load > 3/4, shrinking at load < 1/4), every sequence of
\* maybe_insert / maybe_delete with at most 6 items stored
SPECIFICATION Spec
CONSTANTS ValidBits = 4
 MinLg = 2
 MaxLg = 3
 Wrap = TRUE
INVARIANT TableOK AnswerOK
PROPERTY Refines
CHECK_DEADLOCK FALSE
