\* model of the REPAIRED code (dirty marker written through by update; query_and_update keeps a dirty count dirty;
\* union/intersect/invert refuse read-only views): must refine the contract.  <= 6 calls, 3 filter slots (thorough tier).
SPECIFICATION MCSpecR
CONSTANTS FltIds = {f1, f2, f3}
 MemIds = {1}
 Cfgs <- MCCfgs
 Items <- MCItems
 MaxCalls = 6
 WriteDirtyThrough = TRUE
 QauKeepsDirty = TRUE
 RoCheckSetOps = TRUE
 RemarkWhenDirty = TRUE
SYMMETRY Sym
INVARIANT CountOK CInv
CONSTRAINT MCBound
VIEW NoOut
CHECK_DEADLOCK FALSE
