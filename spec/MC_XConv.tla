---- MODULE MC_XConv ----
(***************************************************************************)
(* X03 - finite case analysis: for every small sketch value (items 1..3,   *)
(* weights 1..2, up to MaxLen entries) and every conversion F: 1..3 ->     *)
(* 1..MaxImg that is order preserving, the image under F answers every     *)
(* rank query (inclusive and exclusive) and every quantile query as the    *)
(* source does, transported by F.  Strict = TRUE: injective conversions    *)
(* (the theorem).  Strict = FALSE: conversions that merge items - the rank *)
(* equality must FAIL (negative configuration: why the recorded            *)
(* conversions are injective on the retained items).                       *)
(***************************************************************************)
EXTENDS XConv
CONSTANTS MaxLen, MaxImg, Strict
VARIABLES v, f
Items == 1..3
RECURSIVE SeqsUpTo(_)
SeqsUpTo(n) == IF n = 0 THEN {<<>>} ELSE LET S == SeqsUpTo(n - 1) IN S \cup {Append(s, <<x, w>>) : s \in {t \in S : Len(t) = n - 1}, x \in Items, w \in 1..2}
RECURSIVE CumSeq(_, _)
CumSeq(ws, i) == IF i = 0 THEN <<>> ELSE LET c == CumSeq(ws, i - 1) IN Append(c, (IF i = 1 THEN 0 ELSE c[i - 1]) + ws[i])
Mk(s) == LET it == [i \in 1..Len(s) |-> s[i][1]]  cw == CumSeq([i \in 1..Len(s) |-> s[i][2]], Len(s)) IN
         [n |-> cw[Len(s)], k |-> 8, est |-> \E i \in 1..Len(s) : s[i][2] > 1, empty |-> FALSE, it |-> it, cw |-> cw, min |-> it[1], max |-> it[Len(s)]]
Values == {Mk(s) : s \in {t \in SeqsUpTo(MaxLen) : Len(t) > 0 /\ \A i \in 1..(Len(t) - 1) : t[i][1] < t[i + 1][1] \/ (t[i][1] = t[i + 1][1] /\ t[i][2] <= t[i + 1][2])}}
Maps == {g \in [Items -> 1..MaxImg] : \A x, y \in Items : x < y => (IF Strict THEN g[x] < g[y] ELSE g[x] <= g[y])}

Img(s, g) == [s EXCEPT !.it = [i \in DOMAIN s.it |-> g[s.it[i]]], !.min = g[s.min], !.max = g[s.max]]

Init == v \in Values /\ f \in Maps
Next == UNCHANGED <<v, f>>
Spec == Init /\ [][Next]_<<v, f>>

ImageIsImage == LET F(x) == f[x] IN WellFormed(v) /\ WellFormed(Img(v, f)) /\ ImageOf(v, Img(v, f), F)
RanksCommute == \A x \in Items, incl \in BOOLEAN : RankNum(Img(v, f), f[x], incl) = RankNum(v, x, incl)
QuantilesCommute == \A num \in 1..N(v) : QuantileAt(Img(v, f), num) = f[QuantileAt(v, num)]
\* what survives a merging conversion: the inclusive rank can only grow, the exclusive rank only shrink
RanksBracket == \A x \in Items : RankNum(Img(v, f), f[x], TRUE) >= RankNum(v, x, TRUE) /\ RankNum(Img(v, f), f[x], FALSE) <= RankNum(v, x, FALSE)
====
