---- MODULE TraceVarOpt ----
(***************************************************************************)
(* Trace validation of recorded executions of var_opt_sketch and           *)
(* var_opt_union against the VarOpt contract (C16) and the Serde clauses   *)
(* of C09.  One successor per event: the free sample of the contract's     *)
(* Update / UnionResult is bound to the logged iteration.                  *)
(*                                                                         *)
(* The logged projection s of a sketch is what iteration exposes (see       *)
(* harness/varopt_rec.cpp).  It is classified here, by the specification:  *)
(* an item whose iterated weight differs from its stream weight is a       *)
(* reservoir item; all such items must carry one common weight tau         *)
(* ("common-tau"); R = the items iterated with that weight, H = the rest,  *)
(* twr = round(tau * |R|) with the rounding residual checked               *)
(* (|residual| <= 1e-9 * total + 1e-6).                                    *)
(***************************************************************************)
EXTENDS VarOpt, TraceCommon, Integers
VARIABLES blob
tvars == <<obj, un, l, blob>>

Both(n1, n2, c) == IF c THEN TRUE ELSE PrintT(<<"REJECT", n1, l>>) /\ PrintT(<<"REJECT", n2, l>>) /\ FALSE

Pos(s) == 1..Len(s.x)
Xs(s) == ToSet(s.x)
NonExact(s, st) == {p \in Pos(s) : s.wI[p] # st[s.x[p]]}
TauG(s, st) == LET ne == NonExact(s, st) IN IF ne = {} THEN 0 ELSE s.g[CHOOSE p \in ne : TRUE]
ROf(s, st) == LET t == TauG(s, st) IN {s.x[p] : p \in {q \in Pos(s) : s.g[q] = t}}
HOf(s, st) == LET t == TauG(s, st) IN
              [y \in {s.x[p] : p \in {q \in Pos(s) : s.g[q] # t}} |-> s.wI[CHOOSE p \in Pos(s) : s.x[p] = y]]
TwrOf(s, st) == LET t == TauG(s, st) IN IF t = 0 THEN 0 ELSE s.gw[t]
\* |v - round(v)| <= 1e-9 * total + 1e-6, residual logged in 1e-6 units
Tiny(res, tot) == res * 1000 <= tot + 1000

\* the logged projection is well formed with respect to the stream st (total tot)
WF(s, st, tot) ==
  /\ Chk("num_samples=iterated", s.ns = Len(s.x))
  /\ Chk("no-duplicate-items", Cardinality(Xs(s)) = Len(s.x))
  /\ Chk("sample-from-input", Xs(s) \subseteq DOMAIN st)
  /\ LET t == TauG(s, st) IN
       /\ Chk("common-tau", \A p \in NonExact(s, st) : s.g[p] = t)
       /\ Chk("tau*r-integral", t = 0 \/ (s.gw[t] >= 0 /\ Tiny(s.gres[t], tot)))
\* the clauses of the statement on the resulting value (same operators as the contract's action, named)
Clauses(new) ==
  /\ Chk("size=min(n,k)", SizeOK(new))
  /\ Chk("weight-conserved", WeightConserved(new))
  /\ Chk("heavy-kept-exactly", HeavyKept(new))
Scal(s, o) == Chk("n", s.n = o.n) /\ Chk("k", s.k = o.k)
\* the logged projection shows exactly the model value o
SameVal(s, o) ==
  /\ WF(s, o.stream, o.tot)
  /\ Chk("projection", HOf(s, o.stream) = o.H /\ ROf(s, o.stream) = o.R /\ TwrOf(s, o.stream) = o.twr)
  /\ Scal(s, o)
NoThrow(e) == Chk("no-throw", ~Has(e, "threw"))
\* a valid image that cannot be restored breaks C09 and the family's own property ("x serialization points"): both are named
NoThrowRestore(e) == IF ~Has(e, "threw") THEN TRUE
                     ELSE PrintT(<<"REJECT", "C09:restore-no-throw", l>>) /\ PrintT(<<"REJECT", "C16:serialization-point-restorable", l>>) /\ FALSE

TBegin == IsEvent("Begin") /\ obj' = <<>> /\ un' = <<>> /\ blob' = <<>>
TNew == IsEvent("New") /\ LET e == Log[l] IN New(e.id, e.k) /\ UNCHANGED blob
TNewInvalid == IsEvent("NewInvalid") /\ LET e == Log[l] IN
                 Chk("invalid-k-refused", e.refused) /\ Refused /\ UNCHANGED blob
TUNewInvalid == IsEvent("UNewInvalid") /\ LET e == Log[l] IN
                 Chk("invalid-max_k-refused", e.refused) /\ Refused /\ UNCHANGED blob
UpdateEv(e, id) ==
  /\ NoThrow(e)
  /\ LET o == obj[id]
         st == (e.x :> e.w) @@ o.stream
         Hn == HOf(e.s, st)  Rn == ROf(e.s, st)  tw == TwrOf(e.s, st)
         new == Post(o, e.x, e.w, Hn, Rn, tw)
     IN /\ WF(e.s, st, o.tot + e.w)
        /\ Clauses(new)
        /\ Scal(e.s, new)
        /\ Update(id, e.x, e.w, Hn, Rn, tw)
  /\ UNCHANGED blob
TUpdate == IsEvent("Update") /\ UpdateEv(Log[l], Log[l].id)
\* events of the design-conformance recordings (one sketch, id 0; also replayed through TraceVarOptDesign)
TDNew == IsEvent("DNew") /\ New(0, Log[l].k) /\ UNCHANGED blob
TDUpdate == IsEvent("DUpdate") /\ UpdateEv(Log[l], 0)
\* an update with weight 0 is ignored: nothing observable changes (UpdateIgnored of the contract)
TUpdateZero == IsEvent("UpdateZero") /\ LET e == Log[l] IN
  /\ NoThrow(e)
  /\ Chk("zero-weight-ignored:is_empty", e.empty = (obj[e.id].n = 0))
  /\ SameVal(e.s, obj[e.id])
  /\ UpdateIgnored(e.id) /\ UNCHANGED blob
TUpdateInvalid == IsEvent("UpdateInvalid") /\ LET e == Log[l] IN
  /\ Chk("invalid-weight-refused", e.refused)
  /\ SameVal(e.s, obj[e.id])
  /\ Refused /\ UNCHANGED blob
TObs == IsEvent("Obs") /\ LET e == Log[l]  o == obj[e.id] IN
  /\ NoThrow(e)
  /\ SameVal(e.s, o)
  \* the same sample through another traversal idiom (copied iterators, std algorithms)
  /\ (Has(e, "sx") => Chk("traversal-idioms-agree", e.sx.x = e.s.x /\ e.sx.wI = e.s.wI /\ e.sx.g = e.s.g /\ e.sx.gw = e.s.gw) /\ SameVal(e.sx, o))
  /\ \A j \in 1..Len(e.sub) : LET q == e.sub[j] IN
       /\ Both("bounds", "C06:bounds", q.lb <= q.est /\ q.est <= q.ub)
       /\ (q.p = "all" =>
             /\ Chk("estimate-over-everything=total", q.estI = EstimateAll(o) /\ Tiny(q.estRes, o.tot))
             /\ Chk("total-sketch-weight", q.twI = o.tot /\ Tiny(q.twRes, o.tot)))
  /\ UNCHANGED <<obj, un, blob>>
TCopy == IsEvent("Copy") /\ LET e == Log[l] IN
  /\ Copy(e.src, e.dst) /\ SameVal(e.s, obj'[e.dst]) /\ UNCHANGED blob
TReset == IsEvent("Reset") /\ LET e == Log[l] IN
  /\ Reset(e.id) /\ SameVal(e.s, obj'[e.id]) /\ UNCHANGED blob
TDrop == IsEvent("Drop") /\ LET e == Log[l] IN Destroy(e.id) /\ UNCHANGED blob

\* ---- serialization (C09) ----
SerOK(e) == /\ NoThrow(e)
            /\ Chk("C09:bytes=stream", e.img = e.simg)
            /\ Chk("C09:advertised-size", e.size = e.advertised)
            /\ Chk("C09:header", e.total = e.hdr + e.size)
TSer == IsEvent("Ser") /\ LET e == Log[l] IN
  /\ SerOK(e)
  /\ blob' = (e.blob :> [kind |-> "sk", val |-> obj[e.id], img |-> e.img, size |-> e.size]) @@ blob
  /\ UNCHANGED <<obj, un>>
TDeser == IsEvent("Deser") /\ LET e == Log[l]  b == blob[e.blob] IN
  /\ NoThrowRestore(e)
  /\ SameVal(e.s, b.val)
  /\ Chk("C09:consumed", e.consumed = b.size)
  /\ Chk("C09:reserialize", e.reimg = b.img)
  /\ obj' = (e.dst :> b.val) @@ obj /\ UNCHANGED <<un, blob>>
TSerU == IsEvent("SerU") /\ LET e == Log[l] IN
  /\ SerOK(e)
  /\ blob' = (e.blob :> [kind |-> "un", val |-> un[e.u], img |-> e.img, size |-> e.size]) @@ blob
  /\ UNCHANGED <<obj, un>>
TDeserU == IsEvent("DeserU") /\ LET e == Log[l]  b == blob[e.blob] IN
  /\ NoThrowRestore(e)
  /\ Chk("C09:consumed", e.consumed = b.size)
  /\ Chk("C09:reserialize", e.reimg = b.img)
  /\ un' = (e.u :> b.val) @@ un /\ UNCHANGED <<obj, blob>>

\* a truncated image, or one with a non-positive stored weight, is refused (clause of C11 exercised by this driver)
TDeserBad == IsEvent("DeserBad") /\ Chk("C11:damaged-image-refused", Log[l].refused) /\ UNCHANGED <<obj, un, blob>>

\* ---- union ----
TUNew == IsEvent("UNew") /\ LET e == Log[l] IN UnionNew(e.u, e.maxk) /\ UNCHANGED blob
TUUpdate == IsEvent("UUpdate") /\ LET e == Log[l] IN
  /\ NoThrow(e) /\ UnionUpdate(e.u, e.id) /\ UNCHANGED blob
TUResult == IsEvent("UResult") /\ LET e == Log[l] IN
  /\ NoThrow(e)
  /\ LET v == un[e.u]
         Hn == HOf(e.s, v.stream)  Rn == ROf(e.s, v.stream)  tw == TwrOf(e.s, v.stream)
         new == ResultValue(v, e.s.k, Hn, Rn, tw)
     IN /\ WF(e.s, v.stream, v.tot)
        /\ Chk("result-n=sum-of-n", e.s.n = v.n)
        /\ Chk("result-k<=max_k", e.s.k >= 1 /\ e.s.k <= v.maxK)
        /\ Clauses(new)
        /\ Chk("result-items-from-input-samples", Sample(new) \subseteq v.pool)
        /\ UnionResult(e.u, e.dst, e.s.k, Hn, Rn, tw)
  /\ UNCHANGED blob
TUCopy == IsEvent("UCopy") /\ LET e == Log[l] IN NoThrow(e) /\ UnionCopy(e.src, e.dst) /\ UNCHANGED blob
TUReset == IsEvent("UReset") /\ LET e == Log[l] IN UnionReset(e.u) /\ UNCHANGED blob
TUDrop == IsEvent("UDrop") /\ LET e == Log[l] IN UnionDestroy(e.u) /\ UNCHANGED blob

\* ---- unbiasedness: subset-sum estimates over T seeded runs of one fixed stream (Stats verdict) ----
\* est[j][t] = round(estimate of predicate j in run t).  With d_t = est - truth, D = sum d_t, Q = sum d_t^2:
\* accept iff |D| <= 6 * sqrt(Q) + T/2 + 1  (6 standard errors of the mean, centred at the truth, plus the
\* worst-case rounding drift of T/2 and one unit); all integers, |d_t| <= 100 by construction of the driver.
RECURSIVE SumTo(_, _), SumSqTo(_, _, _), SumDevTo(_, _, _)
SumTo(s, i) == IF i = 0 THEN 0 ELSE s[i] + SumTo(s, i - 1)
SumDevTo(s, c, i) == IF i = 0 THEN 0 ELSE (s[i] - c) + SumDevTo(s, c, i - 1)
SumSqTo(s, c, i) == IF i = 0 THEN 0 ELSE (s[i] - c) * (s[i] - c) + SumSqTo(s, c, i - 1)
Abs(x) == IF x < 0 THEN 0 - x ELSE x
Verdict6(D, Q, slack) == LET a == Abs(D) IN a <= slack \/ (a - slack <= 46340 /\ (a - slack) * (a - slack) <= 36 * Q)
TStat == IsEvent("Stat") /\ LET e == Log[l]  tot == SumTo(e.w, Len(e.w)) IN
  /\ NoThrow(e)
  /\ Chk("stat-driver-range", tot <= 100 /\ e.T <= 400)
  /\ \A j \in 1..Len(e.preds) :
       LET truth == SumTo([i \in 1..Len(e.preds[j]) |-> e.w[e.preds[j][i]]], Len(e.preds[j]))
           es == e.est[j]
       IN /\ Chk("estimate-within-[0,total]", \A t \in 1..Len(es) : es[t] >= 0 /\ es[t] <= tot)
          /\ Chk("unbiased-subset-sum", Len(es) = e.T /\ Verdict6(SumDevTo(es, truth, e.T), SumSqTo(es, truth, e.T), e.T \div 2 + 1))
  /\ UNCHANGED <<obj, un, blob>>

\* inclusion of the first items arriving after a checkpoint (copy / assignment / restore) of a pure-reservoir sketch:
\* each of the `arrivals` new items is in the final sample with probability k / (n + arrivals); 6 sigma binomial band + 1
StatAbs(x) == IF x < 0 THEN 0 - x ELSE x
TStatIncl == IsEvent("StatIncl") /\ LET e == Log[l]  den == e.n + e.arrivals IN
  /\ NoThrow(e)
  /\ Chk("stat-driver-range", e.T <= 2000 /\ e.k <= 16 /\ den <= 64 /\ e.k < e.n)
  /\ \A h \in 1..Len(e.how) : \A a \in 1..e.arrivals :
       LET dev == StatAbs(e.counts[h][a] * den - e.T * e.k) IN
       Chk("inclusion-after-checkpoint", dev <= den \/ (dev - den <= 46340 /\ (dev - den) * (dev - den) <= 36 * e.T * e.k * (den - e.k)))
  /\ UNCHANGED <<obj, un, blob>>

TInit == obj = <<>> /\ un = <<>> /\ blob = <<>> /\ l = 1
TNext == TBegin \/ TDNew \/ TDUpdate \/ TNew \/ TNewInvalid \/ TUNewInvalid \/ TUpdate \/ TUpdateZero \/ TUpdateInvalid \/ TObs \/ TCopy \/ TReset \/ TDrop
         \/ TSer \/ TDeser \/ TDeserBad \/ TSerU \/ TDeserU \/ TUNew \/ TUUpdate \/ TUResult \/ TUReset \/ TUCopy \/ TUDrop \/ TStat \/ TStatIncl
TSpec == TInit /\ [][TNext]_tvars
====
