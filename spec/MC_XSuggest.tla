---- MODULE MC_XSuggest ----
(***************************************************************************)
(* X05 - finite case analysis of the acceptance predicates themselves: for *)
(* every argument of a grid the bracket is non-empty, at most 1 + the      *)
(* stated tolerance wide, contains the value computed from the constant    *)
(* one scale finer, and the purpose of the helper follows from it (the     *)
(* suggested number of buckets gives e / w <= eps; one bucket less does    *)
(* not).                                                                   *)
(***************************************************************************)
EXTENDS XSuggest
VARIABLES fn, p, q
Ps == 1..60 \cup {64, 100, 127, 128, 500, 790, 791, 1000, 2000, 4096, 10000, 65536, 100000, 790000, 1000000, 40000000}
Qs == {1, 2, 3, 7, 10, 100, 1000}
Init == fn \in {"buckets", "bloomNM", "bits", "hashesP", "hashes"} /\ p \in Ps /\ q \in (IF fn \in {"buckets", "bloomNM"} THEN Qs ELSE IF fn = "bits" THEN FppDens ELSE {1})
Next == UNCHANGED <<fn, p, q>>
Spec == Init /\ [][Next]_<<fn, p, q>>

C(f, d) == IF f = "buckets" THEN E6 ELSE IF f = "bloomNM" THEN LN2x6 ELSE C6(d)
QQ == IF fn = "bits" THEN 1 ELSE q
Width(S) == IF S = 1000000 THEN 1 ELSE 1 + p \div (QQ * S) + 1
BracketSane ==
  fn \in {"buckets", "bloomNM", "bits"} =>
    LET c == C(fn, q)  S == ScaleFor(p, QQ, c) IN
    S = 0 \/ (/\ Lo(p, QQ, c) <= Hi(p, QQ, c)
              /\ Hi(p, QQ, c) - Lo(p, QQ, c) <= Width(S)
              /\ Lo(p, QQ, c) >= 1)
\* purpose of suggest_num_buckets: w buckets give relative error e / w <= eps = q / p, w - 1 buckets do not (at scale 1e6)
BucketsPurpose ==
  (fn = "buckets" /\ ScaleFor(p, q, E6) = 1000000) =>
    \A w \in Lo(p, q, E6)..Hi(p, q, E6) :
      /\ BucketsOK(w, p, q)
      /\ (w * q <= 2000 => w * q * 1000000 >= E6 * p /\ (w - 2) * q * 1000000 <= (E6 + 1) * p)
\* exact cases of the power-of-two rule
HashesPExact == fn = "hashesP" => LET A == {k \in 0..31 : BloomHashesP_OK(k, p)} IN
                  A /= {} /\ (\A x, y \in A : x - y \in {-1, 0, 1}) /\ (p \notin {2^i : i \in 0..30} => \A x, y \in A : x = y)
\* ceil(ln(p)) from the table of e^d: exactly one or two adjacent values are accepted
HashesCMSane == (fn = "hashes" /\ p <= 2000000) => LET A == {d \in 0..15 : HashesOK(d, 1, p)} IN A /= {} /\ \A x, y \in A : x - y \in {-1, 0, 1}
====
