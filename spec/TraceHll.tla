---- MODULE TraceHll ----
(***************************************************************************)
(* Trace validation of recorded executions of hll_sketch (harness/         *)
(* hll_rec.cpp) against the Hll contract (C03), the bound-coherence        *)
(* clauses of C06 and the serialization clauses of C09.  One successor per *)
(* event: every free choice of the contract (the representation after a    *)
(* step) is bound to the logged value; coupons are the harness's REFERENCE *)
(* coupons <<addr, val>>.                                                  *)
(*                                                                         *)
(* Strict09 (cfg): TraceHll_serde.cfg (job hll_serde, run by C09) enforces *)
(* the clauses named "C09:..."; TraceHll.cfg (job hll, run by C03) only    *)
(* evaluates the clauses of C03/C06 - a failing C09 clause would not be    *)
(* reported under C03 anyway (core.attribute) and must not hide the rest   *)
(* of the segment from the C03 validation.                                 *)
(***************************************************************************)
EXTENDS Hll, TraceCommon
CONSTANTS CheckDesign,  \* TRUE only in the tier-B configuration (TraceHllB.cfg): keep a design-level shadow state (HllMech) per
                        \* sketch and compare it with the PHYSICAL state of the sketch's own image; clauses "B:..." = MODEL-DRIFT
          Strict09,
          SkPrefix    \* "" when the sketch clauses belong to the owning property (C03), "C03:" when the trace belongs to C04
VARIABLES hist, blob, sh
tvars == <<obj, l, hist, blob, sh>>

\* sketches above this lg_k get the sparse ghost (Hll.tla: big)
DenseMaxLgK == 16
(* ---------------- tier B: design-level shadow ---------------- *)
M == INSTANCE HllMech WITH ListSize <- 8, SetMinLgK <- 8, LgInitSet <- 5, SetLgDelta <- 3, AuxToken <- 15, ShiftBack <- 14   \* the code's values
ShadowMaxLgK == 12
NoSh == [mode |-> 0 - 1]
Sup(d) == d.mode >= 0
ShInit(t, full, lgk) == IF lgk <= ShadowMaxLgK THEN M!DInit(t, full, lgk) ELSE NoSh
\* the next shadow map (only computed in tier B)
ShSet(f) == IF CheckDesign THEN f ELSE sh
\* physical observation p of the sketch's own image against the shadow record d; s = the slot the last coupon fell into
PhysOK(p, d, lgK, s) == (CheckDesign /\ Sup(d) /\ p.m >= 0) =>
  /\ Chk("B:mode", p.m = d.mode)
  /\ (d.mode = 0 /\ p.m = 0) => Chk("B:list-array", p.list = d.list /\ p.cnt = Len(d.list))
  /\ (d.mode = 1 /\ p.m = 1) => /\ Chk("B:set-count", p.cnt = Cardinality(d.set))
                                /\ Chk("B:set-lg-size", p.lg = d.setLg)
  /\ (d.mode = 2 /\ p.m = 2) =>
        /\ Chk("B:cur-min", p.cm = IF d.type = 4 THEN d.h.curMin ELSE 0)
        /\ Chk("B:num-at-cur-min", p.nac = d.h.nac)
        /\ Chk("B:stored-slot", p.raw = M!RawArr(d.type, d.h, s))
        /\ d.type = 4 => Chk("B:aux-table", /\ p.auxn = Cardinality(DOMAIN d.h.aux)
                                            /\ ToSet(p.aux) = {<<x, d.h.aux[x]>> : x \in DOMAIN d.h.aux})
        /\ Has(p, "arr") => Chk("B:stored-array", \A x \in 0..(2^lgK - 1) : p.arr[x + 1] = M!RawArr(d.type, d.h, x))

Chk9(name, c) == IF ~Strict09 THEN TRUE ELSE Chk(name, c)
ChkS(name, c) == IF c THEN TRUE ELSE Chk(SkPrefix \o name, c)

(* ghost: the sequence of coupons offered since construction / reset, kept in chunks so that appending is cheap; *)
(* the chunking is a function of the sequence, so equal histories are equal values                               *)
EmptyHist == [done |-> <<>>, cur |-> <<>>]
HAppend(hs, c) == IF Len(hs.cur) = 63 THEN [done |-> Append(hs.done, Append(hs.cur, c)), cur |-> <<>>]
                  ELSE [hs EXCEPT !.cur = Append(@, c)]

Class(m) == IF m = HLL THEN 1 ELSE 0
\* two live sketches whose contract states say that they hold the same logical content in the same kind of representation
\* (sparse ghosts: equal coupon sets - sufficient for equal registers and cheap)
SameState(a, b) == /\ obj[a].lgK = obj[b].lgK /\ Class(obj[a].mode) = Class(obj[b].mode)
                   /\ obj[a].big = obj[b].big
                   /\ (IF obj[a].big THEN obj[a].fed = obj[b].fed ELSE Content(obj[a]) = Content(obj[b]))
                   /\ obj[a].empty = obj[b].empty
\* ... and were fed in the same order, starting from the same kind of representation
SameOrder(a, b) == SameState(a, b) /\ hist[a] = hist[b] /\ obj[a].full = obj[b].full

\* published relative standard error in ppm for lg_k 4..21: 0.8325546 / sqrt(k) for the in-order (HIP) estimate, 1.03896 / sqrt(k)
\* for the composite estimate of an out-of-order sketch (hll.hpp / HllUtil.hpp documentation constants)
RsePpmHip == <<208139, 147176, 104069, 73588, 52035, 36794, 26017, 18397, 13009, 9199, 6504, 4599, 3252, 2300, 1626, 1150, 813, 575>>
RsePpmNonHip == <<259740, 183664, 129870, 91832, 64935, 45916, 32468, 22958, 16234, 11479, 8117, 5739, 4058, 2870, 2029, 1435, 1015, 717>>
RsePpm(lgK, ooo) == IF ooo THEN RsePpmNonHip[lgK - 3] ELSE RsePpmHip[lgK - 3]
\* HLL mode: the relative half-widths of the sd-sigma bounds (r.ubW / r.lbW in ppm of the estimate) lie within a factor [1/2, 2] of
\* sd * RSE(lg_k) - every row of the bounds tables (lg_k x in-order / out-of-order x lb / ub x sd): sign flips and gross typos.
\* A lower bound clipped at the number of non-zero slots is only required not to be too wide.
WidthOK(r, lgK, retained) ==
  \A k \in 1..3 : LET w == k * RsePpm(lgK, r.ooo) IN
    /\ 2 * r.ubW[k] >= w /\ r.ubW[k] <= 2 * w
    /\ r.lbW[k] <= 2 * w /\ (r.lbF[k] > retained + 1 => 2 * r.lbW[k] >= w)
\* C06(a) on one projection r of a sketch whose contract state is o
BoundsOK(r, o) ==
  \* C03 itself: lower bound <= estimate <= upper bound for 1..3 standard deviations
  /\ ChkS("bounds-bracket-estimate", \A k \in 1..3 : r.lb[k] <= r.est /\ r.est <= r.ub[k])
  /\ Chk("C06:bound-width", (r.cmode = HLL /\ r.estF > 0) => WidthOK(r, o.lgK, NonZero(o)))
  /\ Chk("C06:bounds", /\ r.lb[3] <= r.lb[2] /\ r.lb[2] <= r.lb[1] /\ r.lb[1] <= r.est
                       /\ r.est <= r.ub[1] /\ r.ub[1] <= r.ub[2] /\ r.ub[2] <= r.ub[3])
  /\ LET retained == IF r.cmode = HLL THEN NonZero(o) ELSE Cardinality(o.fed) IN
     Chk("C06:lb>=retained", \A k \in 1..3 : r.lbF[k] >= retained)
  \* coupon modes: the estimate is the distinct coupon count up to the documented interpolation correction
  /\ Chk("C06:coupon-estimate", r.cmode # HLL => LET n == Cardinality(o.fed) IN r.estF >= n /\ r.estF <= n + n \div 1000 + 1)
  /\ Chk("C06:empty-estimate", o.empty => r.estF = 0)

\* logged projection r of a real sketch against the contract state o
ProjOK(r, o) ==
  /\ ChkS("lg_k", r.lgk = o.lgK /\ r.lgkApi = o.lgK)
  /\ ChkS("target-type", r.type = o.type /\ r.typeApi = o.type)
  /\ ChkS("full-size-flag", r.full = o.full)
  /\ ChkS("mode", r.mode = o.mode)
  /\ ChkS("copy-mode", ModeOK(o, r.cmode))
  /\ ChkS("empty", r.empty = o.empty)
  /\ IF r.cmode = HLL
     THEN IF Has(r, "nz")      \* sparse observation (lg_k > 16): the non-zero registers as <<slot, value>> pairs
          THEN ChkS("registers", /\ o.big /\ Len(r.nz) = Cardinality(ToSet(r.nz))
                                 /\ PairsMatch(ToSet(r.nz), o.fed, o.lgK))
          ELSE ChkS("registers", /\ Len(r.regs) = 2^o.lgK
                                 /\ IF o.big THEN PairsMatch({<<x - 1, r.regs[x]>> : x \in {y \in DOMAIN r.regs : r.regs[y] > 0}}, o.fed, o.lgK)
                                    ELSE \A s \in DOMAIN o.top : r.regs[s + 1] = o.top[s])
     ELSE /\ ChkS("coupons", ToSet(r.coup) = o.fed)
          /\ ChkS("no-duplicate-coupons", Len(r.coup) = Cardinality(o.fed) /\ r.cnt = Len(r.coup))
  /\ BoundsOK(r, o)

\* estimates of two observed objects a, b (records with id, est, cest)
PairOK(ra, rb) ==
  /\ ChkS("composite-estimate-agrees", SameState(ra.id, rb.id) => ra.cest = rb.cest)
  /\ ChkS("in-order-estimate-agrees", SameOrder(ra.id, rb.id) => ra.est = rb.est)

TBegin == IsEvent("Begin") /\ obj' = <<>> /\ hist' = <<>> /\ blob' = <<>> /\ sh' = <<>>
TNew == IsEvent("New") /\ LET e == Log[l] IN
          /\ New(e.id, e.lgk, e.type, e.full, e.mode, e.lgk > DenseMaxLgK)
          /\ ChkS("empty", e.empty)
          /\ hist' = (e.id :> EmptyHist) @@ hist /\ UNCHANGED blob
          /\ sh' = ShSet((e.id :> ShInit(e.type, e.full, e.lgk)) @@ sh)
\* a sketch deserialized from a coupon-list image written by hand following the documented layout (coupon values up to 63)
TCraft == IsEvent("Craft") /\ LET e == Log[l] IN
          /\ NewFed(e.dst, e.lgk, e.type, FALSE, e.cs, e.r.mode, e.lgk > DenseMaxLgK)
          /\ hist' = (e.dst :> SeqFold(HAppend, EmptyHist, e.cs)) @@ hist
          /\ sh' = ShSet((e.dst :> IF e.lgk <= ShadowMaxLgK THEN SeqFold(LAMBDA d, c : M!DStep(d, e.lgk, c), M!DInit(e.type, FALSE, e.lgk), e.cs) ELSE NoSh) @@ sh)
          /\ ProjOK(e.r, obj'[e.dst])
          /\ (CheckDesign /\ Has(e.r, "ph")) => PhysOK(e.r.ph, sh'[e.dst], e.lgk, 0)
          /\ UNCHANGED blob
\* get_lower_bound / get_upper_bound with a number of standard deviations outside 1..3 must be refused (C06: invalid arguments)
TBadArg == IsEvent("BadArg") /\ LET e == Log[l] IN
          /\ Has(e, "id")
          /\ Chk("C06:invalid-num-std-dev-refused", e.threw)
          /\ UNCHANGED <<obj, hist, blob, sh>>
TUpdate == IsEvent("Update") /\ LET e == Log[l]  c == <<e.c[1], e.c[2]>>  ids == ToSet(e.ids) IN
          /\ UpdateAll(e.ids, c, e.m)
          /\ \A n \in DOMAIN e.ids : LET o == obj'[e.ids[n]] IN
               /\ ChkS("empty", e.em[n] = o.empty)
               /\ ChkS("slot-value", (e.sv[n] >= 0 => e.sv[n] = SlotVal(o, SlotOf(c, o.lgK))) /\ ((o.mode = HLL /\ ~o.big) => e.sv[n] >= 0))
          /\ hist' = [j \in DOMAIN hist |-> IF j \in ids THEN HAppend(hist[j], c) ELSE hist[j]]
          /\ UNCHANGED blob
          /\ sh' = ShSet([j \in DOMAIN sh |-> IF j \in ids /\ Sup(sh[j]) THEN M!DStep(sh[j], obj[j].lgK, c) ELSE sh[j]])
          /\ \A n \in DOMAIN e.ids : PhysOK(e.ph[n], sh'[e.ids[n]], obj[e.ids[n]].lgK, SlotOf(c, obj[e.ids[n]].lgK))
TFeed == IsEvent("Feed") /\ LET e == Log[l] IN
          /\ FeedMany(e.id, e.cs, e.mode)
          /\ ChkS("empty", e.empty = obj'[e.id].empty)
          /\ hist' = [hist EXCEPT ![e.id] = SeqFold(HAppend, @, e.cs)]
          /\ UNCHANGED blob
          /\ sh' = ShSet([sh EXCEPT ![e.id] = IF Sup(@) THEN SeqFold(LAMBDA d, c : M!DStep(d, obj[e.id].lgK, c), @, e.cs) ELSE @])
          /\ (Has(e, "ph") => PhysOK(e.ph, sh'[e.id], obj[e.id].lgK, SlotOf(e.cs[Len(e.cs)], obj[e.id].lgK)))
TUpdateIgnored == IsEvent("UpdateIgnored") /\ LET e == Log[l] IN
          /\ \A n \in DOMAIN e.ids : /\ UpdateIgnored(e.ids[n])
                                     /\ ChkS("mode", e.m[n] = obj[e.ids[n]].mode)
                                     /\ ChkS("empty", e.em[n] = obj[e.ids[n]].empty)
          /\ UNCHANGED <<obj, hist, blob, sh>>
TObs == IsEvent("Obs") /\ LET e == Log[l] IN
          /\ \A n \in DOMAIN e.objs : ProjOK(e.objs[n], obj[e.objs[n].id])
          /\ \A n, k \in DOMAIN e.objs : n < k => PairOK(e.objs[n], e.objs[k])
          /\ Has(e, "ref") => \A n \in DOMAIN e.objs : PairOK(e.ref, e.objs[n])
          /\ \A n \in DOMAIN e.objs : LET r == e.objs[n] IN
               (CheckDesign /\ Has(r, "ph")) => PhysOK(r.ph, sh[r.id], obj[r.id].lgK, 0)
          /\ UNCHANGED <<obj, hist, blob, sh>>
TConvert == IsEvent("Convert") /\ LET e == Log[l] IN
          /\ ConvertCopy(e.src, e.dst, e.type, e.r.mode)
          /\ hist' = (e.dst :> hist[e.src]) @@ hist
          /\ ProjOK(e.r, obj'[e.dst])
          \* same content => same composite estimate; the conversion keeps the in-order estimate
          /\ ChkS("composite-estimate-agrees", Class(obj'[e.dst].mode) = Class(obj[e.src].mode) => e.r.cest = e.ref.cest)
          /\ ChkS("in-order-estimate-agrees", Class(obj'[e.dst].mode) = Class(obj[e.src].mode) => e.r.est = e.ref.est)
          /\ UNCHANGED blob
          /\ sh' = ShSet((e.dst :> IF Sup(sh[e.src]) THEN M!DConvert(sh[e.src], obj[e.src].lgK, e.type) ELSE NoSh) @@ sh)
          /\ (CheckDesign /\ Has(e.r, "ph")) => PhysOK(e.r.ph, sh'[e.dst], obj[e.src].lgK, 0)
TCopy == IsEvent("Copy") /\ LET e == Log[l] IN
          /\ Copy(e.src, e.dst)
          /\ hist' = (e.dst :> hist[e.src]) @@ hist
          /\ ProjOK(e.r, obj'[e.dst])
          /\ ChkS("copy-estimates", e.r.cest = e.ref.cest /\ e.r.est = e.ref.est /\ e.r.lb = e.ref.lb /\ e.r.ub = e.ref.ub)
          /\ UNCHANGED blob
          /\ sh' = ShSet((e.dst :> sh[e.src]) @@ sh)
          /\ (CheckDesign /\ Has(e.r, "ph")) => PhysOK(e.r.ph, sh'[e.dst], obj[e.src].lgK, 0)
TReset == IsEvent("Reset") /\ LET e == Log[l] IN
          /\ Reset(e.id, e.mode)
          /\ ChkS("empty", e.empty)
          /\ hist' = [hist EXCEPT ![e.id] = EmptyHist] /\ UNCHANGED blob
          /\ sh' = ShSet([sh EXCEPT ![e.id] = IF Sup(@) THEN M!DReset(@, obj[e.id].full, obj[e.id].lgK) ELSE @])
TSer == IsEvent("Ser") /\ LET e == Log[l] IN
          /\ Chk9("C09:bytes=stream", e.img = e.simg)
          /\ Chk9("C09:advertised-size", e.size = e.advertised)
          /\ Chk9("C09:header", e.total = e.hdr + e.size /\ e.img = e.img0)
          /\ Chk9("C09:max-size", e.maxsize >= 0 => e.size <= e.maxsize)
          /\ blob' = (e.blob :> [st |-> obj[e.src], hist |-> hist[e.src], size |-> e.size, canon |-> e.canon, p |-> e.p,
                                      sh |-> IF CheckDesign THEN sh[e.src] ELSE NoSh]) @@ blob
          /\ UNCHANGED <<obj, hist, sh>>
TDeser == IsEvent("Deser") /\ LET e == Log[l]  b == blob[e.blob] IN
          /\ Restore(e.dst, b.st)
          /\ hist' = (e.dst :> b.hist) @@ hist
          /\ (Strict09 => ProjOK(e.r, b.st))
          /\ Chk9("C09:estimates-restored", e.r.est = b.p.est /\ e.r.cest = b.p.cest /\ e.r.lb = b.p.lb /\ e.r.ub = b.p.ub)
          /\ Chk9("C09:consumed", e.consumed = b.size)
          /\ Chk9("C09:reserialize", e.recanon = b.canon)
          /\ UNCHANGED blob
          \* the restored sketch is expected to have the physical state of its source (same thresholds => same sizes)
          /\ sh' = ShSet((e.dst :> b.sh) @@ sh)
          /\ (CheckDesign /\ Has(e.r, "ph")) => PhysOK(e.r.ph, b.sh, b.st.lgK, 0)

TInit == obj = <<>> /\ l = 1 /\ hist = <<>> /\ blob = <<>> /\ sh = <<>>
SkNext == TNew \/ TCraft \/ TBadArg \/ TUpdate \/ TFeed \/ TUpdateIgnored \/ TObs \/ TConvert \/ TCopy \/ TReset \/ TSer \/ TDeser
TNext == TBegin \/ SkNext
TSpec == TInit /\ [][TNext]_tvars
\* cheap state invariant for validation runs (the full Inv recomputes SlotMax and is model-checked in MC_Hll instead)
TInv == \A i \in DOMAIN obj : (obj[i].mode = HLL /\ ~obj[i].big) => obj[i].fed = {}
====
