---- MODULE TraceCoin ----
(***************************************************************************)
(* C08(a): the contract "Unbiased" over an exhaustive coin tree of the     *)
(* REAL classes (harness/coin_rec.cpp).  A segment is one scenario: Begin  *)
(* (the offered stream, the probe values, the number f of fair-coin flips  *)
(* the scenario draws), one Leaf per coin string (flips consumed, and      *)
(* W(leaf, v) = rank(v) * n for every probe v, inclusive and exclusive),   *)
(* Verdict.  Clauses:                                                      *)
(*   - every leaf consumes exactly f flips (the number of flips does not   *)
(*     depend on their outcomes) and all 2^f strings are present;          *)
(*   - sum over leaves of W(leaf, v) = 2^f * TrueWeight(v), exactly, where *)
(*     TrueWeight(v) is computed here from the logged stream: the rank     *)
(*     estimate averaged over all outcomes equals the true rank.           *)
(* `choices` (default 1) is the number of equally likely outcome sequences  *)
(* of randomness that is not the coin (the stride offsets of the classic   *)
(* down-sampling merge, enumerated by seeding random_utils::rand): the     *)
(* leaves are then all 2^f * choices combinations.                         *)
(* Stream values are D tokens (only compared); weights are integers and    *)
(* every sum stays below 2^31 (2^16 leaves x n <= 400).                    *)
(***************************************************************************)
EXTENDS TraceCommon
VARIABLES f, choices, stream, probes, accLe, accLt, leaves,
          fl0     \* [call index, cumulative flips, ...] of the first leaf: the flip count of each call is a function of the call index only
tvars == <<l, f, choices, stream, probes, accLe, accLt, leaves, fl0>>

TrueWeight(v, incl) == Cardinality({j \in DOMAIN stream : IF incl THEN stream[j] <= v ELSE stream[j] < v})

TBegin == IsEvent("Begin") /\ LET e == Log[l] IN
            /\ Chk("harness:stream-length", Len(e.stream) = e.n /\ e.f >= 0 /\ e.f <= 16)
            /\ choices' = (IF Has(e, "choices") THEN e.choices ELSE 1)
            /\ fl0' = <<>>
            /\ f' = e.f /\ stream' = e.stream /\ probes' = e.probes /\ leaves' = 0
            /\ accLe' = [i \in DOMAIN e.probes |-> 0] /\ accLt' = [i \in DOMAIN e.probes |-> 0]
TLeaf == IsEvent("Leaf") /\ LET e == Log[l] IN
            /\ Chk("flip-count-independent-of-outcomes", e.flips = f)
            /\ Chk("per-call-flip-count-independent-of-outcomes", leaves = 0 \/ e.fl = fl0)
            /\ fl0' = (IF leaves = 0 THEN e.fl ELSE fl0)
            /\ Chk("n", e.n = Len(stream))
            /\ Chk("rank-is-weight/n", e.exact)
            /\ Chk("harness:leaf-order", e.leaf = leaves /\ e.coins = leaves % 2^f)
            /\ Chk("non-coin-randomness-drawn-as-enumerated", e.drawsok)
            /\ accLe' = [i \in DOMAIN probes |-> accLe[i] + e.le[i]]
            /\ accLt' = [i \in DOMAIN probes |-> accLt[i] + e.lt[i]]
            /\ leaves' = leaves + 1 /\ UNCHANGED <<f, choices, stream, probes>>
TVerdict == IsEvent("Verdict") /\ LET e == Log[l] IN
            /\ Chk("all-coin-strings", leaves = 2^f * choices /\ e.leaves = leaves)
            /\ \A i \in DOMAIN probes :
                 /\ Chk("unbiased-inclusive-rank", accLe[i] = leaves * TrueWeight(probes[i], TRUE))
                 /\ Chk("unbiased-exclusive-rank", accLt[i] = leaves * TrueWeight(probes[i], FALSE))
            /\ UNCHANGED <<f, choices, stream, probes, accLe, accLt, leaves, fl0>>
TInit == l = 1 /\ f = 0 /\ fl0 = <<>> /\ choices = 1 /\ stream = <<>> /\ probes = <<>> /\ accLe = <<>> /\ accLt = <<>> /\ leaves = 0
TNext == TBegin \/ TLeaf \/ TVerdict
TSpec == TInit /\ [][TNext]_tvars
====
