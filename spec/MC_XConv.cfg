\* X03: every small sketch value (up to 4 entries) x 10 strictly increasing conversions {1,2,3} -> 1..5: rank and quantile queries commute with the conversion
SPECIFICATION Spec
CONSTANTS MaxLen = 4 MaxImg = 5 Strict = TRUE
INVARIANT ImageIsImage
INVARIANT RanksCommute
INVARIANT QuantilesCommute
INVARIANT RanksBracket
CHECK_DEADLOCK FALSE
