\* X09: ceiling_power_of_2 (16-bit scale) for 0..40000, lg_size_from_count for n <= 4096 x 3 load factors, string layout for 57 sequences
SPECIFICATION Spec
CONSTANT LoadFactors <- LFs
INVARIANT CeilOK
INVARIANT LgOK
INVARIANT StrOK
CHECK_DEADLOCK FALSE
