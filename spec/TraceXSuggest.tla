---- MODULE TraceXSuggest ----
(***************************************************************************)
(* X05 - trace validation of the sizing helpers of count-min and of the    *)
(* Bloom filter builder against XSuggest.                                  *)
(***************************************************************************)
EXTENDS XSuggest, TraceCommon
VARIABLES mode, prev
tvars == <<l, mode, prev>>

TBegin == IsEvent("Begin") /\ mode' = Log[l].mode /\ prev' = 0

\* sweep in DEcreasing eps: ceil(e / eps) never decreases; a value that cannot be represented is refused, not wrapped
TCmBuckets == IsEvent("CmBuckets") /\ LET e == Log[l] IN
  /\ Chk("no-other-exception", e.out \in {"ok", "invalid_argument"})
  /\ Chk("buckets-formula", (e.out = "ok" /\ e.p > 0 /\ e.w >= 0) => BucketsOK(e.w, e.p, e.q))
  /\ Chk("representable-request-answered", e.p > 0 => e.out = "ok")
  /\ Chk("buckets-monotone-in-eps", (e.out = "ok" /\ ~e.first) => prev <= e.wH)
  /\ Chk("buckets-achieve-relative-error", (e.out = "ok" /\ e.hasRel) => e.rel <= e.eps)
  /\ prev' = (IF e.out = "ok" THEN e.wH ELSE prev) /\ UNCHANGED mode

\* sweep in INcreasing confidence: ceil(ln(1 / (1 - conf))) never decreases (confidence 1 included: documented range [0, 1])
TCmHashes == IsEvent("CmHashes") /\ LET e == Log[l] IN
  /\ Chk("no-other-exception", e.out \in {"ok", "invalid_argument"})
  /\ Chk("confidence-in-range-answered", e.out = "ok")
  /\ Chk("hashes-formula", (e.out = "ok" /\ e.den > 0) => HashesOK(e.d, e.num, e.den))
  /\ Chk("hashes-monotone-in-confidence", (e.out = "ok" /\ ~e.first) => prev <= e.d)
  /\ prev' = (IF e.out = "ok" THEN e.d ELSE prev) /\ UNCHANGED mode

TRefuse == IsEvent("Refuse") /\ Chk("invalid-arguments-refused", Log[l].out = "invalid_argument") /\ UNCHANGED <<mode, prev>>

TBloomNM == IsEvent("BloomNM") /\ LET e == Log[l] IN
  /\ Chk("bloom-hashes-answered", e.out = "ok")
  /\ Chk("bloom-hashes-for-size-formula", BloomHashesNM_OK(e.k, e.n, e.m))
  /\ UNCHANGED <<mode, prev>>
TBloomP == IsEvent("BloomP") /\ LET e == Log[l] IN
  /\ Chk("bloom-hashes-answered", e.out = "ok")
  /\ Chk("bloom-hashes-for-fpp-formula", BloomHashesP_OK(e.k, e.den))
  /\ UNCHANGED <<mode, prev>>
TBloomBits == IsEvent("BloomBits") /\ LET e == Log[l] IN
  /\ Chk("bloom-bits-answered", e.out = "ok" /\ e.bits >= 0)
  /\ Chk("bloom-bits-formula", BloomBitsOK(e.bits, e.n, e.den))
  /\ UNCHANGED <<mode, prev>>
\* create_by_accuracy = create_by_size with the suggested numbers
TBloomCreate == IsEvent("BloomCreate") /\ LET e == Log[l] IN
  /\ Chk("suggestions-follow-formulas", BloomBitsOK(e.sugBits, e.n, e.den) /\ BloomHashesP_OK(e.sugHashes, e.den))
  /\ Chk("by-accuracy-uses-suggested-hashes", e.hashesAcc = e.sugHashes /\ e.hashesSize = e.sugHashes)
  /\ Chk("by-accuracy-holds-suggested-bits", CapacityOK(e.capAcc, e.sugBits) /\ CapacityOK(e.capSize, e.sugBits))
  /\ Chk("by-accuracy-equals-by-size", e.capAcc = e.capSize /\ e.imgAcc = e.imgSize /\ e.usedAcc = e.usedSize)
  /\ Chk("no-false-negatives", e.allIn)
  /\ UNCHANGED <<mode, prev>>
TBloomSize == IsEvent("BloomSize") /\ LET e == Log[l] IN
  /\ Chk("by-size-shape", CapacityOK(e.cap, e.bits) /\ e.h = e.hashes /\ e.empty)
  /\ UNCHANGED <<mode, prev>>

TInit == l = 1 /\ mode = "" /\ prev = 0
TNext == TBegin \/ TCmBuckets \/ TCmHashes \/ TRefuse \/ TBloomNM \/ TBloomP \/ TBloomBits \/ TBloomCreate \/ TBloomSize
TSpec == TInit /\ [][TNext]_tvars
====
