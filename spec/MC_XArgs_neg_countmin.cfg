\* X02 negative configuration (TLC must report a violation): the validation logic of the pinned tree at site countmin.shape
SPECIFICATION Spec
CONSTANTS Variant = "shipped" Only = "countmin.shape"
INVARIANT Conforms
CHECK_DEADLOCK FALSE
