\* X03: conversions that may merge items (weakly increasing): the image is still an image, quantiles still commute, ranks only bracket
SPECIFICATION Spec
CONSTANTS MaxLen = 3 MaxImg = 3 Strict = FALSE
INVARIANT ImageIsImage
INVARIANT QuantilesCommute
INVARIANT RanksBracket
CHECK_DEADLOCK FALSE
