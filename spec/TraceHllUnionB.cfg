\* tier B of job hllunion: shadow design state of every input sketch (HllMech) and shadow gadget of every union (HllUnionMech,
\* the code's thresholds and case analysis) compared with the physical state the images expose; rejection = MODEL-DRIFT
SPECIFICATION TUSpec
CONSTANTS Ids = {} LgKs = {} Coupons = {} Bigs = {} TrackFed = FALSE CheckDesign = TRUE Strict09 = FALSE SkPrefix = "C03:"
INVARIANT TInv
POSTCONDITION Accepted
CHECK_DEADLOCK FALSE
