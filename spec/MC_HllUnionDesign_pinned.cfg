\* NEGATIVE config: the pinned isEmpty() (trusts stale counters) together with the pinned copy_or_downsample (rebuild left
\* pending; with the rebuild of fix 96157e7 the counters are current and the old isEmpty() is harmless).  TLC must report
\* EmptyOK violated.
SPECIFICATION Spec
CONSTANTS LgMaxK = 2
 Inputs <- Catalogue
 Items <- MCItems
 PromoteCount <- PC2
 FixedIsEmpty = FALSE
 FixedReset = TRUE
 FixedDownsampleKxq = FALSE
INVARIANT ResultOK EmptyOK CountersOK HipOK UInvOK
PROPERTY Refines
CHECK_DEADLOCK FALSE
