\* NEGATIVE config: the pinned isEmpty() (trusts stale counters after down-sampling).  TLC must report ResultOK violated.
SPECIFICATION Spec
CONSTANTS LgMaxK = 2
 Inputs <- Catalogue
 Items <- MCItems
 PromoteCount <- PC2
 FixedIsEmpty = FALSE
 FixedReset = TRUE
INVARIANT ResultOK EmptyOK CountersOK UInvOK
PROPERTY Refines
CHECK_DEADLOCK FALSE
