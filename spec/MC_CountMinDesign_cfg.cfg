\* count-min design model: two configurations of different shape (1 x 4 and 3 x 3), both with arbitrary hash functions,
\* zero-weight updates, merges between the configurations and self merges must be refused and change nothing.
SPECIFICATION Spec
CONSTANTS Ids = {1, 2}
 Items = {1, 2}
 Weights = {0, 1}
 Cfgs <- Cfg1x4_3x3
 FreeCfgs <- Cfg1x4_3x3
 MaxTotal = 2
 Mode = "min"
INVARIANT EstInv CInv
PROPERTY Refines
CONSTRAINT Bound
CHECK_DEADLOCK FALSE
