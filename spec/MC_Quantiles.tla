---- MODULE MC_Quantiles ----
\* bounded instance of the multi-object quantiles contract: two sketches, updates, merges (lvalue / rvalue), observations;
\* every bag of pairs the clauses admit is a candidate post-state
EXTENDS Quantiles
====
