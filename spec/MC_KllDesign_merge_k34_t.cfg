\* two sketches, k in {3, 4}: merges with unequal k (thorough tier), minimum level width 2 (code: 8), items 1..2, every pair of streams with at most 8 items in total,
\* every interleaving of updates / sort-on-read with merges in both directions (lvalue and rvalue) and continued updates,
\* every coin string of every merge (general_compress compacts inside merges from 8 items on for k = 3)
SPECIFICATION Spec
CONSTANTS Ids = {1, 2}
 Items = {1, 2}
 Ks = {3, 4}
 M = 2
 MaxN = 8
 HalveUpParityFlip = 0
INVARIANT RepOK ShadowOK CInv Martingale
PROPERTY Refines
CONSTRAINT NBound
CHECK_DEADLOCK FALSE
