\* X08: widths 1..8 x every value x offsets 0..7 x 3 states of the first byte: the transcribed pack_bits / unpack_bits satisfy the contract,
\* round trip, and sequential packing gives the bytes Layout.tla defines
SPECIFICATION Spec
CONSTANT MaxW = 8
INVARIANT PackConforms
INVARIANT RoundTrip
INVARIANT SequenceIsLayout
CHECK_DEADLOCK FALSE
