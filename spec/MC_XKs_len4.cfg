\* X01: every ordered pair of non-empty sorted views with items 1..3, weights 1..2, at most 4 entries (350^2 pairs; thorough tier):
\* the contract's evaluation equals the definition, is symmetric, within [0,1], 0 on identical views, 1 on separated supports;
\* the shipped merge walk is never below the contract and exact when the two views share no item; the group walk is exact.
SPECIFICATION Spec
CONSTANTS MaxItem = 3 MaxWeight = 2 MaxLen = 4
INVARIANT Inv
INVARIANT WalkNeverBelow
INVARIANT WalkExactWithoutSharedItems
INVARIANT WalkGExact
CHECK_DEADLOCK FALSE
