\* count-min design model refining the contract, for EVERY row hash function H (up to bucket renaming).
\* Ids: two sketches and a third that can serve as witness of their merge; Items/Weights: update alphabet;
\* Cfgs: [rows, buckets, seed]; FreeCfgs: configurations whose hash function is arbitrary;
\* MaxTotal: bound on weight and number of updates per sketch (merge results may exceed it and are not extended); Mode "min" = the code
SPECIFICATION Spec
CONSTANTS Ids = {1, 2, 3}
 Items = {1, 2}
 Weights = {1, 2}
 Cfgs <- Cfg2x3
 FreeCfgs <- Cfg2x3
 MaxTotal = 3
 Mode = "min"
INVARIANT EstInv CInv
PROPERTY Refines
CONSTRAINT Bound
CHECK_DEADLOCK FALSE
