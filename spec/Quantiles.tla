---- MODULE Quantiles ----
(***************************************************************************)
(* Tier A contract of the three quantile sketch families (property C07):   *)
(* kll_sketch, req_sketch and the classic quantiles_sketch, written from   *)
(* the property statement and the public documentation only.               *)
(*                                                                         *)
(* Items are abstract totally ordered values: the RANK of the item under   *)
(* the sketch's comparator.  Every formula uses only =, <, <= on them, so  *)
(* a trace whose items were renamed order-isomorphically (also through a   *)
(* reversing comparator on strings) satisfies the contract iff the raw one *)
(* does.  Weights, counts, n and k are plain integers.                     *)
(*                                                                         *)
(* State: obj[i] for every live sketch i.                                  *)
(*   ghost, fixed by the inputs:  all (exact multiset of accepted items,   *)
(*       a function item -> count), n, minI, maxI                          *)
(*   what the public API exposes and the property leaves FREE, subject to  *)
(*   the clause table (DESIGN 6/C07): k, est (is_estimation_mode),         *)
(*       nret (get_num_retained), used/bound (the space the sketch itself  *)
(*       publishes: serialized size vs get_max_serialized_size_bytes for   *)
(*       KLL, retained vs the capacity to_string reports for REQ; the      *)
(*       classic sketch's retained count is a documented function of n,k), *)
(*       pairs (what iteration returns: the bag of <<item, weight>>).      *)
(* A bag of pairs is a sequence of <<item, weight, count>> triples in      *)
(* strictly ascending (item, weight) order - a canonical form, so equal    *)
(* bags are equal sequences.  pairs = NoObs means "iteration was not       *)
(* observed in this state" (traces log the full projection only at some    *)
(* events, DESIGN 4.2); every clause on pairs is conditional on it.        *)
(*                                                                         *)
(* The freedom is the explicit parameter `post` of every mutator (the      *)
(* observed post-state); Next quantifies it over a finite candidate set,   *)
(* trace validation and refinement pass the logged / design post-state.    *)
(***************************************************************************)
EXTENDS Naturals, Sequences, FiniteSets, TLC
LOCAL INSTANCE SequencesExt      \* FoldLeft, SelectInSeq (iterative Java implementations: long sequences, no deep recursion)
CONSTANTS Ids, Items, MaxN, Fams       \* bounds used only by Next (model checking)
VARIABLE obj
vars == <<obj>>

Live == DOMAIN obj
NoObs == << <<0, 0, 0>> >>
Min2(a, b) == IF a <= b THEN a ELSE b
Max2(a, b) == IF a >= b THEN a ELSE b

-----------------------------------------------------------------------------
(* bags of items: functions item -> count >= 1 *)
MsEmpty == <<>>
MsAdd(b, x) == IF x \in DOMAIN b THEN [b EXCEPT ![x] = @ + 1] ELSE (x :> 1) @@ b
MsCnt(b, x) == IF x \in DOMAIN b THEN b[x] ELSE 0
MsUnion(a, b) == [x \in DOMAIN a \cup DOMAIN b |-> MsCnt(a, x) + MsCnt(b, x)]
RECURSIVE SetSum(_, _)
SetSum(S, f) == IF S = {} THEN 0 ELSE LET x == CHOOSE y \in S : TRUE IN f[x] + SetSum(S \ {x}, f)
MsSize(b) == SetSum(DOMAIN b, b)
MsMin(b) == CHOOSE x \in DOMAIN b : \A y \in DOMAIN b : x <= y
MsMax(b) == CHOOSE x \in DOMAIN b : \A y \in DOMAIN b : x >= y

(* bags of <<item, weight>> pairs in canonical form *)
SeqSum(s, F(_)) == FoldLeft(LAMBDA acc, x : acc + F(x), 0, s)
TripleLess(a, b) == a[1] < b[1] \/ (a[1] = b[1] /\ a[2] < b[2])
Canonical(p) == /\ \A i \in 1..(Len(p) - 1) : TripleLess(p[i], p[i + 1])
                /\ \A i \in DOMAIN p : p[i][3] >= 1
Retained(p) == SeqSum(p, LAMBDA t : t[3])
TotalWeight(p) == SeqSum(p, LAMBDA t : t[2] * t[3])
Pow2(w) == \E j \in 0..30 : w = 2^j
PopCount(x) == Cardinality({j \in 0..30 : (x \div 2^j) % 2 = 1})
\* the bag {<<x,1>> : x in all}
ExactPairs(all, p) == /\ Len(p) = Cardinality(DOMAIN all)
                      /\ \A i \in DOMAIN p : p[i][2] = 1 /\ p[i][1] \in DOMAIN all /\ p[i][3] = all[p[i][1]]

-----------------------------------------------------------------------------
(* sorted view operators over an observed bag of pairs (documentation of    *)
(* get_rank / get_quantile / get_CDF / get_PMF), in integer weight units    *)
\* weight of the retained items <= x (inclusive) or < x (exclusive)
RankW(p, x, incl) == SeqSum(p, LAMBDA t : IF (incl /\ t[1] <= x) \/ (~incl /\ t[1] < x) THEN t[2] * t[3] ELSE 0)
\* cumulative weights along the canonical (ascending) order
CumW(p) == FoldLeft(LAMBDA acc, t : Append(acc, (IF acc = <<>> THEN 0 ELSE acc[Len(acc)]) + t[2] * t[3]), <<>>, p)
\* normalized rank r with r * n in [lo, hi], lo = floor, hi = ceil of r * n (equal when r * n is an integer):
\* inclusive criterion: smallest item whose inclusive weight is >= ceil(r n); exclusive: smallest item whose
\* inclusive weight is > floor(r n), the largest item if there is none.  c = CumW(p).
QuantileC(p, c, lo, hi, incl) ==
  LET idx == IF incl THEN SelectInSeq(c, LAMBDA a : a >= hi) ELSE SelectInSeq(c, LAMBDA a : a > lo)
  IN IF idx = 0 THEN p[Len(p)][1] ELSE p[idx][1]
QuantileW(p, lo, hi, incl) == QuantileC(p, CumW(p), lo, hi, incl)
\* CDF over split points sp (a sequence): ranks of the split points, then the total; PMF: differences
CdfW(p, n, sp, incl) == [i \in 1..(Len(sp) + 1) |-> IF i <= Len(sp) THEN RankW(p, sp[i], incl) ELSE n]
PmfW(p, n, sp, incl) == LET c == CdfW(p, n, sp, incl) IN [i \in 1..(Len(sp) + 1) |-> IF i = 1 THEN c[1] ELSE c[i] - c[i - 1]]

-----------------------------------------------------------------------------
(* the clause table; o is a (candidate) object value *)
SpaceOK(o) == IF o.fam = "classic"
              THEN o.nret = (o.n % (2 * o.k)) + o.k * PopCount(o.n \div (2 * o.k))
              ELSE o.used <= o.bound
\* <<name, holds>> per clause: one source of truth for the actions, the invariant and the trace specification
Clauses(o) == <<
  <<"space-bound", SpaceOK(o)>>,
  <<"exact-mode-retains-all", ~o.est => o.nret = o.n>>,
  <<"retained<=n", o.nret <= o.n>>,
  <<"pairs-canonical-form", o.pairs # NoObs => Canonical(o.pairs)>>,
  <<"iteration-yields-num-retained", o.pairs # NoObs => Retained(o.pairs) = o.nret>>,
  <<"weights-sum-to-n", o.pairs # NoObs => TotalWeight(o.pairs) = o.n>>,
  <<"weights-powers-of-two", o.pairs # NoObs => \A i \in DOMAIN o.pairs : Pow2(o.pairs[i][2])>>,
  <<"items-from-stream", o.pairs # NoObs => \A i \in DOMAIN o.pairs : o.pairs[i][1] \in DOMAIN o.all>>,
  <<"exact-mode-pairs", (o.pairs # NoObs /\ ~o.est) => ExactPairs(o.all, o.pairs)>> >>
\* the observed scalars that the ghost determines: n = number of accepted items, exact extremes
GhostClauses(o, post) == <<
  <<"n", post.n = o.n>>,
  <<"min-item", o.n > 0 => post.minI = o.minI>>,
  <<"max-item", o.n > 0 => post.maxI = o.maxI>> >>
AllHold(cl) == \A c \in DOMAIN cl : cl[c][2]
ObjOK(o) == AllHold(Clauses(o))

\* the free part of the state is taken from the observed post-state
WithObs(o, post) == [o EXCEPT !.k = post.k, !.est = post.est, !.nret = post.nret, !.used = post.used,
                              !.bound = post.bound, !.pairs = post.pairs]
Fresh(fam, k) == [fam |-> fam, k |-> k, n |-> 0, all |-> MsEmpty, minI |-> 0, maxI |-> 0, est |-> FALSE,
                  nret |-> 0, used |-> 0, bound |-> 0, pairs |-> NoObs]
AfterUpdate(o, v) == [o EXCEPT !.all = MsAdd(@, v), !.n = @ + 1,
                               !.minI = IF o.n = 0 THEN v ELSE Min2(@, v), !.maxI = IF o.n = 0 THEN v ELSE Max2(@, v)]
AfterMerge(o, s) == IF s.n = 0 THEN o
                    ELSE [o EXCEPT !.all = MsUnion(@, s.all), !.n = @ + s.n,
                                   !.minI = IF o.n = 0 THEN s.minI ELSE Min2(@, s.minI),
                                   !.maxI = IF o.n = 0 THEN s.maxI ELSE Max2(@, s.maxI)]

(* published error after merges (C07 / C08): the k a sketch derives its published rank error from - KLL "min K", the     *)
(* classic sketch's k - is never larger than the smallest k that contributed COMPACTED data.  ck is that ghost: Big while  *)
(* nothing compacted contributed; an estimating sketch contributes its own k.  Kept by the trace specification per object. *)
Big == 1000000
CkUpdate(ck, est, k) == IF est THEN Min2(ck, k) ELSE ck
CkMerge(cki, ckj, est, k) == CkUpdate(Min2(cki, ckj), est, k)
PublishedKOK(fam, pk, ck, est) == (fam # "req" /\ est) => pk <= ck

Init == obj = <<>>
New(i, fam, post) == LET o == WithObs(Fresh(fam, post.k), post) IN
  /\ AllHold(GhostClauses(o, post)) /\ ObjOK(o)
  /\ obj' = (i :> o) @@ obj
Update(i, v, post) ==
  /\ i \in Live
  /\ LET o == WithObs(AfterUpdate(obj[i], v), post) IN
     /\ AllHold(GhostClauses(o, post)) /\ ObjOK(o)
     /\ obj' = [obj EXCEPT ![i] = o]
\* a rejected item (NaN): nothing changes
UpdateIgnored(i) == i \in Live /\ UNCHANGED obj
\* i.merge(j); rv: j was passed as an rvalue and is dead afterwards
Merge(i, j, rv, post) ==
  /\ i \in Live /\ j \in Live /\ i # j /\ obj[i].fam = obj[j].fam
  /\ LET o == WithObs(AfterMerge(obj[i], obj[j]), post) IN
     /\ AllHold(GhostClauses(o, post)) /\ ObjOK(o)
     /\ obj' = IF rv THEN [x \in Live \ {j} |-> IF x = i THEN o ELSE obj[x]] ELSE [obj EXCEPT ![i] = o]
\* an observation (iteration, getters) of a sketch that was not mutated: only the free part is refreshed
Observe(i, post) ==
  /\ i \in Live
  /\ LET o == WithObs(obj[i], post) IN
     /\ AllHold(GhostClauses(o, post)) /\ ObjOK(o)
     /\ obj' = [obj EXCEPT ![i] = o]
Copy(i, j) == i \in Live /\ obj' = (j :> obj[i]) @@ obj
Destroy(i) == i \in Live /\ obj' = [x \in Live \ {i} |-> obj[x]]

-----------------------------------------------------------------------------
(* bounded next-state relation for model checking the contract itself: the  *)
(* candidate post-states are ALL bags over Items x {1,2} that satisfy the *)
(* clauses, so the exploration covers every implementation the contract     *)
(* admits within the bound.                                                 *)
Weights == {1, 2}
Keys == Items \X Weights
KeySeq == LET ord(a, b) == TripleLess(a, b)
              RECURSIVE Sort(_)
              Sort(S) == IF S = {} THEN <<>> ELSE LET m == CHOOSE x \in S : \A y \in S \ {x} : ord(x, y) IN <<m>> \o Sort(S \ {m})
          IN Sort(Keys)
ToPairs(f) == LET idx == {i \in DOMAIN KeySeq : f[KeySeq[i]] > 0}
                  RECURSIVE Build(_)
                  Build(S) == IF S = {} THEN <<>> ELSE LET m == CHOOSE x \in S : \A y \in S : x <= y IN
                                <<<<KeySeq[m][1], KeySeq[m][2], f[KeySeq[m]]>>>> \o Build(S \ {m})
              IN Build(idx)
CandPairs(n) == {ToPairs(f) : f \in {g \in [Keys -> 0..MaxN] : SetSum(Keys, [key \in Keys |-> g[key] * key[2]]) = n}}
CandPost(fam, k, n, mn, mx) ==
  {[k |-> k, n |-> n, minI |-> mn, maxI |-> mx, est |-> e, nret |-> Retained(p), used |-> Retained(p),
    bound |-> IF fam = "classic" THEN 0 ELSE 2 * k, pairs |-> p] : e \in BOOLEAN, p \in CandPairs(n)}
Ks == {2}
Next == \E i \in Ids :
          \/ i \notin Live /\ \E fam \in Fams, k \in Ks : \E post \in CandPost(fam, k, 0, 0, 0) : New(i, fam, post)
          \/ i \in Live /\ obj[i].n < MaxN /\ \E v \in Items :
               LET a == AfterUpdate(obj[i], v) IN \E post \in CandPost(a.fam, a.k, a.n, a.minI, a.maxI) : Update(i, v, post)
          \/ UpdateIgnored(i)
          \/ \E j \in Ids, rv \in BOOLEAN : j \in Live /\ i \in Live /\ i # j /\ obj[i].n + obj[j].n <= MaxN /\
               LET a == AfterMerge(obj[i], obj[j]) IN \E post \in CandPost(a.fam, a.k, a.n, a.minI, a.maxI) : Merge(i, j, rv, post)
          \/ i \in Live /\ LET a == obj[i] IN \E post \in CandPost(a.fam, a.k, a.n, a.minI, a.maxI) : Observe(i, post)
          \/ \E j \in Ids : Copy(i, j)
          \/ Destroy(i)
Spec == Init /\ [][Next]_vars

(* refinement target for the design models: a design step must be a contract step whose free choice is the design's  *)
(* own post-state (no search: the witness is obj'[i] itself)                                                         *)
PostOf(o) == [k |-> o.k, n |-> o.n, minI |-> o.minI, maxI |-> o.maxI, est |-> o.est, nret |-> o.nret, used |-> o.used,
              bound |-> o.bound, pairs |-> o.pairs]
StepOK == \/ \E i \in DOMAIN obj' \ Live : New(i, obj'[i].fam, PostOf(obj'[i]))
          \/ \E i \in Live \cap DOMAIN obj' :
               \/ \E v \in DOMAIN obj'[i].all : Update(i, v, PostOf(obj'[i]))
               \/ \E j \in Live, rv \in BOOLEAN : Merge(i, j, rv, PostOf(obj'[i]))
               \/ Observe(i, PostOf(obj'[i]))
          \/ \E i \in Live : Destroy(i) \/ \E j \in DOMAIN obj' : Copy(i, j)

\* invariants = the property's clauses, per live object
InvCore == \A i \in Live : LET o == obj[i] IN
         /\ ObjOK(o)
         /\ o.n = MsSize(o.all)
         /\ (o.n > 0 => o.minI = MsMin(o.all) /\ o.maxI = MsMax(o.all))
Inv == /\ InvCore
       /\ \A i \in Live : LET o == obj[i] IN
         \* consequences the statement spells out: ranks of an exact sketch are the true ranks; coherent answers
         /\ (o.pairs # NoObs /\ o.n > 0 =>
               /\ \A x \in Items : /\ RankW(o.pairs, x, TRUE) >= RankW(o.pairs, x, FALSE)
                                   /\ (~o.est => RankW(o.pairs, x, TRUE) = SetSum({y \in DOMAIN o.all : y <= x}, o.all))
               /\ \A x, y \in Items : x <= y => RankW(o.pairs, x, TRUE) <= RankW(o.pairs, y, TRUE)
               /\ \A t \in 0..(o.n - 1) : QuantileW(o.pairs, t, t + 1, TRUE) = QuantileW(o.pairs, t, t + 1, FALSE)
               /\ \A t, u \in 0..o.n : t <= u => QuantileW(o.pairs, t, t, TRUE) <= QuantileW(o.pairs, u, u, TRUE))
====
