---- MODULE HllUnionMech ----
(***************************************************************************)
(* The mechanism of hll_union as pure operators on a gadget record         *)
(*   x = [hll, cs, lg, reg, nac, cmin, rb, ooo, hipBad]                    *)
(* (coupon mode: coupon set cs at lg; HLL mode: HLL_8 registers reg at lg  *)
(* plus the stored - possibly stale - numAtCurMin nac and curMin cmin and  *)
(* the rebuild flag rb; ooo = out-of-order flag: the estimate is the        *)
(* composite one, the HIP accumulator is not in use; hipBad = ghost: a HIP  *)
(* increment was computed from a stale KxQ while the accumulator is in use),*)
(* with lg_max_k as an explicit parameter.  Used by                          *)
(* HllUnionDesign.tla (bounded model, refinement of the contract) and by   *)
(* TraceHllUnion.tla (tier B shadow gadget, MODEL-DRIFT).                  *)
(* PromoteCount(lg): number of distinct coupons at which a coupon-mode     *)
(* sketch of 2^lg slots becomes an HLL array (abstracts the list and set   *)
(* stages, whose sizes are a function of the count).                       *)
(***************************************************************************)
EXTENDS Naturals, FiniteSets, Sequences, TLC
LOCAL INSTANCE SequencesExt
CONSTANTS PromoteCount(_), FixedIsEmpty, FixedReset,
          FixedDownsampleKxq    \* TRUE: copy_or_downsample rebuilds KxQ / cur-min right after the down-sampling merge (fix 96157e7);
                                \* FALSE: the rebuild stays pending while the source's HIP accumulator and in-order flag are kept

GMaxOf(S) == IF S = {} THEN 0 ELSE CHOOSE x \in S : \A y \in S : y <= x
GMinOf(S) == CHOOSE x \in S : \A y \in S : x <= y
GSlots(lg) == 0..(2^lg - 1)
Zeros(r) == Cardinality({s \in DOMAIN r : r[s] = 0})
EmptyList(lg) == [hll |-> FALSE, cs |-> {}, lg |-> lg, reg |-> <<>>, nac |-> 0, cmin |-> 0, rb |-> FALSE, ooo |-> FALSE, hipBad |-> FALSE]
\* what HllSketchImpl::isEmpty() computes
IsEmpty(x) == IF x.hll THEN x.cmin = 0 /\ x.nac = 2^x.lg /\ (FixedIsEmpty => ~x.rb) ELSE x.cs = {}
\* implementation state of an input sketch value (its own counters are exact)
FromInput(sv) == IF sv.mode = 2
                 THEN [hll |-> TRUE, cs |-> {}, lg |-> sv.lgK, reg |-> sv.top, nac |-> Zeros(sv.top), cmin |-> 0, rb |-> FALSE, ooo |-> FALSE, hipBad |-> FALSE]
                 ELSE [hll |-> FALSE, cs |-> sv.fed, lg |-> sv.lgK, reg |-> <<>>, nac |-> 0, cmin |-> 0, rb |-> FALSE, ooo |-> FALSE, hipBad |-> FALSE]

\* Hll8Array::internalCouponUpdate on the stored (possibly stale) counters
Upd8(x, c) == LET s == c[1] % (2^x.lg) IN
              \* hipAndKxQIncrementalUpdate: hip += k / KxQ (if in order) with the STORED KxQ, which is stale while rb is set
              IF c[2] > x.reg[s] THEN [x EXCEPT !.reg[s] = c[2], !.nac = IF x.reg[s] = 0 THEN @ - 1 ELSE @,
                                                !.hipBad = @ \/ (x.rb /\ ~x.ooo)] ELSE x
FoldUpd8(x, S) == FoldLeft(Upd8, x, SetToSeq(S))
\* promotion of a coupon-mode implementation to an HLL_8 array (replay, counters exact)
NewArr(lg) == [hll |-> TRUE, cs |-> {}, lg |-> lg, reg |-> [s \in GSlots(lg) |-> 0], nac |-> 2^lg, cmin |-> 0, rb |-> FALSE, ooo |-> FALSE, hipBad |-> FALSE]
\* HllSketchImpl::couponUpdate
CouponUpd(x, c) == IF x.hll THEN Upd8(x, c)
                   ELSE IF c \in x.cs THEN x
                   ELSE LET cs2 == x.cs \cup {c} IN
                        IF Cardinality(cs2) >= PromoteCount(x.lg) THEN FoldUpd8(NewArr(x.lg), cs2) ELSE [x EXCEPT !.cs = cs2]
FoldCoupon(x, S) == FoldLeft(CouponUpd, x, SetToSeq(S))
\* Hll8Array::mergeHll(src): slot & mask, max; sets the rebuild flag; counters untouched
MergeHll(dst, src) ==
  [dst EXCEPT !.reg = [s \in GSlots(dst.lg) |->
                         LET m == GMaxOf({src.reg[s + j * 2^dst.lg] : j \in 0..(2^(src.lg - dst.lg) - 1)}) IN
                         IF m > dst.reg[s] THEN m ELSE dst.reg[s]],
              !.rb = TRUE]
\* HllArray::copyAs(HLL_8) of an HLL_8 array: plain copy unless the rebuild flag is set (then replay: exact counters)
CopyAs8(src) == IF src.rb THEN [src EXCEPT !.nac = Zeros(src.reg), !.cmin = 0, !.rb = FALSE] ELSE src
\* check_rebuild_kxq_cur_min
GCheckRebuild(x) ==
  IF x.hll /\ x.rb
  THEN LET m == GMinOf({x.reg[s] : s \in DOMAIN x.reg}) IN
       [x EXCEPT !.cmin = m, !.nac = Cardinality({s \in DOMAIN x.reg : x.reg[s] = m}), !.rb = FALSE]
  ELSE x
\* hll_union::copy_or_downsample: the copy keeps the source's HIP accumulator and out-of-order flag
CopyOrDownsample(src, tgt) ==
  IF src.lg <= tgt THEN CopyAs8(src)
  ELSE LET y == [MergeHll(NewArr(tgt), src) EXCEPT !.ooo = src.ooo, !.hipBad = src.hipBad] IN
       IF FixedDownsampleKxq THEN GCheckRebuild(y) ELSE y
\* hll_union::union_impl
UnionImpl(dst, src, lgMaxK) ==
  IF ~src.hll
  THEN IF IsEmpty(dst) /\ src.lg = dst.lg THEN src                               \* copyAs(HLL_8) of the coupon list / set
       ELSE FoldCoupon(dst, src.cs)
  ELSE IF ~IsEmpty(dst)
       THEN IF ~dst.hll THEN FoldUpd8(CopyOrDownsample(src, lgMaxK), dst.cs)    \* mergeList of the old gadget
            \* gadget in HLL mode: merge, then the result is out of order and the HIP accumulator is dropped
            ELSE [MergeHll(IF src.lg < dst.lg THEN CopyOrDownsample(dst, src.lg) ELSE dst, src) EXCEPT !.ooo = TRUE, !.hipBad = FALSE]
       ELSE CopyOrDownsample(src, lgMaxK)
\* update(const hll_sketch&) / update(hll_sketch&&) for a non-empty argument; t8 = the argument's target type is HLL_8
GUpdate(x, src, rvalue, t8, lgMaxK) ==
  IF rvalue /\ IsEmpty(x) /\ t8 /\ src.lg <= lgMaxK /\ (src.hll \/ src.lg = lgMaxK)
  THEN UnionImpl(src, x, lgMaxK)          \* the argument is adopted as gadget, then the swapped-out object is merged
  ELSE UnionImpl(x, src, lgMaxK)
GReset(x, lgMaxK) == EmptyList(IF FixedReset THEN lgMaxK ELSE x.lg)
====
