---- MODULE CpcTableSet ----
\* what CpcMech assumes of the surprising-value table: a set with novelty-reporting insert / delete
VARIABLE S
Insert(x) == S' = S \cup {x}
Delete(x) == S' = S \ {x}
====
