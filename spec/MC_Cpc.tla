---- MODULE MC_Cpc ----
\* bounded instance of the multi-object CPC contract: two sketches with unequal lgK, one union, one image;
\* cells 64 = row 1 col 0; 129 = row 2 col 1 (only legal for lgK = 2; folds onto row 0 col 1 at lgK = 1)
EXTENDS Cpc
Bound == /\ \A i \in Live : Cardinality(obj[i].fed) <= 2
         /\ \A u \in ULive : Len(uni[u].inputs) <= 2
====
