---- MODULE MC_ReqDesign ----
\* constants of the bounded REQ design models that a .cfg file cannot spell (sequences)
EXTENDS ReqDesign
Sec22 == <<2, 2>>      \* section size 2, one growth step (1 -> 2 sections of size 2)
Sec2 == <<2>>          \* section size 2, no growth
====
