\* the refinement statement itself (PROPERTY Refines == C!Init /\ [][C!Next]_<<flt, mem, out>>, C == INSTANCE Bloom) for
\* the model of the REPAIRED code: 2 filter slots, 1 region, one configuration, every history of <= 4 calls (TLC searches all contract
\* parameters for every transition, hence the shorter bound; MC_BloomDesign.cfg checks the same per step by witness)
SPECIFICATION MCSpec
CONSTANTS FltIds = {f1, f2}
 MemIds = {1}
 Cfgs <- MCCfg1
 Items <- MCItems
 MaxCalls = 4
 WriteDirtyThrough = TRUE
 QauKeepsDirty = TRUE
 RoCheckSetOps = TRUE
 RemarkWhenDirty = TRUE
INVARIANT CountOK CInv
PROPERTY Refines
CONSTRAINT MCBound
CHECK_DEADLOCK FALSE
