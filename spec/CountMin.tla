---- MODULE CountMin ----
(***************************************************************************)
(* Tier A contract of count_min_sketch (property C14), written from the    *)
(* property statement and the public documentation only.                   *)
(*                                                                         *)
(* State: obj[i] for every live sketch i.                                  *)
(*   cfg    : [rows, buckets, seed]  (num_hashes, num_buckets, seed)       *)
(*   cells  : the array exposed by begin()/end(), a sequence of rows *     *)
(*            buckets numbers.  The contract never interprets it: it is    *)
(*            only compared between sketches (merge linearity).            *)
(*   total  : what get_total_weight() returns                              *)
(* Ghosts (ground truth, from the logged inputs only):                     *)
(*   stream : the sequence of <<item, weight>> offered, merges concatenate *)
(*   truth  : Item -|-> Nat, exact weight per item (function of stream)    *)
(*                                                                         *)
(* What the property leaves open - how the cells change on an update - is  *)
(* the explicit parameter c2.  Estimates are observations: the clause on a *)
(* returned triple (estimate, lower bound, upper bound) is EstOK.          *)
(* Weights are non-negative (the statement is about such streams), so the  *)
(* sum of absolute weights is the sum of weights.                          *)
(***************************************************************************)
EXTENDS Naturals, FiniteSets, Sequences, TLC
CONSTANTS Ids, Items, Weights, Cfgs, MaxTotal,     \* bounds used only by Next (model checking)
          WideNums      \* FALSE: weights, totals, estimates and cells are TLC integers (< 2^31).  TRUE: they are exact wide
                        \* naturals (module WideNum: 4 limbs of 20 bits), for traces with 64-bit weights (TraceCountMinW.cfg)
VARIABLE obj
vars == <<obj>>
INSTANCE WideNum
NZero == IF WideNums THEN WZero ELSE 0
NAdd(a, b) == IF WideNums THEN WAdd(a, b) ELSE a + b
NLeq(a, b) == IF WideNums THEN WLeq(a, b) ELSE a <= b

Live == DOMAIN obj
Get(f, x) == IF x \in DOMAIN f THEN f[x] ELSE NZero
Add(f, x, w) == IF x \in DOMAIN f THEN [f EXCEPT ![x] = NAdd(@, w)] ELSE f @@ (x :> w)
Plus(f, g) == [x \in DOMAIN f \cup DOMAIN g |-> NAdd(Get(f, x), Get(g, x))]
NumCells(c) == c.rows * c.buckets
Zeros(n) == [k \in 1..n |-> NZero]

Fresh(c) == [cfg |-> c, cells |-> Zeros(NumCells(c)), total |-> NZero, stream |-> <<>>, truth |-> <<>>]

\* ---- clauses of the statement ------------------------------------------------------------
\* a returned (estimate, lower bound, upper bound) for item x of sketch o
EstOK(o, x, est, lb, ub) ==
  /\ NLeq(Get(o.truth, x), est)    \* never under-estimates
  /\ NLeq(est, o.total)            \* at most the total weight of the stream
  /\ NLeq(lb, est) /\ NLeq(est, ub)
\* merge is defined for two different sketches of the same configuration
Compatible(i, j) == i # j /\ obj[i].cfg = obj[j].cfg
\* linearity: the merged array is the array of ANY live sketch of the same configuration that was fed the
\* concatenated stream (the driver always maintains one: the witness)
Linear(n, c2, except) ==
  \A k \in Live \ except : obj[k].cfg = n.cfg /\ obj[k].stream = n.stream => obj[k].cells = c2

Init == obj = <<>>
New(i, c) == obj' = (i :> Fresh(c)) @@ obj
UpdPost(o, x, w, c2) ==
  [o EXCEPT !.stream = Append(@, <<x, w>>), !.truth = Add(@, x, w), !.total = NAdd(@, w), !.cells = c2]
Update(i, x, w, c2) ==
  /\ i \in Live /\ NLeq(NZero, w)
  /\ Len(c2) = NumCells(obj[i].cfg)
  /\ obj' = [obj EXCEPT ![i] = UpdPost(@, x, w, c2)]
MergePost(o, p, c2) ==
  [o EXCEPT !.stream = @ \o p.stream, !.truth = Plus(@, p.truth), !.total = NAdd(@, p.total), !.cells = c2]
Merge(i, j, c2) ==
  /\ i \in Live /\ j \in Live /\ Compatible(i, j)
  /\ LET n == MergePost(obj[i], obj[j], c2) IN
       /\ Len(c2) = NumCells(n.cfg)
       /\ Linear(n, c2, {i})
       /\ obj' = [obj EXCEPT ![i] = n]
\* self merge and merge of incompatible configurations are refused (the call throws) and change nothing
MergeRefused(i, j) == i \in Live /\ j \in Live /\ ~Compatible(i, j) /\ UNCHANGED obj
Copy(i, j) == i \in Live /\ obj' = (j :> obj[i]) @@ [x \in Live \ {j} |-> obj[x]]
Destroy(i) == i \in Live /\ obj' = [x \in Live \ {i} |-> obj[x]]

\* ---- bounded next-state relation ----------------------------------------------------------
CellSpace(c) == [1..NumCells(c) -> 0..MaxTotal]
Next == \E i \in Ids :
          \/ \E c \in Cfgs : i \notin Live /\ New(i, c)
          \/ \E x \in Items, w \in Weights : i \in Live /\ \E c2 \in CellSpace(obj[i].cfg) : Update(i, x, w, c2)
          \/ \E j \in Ids : i \in Live /\ \E c2 \in CellSpace(obj[i].cfg) : Merge(i, j, c2)
          \/ \E j \in Ids : MergeRefused(i, j)
          \/ Destroy(i)
Spec == Init /\ [][Next]_vars

RECURSIVE SumW(_)
SumW(s) == IF s = <<>> THEN 0 ELSE Head(s)[2] + SumW(Tail(s))
RECURSIVE TruthOf(_)
TruthOf(s) == IF s = <<>> THEN <<>> ELSE Add(TruthOf(Tail(s)), Head(s)[1], Head(s)[2])
Inv == \A i \in Live : LET o == obj[i] IN
         /\ o.total = SumW(o.stream)                              \* total weight = sum of (absolute) update weights
         /\ \A x \in Items : Get(o.truth, x) = Get(TruthOf(o.stream), x)
         /\ Len(o.cells) = NumCells(o.cfg)
         /\ \A x \in Items : Get(o.truth, x) <= o.total

\* ---- statistical clause ("Stats" verdict) ---------------------------------------------------
\* Over n = S * m (item, sketch) pairs - S sketches with independent seeds, m items each - at most a fraction
\* e^-rows of the over-estimates may exceed relative_error * total weight, in expectation (configured confidence
\* 1 - e^-rows: suggest_num_hashes).  Per100k(d) >= 100000 e^-d;  PerMille(d) >= 1000 e^-d (used for the variance).
Per100k(d) == IF d = 1 THEN 36788 ELSE IF d = 2 THEN 13534 ELSE IF d = 3 THEN 4979 ELSE IF d = 4 THEN 1832
              ELSE IF d = 5 THEN 674 ELSE IF d = 6 THEN 248 ELSE IF d = 7 THEN 92 ELSE 34
PerMille(d) == (Per100k(d) + 99) \div 100
\* K exceedances among S*m trials.  Allowed: expectation + 6 standard errors + slack, the standard error taken for
\* fully correlated indicators inside one sketch (m * sqrt(S p (1-p))), so that any seed passes:
\*   D = K - ceil(n p) - slack <= 0   or   D^2 <= 36 m^2 S p (1 - p)
Verdict(K, S, m, d, slack) ==
  LET P == PerMille(d)
      mean == (S * m * Per100k(d) + 99999) \div 100000
      D == IF K > mean + slack THEN K - mean - slack ELSE 0
      var36 == ((m * m * S) * ((36 * P * (1000 - P)) \div 1000)) \div 1000 + 1
  IN D * D <= var36
====
