\* X08 negative configuration (TLC must report a violation): without the zero tail of the first byte the ORed field is wrong
SPECIFICATION Spec
CONSTANT MaxW = 3
INVARIANT FieldAlways
CHECK_DEADLOCK FALSE
