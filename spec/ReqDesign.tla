---- MODULE ReqDesign ----
(***************************************************************************)
(* Tier B design model of req_sketch (req/include/req_sketch_impl.hpp,     *)
(* req_compactor_impl.hpp): compactors [items, lgw, state, coin, nsec,     *)
(* gen], nominal capacity 2 * nsec * section size, compaction range from   *)
(* the trailing ones of `state`, LRA compacts the high end / HRA the low   *)
(* end, promotion of even or odd positions, the coin rule (even state: a   *)
(* fresh fair coin; odd state: the flipped previous coin, no flip),        *)
(* section growth, sketch-level compress cascade, merge (state OR, merged  *)
(* buffers, compress).  The float sequence section_size_raw / sqrt(2) ->   *)
(* nearest_even is a per-k table (SecSizes); growth stops at its end       *)
(* (code: while nearest_even >= MIN_K).                                    *)
(*                                                                         *)
(* Two specifications over the same step functions:                        *)
(*  Spec  - single executions, coins are action parameters: Refines (every *)
(*          step is a step of the Quantiles contract, C07), CInv, RepOK;   *)
(*  ESpec - the ENSEMBLE semantics for C08(b): the state holds, per        *)
(*          sketch, the leaves of ALL coin strings of its history.         *)
(*          Because an odd compaction reuses the flipped coin, REQ is not  *)
(*          a martingale per compaction; what holds (and is checked for    *)
(*          every history in the bound) is EUnbiased: the sum over all     *)
(*          leaves of W(leaf, q) = number of leaves * true weight, and     *)
(*          ESchedule: all leaves have the same level sizes, states and    *)
(*          section counts and drew the same number of flips - the         *)
(*          schedule does not depend on coin outcomes.                     *)
(* Level 0 is kept sorted: every use of it in the code sorts it first.     *)
(***************************************************************************)
EXTENDS Naturals, Sequences, FiniteSets, SequencesExt, TLC
CONSTANTS Ids, Items,
          SecSizes,     \* section sizes by generation; SecSizes[1] = k (code k = 12: <<12, 8, 6, 4, 4>>)
          InitSec,      \* code: req_constants::INIT_NUM_SECTIONS = 3
          Hras,         \* accuracy modes offered to New
          MaxN,
          MergeCoin     \* "own": pinned tree (merge keeps its own, possibly never drawn coin) - negative config;
                        \* "adopt": the fix (an even-state compactor adopts the coin of an odd-state one);
                        \* "adopt0": negative config - only a state-0 compactor adopts it (misses a never-compacted compactor
                        \*           whose even non-zero state was itself acquired by a merge)
VARIABLES sk, obj, ens
dvars == <<sk, obj, ens>>

Live == DOMAIN sk
INSTANCE ReqMech      \* the mechanism operators (CNew, NomCap, Compact, CMerge, Compress, UpdLv, MergeLv, ...)

MsAdd(b, x) == IF x \in DOMAIN b THEN [b EXCEPT ![x] = @ + 1] ELSE (x :> 1) @@ b
MsCnt(b, x) == IF x \in DOMAIN b THEN b[x] ELSE 0
MsUnion(a, b) == [x \in DOMAIN a \cup DOMAIN b |-> MsCnt(a, x) + MsCnt(b, x)]
Fresh(hra) == [hra |-> hra, lv |-> <<CNew(0, SecSizes)>>, n |-> 0, all |-> <<>>, minI |-> 0, maxI |-> 0]
\* [s, used]
UpdateRes(s, v, cs) ==
  LET r == UpdLv(s.lv, s.hra, SecSizes, v, cs)
  IN [s |-> [s EXCEPT !.lv = r.lv, !.n = @ + 1, !.all = MsAdd(@, v),
                      !.minI = IF s.n = 0 THEN v ELSE Min2(@, v), !.maxI = IF s.n = 0 THEN v ELSE Max2(@, v)],
      used |-> r.used]
MergeRes(s, o, cs) ==
  IF o.n = 0 THEN [s |-> s, used |-> 0] ELSE
  LET r == MergeLv(s.lv, o.lv, s.hra, SecSizes, cs)
  IN [s |-> [s EXCEPT !.lv = r.lv, !.n = @ + o.n, !.all = MsUnion(@, o.all),
                      !.minI = IF s.n = 0 THEN o.minI ELSE Min2(@, o.minI), !.maxI = IF s.n = 0 THEN o.maxI ELSE Max2(@, o.maxI)],
      used |-> r.used]
CoinStrings(f) == [1..f -> {0, 1}]

-----------------------------------------------------------------------------
(* observable projection and refinement mapping *)
Pairs(lv) ==
  LET pos == UNION {{<<h, x>> : x \in 1..Len(lv[h].items)} : h \in 1..Len(lv)}
      keys == {<<lv[p[1]].items[p[2]], 2^(lv[p[1]].lgw)>> : p \in pos}
      ord(a, b) == a[1] < b[1] \/ (a[1] = b[1] /\ a[2] < b[2])
      ks == SetToSortSeq(keys, ord)
      cnt(key) == Cardinality({p \in pos : lv[p[1]].items[p[2]] = key[1] /\ 2^(lv[p[1]].lgw) = key[2]})
  IN [q \in 1..Len(ks) |-> <<ks[q][1], ks[q][2], cnt(ks[q])>>]
ObjOf(s) == [fam |-> "req", k |-> SecSizes[1], n |-> s.n, all |-> s.all, minI |-> s.minI, maxI |-> s.maxI,
             est |-> Len(s.lv) > 1, nret |-> Retained(s.lv),
             \* published space: retained against "Capacity items" (max_nom_size_) of to_string()
             used |-> Retained(s.lv), bound |-> MaxNom(s.lv), pairs |-> Pairs(s.lv)]

(* single executions *)
Init == sk = <<>> /\ obj = <<>> /\ ens = <<>>
New(i, hra) == i \notin Live /\ sk' = (i :> Fresh(hra)) @@ sk
Update(i, v, cs) == i \in Live /\ sk' = [sk EXCEPT ![i] = UpdateRes(sk[i], v, cs).s]
Merge(i, j, rv, cs) ==
  /\ i \in Live /\ j \in Live /\ i # j /\ sk[i].hra = sk[j].hra
  /\ LET r == MergeRes(sk[i], sk[j], cs).s IN
     sk' = IF rv THEN [x \in Live \ {j} |-> IF x = i THEN r ELSE sk[x]] ELSE [sk EXCEPT ![i] = r]
Next == /\ \E i \in Ids :
             \/ \E hra \in Hras : New(i, hra)
             \/ i \in Live /\ \E v \in Items : \E cs \in CoinStrings(UpdateRes(sk[i], v, <<>>).used) : Update(i, v, cs)
             \/ \E j \in Ids, rv \in BOOLEAN : i \in Live /\ j \in Live /\ i # j /\ sk[i].hra = sk[j].hra /\
                  \E cs \in CoinStrings(MergeRes(sk[i], sk[j], <<>>).used) : Merge(i, j, rv, cs)
        /\ obj' = [i \in DOMAIN sk' |-> ObjOf(sk'[i])] /\ UNCHANGED ens
Spec == Init /\ [][Next]_dvars
C == INSTANCE Quantiles WITH Fams <- {"req"}
Refines == [][C!StepOK]_dvars
CInv == C!InvCore
Sorted(s) == \A a \in 1..(Len(s) - 1) : s[a] <= s[a + 1]
SketchOK(s) == /\ \A h \in 1..Len(s.lv) : Sorted(s.lv[h].items) /\ s.lv[h].lgw = h - 1
               /\ Retained(s.lv) < MaxNom(s.lv)
               \* only the top level can be empty, and only in an empty sketch: iteration never meets an empty compactor
               /\ \A h \in 1..Len(s.lv) : s.lv[h].items = <<>> => s.n = 0
RepOK == \A i \in Live : SketchOK(sk[i])
TotalN == FoldLeft(LAMBDA a, i : a + sk[i].n, 0, SetToSeq(Live))
NBound == TotalN <= MaxN
\* optional extra bound: every sketch but the first stays small (prunes symmetric histories)
SmallOthers == \A i \in Live : i # 1 => sk[i].n <= 5

-----------------------------------------------------------------------------
(* ensemble semantics: ens[i] = sequence of leaves (sketch states), one per coin string of the history of sketch i *)
ELive == DOMAIN ens
\* all leaves reached from leaf s by operation Res (a function of the coin string); the number of flips is taken from the
\* all-zero string and must be the same for every string (checked by ESchedule on the successors' bookkeeping)
Expand(s, Res(_, _)) == LET f == Res(s, <<>>).used
                            strings == SetToSeq(CoinStrings(f))
                        IN [z \in 1..Len(strings) |-> Res(s, strings[z])]
Flatten(ss) == FoldLeft(LAMBDA a, b : a \o b, <<>>, ss)
EInit == sk = <<>> /\ obj = <<>> /\ ens = <<>>
ENew(i, hra) == i \notin ELive /\ ens' = (i :> [leaves |-> <<Fresh(hra)>>, flips |-> <<0>>]) @@ ens
EUpdate(i, v) ==
  /\ i \in ELive
  /\ LET e == ens[i]
         ex == [z \in 1..Len(e.leaves) |-> Expand(e.leaves[z], LAMBDA s, cs : UpdateRes(s, v, cs))]
     IN ens' = [ens EXCEPT ![i] = [leaves |-> Flatten([z \in 1..Len(ex) |-> [y \in 1..Len(ex[z]) |-> ex[z][y].s]]),
                                   flips |-> Flatten([z \in 1..Len(ex) |-> [y \in 1..Len(ex[z]) |-> e.flips[z] + ex[z][y].used]])]]
\* the source is consumed (rvalue merge): a sketch merged twice would make the coins of two operands dependent,
\* and the product of their leaves would contain impossible executions
EMerge(i, j) ==
  /\ i \in ELive /\ j \in ELive /\ i # j /\ ens[i].leaves[1].hra = ens[j].leaves[1].hra
  /\ LET a == ens[i]
         b == ens[j]
         prs == Flatten([x \in 1..Len(a.leaves) |-> [y \in 1..Len(b.leaves) |-> <<x, y>>]])
         ex == [z \in 1..Len(prs) |-> Expand(a.leaves[prs[z][1]], LAMBDA s, cs : MergeRes(s, b.leaves[prs[z][2]], cs))]
         r == [leaves |-> Flatten([z \in 1..Len(ex) |-> [y \in 1..Len(ex[z]) |-> ex[z][y].s]]),
               flips |-> Flatten([z \in 1..Len(ex) |-> [y \in 1..Len(ex[z]) |-> a.flips[prs[z][1]] + b.flips[prs[z][2]] + ex[z][y].used]])]
     IN ens' = [x \in ELive \ {j} |-> IF x = i THEN r ELSE ens[x]]
ENext == /\ \E i \in Ids : \/ \E hra \in Hras : ENew(i, hra)
                           \/ \E v \in Items : EUpdate(i, v)
                           \/ \E j \in Ids : EMerge(i, j)
         /\ UNCHANGED <<sk, obj>>
ESpec == EInit /\ [][ENext]_dvars
W(lv, q, incl) == SumSeq([h \in 1..Len(lv) |-> 2^(lv[h].lgw) * Cardinality({x \in 1..Len(lv[h].items) : IF incl THEN lv[h].items[x] <= q ELSE lv[h].items[x] < q})])
TrueW(all, q, incl) == FoldLeft(LAMBDA a, x : a + (IF (incl /\ x <= q) \/ (~incl /\ x < q) THEN all[x] ELSE 0), 0, SetToSeq(DOMAIN all))
EUnbiased == \A i \in ELive : LET e == ens[i] IN \A q \in Items, incl \in BOOLEAN :
               FoldLeft(LAMBDA a, s : a + W(s.lv, q, incl), 0, e.leaves) = Len(e.leaves) * TrueW(e.leaves[1].all, q, incl)
Shape(s) == [h \in 1..Len(s.lv) |-> <<Len(s.lv[h].items), s.lv[h].state, s.lv[h].nsec, s.lv[h].gen>>]
ESchedule == \A i \in ELive : LET e == ens[i] IN
               /\ \A z \in 1..Len(e.leaves) : Shape(e.leaves[z]) = Shape(e.leaves[1]) /\ e.flips[z] = e.flips[1] /\ SketchOK(e.leaves[z])
               /\ Len(e.leaves) = 2^(e.flips[1])
ETotalN == FoldLeft(LAMBDA a, i : a + ens[i].leaves[1].n, 0, SetToSeq(ELive))
ENBound == ETotalN <= MaxN /\ \A i \in ELive : Len(ens[i].leaves) <= 64
ESmallOthers == \A i \in ELive : i # 1 => ens[i].leaves[1].n <= 5
\* three-way merge shapes: sketch 2 may reach an even non-zero level-0 state (two compactions), sketch 3 an odd one
EThree == \A i \in ELive : (i = 2 => ens[i].leaves[1].n <= 9) /\ (i = 3 => ens[i].leaves[1].n <= 4)
====
