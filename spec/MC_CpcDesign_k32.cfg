\* K = 32: sparse for two coupons, promoted at C = 3 where 32 C = 3 K exactly; table entries at columns >= 8 are re-inserted.
\* Alphabet: (0,0) (3,7) (3,8) (5,20) (31,63) (31,0) (9,9) (17,8)
SPECIFICATION Spec
CONSTANTS LgK = 5
 Alphabet = {0, 199, 200, 340, 2047, 1984, 585, 1096}
 Prefix <- NoPrefix
 FicBias = 0
INVARIANT Rep RT Observables
PROPERTY Refines
CHECK_DEADLOCK FALSE
