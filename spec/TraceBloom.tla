---- MODULE TraceBloom ----
(***************************************************************************)
(* Trace validation of recorded executions of bloom_filter (owned filters, *)
(* views of caller memory, restored filters) against the Bloom contract    *)
(* (C15) and the Serde clauses of C09.  One successor per event: every     *)
(* free choice of the contract is bound to the logged value.  Clause names *)
(* carry the property they belong to; clauses that both properties make    *)
(* (a restored / wrapped filter shows the bits and configuration of its    *)
(* image) are printed under both names.                                    *)
(***************************************************************************)
EXTENDS Bloom, TraceCommon, Integers
CONSTANT CheckDesign   \* TRUE only in the tier-B configuration (TraceBloomB.cfg): also run the design model BloomDesign and compare
VARIABLES pristine,   \* regions holding an untouched image written by serialize()
          img,        \* its token
          book, stored   \* tier B: BloomDesign's bookkeeping (cached count / dirty flag per object, count word per region)
tvars == <<flt, mem, out, l, pristine, img, book, stored>>

(***************************************************************************)
(* Tier B (drift detection, DESIGN 2).  With CheckDesign the design model  *)
(* of the code takes the same step (D!Action: it must agree with the       *)
(* contract step on flt', mem', out' - i.e. predict the logged answers -   *)
(* and it computes book', stored'), and the count word the harness read    *)
(* at byte 24 of the region after the call ("st", -1 = DIRTY marker) must  *)
(* equal the model's stored count.  Replayed TLC behaviours carry the      *)
(* model's expected outcome / answer / count / stored word (xo, xa, xn,    *)
(* xst; GenBloom.tla), compared under "B:gen-..." names.  A rejection here *)
(* while tier A accepts is MODEL-DRIFT, never a violation.                 *)
(***************************************************************************)
D == INSTANCE BloomDesign WITH MaxCalls <- 0, WriteDirtyThrough <- TRUE, QauKeepsDirty <- TRUE, RoCheckSetOps <- TRUE,
                               RemarkWhenDirty <- TRUE
DStep(A) == IF CheckDesign THEN A ELSE UNCHANGED <<book, stored>>
StoredOK(e, m) == (CheckDesign /\ Has(e, "st") /\ m # Own) => Chk("B:stored-count", m \in DOMAIN stored' /\ e.st = stored'[m])
GenOK == LET e == Log[l] IN (CheckDesign /\ Has(e, "xo")) =>
           /\ Chk("B:gen-outcome", Has(e, "out") => e.out = e.xo)
           /\ Chk("B:gen-answer", (e.e = "QueryUpdate" /\ e.out = "ok") => e.ans = e.xa)
           /\ Chk("B:gen-count", (e.e = "BitsUsed" /\ e.xn >= 0) => e.n = e.xn)
           /\ Chk("B:gen-stored", (Has(e, "st") /\ e.xst >= -1) => e.st = e.xst)

Chk2(n1, n2, c) == IF c THEN TRUE ELSE PrintT(<<"REJECT", n1, l>>) /\ PrintT(<<"REJECT", n2, l>>) /\ FALSE
\* a clause of C15 alone, or (shared) of C09 and C15
K(shared, name, c) == IF shared THEN Chk2("C09:" \o name, "C15:" \o name, c) ELSE Chk("C15:" \o name, c)
\* events on an object restored from a serialized image (or combined with one) carry "restored": its family clauses then
\* belong to C09 ("restore, then continue like the original") as well as to C15
Rst == Has(Log[l], "restored") /\ Log[l].restored
CK(name, c) == K(Rst, name, c)
X(e) == ToSet(e.idx)
CfgOf(r) == [cap |-> r.cap, hashes |-> r.hashes, seed |-> r.seedH]

\* logged projection r of a real filter (getters + its own serialized image, decoded by the documented layout)
\* against the model: configuration c, bits b
ProjOK(r, c, b, sh) ==
  /\ K(sh, "config", r.cap = c.cap /\ r.hashes = c.hashes /\ r.seedH = c.seed)
  /\ Chk("C09:image-well-formed", r.imgOk)
  /\ Chk("C09:image-config", r.imgCap = c.cap /\ r.imgHashes = c.hashes /\ r.imgSeedH = c.seed)
  /\ K(sh, "bits", ToSet(r.bits) = b)
  /\ K(sh, "is_empty", r.empty = (b = {}))
  /\ Chk("C09:empty-image-form", r.imgEmpty = (b = {}))
PostEmpty(e) == CK("is_empty", e.empty = (BitsOf(flt', mem', e.f) = {}))
Operand(f) == Chk("harness:fresh-view", Fresh(f))
ItemOK(e) == Chk("harness:index-list", Len(e.idx) = Cfg(e.f).hashes /\ ValidItem(Cfg(e.f), X(e)))
\* a successful write through a view ends the pristine state of its region
Touched(f, o) == pristine' = IF o = "ok" /\ flt[f].at # Own THEN pristine \ {flt[f].at} ELSE pristine

TBegin == IsEvent("Begin") /\ flt' = <<>> /\ mem' = <<>> /\ out' = Ok /\ pristine' = {} /\ img' = <<>> /\ book' = <<>> /\ stored' = <<>>
TNew == IsEvent("New") /\ LET e == Log[l]  c == CfgOf(e.r) IN
  /\ Chk("C15:capacity", e.r.cap >= e.req)
  /\ Chk("C15:requested-config", e.r.seedH = e.reqSeedH /\ (e.how = "size" => e.r.hashes = e.reqHashes))
  /\ New(e.f, c) /\ DStep(D!New(e.f, c))
  /\ ProjOK(e.r, c, {}, FALSE)
  /\ Chk("C15:read-only-flag", ~e.r.ro /\ ~e.r.wrapped)
  /\ UNCHANGED <<pristine, img>>
TInitMem == IsEvent("InitMem") /\ LET e == Log[l]  c == CfgOf(e.r) IN
  /\ Chk("C15:capacity", e.r.cap >= e.req)
  /\ Chk("C15:requested-config", e.r.seedH = e.reqSeedH /\ (e.how = "size" => e.r.hashes = e.reqHashes))
  /\ Chk("C09:static-size", e.need = 32 + e.r.cap \div 8)
  /\ InitMem(e.f, e.m, c) /\ DStep(D!InitMem(e.f, e.m, c)) /\ StoredOK(e, e.m)
  /\ ProjOK(e.r, c, {}, FALSE)
  /\ Chk("C15:read-only-flag", ~e.r.ro /\ e.r.wrapped)
  /\ Chk("C15:memory-bits", e.membits = <<>>)
  /\ pristine' = pristine \ {e.m} /\ UNCHANGED img
\* plain update() is specified also through a STALE view ("stale":true): the region gains the item; nothing is claimed
\* about the stale view's own answers (its is_empty is not checked), every view created later is checked as usual
TUpdate == IsEvent("Update") /\ LET e == Log[l] IN
  /\ Chk("harness:live-view", e.f \in Live /\ Has(e, "stale") = ~flt[e.f].fresh)
  /\ ItemOK(e)
  /\ CK("read-only-refused", (e.out = "throw") = Refused(e.f))
  /\ Update(e.f, X(e), e.out) /\ DStep(D!Update(e.f, X(e))) /\ StoredOK(e, flt[e.f].at)
  /\ (flt[e.f].fresh => PostEmpty(e)) /\ Touched(e.f, e.out) /\ UNCHANGED img
TQueryUpdate == IsEvent("QueryUpdate") /\ LET e == Log[l] IN
  /\ Operand(e.f) /\ ItemOK(e)
  /\ CK("read-only-refused", (e.out = "throw") = Refused(e.f))
  /\ CK("no-false-negative", e.out = "ok" /\ X(e) \in Ins(e.f) => e.ans)
  /\ CK("query_and_update-returns-prior-membership", e.out = "ok" => e.ans = QueryAns(e.f, X(e)))
  /\ QueryUpdate(e.f, X(e), e.out, e.ans) /\ DStep(D!QueryUpdate(e.f, X(e))) /\ StoredOK(e, flt[e.f].at)
  /\ PostEmpty(e) /\ Touched(e.f, e.out) /\ UNCHANGED img
TQuery == IsEvent("Query") /\ LET e == Log[l] IN
  /\ Operand(e.f) /\ ItemOK(e)
  /\ CK("query-refused", e.out = "ok")
  /\ CK("no-false-negative", X(e) \in Ins(e.f) => e.ans)
  /\ CK("query", e.ans = QueryAns(e.f, X(e)))
  /\ Query(e.f, X(e), e.ans) /\ DStep(D!Query(e.f, X(e))) /\ StoredOK(e, flt[e.f].at)
  /\ PostEmpty(e) /\ UNCHANGED <<pristine, img>>
\* several query() calls through one fresh view in one event (replay epilogue): each answer is checked like a Query; the
\* contract step taken is the last of them (query does not change the state)
TSweep == IsEvent("Sweep") /\ LET e == Log[l]  n == Len(e.idx) IN
  /\ Operand(e.f)
  /\ \A k \in 1..n : LET x == ToSet(e.idx[k]) IN
       /\ Chk("harness:index-list", Len(e.idx[k]) = Cfg(e.f).hashes /\ ValidItem(Cfg(e.f), x))
       /\ CK("no-false-negative", x \in Ins(e.f) => e.ans[k])
       /\ CK("query", e.ans[k] = QueryAns(e.f, x))
       /\ (CheckDesign => Chk("B:design-query", e.ans[k] = (~D!EmptyD(e.f) /\ x \subseteq Bits(e.f))))
  /\ Query(e.f, ToSet(e.idx[n]), e.ans[n]) /\ DStep(D!Query(e.f, ToSet(e.idx[n]))) /\ StoredOK(e, flt[e.f].at)
  /\ PostEmpty(e) /\ UNCHANGED <<pristine, img>>
TNullItem == IsEvent("NullItem") /\ LET e == Log[l] IN
  /\ Operand(e.f)
  /\ CK("empty-item-ignored", e.out = "ok" /\ ~e.ans)
  /\ EmptyItem(e.f, e.ans) /\ DStep(D!EmptyItem(e.f))
  /\ PostEmpty(e) /\ UNCHANGED <<pristine, img>>
TBitsUsed == IsEvent("BitsUsed") /\ LET e == Log[l] IN
  /\ Operand(e.f)
  /\ CK("bits-used", e.n = BitsUsedAns(e.f))
  /\ BitsUsed(e.f, e.n) /\ DStep(D!BitsUsed(e.f)) /\ StoredOK(e, flt[e.f].at)
  /\ PostEmpty(e) /\ UNCHANGED <<pristine, img>>
TObs == IsEvent("Obs") /\ LET e == Log[l] IN
  /\ Operand(e.f)
  /\ ProjOK(e.r, Cfg(e.f), Bits(e.f), Rst)
  /\ CK("read-only-flag", e.r.ro = flt[e.f].ro /\ (flt[e.f].at # Own => e.r.wrapped))
  /\ CK("memory-bits", Has(e, "membits") => ToSet(e.membits) = Bits(e.f))
  /\ UNCHANGED <<flt, mem, out, pristine, img, book, stored>>
SetOpOK(e) == /\ Operand(e.f) /\ Operand(e.g)
              /\ CK("is_compatible", e.compatible = Compatible(e.f, e.g))
              /\ CK("incompatible-or-read-only-refused", (e.out = "throw") = (~Compatible(e.f, e.g) \/ Refused(e.f)))
TUnion == IsEvent("Union") /\ LET e == Log[l] IN
  /\ SetOpOK(e) /\ Union(e.f, e.g, e.out) /\ DStep(D!Union(e.f, e.g)) /\ StoredOK(e, flt[e.f].at)
  /\ PostEmpty(e) /\ Touched(e.f, e.out) /\ UNCHANGED img
TIntersect == IsEvent("Intersect") /\ LET e == Log[l] IN
  /\ SetOpOK(e) /\ Intersect(e.f, e.g, e.out) /\ DStep(D!Intersect(e.f, e.g)) /\ StoredOK(e, flt[e.f].at)
  /\ PostEmpty(e) /\ Touched(e.f, e.out) /\ UNCHANGED img
TInvert == IsEvent("Invert") /\ LET e == Log[l] IN
  /\ Operand(e.f)
  /\ CK("read-only-refused", (e.out = "throw") = Refused(e.f))
  /\ Invert(e.f, e.out) /\ DStep(D!Invert(e.f)) /\ StoredOK(e, flt[e.f].at)
  /\ PostEmpty(e) /\ Touched(e.f, e.out) /\ UNCHANGED img
TReset == IsEvent("Reset") /\ LET e == Log[l] IN
  /\ Operand(e.f)
  /\ CK("read-only-refused", (e.out = "throw") = Refused(e.f))
  /\ Reset(e.f, e.out) /\ DStep(D!Reset(e.f)) /\ StoredOK(e, flt[e.f].at)
  /\ PostEmpty(e) /\ Touched(e.f, e.out) /\ UNCHANGED img
TCopy == IsEvent("Copy") /\ LET e == Log[l] IN
  /\ Operand(e.f)
  /\ ProjOK(e.r, Cfg(e.f), Bits(e.f), Rst)
  /\ CK("read-only-flag", e.r.ro = flt[e.f].ro /\ (flt[e.f].at # Own => e.r.wrapped))
  /\ Copy(e.f, e.g) /\ DStep(D!Copy(e.f, e.g)) /\ StoredOK(e, flt[e.f].at)
  /\ UNCHANGED <<pristine, img>>
TMove == IsEvent("Move") /\ LET e == Log[l] IN
  /\ Operand(e.f)
  /\ ProjOK(e.r, Cfg(e.f), Bits(e.f), Rst)
  /\ CK("read-only-flag", e.r.ro = flt[e.f].ro /\ (flt[e.f].at # Own => e.r.wrapped))
  /\ Move(e.f, e.g) /\ DStep(D!Move(e.f, e.g))
  /\ UNCHANGED <<pristine, img>>
TDrop == IsEvent("Drop") /\ LET e == Log[l] IN Drop(e.f) /\ DStep(D!Drop(e.f)) /\ UNCHANGED <<pristine, img>>
TSer == IsEvent("Ser") /\ LET e == Log[l] IN
  /\ Operand(e.f)
  /\ Chk("C09:bytes=stream", e.img = e.simg)
  /\ Chk("C09:advertised-size", e.size = e.advertised)
  /\ Chk("C09:header", e.total = e.hdr + e.size /\ e.hdrZero)
  /\ Chk("C09:image-well-formed", e.imgOk)
  /\ Chk("C09:image-config", e.imgCap = Cfg(e.f).cap /\ e.imgHashes = Cfg(e.f).hashes /\ e.imgSeedH = Cfg(e.f).seed)
  /\ Chk2("C09:image-bits", "C15:image-bits", ToSet(e.bits) = Bits(e.f))
  /\ Chk("C09:empty-image-form", e.imgEmpty = (Bits(e.f) = {}))
  /\ CK("is_empty", e.empty = (Bits(e.f) = {}))
  /\ Ser(e.f, e.m, e.imgEmpty) /\ DStep(D!Ser(e.f, e.m)) /\ StoredOK(e, e.m)
  /\ pristine' = pristine \cup {e.m} /\ img' = (e.m :> e.img) @@ img
TDeser == IsEvent("Deser") /\ LET e == Log[l] IN
  /\ Chk("harness:region", e.m \in Regions /\ (e.m \in pristine => e.img = img[e.m]))
  /\ ProjOK(e.r, mem[e.m].cfg, mem[e.m].bits, TRUE)
  /\ Chk("C09:consumed", e.consumed = e.size)
  /\ Chk("C09:reserialize", e.m \in pristine => e.reimg = img[e.m])
  /\ Chk("C15:read-only-flag", ~e.r.ro /\ ~e.r.wrapped)
  /\ Deser(e.m, e.f) /\ DStep(D!Deser(e.m, e.f)) /\ StoredOK(e, e.m)
  /\ UNCHANGED <<pristine, img>>
TWrap == IsEvent("Wrap") /\ LET e == Log[l] IN
  /\ Chk("harness:region", e.m \in Regions)
  /\ Chk2("C09:wrap-refused", "C15:wrap-refused", e.out = "ok")
  /\ ProjOK(e.r, mem[e.m].cfg, mem[e.m].bits, TRUE)
  /\ Chk("C15:memory-bits", ToSet(e.membits) = mem[e.m].bits)
  /\ Chk("C15:read-only-flag", (~mem[e.m].empty => e.r.wrapped) /\ (e.r.wrapped => e.r.ro))
  /\ Wrap(e.m, e.f, e.r.ro) /\ DStep(D!Wrap(e.m, e.f)) /\ StoredOK(e, e.m)
  /\ UNCHANGED <<pristine, img>>
TWWrap == IsEvent("WWrap") /\ LET e == Log[l] IN
  /\ Chk("harness:region", e.m \in Regions)
  /\ Chk2("C09:writable-wrap-of-empty-image-refused", "C15:writable-wrap-of-empty-image-refused", (e.out = "throw") = mem[e.m].empty)
  /\ (e.out = "ok" => /\ ProjOK(e.r, mem[e.m].cfg, mem[e.m].bits, TRUE)
                      /\ Chk("C15:memory-bits", ToSet(e.membits) = mem[e.m].bits)
                      /\ Chk("C15:read-only-flag", e.r.wrapped /\ ~e.r.ro))
  /\ WritableWrap(e.m, e.f, e.out) /\ DStep(D!WritableWrap(e.m, e.f)) /\ StoredOK(e, e.m)
  /\ UNCHANGED <<pristine, img>>
\* statistical verdict on a filter built by create_by_accuracy / initialize_by_accuracy and filled to its design load
TFpp == IsEvent("Fpp") /\ LET e == Log[l] IN
  /\ Chk("C15:no-false-negative", e.FN = 0)
  /\ Chk("C15:false-positive-rate", FppOK(e.F, e.M, e.pPm))
  /\ UNCHANGED <<flt, mem, out, pristine, img, book, stored>>

TInit == flt = <<>> /\ mem = <<>> /\ out = Ok /\ l = 1 /\ pristine = {} /\ img = <<>> /\ book = <<>> /\ stored = <<>>
TNext == l <= Len(Log) /\ GenOK /\ (TBegin \/ TNew \/ TInitMem \/ TUpdate \/ TQueryUpdate \/ TQuery \/ TSweep \/ TNullItem \/ TBitsUsed \/ TObs
         \/ TUnion \/ TIntersect \/ TInvert \/ TReset \/ TCopy \/ TMove \/ TDrop \/ TSer \/ TDeser \/ TWrap \/ TWWrap \/ TFpp)
TSpec == TInit /\ [][TNext]_tvars
====
