\* 64-bit weights: every weight / total / estimate / cell is a wide natural (4 limbs of 20 bits, spec/WideNum.tla)
SPECIFICATION TSpec
CONSTANTS Ids = {} Items = {} Weights = {} Cfgs = {} MaxTotal = 0
 TierB = FALSE
POSTCONDITION Accepted
CONSTANT WideNums = TRUE
CHECK_DEADLOCK FALSE
