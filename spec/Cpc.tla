---- MODULE Cpc ----
(***************************************************************************)
(* Tier A contract of the CPC sketch and the CPC union (property C05),     *)
(* written from the property statement and the public documentation only.  *)
(*                                                                         *)
(* A coupon is a cell of a K x 64 bit matrix, K = 2^lgK.  Cells are coded  *)
(* as the integer row * 64 + col (0 <= col <= 63).  The reference cell of  *)
(* an input item is an environment function computed outside the library   *)
(* (harness/refhash.hpp): row = h1 mod K, col = min(lz(h2), 63) of the     *)
(* MurmurHash3_x64_128 of the canonical bytes.                             *)
(*                                                                         *)
(* State: obj[i] for every live sketch, uni[u] for every live union.       *)
(*   obj[i].fed    ghost ground truth = the set of reference cells offered *)
(*                 (for a union result: the defining OR of folded inputs;  *)
(*                 for a restored sketch: the value stored with the image) *)
(*   obj[i].merged the sketch is in merged form (came out of a union)      *)
(* The property fixes the observable content as a FUNCTION of the ghost:   *)
(*   coupon count C = Cardinality(fed), bit matrix = fed, in every flavor. *)
(* Nothing of the mechanism (flavors, window, table, speed filter) exists  *)
(* here; it lives in CpcDesign.tla / CpcUnionDesign.tla.                   *)
(***************************************************************************)
EXTENDS Naturals, FiniteSets, Sequences, TLC
CONSTANTS Ids, UIds, BIds, LgKs, Cells    \* bounds used only by Next (model checking)
VARIABLES obj, uni, blob
vars == <<obj, uni, blob>>

Live == DOMAIN obj
ULive == DOMAIN uni
Pow2(n) == 2 ^ n
Row(x) == x \div 64
Col(x) == x % 64
Cell(r, c) == r * 64 + c
InRange(x, lgK) == Row(x) < Pow2(lgK)

\* ---- what the API must expose, as functions of the ghost ----
C(o) == Cardinality(o.fed)
Matrix(o) == o.fed
Empty(o) == o.fed = {}
Val(o) == [lgK |-> o.lgK, fed |-> o.fed, merged |-> o.merged]

\* ---- documented derivations from the coupon count (cpc_sketch.hpp: "these sketches always obey the following strict mapping
\* between the flavor of a sketch and the number of coupons"; window_offset "derivable from num_coupons").  Every reader of an
\* image derives flavor and offset from (lgK, C) alone, so a live sketch must agree with them at every count. ----
DocFlavor(lgK, c) == LET k == Pow2(lgK) IN     \* 0 EMPTY, 1 SPARSE, 2 HYBRID, 3 PINNED, 4 SLIDING
  IF c = 0 THEN 0 ELSE IF 32 * c < 3 * k THEN 1 ELSE IF 2 * c < k THEN 2 ELSE IF 8 * c < 27 * k THEN 3 ELSE 4
DocOffset(lgK, c) == LET k == Pow2(lgK) IN IF 8 * c < 19 * k THEN 0 ELSE (8 * c - 19 * k) \div (8 * k)

\* ---- union definition: fold rows modulo the result K, then OR ----
Fold(S, lgK) == {Cell(Row(x) % Pow2(lgK), Col(x)) : x \in S}
MinOf(S) == CHOOSE m \in S : \A y \in S : m <= y
\* inputs: sequence of sketch values [lgK, fed] in the order they were offered (the order must not matter)
NonEmptyIn(u) == {k \in DOMAIN u.inputs : u.inputs[k].fed # {}}
ResLgK(u) == MinOf({u.lgK} \cup {u.inputs[k].lgK : k \in NonEmptyIn(u)})
UnionDef(u) == UNION {Fold(u.inputs[k].fed, ResLgK(u)) : k \in NonEmptyIn(u)}

Init == obj = <<>> /\ uni = <<>> /\ blob = <<>>

New(i, lgK) == /\ obj' = (i :> [lgK |-> lgK, fed |-> {}, merged |-> FALSE]) @@ obj
               /\ UNCHANGED <<uni, blob>>
\* update(item) whose reference cell is x: the cell joins the matrix - in every flavor, merged or not
Update(i, x) ==
  /\ i \in Live
  /\ InRange(x, obj[i].lgK)
  /\ obj' = [obj EXCEPT ![i].fed = @ \cup {x}]
  /\ UNCHANGED <<uni, blob>>
\* a batch of updates = the same law applied to every cell of the batch (|S| consecutive Update steps)
UpdateAll(i, S) ==
  /\ i \in Live
  /\ \A x \in S : InRange(x, obj[i].lgK)
  /\ obj' = [obj EXCEPT ![i].fed = @ \cup S]
  /\ UNCHANGED <<uni, blob>>
\* update("") is ignored
UpdateIgnored(i) == i \in Live /\ UNCHANGED vars
Copy(i, j) == i \in Live /\ obj' = (j :> obj[i]) @@ obj /\ UNCHANGED <<uni, blob>>
Destroy(i) == i \in Live /\ obj' = [x \in Live \ {i} |-> obj[x]] /\ UNCHANGED <<uni, blob>>

UnionNew(u, lgK) == /\ uni' = (u :> [lgK |-> lgK, inputs |-> <<>>]) @@ uni
                    /\ UNCHANGED <<obj, blob>>
\* update(sketch), lvalue or rvalue: the source VALUE joins the inputs (an rvalue source is left unspecified:
\* the trace specification destroys it)
UnionUpdate(u, i) ==
  /\ u \in ULive /\ i \in Live
  /\ uni' = [uni EXCEPT ![u].inputs = Append(@, [lgK |-> obj[i].lgK, fed |-> obj[i].fed])]
  /\ UNCHANGED <<obj, blob>>
\* update(sketch&&): same law; the moved-from source is not specified any further, it leaves the model
UnionUpdateMove(u, i) ==
  /\ u \in ULive /\ i \in Live
  /\ uni' = [uni EXCEPT ![u].inputs = Append(@, [lgK |-> obj[i].lgK, fed |-> obj[i].fed])]
  /\ obj' = [x \in Live \ {i} |-> obj[x]]
  /\ UNCHANGED blob
\* get_result(): m = merged flag of the result.  The property fixes lgK and the coupon set; a non-empty result is in
\* merged form; for an empty result (estimate 0 either way) the flag is left to the implementation.
GetResult(u, j, m) ==
  /\ u \in ULive
  /\ (UnionDef(uni[u]) # {} => m)
  /\ obj' = (j :> [lgK |-> ResLgK(uni[u]), fed |-> UnionDef(uni[u]), merged |-> m]) @@ obj
  /\ UNCHANGED <<uni, blob>>
UnionCopy(u, v) == u \in ULive /\ uni' = (v :> uni[u]) @@ uni /\ UNCHANGED <<obj, blob>>

\* compression is lossless: the image stands for the value
SerializeTo(i, b) == i \in Live /\ blob' = (b :> Val(obj[i])) @@ blob /\ UNCHANGED <<obj, uni>>
DeserializeFrom(b, j) == b \in DOMAIN blob /\ obj' = (j :> blob[b]) @@ obj /\ UNCHANGED <<uni, blob>>

Next == \/ \E i \in Ids :
             \/ \E k \in LgKs : New(i, k)
             \/ \E x \in Cells : Update(i, x)
             \/ \E x \in Cells : UpdateAll(i, {x} \cup {y \in Cells : y < x})
             \/ UpdateIgnored(i)
             \/ \E j \in Ids : Copy(i, j)
             \/ Destroy(i)
             \/ \E b \in BIds : SerializeTo(i, b) \/ DeserializeFrom(b, i)
        \/ \E u \in UIds :
             \/ \E k \in LgKs : UnionNew(u, k)
             \/ \E i \in Ids : UnionUpdate(u, i) \/ UnionUpdateMove(u, i)
             \/ \E j \in Ids, m \in BOOLEAN : GetResult(u, j, m)
Spec == Init /\ [][Next]_vars

\* ---- invariants: the clauses of the statement that are state predicates ----
ObjOK(o) == \A x \in o.fed : InRange(x, o.lgK) /\ Col(x) <= 63
UnionOK(u) ==
  LET r == ResLgK(u)  d == UnionDef(u) IN
  /\ r <= u.lgK
  /\ \A k \in NonEmptyIn(u) : r <= u.inputs[k].lgK
  /\ (r = u.lgK \/ \E k \in NonEmptyIn(u) : r = u.inputs[k].lgK)
  /\ \A x \in d : InRange(x, r)
  \* every input cell is present after folding, and nothing else is
  /\ \A k \in DOMAIN u.inputs : \A x \in u.inputs[k].fed : Cell(Row(x) % Pow2(r), Col(x)) \in d
  /\ Cardinality(d) <= Cardinality(UNION {u.inputs[k].fed : k \in DOMAIN u.inputs})
\* order independence: the definition depends on the inputs only as a bag (checked on all permutations of <= 3 inputs)
Perms(s) == {p \in [DOMAIN s -> DOMAIN s] : \A a, b \in DOMAIN s : a # b => p[a] # p[b]}
OrderFree(u) == Len(u.inputs) <= 3 =>
  \A p \in Perms(u.inputs) :
     LET v == [u EXCEPT !.inputs = [k \in DOMAIN u.inputs |-> u.inputs[p[k]]]] IN
     ResLgK(v) = ResLgK(u) /\ UnionDef(v) = UnionDef(u)
Inv == /\ \A i \in Live : ObjOK(obj[i])
       /\ \A u \in ULive : UnionOK(uni[u]) /\ OrderFree(uni[u])
       /\ \A b \in DOMAIN blob : ObjOK(blob[b])
====
