---- MODULE Layout ----
(***************************************************************************)
(* C10 - a reader (and, for the fixed-layout legacy forms, a writer)       *)
(* written ONLY from the documentation of the serialized images: the       *)
(* "Serialized sketch layout" comments, the flag / offset / family /       *)
(* version constants of the headers, and - where the C++ comments are      *)
(* silent - the published preamble tables of the Java library the images   *)
(* must stay compatible with.                                              *)
(*                                                                         *)
(* Bytes are sequences of 0..255, offsets are 0-based as in the comments.  *)
(* Fields below 2^31 (counts, k, lgK, flags, ids, seed hash) are decoded   *)
(* to integers; 64-bit quantities (hashes, theta, doubles, weights) stay   *)
(* 8-byte tuples: no 64-bit arithmetic except byte-wise addition with      *)
(* carry (theta v4 deltas, Bloom index definition).                        *)
(*                                                                         *)
(* Dec_<family>(b, hints) = [v |-> projection the public API must report,  *)
(*                           c |-> <<name, holds>> documented constants]   *)
(***************************************************************************)
EXTENDS Integers, Sequences, FiniteSets, TLC

\* ------------------------------------------------------------------ bytes
B(b, o) == IF o + 1 \in DOMAIN b THEN b[o + 1] ELSE -1          \* total: a short image decodes to -1s and fails a clause
Sub(b, o, n) == [i \in 1..n |-> B(b, o + i - 1)]
U16(b, o) == B(b, o) + 256 * B(b, o + 1)
U32(b, o) == IF B(b, o + 3) \in 0..127 THEN B(b, o) + 256 * B(b, o + 1) + 65536 * B(b, o + 2) + 16777216 * B(b, o + 3) ELSE -1
U64s(b, o) == IF \A i \in 4..7 : B(b, o + i) = 0 THEN U32(b, o) ELSE -1   \* 64-bit count known to be small
Bit(x, i) == x >= 0 /\ (x \div (2 ^ i)) % 2 = 1
Zeros(n) == [i \in 1..n |-> 0]
\* counts and exponents read from an image are bounded by the image before anything is built from them: an implausible
\* count decodes to -1 (and fails the field or length clause) instead of a huge sequence
Sn(b, x) == IF x \in 0..Len(b) THEN x ELSE -1
At(s, i) == IF i \in DOMAIN s THEN s[i] ELSE <<-1>>
P2(e) == IF e \in 0..24 THEN 2 ^ e ELSE -1
LE(x, n) == [i \in 1..n |-> IF i > 4 THEN 0 ELSE (x \div (256 ^ (i - 1))) % 256]   \* small integer (< 2^31) as n little-endian bytes
BE(x, n) == [i \in 1..n |-> IF n - i > 3 THEN 0 ELSE (x \div (256 ^ (n - i))) % 256]
Rev(s) == [i \in 1..Len(s) |-> s[Len(s) + 1 - i]]
ToSetL(s) == {s[i] : i \in DOMAIN s}
RECURSIVE Flat(_)
Flat(ss) == IF ss = <<>> THEN <<>> ELSE Head(ss) \o Flat(Tail(ss))
Pow2(n) == 2 ^ n
MaxTheta == <<255, 255, 255, 255, 255, 255, 255, 127>>
Ones8 == <<255, 255, 255, 255, 255, 255, 255, 255>>
DefaultSeedHash == 37836        \* 0x93CC: low 16 bits of MurmurHash3_x64_128(9001 as 8 LE bytes, seed 0).h1 (self-checked by the harness)

\* byte-wise little-endian addition modulo 2^(8n)
RECURSIVE AddC(_, _, _, _)
AddC(x, y, i, c) == IF i > Len(x) THEN <<>> ELSE LET s == x[i] + y[i] + c IN <<s % 256>> \o AddC(x, y, i + 1, s \div 256)
Add64(x, y) == AddC(x, y, 1, 0)
\* x >> 1 on an 8-byte little-endian tuple
Shr1(x) == [i \in 1..8 |-> (x[i] \div 2) + (IF i < 8 THEN (x[i + 1] % 2) * 128 ELSE 0)]
\* x mod m for an 8-byte LE tuple, m < 2^22 (Horner from the most significant byte; intermediate < 2^30)
RECURSIVE ModH(_, _, _, _)
ModH(x, m, i, acc) == IF i = 0 THEN acc ELSE ModH(x, m, i - 1, (acc * 256 + x[i]) % m)
Mod64(x, m) == ModH(x, m, 8, 0)
\* number of leading zero bits of an 8-byte LE tuple
Lz8(v) == CHOOSE n \in 0..8 : (n = 8 \/ v >= 2 ^ (7 - n)) /\ \A k \in 0..(n - 1) : v < 2 ^ (7 - k)
RECURSIVE LzFrom(_, _)
LzFrom(x, i) == IF i = 0 THEN 0 ELSE IF x[i] = 0 THEN 8 + LzFrom(x, i - 1) ELSE Lz8(x[i])
Lz64(x) == LzFrom(x, 8)
Min2(a, b) == IF a < b THEN a ELSE b
\* unsigned order of 8-byte LE tuples
RECURSIVE LtFrom(_, _, _)
LtFrom(x, y, i) == IF i = 0 THEN FALSE ELSE IF x[i] # y[i] THEN x[i] < y[i] ELSE LtFrom(x, y, i - 1)
Lt64(x, y) == LtFrom(x, y, 8)
AscKeys(keys) == \A i \in 1..(Len(keys) - 1) : Lt64(keys[i], keys[i + 1])

\* ------------------------------------------------------------------ items (serde of arithmetic types: raw LE bytes; strings: u32 length + bytes)
SLen(b, o) == Sn(b, U32(b, o))
ItemAt(b, o, isz) == IF isz > 0 THEN Sub(b, o, isz) ELSE Sub(b, o + 4, SLen(b, o))
ItemLen(b, o, isz) == IF isz > 0 THEN isz ELSE IF SLen(b, o) < 0 THEN -1 ELSE 4 + SLen(b, o)
RECURSIVE ReadN(_, _, _, _)            \* <<items, offset after>>
ReadN(b, o, n, isz) == IF n <= 0 THEN <<<<>>, o>>
                       ELSE IF ItemLen(b, o, isz) < 0 \/ o > Len(b) \/ o < 0 THEN <<[i \in 1..n |-> <<-1>>], -1>>
                       ELSE LET r == ReadN(b, o + ItemLen(b, o, isz), n - 1, isz) IN << <<ItemAt(b, o, isz)>> \o r[1], r[2]>>
RECURSIVE ReadAll(_, _, _)             \* all items up to the end of the image
ReadAll(b, o, isz) == IF o >= Len(b) \/ o < 0 \/ ItemLen(b, o, isz) <= 0 THEN <<>>
                      ELSE <<ItemAt(b, o, isz)>> \o ReadAll(b, o + ItemLen(b, o, isz), isz)
EncItem(it, isz) == IF isz > 0 THEN it ELSE LE(Len(it), 4) \o it

\* ================================================================== Theta compact (family 3), serial versions 1..4
\* flags (bit positions): 0 big-endian, 1 read-only, 2 empty, 3 compact, 4 ordered
Entries(b, o, n) == [i \in 1..n |-> Sub(b, o + 8 * (i - 1), 8)]
\* v4: entryBits-wide deltas, most significant bit first, packed contiguously
BitAt(b, o, j) == (B(b, o + (j \div 8)) \div (2 ^ (7 - (j % 8)))) % 2
DeltaLE(b, o, eb, i) ==
  LET vb(v) == IF v < eb THEN BitAt(b, o, i * eb + (eb - 1 - v)) ELSE 0
  IN [t \in 1..8 |-> vb(8*(t-1)) + 2*vb(8*(t-1)+1) + 4*vb(8*(t-1)+2) + 8*vb(8*(t-1)+3)
                     + 16*vb(8*(t-1)+4) + 32*vb(8*(t-1)+5) + 64*vb(8*(t-1)+6) + 128*vb(8*(t-1)+7)]
RECURSIVE Undelta(_, _, _, _, _, _)
Undelta(b, o, eb, i, n, prev) == IF i >= n THEN <<>> ELSE LET cur == Add64(prev, DeltaLE(b, o, eb, i)) IN <<cur>> \o Undelta(b, o, eb, i + 1, n, cur)
LEcount(b, o, nb) == IF nb = 0 THEN 0 ELSE IF nb = 1 THEN B(b, o) ELSE IF nb = 2 THEN U16(b, o) ELSE IF nb = 3 THEN U16(b, o) + 65536 * B(b, o + 2) ELSE U32(b, o)
CeilDiv(a, d) == (a + d - 1) \div d
NumBytesFor(n) == IF n = 0 THEN 0 ELSE IF n < 256 THEN 1 ELSE IF n < 65536 THEN 2 ELSE IF n < 16777216 THEN 3 ELSE 4

ThetaV(empty, ordered, n, theta, sh, ent) ==
  [empty |-> empty, ordered |-> ordered, n |-> n, theta |-> theta, est |-> (theta # MaxTheta /\ ~empty), seedhash |-> sh, ent |-> ent]

Dec_theta(b, hints) ==
  LET pre == B(b, 0) % 64  ver == B(b, 1)  fam == B(b, 2)  flags == B(b, 5)  sh == U16(b, 6) IN
  CASE ver = 3 ->
      LET emptyF == Bit(flags, 2)
          n == IF emptyF THEN 0 ELSE IF pre = 1 THEN 1 ELSE Sn(b, U32(b, 8))
          theta == IF pre >= 3 /\ ~emptyF THEN Sub(b, 16, 8) ELSE MaxTheta
          off == IF pre = 1 THEN 8 ELSE IF pre = 2 THEN 16 ELSE 24
          v == ThetaV(emptyF, Bit(flags, 4), n, theta, sh, Entries(b, off, n))
      IN [v |-> v, ver |-> 3,
          c |-> << <<"family-id", fam = 3>>, <<"flag-compact", Bit(flags, 3)>>, <<"flag-read-only", Bit(flags, 1)>>,
                   <<"flag-big-endian-clear", ~Bit(flags, 0)>>, <<"reserved-bits-zero", flags < 64 /\ B(b, 0) < 64>>,
                   <<"preamble-longs", pre = (IF v.est THEN 3 ELSE IF emptyF \/ n = 1 THEN 1 ELSE 2)>>,
                   <<"unused-zero", B(b, 3) = 0 /\ B(b, 4) = 0 /\ (pre > 1 => Sub(b, 12, 4) = Zeros(4))>>,
                   <<"length", Len(b) = (IF emptyF THEN 8 ELSE off + 8 * n)>> >>]
    [] ver = 4 ->
      LET eb == B(b, 3)  neb == B(b, 4)
          theta == IF pre > 1 THEN Sub(b, 8, 8) ELSE MaxTheta
          off0 == IF pre > 1 THEN 16 ELSE 8
          n == Sn(b, LEcount(b, off0, neb))
          ent == Undelta(b, off0 + neb, eb, 0, n, Zeros(8))
          v == ThetaV(Bit(flags, 2), Bit(flags, 4), n, theta, sh, ent)
      IN [v |-> v, ver |-> 4,
          c |-> << <<"family-id", fam = 3>>, <<"flag-compact", Bit(flags, 3)>>, <<"flag-read-only", Bit(flags, 1)>>,
                   <<"flag-big-endian-clear", ~Bit(flags, 0)>>, <<"v4-ordered", Bit(flags, 4)>>, <<"reserved-bits-zero", flags < 64 /\ B(b, 0) < 64>>,
                   <<"preamble-longs", pre = (IF v.est THEN 2 ELSE 1)>>,
                   <<"v4-num-entries-bytes", neb = NumBytesFor(n)>>,
                   <<"length", Len(b) = off0 + neb + CeilDiv(n * eb, 8)>> >>]
    [] ver = 1 ->
      LET n == Sn(b, U32(b, 8))  theta == Sub(b, 16, 8)  empty == (n = 0 /\ theta = MaxTheta)
      IN [v |-> ThetaV(empty, TRUE, n, theta, hints.dsh, Entries(b, 24, n)), ver |-> 1,
          c |-> << <<"family-id", fam = 3>>, <<"preamble-longs", pre = 3>>, <<"length", Len(b) = 24 + 8 * n>> >>]
    [] ver = 2 ->
      LET n == IF pre = 1 THEN 0 ELSE Sn(b, U32(b, 8))
          theta == IF pre = 3 THEN Sub(b, 16, 8) ELSE MaxTheta
          empty == (n = 0 /\ theta = MaxTheta)
          off == IF pre = 3 THEN 24 ELSE 16
      IN [v |-> ThetaV(empty, TRUE, n, theta, sh, Entries(b, off, n)), ver |-> 2,
          c |-> << <<"family-id", fam = 3>>, <<"preamble-longs", pre \in 1..3>>, <<"length", Len(b) = (IF pre = 1 THEN 8 ELSE off + 8 * n)>> >>]
    [] OTHER -> [v |-> [ver |-> ver], ver |-> ver, c |-> << <<"serial-version", FALSE>> >>]

\* --- writers (documented forms).  st = ThetaV record; entries are 8-byte tuples
ThetaFlags(st) == 2 + 8 + (IF st.empty THEN 4 ELSE 0) + (IF st.ordered THEN 16 ELSE 0)
Enc_theta_v3(st) ==
  LET pre == IF st.est THEN 3 ELSE IF st.empty \/ st.n = 1 THEN 1 ELSE 2 IN
  <<pre, 3, 3, 0, 0, ThetaFlags(st)>> \o LE(st.seedhash, 2)
  \o (IF pre > 1 THEN LE(st.n, 4) \o Zeros(4) ELSE <<>>) \o (IF pre > 2 THEN st.theta ELSE <<>>) \o Flat(st.ent)
\* v1: 3 preamble longs always; no flags, no seed hash (Java SerVer 1: bytes 3..7 unused here, p = 1.0f at 12..15 as in the shipped images)
Enc_theta_v1(st) == <<3, 1, 3, 0, 0, 0, 0, 0>> \o LE(st.n, 4) \o <<0, 0, 128, 63>> \o st.theta \o Flat(st.ent)
\* v2: 1 long when empty, 2 longs exact, 3 longs with theta; seed hash present
Enc_theta_v2(st, pre) == <<pre, 2, 3, 0, 0, ThetaFlags(st)>> \o LE(st.seedhash, 2)
  \o (IF pre > 1 THEN LE(st.n, 4) \o <<0, 0, 128, 63>> ELSE <<>>) \o (IF pre > 2 THEN st.theta ELSE <<>>) \o Flat(st.ent)
\* v4: entries given as ascending small integers (vals), eb >= bits of the largest delta
BitsMSB(x, w) == [i \in 1..w |-> (x \div (2 ^ (w - i))) % 2]
PackBits(bits) == LET nb == CeilDiv(Len(bits), 8)  bit(j) == IF j <= Len(bits) THEN bits[j] ELSE 0
                  IN [t \in 1..nb |-> 128*bit(8*t-7) + 64*bit(8*t-6) + 32*bit(8*t-5) + 16*bit(8*t-4) + 8*bit(8*t-3) + 4*bit(8*t-2) + 2*bit(8*t-1) + bit(8*t)]
Enc_theta_v4(vals, eb, theta, est, sh) ==
  LET n == Len(vals)  neb == NumBytesFor(n)
      deltas == [i \in 1..n |-> vals[i] - (IF i = 1 THEN 0 ELSE vals[i - 1])]
  IN <<(IF est THEN 2 ELSE 1), 4, 3, eb, neb, 2 + 8 + 16>> \o LE(sh, 2) \o (IF est THEN theta ELSE <<>>) \o LE(n, neb)
     \o PackBits(Flat([i \in 1..n |-> BitsMSB(deltas[i], eb)]))

\* v4 with deltas given as eb-wide bit sequences (most significant bit first): every bit position of every packing width can be exercised
BitsToLE(bits) == LET w == Len(bits)  vb(v) == IF v < w THEN bits[w - v] ELSE 0     \* value bit v (0 = least significant)
                  IN [t \in 1..8 |-> vb(8*(t-1)) + 2*vb(8*(t-1)+1) + 4*vb(8*(t-1)+2) + 8*vb(8*(t-1)+3)
                                     + 16*vb(8*(t-1)+4) + 32*vb(8*(t-1)+5) + 64*vb(8*(t-1)+6) + 128*vb(8*(t-1)+7)]
RECURSIVE PrefixSums(_, _, _)
PrefixSums(ds, i, prev) == IF i > Len(ds) THEN <<>> ELSE LET cur == Add64(prev, ds[i]) IN <<cur>> \o PrefixSums(ds, i + 1, cur)
Enc_theta_v4_bits(deltabits, eb, theta, est, sh) ==
  LET n == Len(deltabits)  neb == NumBytesFor(n)
  IN <<(IF est THEN 2 ELSE 1), 4, 3, eb, neb, 2 + 8 + 16>> \o LE(sh, 2) \o (IF est THEN theta ELSE <<>>) \o LE(n, neb) \o PackBits(Flat(deltabits))

\* ================================================================== Tuple (family 9, type 1; legacy: version 1 / type 5)
TupEntries(b, o, n, ssz) == [i \in 1..n |-> <<Sub(b, o + (8 + ssz) * (i - 1), 8), Sub(b, o + (8 + ssz) * (i - 1) + 8, ssz)>>]
Dec_tuple(b, hints) ==
  LET pre == B(b, 0)  ver == B(b, 1)  fam == B(b, 2)  type == B(b, 3)  flags == B(b, 5)  sh == U16(b, 6)  ssz == hints.ssz
      emptyF == Bit(flags, 2)
      n == IF emptyF THEN 0 ELSE IF pre = 1 THEN 1 ELSE Sn(b, U32(b, 8))
      theta == IF pre >= 3 /\ ~emptyF THEN Sub(b, 16, 8) ELSE MaxTheta
      off == IF pre = 1 THEN 8 ELSE IF pre = 2 THEN 16 ELSE 24
      v == ThetaV(emptyF, Bit(flags, 4), n, theta, sh, TupEntries(b, off, n, ssz))
  IN [v |-> v, ver |-> ver, type |-> type,
      c |-> << <<"family-id", fam = 9>>, <<"serial-version+type", <<ver, type>> \in {<<3, 1>>, <<1, 5>>}>>,
               <<"flag-compact", Bit(flags, 3)>>, <<"flag-read-only", Bit(flags, 1)>>, <<"flag-big-endian-clear", ~Bit(flags, 0)>>,
               <<"reserved-bits-zero", flags < 64>>, <<"unused-zero", B(b, 4) = 0 /\ (pre > 1 => Sub(b, 12, 4) = Zeros(4))>>,
               <<"preamble-longs", pre = (IF v.est THEN 3 ELSE IF emptyF \/ n = 1 THEN 1 ELSE 2)>>,
               <<"length", Len(b) = (IF emptyF THEN 8 ELSE off + (8 + ssz) * n)>> >>]
Enc_tuple(st, ver, type) ==
  LET pre == IF st.est THEN 3 ELSE IF st.empty \/ st.n = 1 THEN 1 ELSE 2 IN
  <<pre, ver, 9, type, 0, ThetaFlags(st)>> \o LE(st.seedhash, 2)
  \o (IF pre > 1 THEN LE(st.n, 4) \o Zeros(4) ELSE <<>>) \o (IF pre > 2 THEN st.theta ELSE <<>>)
  \o Flat([i \in 1..Len(st.ent) |-> st.ent[i][1] \o st.ent[i][2]])

\* ================================================================== array of doubles (family 9, type 3, version 1)
\* flags: 2 empty, 3 has entries, 4 ordered; theta always present; keys first, then all values
Dec_aod(b, hints) ==
  LET ver == B(b, 1)  fam == B(b, 2)  type == B(b, 3)  flags == B(b, 4)  nv == B(b, 5)  sh == U16(b, 6)
      has == Bit(flags, 3)
      n == IF has THEN Sn(b, U32(b, 16)) ELSE 0
      keys == 24  vals == 24 + 8 * n
      ent == [i \in 1..n |-> <<Sub(b, keys + 8 * (i - 1), 8), [j \in 1..nv |-> Sub(b, vals + 8 * (nv * (i - 1) + (j - 1)), 8)]>>]
  IN [v |-> [empty |-> Bit(flags, 2), ordered |-> Bit(flags, 4), n |-> n, theta |-> Sub(b, 8, 8), nv |-> nv, seedhash |-> sh, ent |-> ent],
      ver |-> ver,
      c |-> << <<"family-id", fam = 9>>, <<"sketch-type", type = 3>>, <<"serial-version", ver = 1>>, <<"preamble-longs", B(b, 0) = 1>>,
               <<"has-entries-flag", has = (n > 0)>>, <<"reserved-bits-zero", flags < 32 /\ flags % 4 = 0>>, <<"unused-zero", has => Sub(b, 20, 4) = Zeros(4)>>, <<"length", Len(b) = 16 + (IF has THEN 8 + n * 8 * (1 + nv) ELSE 0)>> >>]

\* ================================================================== HLL (family 7, version 1)
\* flags masks: 4 empty, 8 compact, 16 out-of-order, 32 full-size.  byte 7: low 2 bits mode (0 LIST, 1 SET, 2 HLL), next 2 bits type (0 HLL_4, 1 HLL_6, 2 HLL_8)
\* coupon int: low 26 bits slot address, upper 6 bits value
LgAuxArrInts == <<2, 2, 2, 2, 2, 2, 3, 3, 3, 4, 4, 5, 5, 6, 7, 8, 9, 10, 11, 12, 13, 14, 15, 16, 17, 18>>   \* index lgK (1-based lgK >= 1)
Coup(b, o) == <<B(b, o) + 256 * B(b, o + 1) + 65536 * B(b, o + 2) + 16777216 * (B(b, o + 3) % 4), B(b, o + 3) \div 4>>
Coupons(b, o, cnt) == {Coup(b, o + 4 * i) : i \in 0..(cnt - 1)} \ {<<0, 0>>}
Dec_hll(b, hints) ==
  LET pre == B(b, 0)  ver == B(b, 1)  fam == B(b, 2)  lgk == B(b, 3)  lgarr == B(b, 4)  flags == B(b, 5)
      mode == B(b, 7) % 4  tgt == (B(b, 7) \div 4) % 4  compact == Bit(flags, 3)  k == IF lgk \in 4..21 /\ P2(lgk) <= 2 * Len(b) THEN P2(lgk) ELSE 0
      base == [lgk |-> lgk, tgt |-> tgt, empty |-> Bit(flags, 2), compact |-> compact]
      cc == << <<"family-id", fam = 7>>, <<"serial-version", ver = 1>>, <<"mode-byte-upper-bits-clear", B(b, 7) < 16>>, <<"reserved-flag-bits-zero", flags < 64 /\ flags % 4 = 0>> >>
  IN CASE mode = 0 ->
        LET cnt == B(b, 6)  slots == Sn(b, IF compact THEN cnt ELSE P2(lgarr))  cs == Coupons(b, 8, slots) IN
        [v |-> base @@ [ncoupons |-> cnt, coupons |-> cs], mode |-> 0,
         c |-> cc \o << <<"preamble-ints", pre = 2>>, <<"list-count", Cardinality(cs) = cnt>>, <<"lg-arr", lgarr = 3>>,
                        <<"length", Len(b) = 8 + 4 * slots>> >>]
     [] mode = 1 ->
        LET cnt == U32(b, 8)  slots == Sn(b, IF compact THEN cnt ELSE P2(lgarr))  cs == Coupons(b, 12, slots) IN
        [v |-> base @@ [ncoupons |-> cnt, coupons |-> cs], mode |-> 1,
         c |-> cc \o << <<"preamble-ints", pre = 3>>, <<"set-count", Cardinality(cs) = cnt>>, <<"list-count-byte-zero", B(b, 6) = 0>>,
                        <<"lg-arr", lgarr \in 5..24 /\ cnt \in 0..Len(b) /\ 4 * cnt <= 3 * P2(lgarr)>>, <<"length", Len(b) = 12 + 4 * slots>> >>]
     [] mode = 2 ->
        LET curmin == B(b, 6)  nacm == U32(b, 32)  auxcnt == U32(b, 36)
            arrbytes == IF tgt = 0 THEN k \div 2 ELSE IF tgt = 1 THEN ((3 * k) \div 4) + 1 ELSE k
            auxints == IF tgt # 0 \/ k = 0 THEN 0 ELSE Sn(b, IF compact THEN auxcnt ELSE P2(IF lgarr = 0 THEN LgAuxArrInts[lgk] ELSE lgarr))
            aux == Coupons(b, 40 + arrbytes, auxints)
            auxval(i) == IF \E p \in aux : p[1] = i THEN (CHOOSE p \in aux : p[1] = i)[2] ELSE -1
            reg(i) == IF tgt = 2 THEN B(b, 40 + i)
                      ELSE IF tgt = 1 THEN LET bit == 6 * i  by == bit \div 8  two == B(b, 40 + by) + 256 * B(b, 40 + by + 1) IN (two \div (2 ^ (bit % 8))) % 64
                      ELSE LET by == B(b, 40 + (i \div 2))  nib == IF i % 2 = 0 THEN by % 16 ELSE by \div 16 IN
                           IF nib = 15 THEN auxval(i) ELSE nib + curmin
            regs == [i \in 1..k |-> reg(i - 1)]
            minreg == IF k = 0 THEN -1 ELSE CHOOSE m \in ToSetL(regs) : \A x \in ToSetL(regs) : m <= x
        IN
        [v |-> base @@ [regs |-> regs, ooo |-> Bit(flags, 4)], mode |-> 2, hip |-> Sub(b, 8, 8), ooo |-> Bit(flags, 4),
         c |-> cc \o << <<"preamble-ints", pre = 10>>,
                        <<"cur-min", curmin = (IF tgt = 0 THEN minreg ELSE 0)>>,
                        <<"num-at-cur-min", nacm = Cardinality({i \in 1..k : regs[i] = curmin})>>,
                        <<"aux-count", auxcnt = Cardinality(aux)>>,
                        <<"aux-exceptions-are-the-token-slots", tgt = 0 => {p[1] : p \in aux} = {i \in 0..(k - 1) : (LET by == B(b, 40 + (i \div 2)) IN (IF i % 2 = 0 THEN by % 16 ELSE by \div 16)) = 15}>>,
                        <<"length", Len(b) = 40 + arrbytes + 4 * auxints>> >>]
     [] OTHER -> [v |-> base, mode |-> mode, c |-> << <<"mode", FALSE>> >>]

\* ================================================================== CPC (family 16, version 1): documented preamble only
\* flags: 0 big-endian, 1 compressed, 2 has HIP, 3 has table (surprising values), 4 has window
Dec_cpc(b, hints) ==
  LET pre == B(b, 0)  ver == B(b, 1)  fam == B(b, 2)  lgk == B(b, 3)  fic == B(b, 4)  flags == B(b, 5)  sh == U16(b, 6)
      hip == Bit(flags, 2)  tab == Bit(flags, 3)  win == Bit(flags, 4)  both == tab /\ win  nonempty == tab \/ win
      cnum == IF nonempty THEN U32(b, 8) ELSE 0
      o1 == 12 + (IF both THEN 4 + (IF hip THEN 16 ELSE 0) ELSE 0)         \* after numSV (+ kxp, hip)
      tw == IF tab THEN Sn(b, U32(b, o1)) ELSE 0
      o2 == o1 + (IF tab THEN 4 ELSE 0)
      ww == IF win THEN Sn(b, U32(b, o2)) ELSE 0
      o3 == o2 + (IF win THEN 4 ELSE 0)
      hipoff == IF both THEN 24 ELSE o3 + 8                                  \* kxp first, then the HIP accumulator
      expre == 2 + (IF nonempty THEN 1 ELSE 0) + (IF both THEN 1 ELSE 0) + (IF tab THEN 1 ELSE 0) + (IF win THEN 1 ELSE 0) + (IF hip /\ nonempty THEN 4 ELSE 0)
  IN [v |-> [lgk |-> lgk, empty |-> ~nonempty, c |-> cnum, merged |-> ~hip, seedhash |-> sh],
      hip |-> IF hip /\ nonempty THEN Sub(b, hipoff, 8) ELSE <<>>,
      c |-> << <<"family-id", fam = 16>>, <<"serial-version", ver = 1>>, <<"flag-compressed", Bit(flags, 1)>>, <<"flag-big-endian-clear", ~Bit(flags, 0)>>, <<"reserved-flag-bits-zero", flags < 32>>,
               <<"preamble-ints", pre = expre>>, <<"first-interesting-column", fic \in 0..63>>,
               <<"sparse-has-no-window-below-3k/32", (nonempty /\ lgk \in 4..24 /\ cnum \in 0..1000000 /\ 32 * cnum < 3 * P2(lgk)) => ~win>>,
               <<"length", Len(b) = 4 * (pre + tw + ww)>> >>]

\* ================================================================== KLL (family 15; version 1 full preamble, version 2 single item)
\* flags: 0 empty, 1 level-zero sorted, 2 single item
\* total capacity of numLevels levels (published KLL definition): level h holds max(m, round(k * (2/3)^depth)) items, depth = numLevels - h - 1,
\* computed in integers as ((2k * 2^depth) div 3^depth + 1) div 2
KllLevelCap(k, m, depth) == LET c == (((2 * k) * (2 ^ depth)) \div (3 ^ depth) + 1) \div 2 IN IF c < m THEN m ELSE c
RECURSIVE KllCapSum(_, _, _, _)
KllCapSum(k, m, nl, h) == IF h >= nl THEN 0 ELSE KllLevelCap(k, m, nl - h - 1) + KllCapSum(k, m, nl, h + 1)
KllCapacity(k, m, nl) == KllCapSum(k, m, nl, 0)
Dec_kll(b, hints) ==
  LET pre == B(b, 0)  ver == B(b, 1)  fam == B(b, 2)  flags == B(b, 3)  k == U16(b, 4)  m == B(b, 6)  isz == hints.isz
      emptyF == Bit(flags, 0)  single == Bit(flags, 2)
      cc == << <<"family-id", fam = 15>>, <<"m", m = 8>>, <<"unused-zero", B(b, 7) = 0>>, <<"reserved-flag-bits-zero", flags < 8>> >>
  IN IF emptyF THEN
       [v |-> [k |-> k, n |-> 0, empty |-> TRUE, est |-> FALSE, nret |-> 0, items |-> <<>>, wts |-> {}],
        c |-> cc \o << <<"preamble-ints", pre = 2>>, <<"serial-version", ver \in {1, 2}>>, <<"length", Len(b) = 8>> >>]
     ELSE IF single THEN
       LET it == ItemAt(b, 8, isz) IN
       [v |-> [k |-> k, n |-> 1, empty |-> FALSE, est |-> FALSE, nret |-> 1, mink |-> k, items |-> <<it>>, wts |-> {<<it, 0>>}, min |-> it, max |-> it],
        c |-> cc \o << <<"preamble-ints", pre = 2>>, <<"serial-version", ver = 2>>, <<"length", Len(b) = 8 + ItemLen(b, 8, isz)>> >>]
     ELSE
       LET n == U64s(b, 8)  mink == U16(b, 16)  nl == B(b, 18)
           lv == [h \in 1..nl |-> U32(b, 20 + 4 * (h - 1))]
           all == ReadAll(b, 20 + 4 * nl, isz)
           r == Len(all) - 2
           items == [i \in 1..r |-> all[i + 2]]
           lv1 == IF nl >= 1 THEN lv[1] ELSE 0
           top == lv1 + r                                             \* the omitted last boundary = total capacity
           bound(h) == IF h <= nl THEN lv[h] ELSE top
           inl(h, i) == bound(h) <= lv1 + i - 1 /\ lv1 + i - 1 < bound(h + 1)
           lvl(i) == IF \E h \in 1..nl : inl(h, i) THEN CHOOSE h \in 1..nl : inl(h, i) ELSE -1
       IN
       [v |-> [k |-> k, n |-> n, empty |-> FALSE, est |-> (nl > 1), nret |-> r, mink |-> mink, items |-> items,
               wts |-> {<<items[i], lvl(i) - 1>> : i \in 1..r}, min |-> At(all, 1), max |-> At(all, 2)],
        c |-> cc \o << <<"preamble-ints", pre = 5>>, <<"serial-version", ver = 1>>, <<"unused-zero-19", B(b, 19) = 0>>,
                       <<"levels-non-decreasing", \A h \in 1..(nl - 1) : lv[h] <= lv[h + 1]>>, <<"levels-within-capacity", nl >= 1 /\ r >= 0 /\ lv[nl] <= top /\ \A h \in 1..nl : lv[h] >= 0>>,
                       <<"first-boundary=capacity-retained", (nl \in 1..12 /\ k <= 1000) => lv1 = KllCapacity(k, m, nl) - r>>,
                       <<"min-k", mink <= k>> >>]
\* writers: st = [k, n, mink, levels (sequence of item sequences, level 0 first), min, max]; level boundaries start at cap - retained
KllFlags(empty, sorted, single) == (IF empty THEN 1 ELSE 0) + (IF sorted THEN 2 ELSE 0) + (IF single THEN 4 ELSE 0)
Enc_kll_empty(k, ver) == <<2, ver, 15, KllFlags(TRUE, FALSE, FALSE)>> \o LE(k, 2) \o <<8, 0>>
Enc_kll_single(k, it, isz) == <<2, 2, 15, KllFlags(FALSE, FALSE, TRUE)>> \o LE(k, 2) \o <<8, 0>> \o EncItem(it, isz)
Enc_kll_v1(st, cap, isz) ==
  LET nl == Len(st.levels)
      r == Len(Flat(st.levels))
      start(h) == cap - r + Len(Flat(SubSeq(st.levels, 1, h - 1)))
  IN <<5, 1, 15, KllFlags(FALSE, FALSE, FALSE)>> \o LE(st.k, 2) \o <<8, 0>> \o LE(st.n, 8) \o LE(st.mink, 2) \o <<nl, 0>>
     \o Flat([h \in 1..nl |-> LE(start(h), 4)]) \o EncItem(st.min, isz) \o EncItem(st.max, isz)
     \o Flat([i \in 1..r |-> EncItem(Flat(st.levels)[i], isz)])

\* ================================================================== REQ (family 17, version 1)
\* flags: 2 empty, 3 high-rank accuracy, 4 raw items, 5 level-zero sorted
RECURSIVE ReqLevels(_, _, _, _)   \* sequence of [lgw, items], until the end of the image
ReqLevels(b, o, isz, left) ==
  IF left = 0 \/ o >= Len(b) THEN <<>>
  ELSE LET lgw == B(b, o + 12)  cnt == Sn(b, U32(b, o + 16))  r == ReadN(b, o + 20, cnt, isz)
       IN IF cnt < 0 \/ r[2] < 0 THEN << [lgw |-> -1, items |-> <<>>, pad |-> -1, nsec |-> -1] >>
          ELSE << [lgw |-> lgw, items |-> r[1], pad |-> U16(b, o + 14), nsec |-> B(b, o + 13)] >> \o ReqLevels(b, r[2], isz, left - 1)
Dec_req(b, hints) ==
  LET pre == B(b, 0)  ver == B(b, 1)  fam == B(b, 2)  flags == B(b, 3)  k == U16(b, 4)  nl == B(b, 6)  nraw == B(b, 7)  isz == hints.isz
      emptyF == Bit(flags, 2)  hra == Bit(flags, 3)  raw == Bit(flags, 4)  est == (pre = 4)
      cc == << <<"family-id", fam = 17>>, <<"serial-version", ver = 1>>, <<"reserved-flag-bits-zero", flags < 64 /\ flags % 4 = 0>> >>
      base == [k |-> k, hra |-> hra, empty |-> emptyF]
  IN IF emptyF THEN
       [v |-> base @@ [n |-> 0, est |-> FALSE, nret |-> 0, items |-> <<>>],
        c |-> cc \o << <<"preamble-ints", pre = 2>>, <<"num-levels", nl = 0>>, <<"length", Len(b) = 8>> >>]
     ELSE LET o0 == IF est THEN 16 + 2 * isz ELSE 8 IN
       IF raw THEN
         LET r == ReadN(b, o0, nraw, isz) IN
         [v |-> base @@ [n |-> nraw, est |-> est, nret |-> nraw, items |-> [i \in 1..nraw |-> <<r[1][i], 0>>]],
          c |-> cc \o << <<"preamble-ints", pre = 2>>, <<"raw-items-at-most-4", nraw \in 1..4>>, <<"num-levels", nl = 1>>, <<"length", Len(b) = r[2]>> >>]
       ELSE
         LET lvls == ReqLevels(b, o0, isz, nl)
             items == Flat([h \in 1..Len(lvls) |-> [i \in 1..Len(lvls[h].items) |-> <<lvls[h].items[i], lvls[h].lgw>>]])
             n == IF est THEN U64s(b, 8) ELSE Len(items)
             mm == IF est THEN [min |-> Sub(b, 16, isz), max |-> Sub(b, 16 + isz, isz)] ELSE <<>>
         IN
         [v |-> base @@ [n |-> n, est |-> est, nret |-> Len(items), items |-> items] @@ mm,
          c |-> cc \o << <<"preamble-ints", pre = (IF nl > 1 THEN 4 ELSE 2)>>, <<"num-levels", Len(lvls) = nl>>, <<"raw-count-zero", nraw = 0>>,
                         <<"level-weights", \A h \in 1..Len(lvls) : lvls[h].lgw = h - 1>>, <<"padding-zero", \A h \in 1..Len(lvls) : lvls[h].pad = 0>> >>]

\* ================================================================== classic quantiles (family 8; versions 1, 2, 3)
\* flags: 2 empty, 3 compact, 4 sorted.  v1: 5 preamble longs, never compact; v2: 2 longs, always compact; v3: flag decides.
\* data: min, max, base buffer (n mod 2k items; 2k slots when not compact and n >= 2k), then one k-array per set bit of n div 2k
RECURSIVE CqLevels(_, _, _, _, _, _)
CqLevels(b, o, isz, k, pattern, lvl) ==
  IF pattern = 0 THEN <<>>
  ELSE IF pattern % 2 = 1 THEN [i \in 1..k |-> <<Sub(b, o + isz * (i - 1), isz), lvl + 1>>] \o CqLevels(b, o + k * isz, isz, k, pattern \div 2, lvl + 1)
  ELSE CqLevels(b, o, isz, k, pattern \div 2, lvl + 1)
RECURSIVE PopCount(_)
PopCount(x) == IF x = 0 THEN 0 ELSE (x % 2) + PopCount(x \div 2)
Dec_quantiles(b, hints) ==
  LET pre == B(b, 0)  ver == B(b, 1)  fam == B(b, 2)  flags == B(b, 3)  k == U16(b, 4)  isz == hints.isz
      emptyF == Bit(flags, 2)  compact == (ver = 2) \/ Bit(flags, 3)
      cc == << <<"family-id", fam = 8>>, <<"serial-version", ver \in {1, 2, 3}>>, <<"reserved-flag-bits-zero", flags < 32 /\ flags % 4 = 0>> >>
  IN IF emptyF THEN
       [v |-> [k |-> k, n |-> 0, empty |-> TRUE, est |-> FALSE, nret |-> 0, items |-> <<>>], ver |-> ver, compact |-> compact,
        c |-> cc \o << <<"preamble-longs", pre \in (IF ver = 3 THEN {1, 2} ELSE {1})>>, <<"unused-zero", U16(b, 6) = 0>>, <<"length", Len(b) = 8 * pre>> >>]
     ELSE
       LET nraw == U64s(b, 8)  kk == IF k >= 1 THEN k ELSE 1
           n == IF nraw >= 0 /\ (nraw % (2 * kk)) + kk * PopCount(nraw \div (2 * kk)) <= Len(b) THEN nraw ELSE 0   \* implausible n: decode nothing
           bb == n % (2 * kk)  pattern == n \div (2 * kk)
           o0 == 16 + 2 * isz + (IF ver = 1 THEN 8 ELSE 0)
           bbslots == IF compact \/ pattern = 0 THEN bb ELSE 2 * k
           base == [i \in 1..bb |-> <<Sub(b, o0 + isz * (i - 1), isz), 0>>]
           lv == CqLevels(b, o0 + bbslots * isz, isz, kk, pattern, 0)
       IN
       [v |-> [k |-> k, n |-> nraw, empty |-> FALSE, est |-> (pattern > 0), nret |-> bb + k * PopCount(pattern), items |-> base \o lv,
               min |-> Sub(b, 16, isz), max |-> Sub(b, 16 + isz, isz)], ver |-> ver, compact |-> compact,
        c |-> cc \o << <<"preamble-longs", pre = (IF ver = 1 THEN 5 ELSE 2)>>, <<"n-plausible", n = nraw /\ k >= 1>>, <<"unused-zero", ver = 3 => U16(b, 6) = 0>>,
                       <<"length", Len(b) = o0 + isz * (bbslots + k * PopCount(pattern))>> >>]
\* writers; st = [k, n, min, max, bb (items), levels (sequence of k-item sequences for the set bits, lowest first)]; pad = filler item for unused base buffer slots
CqFlags(empty, compact, sorted) == (IF empty THEN 4 ELSE 0) + (IF compact THEN 8 ELSE 0) + (IF sorted THEN 16 ELSE 0)
Enc_cq_empty(k, ver, pre, flags) == <<pre, ver, 8, flags>> \o LE(k, 2) \o <<0, 0>> \o Zeros(8 * (pre - 1))
Enc_cq(st, ver, compactFlag, sorted, pad) ==
  LET compact == (ver = 2) \/ compactFlag
      pattern == st.n \div (2 * st.k)
      slots == IF compact \/ pattern = 0 THEN Len(st.bb) ELSE 2 * st.k
  IN <<(IF ver = 1 THEN 5 ELSE 2), ver, 8, CqFlags(FALSE, compactFlag, sorted)>> \o LE(st.k, 2) \o <<0, 0>> \o LE(st.n, 8) \o st.min \o st.max
     \o (IF ver = 1 THEN Zeros(8) ELSE <<>>)
     \o Flat(st.bb) \o Flat([i \in 1..(slots - Len(st.bb)) |-> pad]) \o Flat([h \in 1..Len(st.levels) |-> Flat(st.levels[h])])

\* ================================================================== t-digest (type 20, version 1) and the two reference-implementation formats
\* flags: 0 empty, 1 single value, 2 reverse merge.  centroid = mean (item size) + weight (unsigned, same width)
SmallLE(b, o, w) == IF (w = 8 => U64s(b, o) >= 0) /\ B(b, o + 3) = 0 /\ B(b, o + 2) < 4 THEN U16(b, o) + 65536 * B(b, o + 2) ELSE -1   \* centroid weight, < 2^18 here
RECURSIVE SumSeq(_)
SumSeq(s) == IF s = <<>> THEN 0 ELSE Head(s) + SumSeq(Tail(s))
Dec_tdigest(b, hints) ==
  LET pre == B(b, 0)  ver == B(b, 1)  type == B(b, 2)  k == U16(b, 3)  flags == B(b, 5)  isz == hints.isz
      emptyF == Bit(flags, 0)  single == Bit(flags, 1)
      cc == << <<"sketch-type", type = 20>>, <<"serial-version", ver = 1>>, <<"unused-zero", U16(b, 6) = 0>>, <<"reserved-flag-bits-zero", flags < 8>> >>
  IN IF emptyF THEN
       [v |-> [k |-> k, empty |-> TRUE, total |-> 0, buf |-> <<>>], c |-> cc \o << <<"preamble-longs", pre = 1>>, <<"length", Len(b) = 8>> >>]
     ELSE IF single THEN
       [v |-> [k |-> k, empty |-> FALSE, total |-> 1, buf |-> <<>>, min |-> Sub(b, 8, isz), max |-> Sub(b, 8, isz)],
        c |-> cc \o << <<"preamble-longs", pre = 1>>, <<"length", Len(b) = 8 + isz>> >>]
     ELSE
       LET nc == Sn(b, U32(b, 8))  nb == Sn(b, U32(b, 12))  co == 16 + 2 * isz
           w == [i \in 1..nc |-> SmallLE(b, co + 2 * isz * (i - 1) + isz, isz)]
           bo == co + 2 * isz * nc
       IN
       [v |-> [k |-> k, empty |-> FALSE, total |-> SumSeq(w) + nb, buf |-> [i \in 1..nb |-> Sub(b, bo + isz * (i - 1), isz)],
               min |-> Sub(b, 16, isz), max |-> Sub(b, 16 + isz, isz)],
        c |-> cc \o << <<"preamble-longs", pre = 2>>, <<"weights-positive", \A i \in 1..nc : w[i] >= 1>>, <<"length", Len(b) = bo + isz * nb>> >>]
\* native writer for the generator: st = [k, min, max, cent (sequence of <<mean, weight>>), buf]
Enc_tdigest(st, isz, rev) ==
  <<2, 1, 20>> \o LE(st.k, 2) \o <<(IF rev THEN 4 ELSE 0), 0, 0>> \o LE(Len(st.cent), 4) \o LE(Len(st.buf), 4) \o st.min \o st.max
  \o Flat([i \in 1..Len(st.cent) |-> st.cent[i][1] \o LE(st.cent[i][2], isz)]) \o Flat(st.buf)
Enc_tdigest_single(k, val) == <<1, 1, 20>> \o LE(k, 2) \o <<2, 0, 0>> \o val
Enc_tdigest_empty(k) == <<1, 1, 20>> \o LE(k, 2) \o <<1, 0, 0>>
\* reference implementation (big endian): type 1 = doubles (asBytes), type 2 = floats (asSmallBytes).  Numbers are given by their
\* big-endian IEEE encodings (the catalogue supplies them)
Enc_tdigest_ref_double(minBE, maxBE, kBE, cent) == <<0, 0, 0, 1>> \o minBE \o maxBE \o kBE \o BE(Len(cent), 4) \o Flat([i \in 1..Len(cent) |-> cent[i][2] \o cent[i][1]])
Enc_tdigest_ref_float(minBE, maxBE, kBE4, cent) == <<0, 0, 0, 2>> \o minBE \o maxBE \o kBE4 \o <<0, 0, 0, 0>> \o BE(Len(cent), 2) \o Flat([i \in 1..Len(cent) |-> cent[i][2] \o cent[i][1]])

\* ================================================================== frequent items (family 10, version 1)
\* flags: empty is signalled by bits 0 and 2 together (value 5)
Dec_fi(b, hints) ==
  LET pre == B(b, 0)  ver == B(b, 1)  fam == B(b, 2)  lgmax == B(b, 3)  lgcur == B(b, 4)  flags == B(b, 5)  isz == hints.isz
      emptyF == Bit(flags, 2)
      cc == << <<"family-id", fam = 10>>, <<"serial-version", ver = 1>>, <<"unused-zero", U16(b, 6) = 0>>, <<"lg-cur<=lg-max", lgcur <= lgmax>> >>
  IN IF emptyF THEN
       [v |-> [lgmax |-> lgmax, empty |-> TRUE, nactive |-> 0, total |-> Zeros(8), offset |-> Zeros(8), rows |-> {}],
        c |-> cc \o << <<"preamble-longs", pre = 1>>, <<"empty-flags", flags = 5>>, <<"length", Len(b) = 8>> >>]
     ELSE
       LET na == Sn(b, U32(b, 8))  r == ReadN(b, 32 + 8 * na, na, isz) IN
       [v |-> [lgmax |-> lgmax, empty |-> FALSE, nactive |-> na, total |-> Sub(b, 16, 8), offset |-> Sub(b, 24, 8),
               rows |-> {<<r[1][i], Sub(b, 32 + 8 * (i - 1), 8)>> : i \in 1..na}],
        c |-> cc \o << <<"preamble-longs", pre = 4>>, <<"empty-flags", flags = 0>>, <<"unused-zero-12", Sub(b, 12, 4) = Zeros(4)>>,
                       <<"capacity", lgcur \in 0..24 /\ 4 * na <= 3 * P2(lgcur)>>, <<"length", Len(b) = r[2]>> >>]

\* ================================================================== count-min (family 18, version 1)
Dec_countmin(b, hints) ==
  LET pre == B(b, 0)  ver == B(b, 1)  fam == B(b, 2)  flags == B(b, 3)  nb == U32(b, 8)  nh == B(b, 12)  sh == U16(b, 13)
      emptyF == Bit(flags, 0)
      ncell == IF emptyF \/ Sn(b, nb) < 0 THEN 0 ELSE Sn(b, nb * nh)
  IN [v |-> [nbuckets |-> nb, nhashes |-> nh, empty |-> emptyF, seedhash |-> sh,
             total |-> IF emptyF THEN Zeros(8) ELSE Sub(b, 16, 8), cells |-> IF emptyF THEN [i \in 1..(IF nb \in 0..100000 THEN nb * nh ELSE 0) |-> Zeros(8)] ELSE [i \in 1..ncell |-> Sub(b, 24 + 8 * (i - 1), 8)]],
      c |-> << <<"family-id", fam = 18>>, <<"serial-version", ver = 1>>, <<"preamble-longs", pre = 2>>, <<"unused-zero", Sub(b, 4, 4) = Zeros(4) /\ B(b, 15) = 0>>, <<"reserved-flag-bits-zero", flags < 2>>,
               <<"length", Len(b) = (IF emptyF THEN 16 ELSE 24 + 8 * ncell)>> >>]

\* ================================================================== VarOpt sketch (family 13, version 2) and union (family 14, version 2)
\* byte 0: low 6 bits preamble longs, high 2 bits resize factor; flags masks: 4 empty, 128 gadget
Dec_varopt_at(b, o, isz) ==
  LET pre == B(b, o) % 64  rf == B(b, o) \div 64  ver == B(b, o + 1)  fam == B(b, o + 2)  flags == B(b, o + 3)  k == U32(b, o + 4)
      emptyF == Bit(flags, 2)  gadget == Bit(flags, 7)
      cc == << <<"family-id", fam = 13>>, <<"serial-version", ver = 2>>, <<"reserved-flag-bits-zero", flags \in {0, 4, 128, 132}>> >>
  IN IF emptyF THEN
       [v |-> [k |-> k, n |-> 0, empty |-> TRUE, nsamp |-> 0, rf |-> rf, items |-> <<>>], hw |-> <<>>, h |-> 0, gadget |-> gadget,
        c |-> cc \o << <<"preamble-longs", pre = 1>>, <<"length", Len(b) = o + 8>> >>]
     ELSE
       LET n == U64s(b, o + 8)  h == Sn(b, U32(b, o + 16))  r == Sn(b, U32(b, o + 20))
           wo == o + 8 * pre
           mo == wo + 8 * h
           io == mo + (IF gadget THEN CeilDiv(h, 8) ELSE 0)
           its == ReadN(b, io, h + r, isz)
       IN
       [v |-> [k |-> k, n |-> n, empty |-> FALSE, nsamp |-> h + r, rf |-> rf, items |-> its[1]],
        hw |-> [i \in 1..h |-> Sub(b, wo + 8 * (i - 1), 8)], h |-> h, gadget |-> gadget,
        c |-> cc \o << <<"preamble-longs", pre = (IF r = 0 THEN 3 ELSE 4)>>, <<"h+r<=k", h + r <= k>>, <<"sampling=>full", (r > 0 /\ ~gadget) => h + r = k>>,
                       <<"n>=h+r", n >= h + r>>, <<"exact=>n=h", (r = 0) => n = h>>, <<"length", Len(b) = its[2]>> >>]
Dec_varopt(b, hints) == Dec_varopt_at(b, 0, hints.isz)
Dec_varoptu(b, hints) ==
  LET pre == B(b, 0) % 64  ver == B(b, 1)  fam == B(b, 2)  flags == B(b, 3)  maxk == U32(b, 4)
      emptyF == Bit(flags, 2)
      cc == << <<"family-id", fam = 14>>, <<"serial-version", ver = 2>>, <<"reserved-flag-bits-zero", flags \in {0, 4}>> >>
  IN IF emptyF THEN [v |-> [maxk |-> maxk, n |-> 0, empty |-> TRUE], g |-> [h |-> 0, hw |-> <<>>, v |-> [items |-> <<>>, nsamp |-> 0]], c |-> cc \o << <<"preamble-longs", pre = 1>>, <<"length", Len(b) = 8>> >>]
     ELSE LET g == Dec_varopt_at(b, 32, hints.isz) IN
       [v |-> [maxk |-> maxk, n |-> U64s(b, 8), empty |-> FALSE], g |-> g,
        c |-> cc \o << <<"preamble-longs", pre = 4>>, <<"gadget-flag", g.gadget>>, <<"gadget-k", g.v.k <= maxk>> >>
              \o [i \in 1..Len(g.c) |-> <<"gadget." \o g.c[i][1], g.c[i][2]>>]]

\* ================================================================== EBPPS (family 19, version 1)
\* flags masks: 4 empty, 8 has partial item
Dec_ebpps(b, hints) ==
  LET pre == B(b, 0)  ver == B(b, 1)  fam == B(b, 2)  flags == B(b, 3)  k == U32(b, 4)  isz == hints.isz
      emptyF == Bit(flags, 2)  partial == Bit(flags, 3)
      cc == << <<"family-id", fam = 19>>, <<"serial-version", ver = 1>>, <<"reserved-flag-bits-zero", flags \in {0, 4, 8}>> >>
  IN IF emptyF THEN [v |-> [k |-> k, n |-> 0, empty |-> TRUE], full |-> <<>>, partial |-> <<>>,
                     c |-> cc \o << <<"preamble-longs", pre = 1>>, <<"length", Len(b) = 8>> >>]
     ELSE LET all == ReadAll(b, 48, isz)  nf == Len(all) - (IF partial THEN 1 ELSE 0) IN
       [v |-> [k |-> k, n |-> U64s(b, 8), empty |-> FALSE, cumwt |-> Sub(b, 16, 8), wtmax |-> Sub(b, 24, 8), c |-> Sub(b, 40, 8)],
        full |-> [i \in 1..nf |-> all[i]], partial |-> IF partial THEN <<At(all, Len(all))>> ELSE <<>>,
        c |-> cc \o << <<"preamble-longs", pre = 5>>, <<"length", (Len(b) - 48) % isz = 0>> >>]

\* ================================================================== Bloom filter (family 21, version 1)
\* flags mask: 4 empty.  numBitsSet = all ones means "not counted" (dirty)
Dec_bloom(b, hints) ==
  LET pre == B(b, 0)  ver == B(b, 1)  fam == B(b, 2)  flags == B(b, 3)  nh == U16(b, 4)  nl == Sn(b, U32(b, 16))
      emptyF == Bit(flags, 2)
      bitset == IF emptyF THEN {} ELSE {x \in 0..(64 * nl - 1) : Bit(B(b, 32 + (x \div 8)), x % 8)}
      dirty == ~emptyF /\ Sub(b, 24, 8) = Ones8
  IN [v |-> [nhashes |-> nh, seed |-> Sub(b, 8, 8), capacity |-> 64 * nl, empty |-> emptyF, bits |-> bitset,
             bitsused |-> IF emptyF THEN 0 ELSE IF dirty THEN -1 ELSE U64s(b, 24)],
      c |-> << <<"family-id", fam = 21>>, <<"serial-version", ver = 1>>, <<"preamble-longs", pre = (IF emptyF THEN 3 ELSE 4)>>,
               <<"unused-zero", U16(b, 6) = 0 /\ Sub(b, 20, 4) = Zeros(4)>>, <<"reserved-flag-bits-zero", flags \in {0, 4}>>,
               <<"num-bits-set", emptyF \/ dirty \/ U64s(b, 24) = Cardinality(bitset)>>,
               <<"length", Len(b) = (IF emptyF THEN 24 ELSE 32 + 8 * nl)>> >>]

\* ================================================================== density sketch (family id 19, version 1), float points
RECURSIVE DenLevels(_, _, _, _)
DenLevels(b, o, psz, lvl) ==
  IF o >= Len(b) THEN <<>>
  ELSE LET cnt == Sn(b, U32(b, o)) IN
       IF cnt < 0 \/ psz <= 0 THEN << << <<-1>>, -1>> >>
       ELSE [i \in 1..cnt |-> <<Sub(b, o + 4 + psz * (i - 1), psz), lvl>>] \o DenLevels(b, o + 4 + psz * cnt, psz, lvl + 1)
Dec_density(b, hints) ==
  LET pre == B(b, 0)  ver == B(b, 1)  fam == B(b, 2)  flags == B(b, 3)  k == U16(b, 4)  dim == Sn(b, U32(b, 8))
      emptyF == Bit(flags, 2)
      cc == << <<"family-id", fam = 19>>, <<"serial-version", ver = 1>>, <<"unused-zero", U16(b, 6) = 0>>, <<"reserved-flag-bits-zero", flags \in {0, 4}>> >>
  IN IF emptyF THEN [v |-> [k |-> k, dim |-> dim, n |-> 0, empty |-> TRUE, nret |-> 0, pts |-> <<>>],
                     c |-> cc \o << <<"preamble-ints", pre = 3>>, <<"length", Len(b) = 12>> >>]
     ELSE LET pts == DenLevels(b, 24, 4 * dim, 0) IN
       [v |-> [k |-> k, dim |-> dim, n |-> U64s(b, 16), empty |-> FALSE, nret |-> U32(b, 12), pts |-> pts],
        c |-> cc \o << <<"preamble-ints", pre = 6>>, <<"num-retained", U32(b, 12) = Len(pts)>> >>]

\* ================================================================== CPC code tables: one row of a published table as raw bytes (compared with the baseline record)
Dec_cpctab(b, hints) ==
  [v |-> [len |-> Len(b)],
   c |-> << <<"column-permutation-is-a-permutation-of-0..55", hints.table = "perm" => (Len(b) = 56 /\ ToSetL(b) = 0..55)>>,
            <<"code-table-size", hints.table = "codes" => Len(b) \in {512, 130}>> >>]

\* ================================================================== dispatch
Dec(fam, b, hints) ==
  CASE fam = "theta" -> Dec_theta(b, hints) [] fam = "tuple" -> Dec_tuple(b, hints) [] fam = "aod" -> Dec_aod(b, hints)
    [] fam = "hll" -> Dec_hll(b, hints) [] fam = "cpc" -> Dec_cpc(b, hints) [] fam = "kll" -> Dec_kll(b, hints)
    [] fam = "req" -> Dec_req(b, hints) [] fam = "quantiles" -> Dec_quantiles(b, hints) [] fam = "tdigest" -> Dec_tdigest(b, hints)
    [] fam = "fi" -> Dec_fi(b, hints) [] fam = "countmin" -> Dec_countmin(b, hints) [] fam = "varopt" -> Dec_varopt(b, hints)
    [] fam = "varoptu" -> Dec_varoptu(b, hints) [] fam = "ebpps" -> Dec_ebpps(b, hints) [] fam = "bloom" -> Dec_bloom(b, hints)
    [] fam = "density" -> Dec_density(b, hints) [] fam = "cpctab" -> Dec_cpctab(b, hints)

\* projection fields that are sets in the decoded value (the layout leaves their order free, or the API reports them in another order)
SetFields(fam) == CASE fam = "hll" -> {"coupons"} [] fam = "kll" -> {"wts"} [] fam = "fi" -> {"rows"} [] fam = "bloom" -> {"bits"} [] OTHER -> {}
\* projection fields the image does not carry (observables of the object only, compared between baseline and re-read object)
====
