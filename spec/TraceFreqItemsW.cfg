\* 64-bit weights: every weight / counter / offset / total / bound is a wide natural (4 limbs of 20 bits, spec/WideNum.tla)
SPECIFICATION TSpec
CONSTANTS Ids = {} Items = {} Weights = {} LgMaxs = {} MaxTotal = 0 CheckDesign = FALSE
POSTCONDITION Accepted
CONSTANT WideNums = TRUE
CHECK_DEADLOCK FALSE
