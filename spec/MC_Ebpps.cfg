\* exhaustive run of the EBPPS contract bookkeeping: two sketches (Ids) with k = 2, at most six updates
\* overall (MaxN) with weights from Wts, merges in both directions, every result the clauses admit
SPECIFICATION Spec
CONSTANTS Ids = {1, 2}
 Items = {1, 2, 3, 4, 5, 6}
 Wts = {1, 2, 4}
 Ks = {2}
 MaxN = 6
 ResetInNext = FALSE
INVARIANT Inv
CHECK_DEADLOCK FALSE
