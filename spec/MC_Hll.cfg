\* two sketches, lgK 2 (4 slots), four coupons two of which share a slot (addresses 1 and 5), at most 2 distinct per sketch
SPECIFICATION Spec
CONSTANTS Ids = {1, 2}
 LgKs = {2}
 Coupons <- MCCoupons
 Bigs = {FALSE}
 TrackFed = TRUE
INVARIANT Inv SameContent
CONSTRAINT Bound
CHECK_DEADLOCK FALSE
