\* one union, lg_max_k 1..3, catalogue of coupon-mode / HLL-mode / empty inputs of lg_k 1..3, two raw items, reset
SPECIFICATION USpec
CONSTANTS UIds = {1}
 LgMaxKs = {1, 2, 3}
 UCoupons <- MCItems
 Inputs <- Catalogue
 UBigs = {FALSE, TRUE}
 TrackFed = TRUE
INVARIANT UInv
CHECK_DEADLOCK FALSE
