---- MODULE MC_FreqItems ----
\* bounded instance of the multi-object frequent-items contract: every admissible (rows, offset) outcome of
\* update / merge / copy within the bounds; Inv states the property's clauses (bracket for every item, estimate
\* between the bounds, ub - lb = maximum error, exact total weight, NO_FALSE_NEGATIVES / NO_FALSE_POSITIVES result
\* sets for every threshold) as consequences of the per-step constraint PostOK.
EXTENDS FreqItems
RECURSIVE SumT(_)
SumT(S) == IF S = {} THEN 0 ELSE LET i == CHOOSE j \in S : TRUE IN obj[i].total + SumT(S \ {i})
\* the weight offered to all live sketches together stays within MaxTotal
Bound == SumT(Live) <= MaxTotal
====
