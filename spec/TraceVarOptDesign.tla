---- MODULE TraceVarOptDesign ----
(***************************************************************************)
(* Tier B conformance (DESIGN 2, drift detection): recorded update         *)
(* histories of one real var_opt_sketch replayed through the design model  *)
(* VarOptDesign.  Each event carries the size h of the H region as printed *)
(* by to_string(); the first h iterated items are H, the rest R.  The one  *)
(* random choice of the algorithm (the deleted candidate) is resolved from *)
(* the post-state.  A rejection here on a tree that the contract accepts   *)
(* is MODEL-DRIFT (the code no longer follows the modelled mechanism), not *)
(* a violation.                                                            *)
(***************************************************************************)
EXTENDS VarOptDesign, TraceCommon
VARIABLE kv
tvars == <<n, H, R, twr, stream, tot, kv, l>>

Hpos(e) == 1..e.h
Rpos(e) == (e.h + 1)..Len(e.s.x)
Hpost(e) == [y \in {e.s.x[p] : p \in Hpos(e)} |-> e.s.wI[CHOOSE p \in Hpos(e) : e.s.x[p] = y]]
Rpost(e) == {e.s.x[p] : p \in Rpos(e)}
\* tau * r: the weight group of the last iterated item may also contain an H item whose own (integer) weight equals tau;
\* then tau is that integer and the group product divides exactly
TwrPost(e) == IF Rpos(e) = {} THEN 0
              ELSE LET t == e.s.g[Len(e.s.x)]  cnt == Cardinality({p \in 1..Len(e.s.x) : e.s.g[p] = t})  r == Cardinality(Rpos(e)) IN
                   IF cnt = r THEN e.s.gw[t] ELSE (e.s.gw[t] \div cnt) * r
\* the candidate that left the sample in this update (0 = none)
Gone(e) == LET before == DOMAIN H \cup R \cup {e.x}  after == ToSet(e.s.x)  d == before \ after IN
           IF d = {} THEN 0 ELSE CHOOSE y \in d : TRUE

TBegin == IsEvent("Begin") /\ n' = 0 /\ H' = <<>> /\ R' = {} /\ twr' = 0 /\ stream' = <<>> /\ tot' = 0 /\ kv' = 0
TDNew == IsEvent("DNew") /\ kv' = Log[l].k /\ UNCHANGED dvars
TDUpdate == IsEvent("DUpdate") /\ LET e == Log[l] IN
  /\ Chk("no-throw", ~Has(e, "threw"))
  /\ Chk("h-in-range", e.h >= 0 /\ e.h <= Len(e.s.x))
  /\ Chk("at-most-one-item-leaves", Cardinality((DOMAIN H \cup R \cup {e.x}) \ ToSet(e.s.x)) <= 1)
  /\ UpdateK(kv, e.x, e.w, Gone(e))
  /\ Chk("design-H", H' = Hpost(e))
  /\ Chk("design-R", R' = Rpost(e))
  /\ Chk("design-total_wt_r", twr' = TwrPost(e))
  /\ Chk("design-n", n' = e.s.n)
  /\ UNCHANGED kv

TInit == Init /\ kv = 0 /\ l = 1
TNext == TBegin \/ TDNew \/ TDUpdate
TSpec == TInit /\ [][TNext]_tvars
====
