---- MODULE TraceXArgs ----
(***************************************************************************)
(* X02 - trace validation of recorded constructor / builder / weighted     *)
(* update calls at the boundaries of their documented argument ranges      *)
(* against the table and contract of XArgs.                                *)
(***************************************************************************)
EXTENDS XArgs, TraceCommon
VARIABLES group
tvars == <<l, group>>

\* class of a floating point argument by order against the reference points logged next to it
Class(e) == IF ~e.hasX THEN "none"
            ELSE IF e.xnan THEN "nan"
            ELSE IF e.x = e.ninf THEN "ninf"
            ELSE IF e.x < e.zero THEN "neg"
            ELSE IF e.x = e.zero THEN "zero"
            ELSE IF e.x < e.one THEN "unit"
            ELSE IF e.x = e.one THEN "one"
            ELSE IF e.x < e.pinf THEN "big"
            ELSE "pinf"

TBegin == IsEvent("Begin") /\ group' = Log[l].group

TArg == IsEvent("Arg") /\ LET e == Log[l] IN \A c \in {Class(e)} : \A z \in {Zone(e.site, e.a, c)} :
  /\ Chk("known-site", e.site \in Sites)
  /\ Chk("no-crash", e.out /= "crash")
  /\ Chk("accepted-object-usable", e.used /= "crash")
  /\ Chk("no-reject-inside", z = "valid" => e.out \in {"ok", "bad_alloc"})
  /\ Chk("no-accept-outside", z = "invalid" => e.out /= "ok")
  /\ Chk("refusal-is-invalid-argument", z = "invalid" => e.out \in {"ok", "invalid_argument"})
  /\ Chk("refusal-leaves-object-unchanged", z = "invalid" => e.same)
  /\ Chk("configured-value-reported", (z = "valid" /\ e.out = "ok" /\ EchoArg(e.site) > 0 /\ e.echo /= <<>>) => e.echo = e.a[EchoArg(e.site)])
  \* the same, as one formula of the contract
  /\ Chk("contract", CallOK(e.site, e.a, c, e.out, e.echo, e.used, e.same))
  /\ UNCHANGED group

\* NaN offered as an item to an order-based sketch: ignored or refused, never counted, and the sketch stays clean
TNanItem == IsEvent("NanItem") /\ LET e == Log[l] IN
  /\ Chk("no-crash", e.out /= "crash" /\ e.used /= "crash")
  /\ Chk("nan-item-ignored-or-refused", e.out \in {"ok", "invalid_argument"})
  /\ Chk("nan-item-not-counted", e.out = "ok" => e.nAfter = e.nBefore)
  /\ Chk("nan-item-refusal-leaves-sketch-unchanged", e.out = "invalid_argument" => e.same)
  /\ Chk("nan-item-not-visible", e.out = "ok" => e.used = "ok")
  /\ UNCHANGED group

TInit == l = 1 /\ group = ""
TNext == TBegin \/ TArg \/ TNanItem
TSpec == TInit /\ [][TNext]_tvars
====
