SPECIFICATION TSpec
CONSTANTS Ids = {} Items = {} Weights = {} LgMaxs = {} MaxTotal = 0 CheckDesign = TRUE
POSTCONDITION Accepted
CHECK_DEADLOCK FALSE
