SPECIFICATION TSpec
CONSTANTS Ids = {} Items = {} Weights = {} LgMaxs = {} MaxTotal = 0 CheckDesign = TRUE
POSTCONDITION Accepted
CONSTANT WideNums = FALSE
CHECK_DEADLOCK FALSE
