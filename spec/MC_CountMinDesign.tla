---- MODULE MC_CountMinDesign ----
\* constants of the bounded count-min design runs that a .cfg file cannot express (records)
EXTENDS CountMinDesign
\* one configuration, every row hash function (up to bucket renaming): two sketches and the witness of their merge
Cfg2x3 == {[rows |-> 2, buckets |-> 3, seed |-> 1]}
\* a one-row and a three-row configuration: merges between them are refused; zero weights
Cfg1x4_3x3 == {[rows |-> 1, buckets |-> 4, seed |-> 1], [rows |-> 3, buckets |-> 3, seed |-> 1]}
\* same shape, different seed: merges between them are refused
CfgSeeds == {[rows |-> 2, buckets |-> 3, seed |-> 1], [rows |-> 2, buckets |-> 3, seed |-> 2]}
====
