---- MODULE TraceXIter ----
(***************************************************************************)
(* X07 - trace validation of the iterator protocol (XIter) on recorded     *)
(* objects of every iterable family in the states empty / one / exact /    *)
(* estimating / merged.  Entries are pairs <<key or hash token, weight>>;  *)
(* only equality of sequences is used.  The post-increment observations    *)
(* were made in a child process: postAlive = it returned.                  *)
(***************************************************************************)
EXTENDS XIter, TraceCommon
VARIABLES group
tvars == <<l, group>>

TBegin == IsEvent("Begin") /\ group' = Log[l].group

TIter == IsEvent("Iter") /\ LET e == Log[l] IN
  /\ Chk("count-is-num-retained", CountOK(e.pre, e.nlo, e.nhi))
  /\ Chk("begin-equals-end-iff-empty", e.beginIsEnd = (Len(e.pre) = 0))
  /\ Chk("begin-end-stable", e.beginStable)
  /\ Chk("range-for-agrees", e.rangeFor = e.pre)
  /\ Chk("non-const-begin-agrees", e.hasNonConst => e.nonConst = e.pre)
  /\ Chk("std-distance-agrees", e.dist = -1 \/ e.dist = Len(e.pre))
  \* post-increment: using the result of it++ must not crash ...
  /\ Chk("postfix-increment-usable", e.postAlive)
  \* ... `*it++` walks the same sequence, `prev = it++` is the old position and stays valid after `it` moved on
  /\ Chk("postfix-traverses-same-sequence", e.postAlive => e.post = e.pre)
  /\ Chk("postfix-result-equals-old-position", e.postAlive => (Len(e.prevEq) = Len(e.pre) /\ \A i \in DOMAIN e.prevEq : e.prevEq[i] = 1))
  /\ Chk("postfix-result-stays-valid", e.postAlive => e.postPrev = e.pre)
  /\ Chk("views-agree", e.postAlive => ViewsAgree(e.pre, e.post, e.postPrev, e.rangeFor))
  /\ UNCHANGED group

TInit == l = 1 /\ group = ""
TNext == TBegin \/ TIter
TSpec == TInit /\ [][TNext]_tvars
====
