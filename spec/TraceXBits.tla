---- MODULE TraceXBits ----
(***************************************************************************)
(* X08 - trace validation of pack_bits / unpack_bits / pack_bits_block8 /  *)
(* unpack_bits_block8 against XBits.                                       *)
(***************************************************************************)
EXTENDS XBits, TraceCommon
VARIABLES width
tvars == <<l, width>>

TBegin == IsEvent("Begin") /\ width' = Log[l].eb

TPack == IsEvent("Pack") /\ LET e == Log[l] IN
  /\ Chk("value-fits-width", Fits(e.v, e.eb))
  /\ Chk("returned-offset-and-advance", e.ret = (e.off + e.eb) % 8 /\ e.adv = (e.off + e.eb) \div 8)
  /\ Chk("neighbours-untouched", \A b \in 1..Len(e.before) : (b < e.pos \/ b > LastByte(e.pos, e.off, e.eb)) => e.after[b] = e.before[b])
  /\ Chk("bits-before-the-field-kept", \A s \in 0..(e.off - 1) : StreamBit(e.after, e.pos, s) = StreamBit(e.before, e.pos, s))
  \* mode 0 / 1 are the documented use (the rest of the first byte is zero); mode 2 is not
  /\ Chk("driver-modes", (e.mode \in {0, 1}) = TailZero(e.before, e.pos, e.off))
  /\ Chk("field-holds-value-msb-first", TailZero(e.before, e.pos, e.off) => \A i \in 1..e.eb : StreamBit(e.after, e.pos, e.off + i - 1) = FieldBit(e.v, e.eb, i))
  /\ Chk("pack", PackOK(e.before, e.after, e.pos, e.off, e.eb, e.v, e.ret, e.adv))
  /\ UNCHANGED width

TUnpack == IsEvent("Unpack") /\ LET e == Log[l] IN
  /\ Chk("unpack", UnpackOK(e.buf, e.pos, e.off, e.eb, e.v, e.ret, e.adv))
  /\ Chk("round-trip", e.v = e.want)
  /\ UNCHANGED width

TBlock8 == IsEvent("Block8") /\ LET e == Log[l] IN
  /\ Chk("values-fit-width", \A j \in 1..8 : Fits(e.vals[j], e.eb))
  /\ Chk("block8-pack", Block8OK(e.before, e.after, e.pos, e.eb, e.vals))
  /\ Chk("block8-is-eight-single-packs", /\ Len(e.seq) = e.eb /\ e.seqOff = 0 /\ e.seqAdv = e.eb
                                         /\ \A t \in 1..e.eb : e.after[e.pos + t - 1] = e.seq[t])
  /\ Chk("block8-unpack", Unblock8OK(e.after, e.pos, e.eb, e.unp))
  /\ Chk("block8-round-trip", e.unp = e.vals /\ e.unpSingle = e.vals /\ e.unpOff = 0 /\ e.unpAdv = e.eb)
  /\ UNCHANGED width

TInit == l = 1 /\ width = 0
TNext == TBegin \/ TPack \/ TUnpack \/ TBlock8
TSpec == TInit /\ [][TNext]_tvars
====
