---- MODULE XToString ----
(***************************************************************************)
(* X06 - contract of to_string(...) (and items_to_string) of every family: *)
(*  (1) it is an observer: the observable state of the object (its         *)
(*      serialized image, taken on exact copies before / after / without   *)
(*      the call) does not change, whatever the print flags, and calling   *)
(*      it twice gives the same text;                                      *)
(*  (2) the summary it prints mentions the values the getters return: the  *)
(*      table below lists, per family, the labels whose printed value must *)
(*      equal the getter's value exactly as text (integers, booleans,      *)
(*      enumerators, 64-bit theta in decimal) and those that must show the *)
(*      getter's real value to the printed precision (at least 3           *)
(*      significant digits: 5000 ppm).                                     *)
(* The labels are the ones the headers' summaries use; a family that       *)
(* renames a label fails the check (the text is public output).            *)
(***************************************************************************)
EXTENDS Integers, Sequences, FiniteSets, TLC

Families == {"theta-update", "theta-compact", "tuple-update", "hll", "cpc", "kll", "req", "quantiles", "tdigest", "density",
             "fi", "countmin", "bloom", "varopt", "varopt-union", "ebpps"}
ThetaExact == {"num retained entries", "empty?", "ordered?", "estimation mode?", "theta (raw 64-bit)", "seed hash"}
ThetaLoose == {"theta (fraction)", "estimate", "lower bound 95% conf", "upper bound 95% conf"}
QuantExact == {"K", "N", "Empty", "Estimation mode", "Retained items"}
\* labels compared as text
Exact(fam) == CASE fam \in {"theta-update", "tuple-update"} -> ThetaExact \cup {"lg nominal size"}
                [] fam = "theta-compact" -> ThetaExact
                [] fam = "hll" -> {"Log Config K", "Hll Target"}
                [] fam = "cpc" -> {"lg_k"}
                [] fam \in {"kll", "quantiles"} -> QuantExact
                [] fam = "req" -> QuantExact \cup {"High Rank Acc"}
                [] fam = "tdigest" -> {"Nominal k", "Total Weight"}
                [] fam = "density" -> {"K", "Dim", "Empty", "N", "Retained items", "Estimation mode"}
                [] fam = "fi" -> {"num active items", "total weight", "max error"}
                [] fam = "countmin" -> {"num hashes", "num buckets"}
                [] fam = "bloom" -> {"num_bits", "num_hashes", "seed", "bits_used"}
                [] fam = "varopt" -> {"k"}
                [] fam = "ebpps" -> {"k", "n"}
                [] fam = "varopt-union" -> {}
\* labels compared as real numbers to the printed precision; those in OnlyNonEmpty are printed only for a non-empty sketch
Loose(fam) == CASE fam \in {"theta-update", "theta-compact", "tuple-update"} -> ThetaLoose
                [] fam = "hll" -> {"Estimate", "LB", "UB"}
                [] fam = "cpc" -> {"HIP estimate"}
                [] fam \in {"kll", "req", "quantiles"} -> {"Min item", "Max item"}
                [] fam = "tdigest" -> {"Min", "Max"}
                [] fam = "ebpps" -> {"cum. weight", "C"}
                [] OTHER -> {}
OnlyNonEmpty == {"Min item", "Max item", "Min", "Max"}
TolPpm == 5000

\* fields / get: label -> text; dev: label -> relative deviation in ppm (-1: not printed or not a number); measured = labels the driver read
MentionsOK(fam, fields, get, dev, nonEmpty) ==
  /\ \A lab \in Exact(fam) : lab \in DOMAIN get /\ lab \in DOMAIN fields /\ fields[lab] = get[lab]
  /\ \A lab \in Loose(fam) : (lab \in OnlyNonEmpty /\ ~nonEmpty) \/ (lab \in DOMAIN dev /\ dev[lab] >= 0 /\ dev[lab] <= TolPpm)
====
