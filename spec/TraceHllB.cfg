\* tier B of job hll: the same traces with the design-level shadow (HllMech, the code's thresholds) compared with the
\* physical state of every sketch's own image; a rejection here is MODEL-DRIFT, not a violation
SPECIFICATION TSpec
CONSTANTS Ids = {} LgKs = {} Coupons = {} Bigs = {} TrackFed = FALSE CheckDesign = TRUE Strict09 = FALSE SkPrefix = ""
INVARIANT TInv
POSTCONDITION Accepted
CHECK_DEADLOCK FALSE
