\* NEGATIVE config (self-test only): update() stores the Dirty marker only on the clean -> dirty transition of the
\* OBJECT (seeded regression).  Must violate the contract in 7 calls: InitMem(f1,1,c); Update(f1,x); WritableWrap(1,f2);
\* Reset(f2); Update(f1,y) [f1 is stale and already dirty: the clean stored 0 is not re-marked]; Wrap(1,f2); Query(f2,y).
SPECIFICATION MCSpecR
CONSTANTS FltIds = {f1, f2}
 MemIds = {1}
 Cfgs <- MCCfg1
 Items <- MCItems
 MaxCalls = 7
 WriteDirtyThrough = TRUE
 QauKeepsDirty = TRUE
 RoCheckSetOps = TRUE
 RemarkWhenDirty = FALSE
INVARIANT CInv
CONSTRAINT MCBound
CHECK_DEADLOCK FALSE
