\* as MC_Density.cfg with TWO sketches merged in both directions (k = 2 and k = 3, so different thresholds meet),
\* point ids 1..3, at most MaxN points offered to both together.
SPECIFICATION Spec
CONSTANTS Ids = {1, 2}
 Points = {1, 2, 3}
 Ks = {2, 3}
 MaxN = 5
INVARIANT Inv GenOK
CHECK_DEADLOCK FALSE
