\* exhaustive run of the multi-object VarOpt contract (sketches, copies, a union and its results):
\* Ids/UIds = object slots, Items = distinct items, Wts = integer weights, Ks = values of k / max_k;
\* the constraint bounds the ground-truth streams (MaxObjN per sketch, MaxUnN per union).
\* Every sample the clauses admit is enumerated.
SPECIFICATION Spec
CONSTANTS Ids = {1, 2}
 UIds = {1}
 Items = {1, 2, 3}
 Wts = {1, 3}
 Ks = {1, 2}
 MaxObjN = 2
 MaxUnN = 3
INVARIANT Inv
CONSTRAINT Bound
CHECK_DEADLOCK FALSE
