---- MODULE MC_BloomDesign ----
\* bounded instances of the Bloom design model: cap = 4 bits (the 64-bit rounding of the code is irrelevant to the
\* mechanism), 2 hashes, two seeds (incompatible operands), 3 items with overlapping index pairs, 1 memory region,
\* 3 interchangeable filter slots, every history of at most MaxCalls public calls.
EXTENDS BloomDesign
C1 == [cap |-> 4, hashes |-> 2, seed |-> 1]
C2 == [cap |-> 4, hashes |-> 2, seed |-> 2]
MCCfgs == {C1, C2}
MCCfg1 == {C1}
MCItems == {{0, 1}, {1, 2}, {2, 3}}
Sym == Permutations(FltIds)
\* exact call counter (TLCGet("level") is not exact with several workers)
VARIABLE calls
MCInit == Init /\ calls = 0
MCSpecR == MCInit /\ [][NextR /\ calls' = calls + 1]_<<dvars, calls>>
MCSpec == MCInit /\ [][Next /\ calls' = calls + 1]_<<dvars, calls>>
MCBound == calls <= MaxCalls
\* `out` never influences enabledness or an invariant, and the per-step refinement check (Ref) reads it on the transition
\* itself, before states are identified: the witnessed configs identify states without it
NoOut == <<flt, mem, book, stored, calls>>
MCRefines == C!Init /\ [][C!Next]_<<flt, mem, out>>
====
