---- MODULE ReqMech ----
(***************************************************************************)
(* The mechanism of req_sketch as pure operators over sequences of         *)
(* compactors [items, lgw, state, coin, nsec, gen, secs]                   *)
(* (req/include/req_sketch_impl.hpp, req_compactor_impl.hpp): nominal      *)
(* capacity 2 * nsec * section size, compaction range from the trailing    *)
(* ones of `state`, LRA compacts the high end / HRA the low end, promotion *)
(* of even or odd positions, the coin rule (even state: a fresh coin; odd  *)
(* state: the flipped previous coin), section growth along the compactor's *)
(* own table `secs`, compress cascade, merge.  Level 0 is kept sorted:     *)
(* every use of it in the code sorts it first.  Shared by                  *)
(* spec/ReqDesign.tla (small tables, exhaustive checks) and by the tier-B  *)
(* shadow state of spec/TraceQuantiles.tla (InitSec = 3, the real tables,  *)
(* logged coins).                                                          *)
(***************************************************************************)
EXTENDS Naturals, Sequences, FiniteSets, SequencesExt, TLC
CONSTANTS InitSec,      \* code: req_constants::INIT_NUM_SECTIONS = 3
          MergeCoin     \* "adopt": the code (fix: req_merge_coin); "own" / "adopt0": negative model configs

Max2(a, b) == IF a > b THEN a ELSE b
Min2(a, b) == IF a < b THEN a ELSE b
SumSeq(s) == FoldLeft(LAMBDA a, b : a + b, 0, s)
Bit(x, e) == (x \div 2^e) % 2
BitOr(a, b) == SumSeq([e \in 1..8 |-> 2^(e - 1) * Max2(Bit(a, e - 1), Bit(b, e - 1))])
TrailingOnes(x) == CHOOSE t \in 0..8 : (\A e \in 0..(t - 1) : Bit(x, e) = 1) /\ Bit(x, t) = 0
RECURSIVE MergeSorted(_, _)
MergeSorted(a, b) == IF a = <<>> THEN b ELSE IF b = <<>> THEN a
   ELSE IF Head(a) <= Head(b) THEN <<Head(a)>> \o MergeSorted(Tail(a), b)
   ELSE <<Head(b)>> \o MergeSorted(a, Tail(b))
Pick(s, p) == [i \in 1..(Len(s) \div 2) |-> s[2 * i - 1 + p]]     \* 0-based positions of parity p
CoinAt(cs, i) == IF i <= Len(cs) THEN cs[i] ELSE 0

(* compactor *)
\* secs: the compactor's section sizes by generation (the float sequence section_size_raw / sqrt(2) -> nearest_even, while >= MIN_K)
CNew(lgw, secs) == [items |-> <<>>, lgw |-> lgw, state |-> 0, coin |-> 0, nsec |-> InitSec, gen |-> 1, secs |-> secs]
SSize(c) == c.secs[c.gen]
NomCap(c) == 2 * c.nsec * SSize(c)
CanGrow(c) == c.state >= 2^(c.nsec - 1) /\ c.gen < Len(c.secs)
Ensure(c) == IF CanGrow(c) THEN [c EXCEPT !.gen = @ + 1, !.nsec = 2 * @] ELSE c
RECURSIVE EnsureAll(_)
EnsureAll(c) == IF CanGrow(c) THEN EnsureAll(Ensure(c)) ELSE c
\* req_compactor::compact: [c, next, used]
Compact(c, next, hra, coinIn) ==
  LET num == Len(c.items)
      secs == Min2(TrailingOnes(c.state) + 1, c.nsec)
      nc0 == NomCap(c) \div 2 + (c.nsec - secs) * SSize(c)
      nc == IF (num - nc0) % 2 = 1 THEN nc0 + 1 ELSE nc0
      lo == IF hra THEN 0 ELSE nc                  \* 0-based, half open
      hi == IF hra THEN num - nc ELSE num
      odd == c.state % 2 = 1
      coin == IF odd THEN 1 - c.coin ELSE coinIn
      range == SubSeq(c.items, lo + 1, hi)
      rest == SubSeq(c.items, 1, lo) \o SubSeq(c.items, hi + 1, num)
  IN [c |-> Ensure([c EXCEPT !.items = rest, !.state = @ + 1, !.coin = coin]),
      next |-> [next EXCEPT !.items = MergeSorted(@, Pick(range, coin))],
      used |-> IF odd THEN 0 ELSE 1]
\* req_compactor::merge
CMerge(a, b) ==
  LET coin == IF /\ MergeCoin \in {"adopt", "adopt0"} /\ b.state % 2 = 1
                    /\ (IF MergeCoin = "adopt" THEN a.state % 2 = 0 ELSE a.state = 0)
                 THEN b.coin ELSE a.coin
  IN [EnsureAll([a EXCEPT !.state = BitOr(@, b.state), !.coin = coin]) EXCEPT !.items = MergeSorted(a.items, b.items)]

(* sketch: lv = sequence of compactors *)
Retained(lv) == SumSeq([h \in 1..Len(lv) |-> Len(lv[h].items)])
MaxNom(lv) == SumSeq([h \in 1..Len(lv) |-> NomCap(lv[h])])
\* req_sketch::compress from level h (1-based) on: [lv, used]
RECURSIVE Compress(_, _, _, _, _, _)
Compress(lv, h, hra, secs, cs, ci) ==
  IF h > Len(lv) THEN [lv |-> lv, used |-> ci]
  ELSE IF Len(lv[h].items) >= NomCap(lv[h])
       THEN LET lv1 == IF h = Len(lv) THEN Append(lv, CNew(h, secs)) ELSE lv
                r == Compact(lv1[h], lv1[h + 1], hra, CoinAt(cs, ci + 1))
            IN Compress([lv1 EXCEPT ![h] = r.c, ![h + 1] = r.next], h + 1, hra, secs, cs, ci + r.used)
       ELSE Compress(lv, h + 1, hra, secs, cs, ci)

\* req_sketch::update / merge on the compactors: [lv, used]; secs = the section-size table of THIS sketch's k (new levels)
UpdLv(lv, hra, secs, v, cs) ==
  LET lv1 == [lv EXCEPT ![1].items = MergeSorted(@, <<v>>)]
  IN IF Retained(lv1) = MaxNom(lv1) THEN Compress(lv1, 1, hra, secs, cs, 0) ELSE [lv |-> lv1, used |-> 0]
MergeLv(lv, olv, hra, secs, cs) ==
  LET nl == Max2(Len(lv), Len(olv))
      grown == [h \in 1..nl |-> IF h <= Len(lv) THEN lv[h] ELSE CNew(h - 1, secs)]
      lv1 == [h \in 1..nl |-> IF h <= Len(olv) THEN CMerge(grown[h], olv[h]) ELSE grown[h]]
  IN IF Retained(lv1) >= MaxNom(lv1) THEN Compress(lv1, 1, hra, secs, cs, 0) ELSE [lv |-> lv1, used |-> 0]
====
