---- MODULE Ebpps ----
(***************************************************************************)
(* Tier A contract of ebpps_sketch (property C18), written from the        *)
(* property statement and the public documentation only.                   *)
(*                                                                         *)
(* State per sketch: k, n, cumWt, wtMax and the ghost stream : Item -> Wt  *)
(* (drivers offer DISTINCT items with INTEGER weights).  The expected      *)
(* sample size c = min(k, cumWt / wtMax) is an exact rational; it is used  *)
(* through its floor, its ceiling and floor(c * 10^4).  Which items a      *)
(* result contains is free (explicit parameter S of GetResult) subject to  *)
(* the clauses: floor(c) or ceil(c) distinct items, all from the input.    *)
(* "With equal weights and n <= k every item is kept" follows from these   *)
(* clauses and is checked as an invariant (AllKept).                       *)
(* Merge(i, j): n adds, cumWt adds, wtMax is the larger, k the smaller.    *)
(***************************************************************************)
EXTENDS Naturals, FiniteSets, Sequences, TLC
CONSTANTS Ids, Items, Wts, Ks, MaxN,    \* bounds used only by Next (model checking)
          ResetInNext               \* whether Next explores Reset (items become reusable: larger state space)
VARIABLE obj
vars == <<obj>>

Live == DOMAIN obj
Min(a, b) == IF a <= b THEN a ELSE b
Max(a, b) == IF a >= b THEN a ELSE b
Fresh(k) == [k |-> k, n |-> 0, cumWt |-> 0, wtMax |-> 0, stream |-> <<>>]

\* c = min(k, cumWt / wtMax), 0 for an empty sketch
FloorC(o) == IF o.n = 0 THEN 0 ELSE Min(o.k, o.cumWt \div o.wtMax)
CeilC(o) == IF o.n = 0 THEN 0 ELSE Min(o.k, (o.cumWt + o.wtMax - 1) \div o.wtMax)
C10k(o) == IF o.n = 0 THEN 0 ELSE Min(o.k * 10000, (10000 * o.cumWt) \div o.wtMax)     \* floor(c * 10^4)
\* get_c() observed as round(c * 10^4): within one unit of floor(c * 10^4)
COK(o, c10k) == c10k + 1 >= C10k(o) /\ c10k <= C10k(o) + 1
\* a returned sample: floor(c) or ceil(c) distinct items, all taken from the input
ResultOK(o, S) == /\ S \subseteq DOMAIN o.stream
                  /\ Cardinality(S) \in {FloorC(o), CeilC(o)}
EqualWeights(o) == \A x, y \in DOMAIN o.stream : o.stream[x] = o.stream[y]

Init == obj = <<>>
New(i, k) == k >= 1 /\ obj' = (i :> Fresh(k)) @@ obj
\* invalid k (0 or above MAX_K) and invalid weights (negative, NaN, infinite) are refused: nothing changes
Refused == UNCHANGED vars
Update(i, x, w) ==
  /\ i \in Live /\ w >= 1 /\ x \notin DOMAIN obj[i].stream
  /\ obj' = [obj EXCEPT ![i] = [@ EXCEPT !.n = @ + 1, !.cumWt = @ + w, !.wtMax = Max(@, w), !.stream = (x :> w) @@ @]]
 
\* update with weight 0: ignored, no observable changes
UpdateIgnored(i) == i \in Live /\ UNCHANGED vars
Merged(a, b) == [k |-> Min(a.k, b.k), n |-> a.n + b.n, cumWt |-> a.cumWt + b.cumWt, wtMax |-> Max(a.wtMax, b.wtMax),
                 stream |-> b.stream @@ a.stream]
Merge(i, j) ==
  /\ i \in Live /\ j \in Live /\ i # j
  /\ DOMAIN obj[i].stream \cap DOMAIN obj[j].stream = {}       \* driver assumption: streams of distinct items
  /\ obj' = [obj EXCEPT ![i] = Merged(obj[i], obj[j])]
 
\* get_result() / iteration: draws the fractional item at random, does not change the sketch
GetResult(i, S) == i \in Live /\ ResultOK(obj[i], S) /\ UNCHANGED obj
Reset(i) == i \in Live /\ obj' = [obj EXCEPT ![i] = Fresh(@.k)]
Copy(i, j) == i \in Live /\ obj' = (j :> obj[i]) @@ obj
Destroy(i) == i \in Live /\ obj' = [x \in Live \ {i} |-> obj[x]]

Used == UNION {DOMAIN obj[i].stream : i \in Live}
NextItem == {y \in Items \ Used : \A z \in Items \ Used : y <= z}
Next == \E i \in Ids :
          \/ i \notin Live /\ \E k \in Ks : New(i, k)
          \/ \E x \in NextItem, w \in Wts : Cardinality(Used) < MaxN /\ Update(i, x, w)
          \/ \E j \in Ids : Merge(i, j)
          \/ i \in Live /\ \E S \in SUBSET DOMAIN obj[i].stream : GetResult(i, S)
          \/ (ResetInNext /\ Reset(i))
Spec == Init /\ [][Next]_vars

\* invariants: bookkeeping and what the clauses imply
Inv == /\ \A i \in Live : LET o == obj[i] IN
            /\ o.n = Cardinality(DOMAIN o.stream)
            /\ (o.n > 0 => /\ \A x \in DOMAIN o.stream : o.stream[x] <= o.wtMax
                           /\ \E x \in DOMAIN o.stream : o.stream[x] = o.wtMax)
            \* 1 <= c <= min(k, n) once something was offered; floor and ceiling differ by at most one
            /\ (o.n > 0 => FloorC(o) >= 1 /\ CeilC(o) <= Min(o.k, o.n))
            /\ FloorC(o) <= CeilC(o) /\ CeilC(o) <= FloorC(o) + 1
            /\ C10k(o) >= 10000 * FloorC(o) /\ C10k(o) <= 10000 * CeilC(o)
            \* equal weights and n <= k: c = n
            /\ (EqualWeights(o) /\ o.n <= o.k => FloorC(o) = o.n /\ CeilC(o) = o.n)
            \* AllKept: with equal weights and n <= k every admissible result holds every item
            /\ (EqualWeights(o) /\ o.n <= o.k => \A S \in SUBSET DOMAIN o.stream : ResultOK(o, S) => S = DOMAIN o.stream)
            \* some result is always admissible
            /\ \E S \in SUBSET DOMAIN o.stream : ResultOK(o, S)
====
