SPECIFICATION TSpec
CONSTANTS Ids = {} Items = {} Weights = {} Cfgs = {} MaxTotal = 0
 TierB = FALSE
POSTCONDITION Accepted
CHECK_DEADLOCK FALSE
