\* NEGATIVE config: the pinned reset() (keeps the down-sampled lg_k).  TLC must report ResultOK violated.
SPECIFICATION Spec
CONSTANTS LgMaxK = 2
 Inputs <- Catalogue
 Items <- MCItems
 PromoteCount <- PC2
 FixedIsEmpty = TRUE
 FixedReset = FALSE
INVARIANT ResultOK EmptyOK CountersOK UInvOK
PROPERTY Refines
CHECK_DEADLOCK FALSE
