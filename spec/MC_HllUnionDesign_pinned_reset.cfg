\* NEGATIVE config: the pinned reset() (keeps the down-sampled lg_k).  TLC must report ResultOK violated.
SPECIFICATION Spec
CONSTANTS LgMaxK = 2
 Inputs <- Catalogue
 Items <- MCItems
 PromoteCount <- PC2
 FixedIsEmpty = TRUE
 FixedReset = FALSE
 FixedDownsampleKxq = TRUE
INVARIANT ResultOK EmptyOK CountersOK HipOK UInvOK
PROPERTY Refines
CHECK_DEADLOCK FALSE
