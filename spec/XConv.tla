---- MODULE XConv ----
(***************************************************************************)
(* X03 - contract of the type-converting constructors of kll_sketch,       *)
(* req_sketch and quantiles_sketch ("Type converting constructor. @param   *)
(* other sketch of a different type"; requires the new type to be          *)
(* constructible from the existing type).                                  *)
(*                                                                         *)
(* A sketch value, as the public API exposes it:                           *)
(*   [n, k, est (estimation mode), empty, it, cw, min, max]                *)
(* it = retained items in ascending order (ties: by weight), cw = their    *)
(* inclusive cumulative weights.  The converted sketch is the image of the *)
(* source under the conversion F applied item by item: same n, k, mode,    *)
(* the same weight on every converted item (hence the same level           *)
(* structure), min / max converted.  For an order-preserving injective F   *)
(* every rank and quantile query commutes with F (theorems below, checked  *)
(* exhaustively by MC_XConv); the converted sketch is a full replacement:  *)
(* fed the same further input (and the same coin flips) it stays the image *)
(* of the source.                                                          *)
(***************************************************************************)
EXTENDS Integers, Sequences, FiniteSets, TLC

N(v) == IF Len(v.cw) = 0 THEN 0 ELSE v.cw[Len(v.cw)]
W(v, i) == IF i = 1 THEN v.cw[1] ELSE v.cw[i] - v.cw[i - 1]
WellFormed(v) == /\ Len(v.it) = Len(v.cw)
                 /\ \A i \in 1..(Len(v.it) - 1) : v.it[i] <= v.it[i + 1] /\ v.cw[i] < v.cw[i + 1]
                 /\ (Len(v.cw) > 0 => v.cw[1] > 0)
                 /\ N(v) = v.n
                 /\ v.empty = (v.n = 0)
                 /\ (~v.empty => \A i \in DOMAIN v.it : v.min <= v.it[i] /\ v.it[i] <= v.max)

\* number of entries <= x / < x of an ascending sequence (binary search)
RECURSIVE CntB(_, _, _, _, _)
CntB(s, x, strict, lo, hi) ==
  IF lo >= hi THEN lo
  ELSE LET m == (lo + hi + 1) \div 2 IN
       IF (IF strict THEN s[m] < x ELSE s[m] <= x) THEN CntB(s, x, strict, m, hi) ELSE CntB(s, x, strict, lo, m - 1)
\* rank * n of item x: weight of the retained items <= x (inclusive) or < x (exclusive)
RankNum(v, x, incl) == LET j == CntB(v.it, x, ~incl, 0, Len(v.it)) IN IF j = 0 THEN 0 ELSE v.cw[j]
\* item at normalized rank num / N(v) (inclusive search: first entry whose cumulative weight reaches the target)
QuantileAt(v, num) == v.it[CHOOSE i \in DOMAIN v.it : v.cw[i] >= num /\ (i = 1 \/ v.cw[i - 1] < num)]

\* dst is the image of src under the conversion F (an operator on items)
ImageOf(src, dst, F(_)) ==
  /\ dst.n = src.n /\ dst.k = src.k /\ dst.est = src.est /\ dst.empty = src.empty
  /\ Len(dst.it) = Len(src.it)
  /\ \A i \in DOMAIN src.it : dst.it[i] = F(src.it[i]) /\ dst.cw[i] = src.cw[i]
  /\ (~src.empty => dst.min = F(src.min) /\ dst.max = F(src.max))
====
