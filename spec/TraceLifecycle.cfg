SPECIFICATION TSpec
CONSTANTS Slots = {1, 2, 3}
 MutOps = {"few", "many", "alt"}
INVARIANT Inv
POSTCONDITION Accepted
CHECK_DEADLOCK FALSE
