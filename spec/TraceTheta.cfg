SPECIFICATION TSpec
CONSTANTS Ids = {} Hashes = {} Ks = {} Starts = {} MaxH = 0 CheckDesign = FALSE
INVARIANT Inv
POSTCONDITION Accepted
CHECK_DEADLOCK FALSE
