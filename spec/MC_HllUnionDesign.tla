---- MODULE MC_HllUnionDesign ----
\* input catalogue and item alphabet of the bounded HllUnionDesign runs (config files cannot hold tuples / records)
EXTENDS HllUnionDesign
Sk(lgK, mode, S) == [lgK |-> lgK, mode |-> mode, fed |-> IF mode = HLL THEN {} ELSE S, top |-> U!CouponTop(S, lgK), empty |-> S = {}, big |-> FALSE]
A == {<<1, 2>>, <<6, 1>>}      \* two coupons; at 2 slots they share slot 0/1..., at 8 slots they are slots 1 and 6
B == {<<3, 3>>, <<5, 1>>}
\* empty list, empty full-size (HLL-mode) sketch of smaller lg_k, coupon-mode sketches of lg_k 1..3, HLL-mode sketches of lg_k 1..3
Catalogue == {Sk(2, 0, {}), Sk(1, HLL, {})}
             \cup {Sk(k, 0, S) : k \in {1, 2, 3}, S \in {A}} \cup {Sk(2, 0, B)}
             \cup {Sk(k, HLL, S) : k \in {1, 2, 3}, S \in {A, B}}
PC2(lg) == 2       \* the gadget is promoted at 2 coupons
MCItems == {<<0, 1>>, <<7, 2>>}
====
