\* Ids: sketch ids, UIds: union ids, BIds: image ids, LgKs: lgK values (tiny: the contract is parametric in K),
\* Cells: coupon alphabet row*64+col
SPECIFICATION Spec
CONSTANTS Ids = {1, 2}
 UIds = {}
 BIds = {1}
 LgKs = {1, 2}
 Cells = {0, 64, 129}
INVARIANT Inv
CONSTRAINT Bound
CHECK_DEADLOCK FALSE
