\* exhaustive run of the density contract driven by the implementation-shaped generator, ONE sketch: k = 2, point ids
\* 1..4 (duplicates allowed), at most MaxN points offered, EVERY promoted sub-bag at every compaction (compact the
\* lowest full level while retained >= k * levels, then insert).
\* Inv: n exact, retained = sum of level sizes <= k * levels and <= n, retained points are inputs, exact mode holds
\* every input with weight 1.  GenOK: the contract never refuses a state the generator can produce.
SPECIFICATION Spec
CONSTANTS Ids = {1}
 Points = {1, 2, 3, 4}
 Ks = {2}
 MaxN = 8
INVARIANT Inv GenOK
CHECK_DEADLOCK FALSE
