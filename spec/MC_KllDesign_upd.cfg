\* one sketch, k = 4, minimum level width 2 (code: 8), items 1..3 with duplicates, every stream of up to 10 items,
\* both coins at each compaction, get_sorted_view's in-place sort of level 0 interleaved anywhere
SPECIFICATION Spec
CONSTANTS Ids = {1}
 Items = {1, 2, 3}
 Ks = {4}
 M = 2
 MaxN = 10
 HalveUpParityFlip = 0
INVARIANT RepOK ShadowOK CInv Martingale
PROPERTY Refines
CONSTRAINT NBound
CHECK_DEADLOCK FALSE
