---- MODULE CpcDesign ----
(***************************************************************************)
(* Tier B design model of one cpc_sketch: the mechanism of CpcMech driven  *)
(* by every sequence of coupons over a small alphabet.  TLC checks the     *)
(* representation invariants (RepOK: reconstructed matrix = coupons fed,   *)
(* C = their number, offset / window allocation formulas, speed filter     *)
(* sound, table canonical), the compression round trip, and that the       *)
(* design refines the contract Cpc (PROPERTY Refines).                     *)
(*                                                                         *)
(* The thresholds are formulas in K (promote at 32C >= 3K, window move at  *)
(* 8C >= (27 + 8 offset) K), so tiny K is a legitimate instance:           *)
(*   K = 2  : promote at C = 1, window moves at C = 7, 9, 11, 13           *)
(*   K = 4  : promote at C = 1, window moves at C = 14, 18, 22 (8 coupons  *)
(*            fed as a fixed prefix, the other 14 in every order)          *)
(*   K = 16 : sparse until C = 2 (the library's minimum lg_k = 4)          *)
(* FicBias / MoveAt are 0 in the faithful model; the negative configs set  *)
(* them to show that TLC then reports a violation.                         *)
(***************************************************************************)
EXTENDS CpcMech
CONSTANTS LgK,        \* lg_k of the sketch
          Alphabet,   \* coupons (row*64+col) offered by Next
          Prefix,     \* coupons fed (in this order) before the exhaustive part starts; <<>> = start from the empty sketch
          FicBias     \* 0 = code; 1 = first_interesting_column one too high after a window move (negative config)
VARIABLES s, fed
dvars == <<s, fed>>

Bias(t) == IF FicBias > 0 /\ t.off > s.off THEN [t EXCEPT !.fic = @ + FicBias] ELSE t
NoPrefix == <<>>
PrefixK4 == <<0, 64, 128, 192, 1, 65, 129, 2>>   \* used by MC_CpcDesign_k4.cfg (cfg files cannot spell tuples)
RECURSIVE Feed(_, _)
Feed(t, q) == IF q = <<>> THEN t ELSE Feed(Upd(t, Head(q)), Tail(q))
Init == s = Feed(Fresh(LgK), Prefix) /\ fed = {Prefix[i] : i \in DOMAIN Prefix}
Update(x) == s' = Bias(Upd(s, x)) /\ fed' = fed \cup {x}
Next == \E x \in Alphabet : Update(x)
Spec == Init /\ [][Next]_dvars

Rep == RepOK(s, fed)
RT == RoundTrip(s)
ModelObj == [lgK |-> LgK, fed |-> fed, merged |-> s.merged]
C == INSTANCE Cpc WITH obj <- (1 :> ModelObj), uni <- <<>>, blob <- <<>>,
                       Ids <- {1}, UIds <- {}, BIds <- {}, LgKs <- {LgK}, Cells <- Alphabet
\* the design starts with sketch 1 constructed: refine the contract's step relation; the contract's observables
\* C(o), Matrix(o) are functions of the ghost, the implementation's are s.C and BitMatrix(s): equal by Rep
Refines == [][\E x \in Alphabet : C!Update(1, x)]_dvars
Observables == s.C = C!C(ModelObj) /\ BitMatrix(s) = C!Matrix(ModelObj)
====
