SPECIFICATION Spec
CONSTANTS K = 2
 N = 6
 Th0 = 5
 MaxInputs = 3
INVARIANT UnionOK InterFoldOK InterOK InterValid AnotBOK
CHECK_DEADLOCK FALSE
