---- MODULE Bloom ----
(***************************************************************************)
(* Tier A contract of the Bloom filter (property C15), written from the    *)
(* property statement and the public documentation (bloom_filter.hpp) only.*)
(*                                                                         *)
(* An ITEM is its index set under the configuration of the filter it is    *)
(* offered to: Idx(x) = { ((h0 + i*h1) >> 1) mod cap : i = 1..hashes },    *)
(* h0 = XXH64(item, seed), h1 = XXH64(item, h0) (computed by the harness   *)
(* with its own XXH64).  Filters of different configuration never exchange *)
(* items (they are incompatible), so an index set is enough.               *)
(*                                                                         *)
(* State.  mem[m]: a byte region holding a filter image (caller memory     *)
(* initialised by initialize_by_.., or a serialized image): configuration, *)
(* `empty` (image form without bit array), bits, ghost `ins`.              *)
(* flt[f]: a filter object: at = Own (0) with its own bits / ins, or       *)
(* at = m, a VIEW of region m (wrap / writable_wrap / initialize_by_..).   *)
(* Bits(f), Ins(f) are read through the view.  `ins` is the ghost ground   *)
(* truth "items whose presence this bit store must still report": it       *)
(* follows copies, images, wraps of the region (made at ANY later time),   *)
(* unions (union of both), intersections (items offered to both);          *)
(* invert / reset forget.                                                  *)
(*                                                                         *)
(* Environment assumption (fresh): the class caches per-object state and   *)
(* documents wrap as "reads the data in-place"; the contract therefore     *)
(* speaks about a view from its creation until ANOTHER view writes to the  *)
(* same region.  Such a foreign write clears `fresh` of the sibling views; *)
(* every action requires its operands to be fresh (drivers re-wrap) -      *)
(* EXCEPT plain update(): a stale writable view may keep inserting (one    *)
(* writer that is not re-wrapped while another view reset / combined the   *)
(* region).  Its effect on the region is fully specified (bits and ins     *)
(* grow), nothing is claimed about the stale view's own later answers,     *)
(* and every view created LATER must see the item.  query_and_update and   *)
(* the set operations through a stale view stay excluded: they write the   *)
(* caller-visible count from the object's cached count, which is a         *)
(* coherence limitation of the class for several concurrent writers.       *)
(*                                                                         *)
(* `out` is the observable result of the last call, so that refinement     *)
(* (BloomDesign) compares answers, not only states.  Everything the        *)
(* property leaves open is an explicit action parameter.                   *)
(***************************************************************************)
EXTENDS Naturals, FiniteSets, Sequences, TLC
CONSTANTS FltIds, MemIds, Cfgs, Items     \* bounds used only by Next (model checking)
VARIABLES flt, mem, out
vars == <<flt, mem, out>>

\* observable result of a call: outcome, boolean answer, count (unused fields have a fixed value)
Ret(o, a, n) == [o |-> o, a |-> a, n |-> n]
Ok == Ret("ok", FALSE, 0)
Thrown == Ret("throw", FALSE, 0)
Ans(a) == Ret("ok", a, 0)
Num(n) == Ret("ok", FALSE, n)

Own == 0                                   \* flt[f].at = Own: the filter owns its bits; region ids are > 0
Live == DOMAIN flt
Regions == DOMAIN mem
All(c) == 0..(c.cap - 1)
ValidCfg(c) == c.cap > 0 /\ c.hashes > 0
ValidItem(c, x) == x # {} /\ x \subseteq All(c) /\ Cardinality(x) <= c.hashes

BitsOf(F, M, f) == IF F[f].at = Own THEN F[f].bits ELSE M[F[f].at].bits
InsOf(F, M, f) == IF F[f].at = Own THEN F[f].ins ELSE M[F[f].at].ins
Bits(f) == BitsOf(flt, mem, f)
Ins(f) == InsOf(flt, mem, f)
Cfg(f) == flt[f].cfg
Fresh(f) == f \in Live /\ flt[f].fresh
Compatible(f, g) == Cfg(f) = Cfg(g)
NoViewAt(m) == \A h \in Live : flt[h].at # m

Owned(c, b, s, ro) == [at |-> Own, bits |-> b, ins |-> s, ro |-> ro, fresh |-> TRUE, cfg |-> c]
View(m, c, ro) == [at |-> m, bits |-> {}, ins |-> {}, ro |-> ro, fresh |-> TRUE, cfg |-> c]
Image(c, e, b, s) == [cfg |-> c, empty |-> e, bits |-> b, ins |-> s]

\* the definitions the clauses are made of
QueryAns(f, x) == x \subseteq Bits(f)            \* false positives are exactly index coincidences
BitsUsedAns(f) == Cardinality(Bits(f))
IsEmptyAns(f) == Bits(f) = {}
Refused(f) == flt[f].ro                          \* a write through a read-only view

\* f's bit store becomes (b, s); sibling views of the same region lose their guarantee
Write(f, b, s) ==
  IF flt[f].at = Own
  THEN /\ flt' = [flt EXCEPT ![f].bits = b, ![f].ins = s]
       /\ UNCHANGED mem
  ELSE LET m == flt[f].at IN
       /\ mem' = [mem EXCEPT ![m].bits = b, ![m].ins = s]
       /\ flt' = [h \in Live |-> IF h # f /\ flt[h].at = m THEN [flt[h] EXCEPT !.fresh = FALSE] ELSE flt[h]]
Throw == out' = Thrown /\ UNCHANGED <<flt, mem>>

Init == flt = <<>> /\ mem = <<>> /\ out = Ok

\* builder::create_by_size / create_by_accuracy
New(f, c) ==
  /\ ValidCfg(c)
  /\ flt' = (f :> Owned(c, {}, {}, FALSE)) @@ flt
  /\ out' = Ok /\ UNCHANGED mem
\* builder::initialize_by_size / initialize_by_accuracy into caller memory m
InitMem(f, m, c) ==
  /\ ValidCfg(c) /\ NoViewAt(m)
  /\ mem' = (m :> Image(c, FALSE, {}, {})) @@ mem
  /\ flt' = (f :> View(m, c, FALSE)) @@ flt
  /\ out' = Ok
\* update(item): o = "throw" exactly for a read-only view.  Also specified through a STALE view (see header): the
\* region gains the item, the writer stays stale, every other view of the region becomes stale
Update(f, x, o) ==
  /\ f \in Live /\ ValidItem(Cfg(f), x)
  /\ IF Refused(f) THEN o = "throw" /\ Throw
     ELSE o = "ok" /\ Write(f, Bits(f) \cup x, Ins(f) \cup {x}) /\ out' = Ok
\* query_and_update(item): a = membership in the PRE-state
QueryUpdate(f, x, o, a) ==
  /\ Fresh(f) /\ ValidItem(Cfg(f), x)
  /\ IF Refused(f) THEN o = "throw" /\ Throw
     ELSE /\ o = "ok" /\ a = QueryAns(f, x)
          /\ Write(f, Bits(f) \cup x, Ins(f) \cup {x}) /\ out' = Ans(a)
Query(f, x, a) ==
  /\ Fresh(f) /\ ValidItem(Cfg(f), x)
  /\ a = QueryAns(f, x)
  /\ out' = Ans(a) /\ UNCHANGED <<flt, mem>>
\* the empty string / empty array: update does nothing, query and query_and_update return false
EmptyItem(f, a) == Fresh(f) /\ a = FALSE /\ out' = Ans(a) /\ UNCHANGED <<flt, mem>>
BitsUsed(f, n) == Fresh(f) /\ n = BitsUsedAns(f) /\ out' = Num(n) /\ UNCHANGED <<flt, mem>>
IsEmpty(f, e) == Fresh(f) /\ e = IsEmptyAns(f) /\ out' = Ans(e) /\ UNCHANGED <<flt, mem>>
\* union_with / intersect: refused for incompatible operands and for a read-only target
Union(f, g, o) ==
  /\ Fresh(f) /\ Fresh(g)
  /\ IF ~Compatible(f, g) \/ Refused(f) THEN o = "throw" /\ Throw
     ELSE o = "ok" /\ Write(f, Bits(f) \cup Bits(g), Ins(f) \cup Ins(g)) /\ out' = Ok
Intersect(f, g, o) ==
  /\ Fresh(f) /\ Fresh(g)
  /\ IF ~Compatible(f, g) \/ Refused(f) THEN o = "throw" /\ Throw
     ELSE o = "ok" /\ Write(f, Bits(f) \cap Bits(g), Ins(f) \cap Ins(g)) /\ out' = Ok
Invert(f, o) ==
  /\ Fresh(f)
  /\ IF Refused(f) THEN o = "throw" /\ Throw
     ELSE o = "ok" /\ Write(f, All(Cfg(f)) \ Bits(f), {}) /\ out' = Ok
Reset(f, o) ==
  /\ Fresh(f)
  /\ IF Refused(f) THEN o = "throw" /\ Throw
     ELSE o = "ok" /\ Write(f, {}, {}) /\ out' = Ok
\* copy construction / assignment: an owned filter is duplicated, a view stays a view of the same region
Copy(f, g) == /\ Fresh(f) /\ g # f
              /\ flt' = (g :> flt[f]) @@ flt
              /\ out' = Ok /\ UNCHANGED mem
Move(f, g) == /\ Fresh(f) /\ g # f
              /\ flt' = [h \in (Live \cup {g}) \ {f} |-> IF h = g THEN flt[f] ELSE flt[h]]
              /\ out' = Ok /\ UNCHANGED mem
Drop(f) == /\ f \in Live
           /\ flt' = [h \in Live \ {f} |-> flt[h]]
           /\ out' = Ok /\ UNCHANGED mem
\* serialize into region m; e = the image has the empty form (no bit array), possible only without bits
Ser(f, m, e) ==
  /\ Fresh(f) /\ NoViewAt(m)
  /\ e => Bits(f) = {}
  /\ mem' = (m :> Image(Cfg(f), e, Bits(f), Ins(f))) @@ mem
  /\ out' = Ok /\ UNCHANGED flt
Deser(m, f) ==
  /\ m \in Regions
  /\ flt' = (f :> Owned(mem[m].cfg, mem[m].bits, mem[m].ins, FALSE)) @@ flt
  /\ out' = Ok /\ UNCHANGED mem
\* read-only wrap; an empty image has no bit array to view: the result is a detached empty filter (its
\* read-only flag ro is not fixed by the property)
Wrap(m, f, ro) ==
  /\ m \in Regions
  /\ flt' = (f :> IF mem[m].empty THEN Owned(mem[m].cfg, {}, {}, ro) ELSE View(m, mem[m].cfg, TRUE)) @@ flt
  /\ (~mem[m].empty => ro = TRUE)
  /\ out' = Ok /\ UNCHANGED mem
\* writable wrap: refused for an empty image
WritableWrap(m, f, o) ==
  /\ m \in Regions
  /\ IF mem[m].empty THEN o = "throw" /\ Throw
     ELSE /\ o = "ok" /\ flt' = (f :> View(m, mem[m].cfg, FALSE)) @@ flt
          /\ out' = Ok /\ UNCHANGED mem

Outs == {"ok", "throw"}
Next ==
  \/ \E f \in FltIds, c \in Cfgs : New(f, c)
  \/ \E f \in FltIds, m \in MemIds, c \in Cfgs : InitMem(f, m, c)
  \/ \E f \in FltIds, x \in Items, o \in Outs : Update(f, x, o)
  \/ \E f \in FltIds, x \in Items, o \in Outs, a \in BOOLEAN : QueryUpdate(f, x, o, a)
  \/ \E f \in FltIds, x \in Items, a \in BOOLEAN : Query(f, x, a)
  \/ \E f \in FltIds, a \in BOOLEAN : EmptyItem(f, a)
  \/ \E f \in FltIds, n \in 0..16 : BitsUsed(f, n)
  \/ \E f \in FltIds, e \in BOOLEAN : IsEmpty(f, e)
  \/ \E f \in FltIds, g \in FltIds, o \in Outs : Union(f, g, o) \/ Intersect(f, g, o)
  \/ \E f \in FltIds, o \in Outs : Invert(f, o) \/ Reset(f, o)
  \/ \E f \in FltIds, g \in FltIds : Copy(f, g) \/ Move(f, g)
  \/ \E f \in FltIds : Drop(f)
  \/ \E f \in FltIds, m \in MemIds, e \in BOOLEAN : Ser(f, m, e)
  \/ \E f \in FltIds, m \in MemIds : Deser(m, f)
  \/ \E f \in FltIds, m \in MemIds, ro \in BOOLEAN : Wrap(m, f, ro)
  \/ \E f \in FltIds, m \in MemIds, o \in Outs : WritableWrap(m, f, o)
Spec == Init /\ [][Next]_vars

\* invariants = the property's state clauses
NoFalseNegative == \A f \in Live : Fresh(f) => \A x \in Ins(f) : QueryAns(f, x)
ImagesKeepItems == \A m \in Regions : /\ \A x \in mem[m].ins : x \subseteq mem[m].bits
                                      /\ mem[m].bits \subseteq All(mem[m].cfg)
                                      /\ (mem[m].empty => mem[m].bits = {})
WellFormed == \A f \in Live : /\ Bits(f) \subseteq All(Cfg(f))
                              /\ (flt[f].at # Own => flt[f].at \in Regions /\ Cfg(f) = mem[flt[f].at].cfg)
Inv == NoFalseNegative /\ ImagesKeepItems /\ WellFormed

\* FPP clause (statistical verdict, integers only): F false positives among M never-inserted probes of a
\* filter built by create_by_accuracy(n, p) and filled with n items; p = pPm / 1000.
\* Accept iff F <= 1.25 p M + 6 sqrt(p M + 1): >= 6 standard errors of the binomial count plus 25 % slack for
\* the rounding of the optimal size / hash count and the fill variance of small filters.
FppOK(F, M, pPm) ==
  \/ F * 4000 <= 5 * M * pPm
  \/ LET d == F - (5 * M * pPm) \div 4000 IN d * d <= 36 * ((M * pPm) \div 1000 + 1)
====
