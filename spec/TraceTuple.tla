---- MODULE TraceTuple ----
(***************************************************************************)
(* Trace validation of update_tuple_sketch / compact_tuple_sketch /        *)
(* tuple_union / tuple_intersection / tuple_a_not_b / filter, instantiated *)
(* (1) with a summary type that IS the list of offered values (update =    *)
(* append, union/intersection policy = concatenation) and (2) as           *)
(* array_of_doubles sketches with integer-valued columns (value v offered  *)
(* as the vector <<v, 2v, 3v, ..>>), against the Tuple contract (C13).     *)
(***************************************************************************)
EXTENDS Tuple, TraceCommon
VARIABLES off, cfg, cvv, tu, tix, blob
tvars == <<obj, l, off, cfg, cvv, tu, tix, blob>>

\* logged summary s (list kind: the list; aod kind: the column values) against the model sequence q
SummOK(kind, nv, s, q) == IF kind = "lst" THEN s = q
                          ELSE Len(s) = nv /\ \A c \in 1..nv : s[c] = c * SumSeq(q)
\* logged projection r against the model tuple value v
TValOK(r, v, kind, nv, maxH) ==
  /\ Chk("theta", r.thetaH = v.thetaH)
  /\ Chk("keys", ToSet(r.ent) = DOMAIN v.summ)
  /\ Chk("no-duplicates", Len(r.ent) = Cardinality(DOMAIN v.summ))
  /\ Chk("num_retained", r.n = Len(r.ent))
  /\ Chk("empty", r.empty = v.empty)
  /\ Chk("ordered-list", r.ordered => Asc(r.ent))
  /\ Chk("summaries", \A i \in 1..Len(r.ent) : SummOK(kind, nv, r.sm[i], v.summ[r.ent[i]]))
  /\ Chk("C06:bounds", /\ r.lb[3] <= r.lb[2] /\ r.lb[2] <= r.lb[1] /\ r.lb[1] <= r.est
                       /\ r.est <= r.ub[1] /\ r.ub[1] <= r.ub[2] /\ r.ub[2] <= r.ub[3])
  /\ Chk("C06:exact-estimate", (v.thetaH = maxH \/ v.empty) => /\ r.estI = Len(r.ent) /\ ~r.estMode
                                 /\ \A k \in 1..3 : r.lb[k] = r.est /\ r.ub[k] = r.est)

TBegin == IsEvent("Begin") /\ LET e == Log[l] IN
            /\ obj' = <<>> /\ off' = <<>> /\ cvv' = <<>> /\ tu' = <<>> /\ tix' = <<>> /\ blob' = <<>>
            /\ cfg' = [kind |-> e.kind, nv |-> e.nv, maxH |-> e.maxH]
TNew == IsEvent("New") /\ LET e == Log[l] IN
            /\ New(e.id, e.k, e.startH, e.maxH) /\ off' = (e.id :> <<>>) @@ off /\ UNCHANGED <<cfg, cvv, tu, tix, blob>>
\* every update: keys follow the Theta contract AND coincide with the lock-step theta sketch of the same configuration
TUpdate == IsEvent("Update") /\ LET e == Log[l] IN
            /\ Update(e.id, e.hH, e.thetaH)
            /\ off' = [off EXCEPT ![e.id] = Append(@, <<e.hH, e.val>>)]
            /\ Chk("num_retained", e.n = Cardinality(Ret(obj'[e.id])))
            /\ Chk("empty", e.empty = FALSE)
            /\ Chk("same-keys-as-theta-sketch", e.thetaH = e.thetaT /\ e.n = e.nT)
            /\ UNCHANGED <<cfg, cvv, tu, tix, blob>>
TUpdateIgnored == IsEvent("UpdateIgnored") /\ LET e == Log[l]  o == obj[e.id] IN
            /\ Chk("ignored", e.thetaH = ObsTheta(o) /\ e.n = Cardinality(Ret(o)) /\ e.empty = o.empty)
            /\ UNCHANGED <<obj, off, cfg, cvv, tu, tix, blob>>
TTrim == IsEvent("Trim") /\ LET e == Log[l] IN
            /\ Trim(e.id, IF obj[e.id].empty THEN obj[e.id].thetaH ELSE e.thetaH)
            /\ Chk("num_retained", e.n = Cardinality(Ret(obj'[e.id])))
            /\ Chk("same-keys-as-theta-sketch", e.thetaH = e.thetaT /\ e.n = e.nT)
            /\ UNCHANGED <<off, cfg, cvv, tu, tix, blob>>
TReset == IsEvent("Reset") /\ LET e == Log[l] IN
            /\ Reset(e.id) /\ off' = [off EXCEPT ![e.id] = <<>>]
            /\ Chk("reset", e.n = 0 /\ e.empty /\ e.thetaH = cfg.maxH)
            /\ UNCHANGED <<cfg, cvv, tu, tix, blob>>
TObs == IsEvent("Obs") /\ LET e == Log[l] IN
            /\ TValOK(e.r, TVal(obj[e.id], off[e.id]), cfg.kind, cfg.nv, cfg.maxH)
            /\ Chk("same-keys-as-theta-sketch", ToSet(e.entT) = Ret(obj[e.id]))
            /\ UNCHANGED <<obj, off, cfg, cvv, tu, tix, blob>>
TCopy == IsEvent("Copy") /\ LET e == Log[l] IN
            /\ Copy(e.src, e.dst) /\ off' = (e.dst :> off[e.src]) @@ off
            /\ TValOK(e.r, TVal(obj'[e.dst], off'[e.dst]), cfg.kind, cfg.nv, cfg.maxH)
            /\ UNCHANGED <<cfg, cvv, tu, tix, blob>>
TCompact == IsEvent("Compact") /\ LET e == Log[l]  v == TVal(obj[e.src], off[e.src]) IN
            /\ TValOK(e.r, v, cfg.kind, cfg.nv, cfg.maxH)
            /\ Chk("ordered-requested", e.ordered => e.r.ordered)
            /\ cvv' = (e.dst :> v) @@ cvv /\ UNCHANGED <<obj, off, cfg, tu, tix, blob>>
TFilter == IsEvent("Filter") /\ LET e == Log[l]
                                    src == IF e.fromUpdate THEN TVal(obj[e.src], off[e.src]) ELSE cvv[e.src]
                                    d == TFilterDef(src, e.thr, cfg.maxH) IN
            /\ TValOK(e.r, d, cfg.kind, cfg.nv, cfg.maxH)
            /\ cvv' = (IF e.dst >= 0 THEN (e.dst :> d) @@ cvv ELSE cvv) /\ UNCHANGED <<obj, off, cfg, tu, tix, blob>>
TFromTheta == IsEvent("FromTheta") /\ LET e == Log[l]
                                          kv == [thetaH |-> e.t.thetaH, ent |-> ToSet(e.t.ent), empty |-> e.t.empty]
                                          d == FromThetaDef(kv, <<e.val>>) IN
            /\ TValOK(e.r, d, cfg.kind, cfg.nv, cfg.maxH)
            /\ cvv' = (e.dst :> d) @@ cvv /\ UNCHANGED <<obj, off, cfg, tu, tix, blob>>
TUNew == IsEvent("UNew") /\ LET e == Log[l] IN
            /\ tu' = (e.u :> [k |-> e.k, th0 |-> e.startH, ins |-> <<>>]) @@ tu /\ UNCHANGED <<obj, off, cfg, cvv, tix, blob>>
TUUpdate == IsEvent("UUpdate") /\ LET e == Log[l]
                                      v == IF e.fromUpdate THEN TVal(obj[e.src], off[e.src]) ELSE cvv[e.src] IN
            /\ tu' = [tu EXCEPT ![e.u].ins = Append(@, v)] /\ UNCHANGED <<obj, off, cfg, cvv, tix, blob>>
TUResult == IsEvent("UResult") /\ LET e == Log[l]  u == tu[e.u]  d == TUnionDef(u.ins, u.k, u.th0, cfg.maxH) IN
            /\ TValOK(e.r, d, cfg.kind, cfg.nv, cfg.maxH)
            /\ Chk("ordered-requested", e.ordered => e.r.ordered)
            /\ cvv' = (e.dst :> d) @@ cvv /\ UNCHANGED <<obj, off, cfg, tu, tix, blob>>
TUReset == IsEvent("UReset") /\ tu' = [tu EXCEPT ![Log[l].u].ins = <<>>] /\ UNCHANGED <<obj, off, cfg, cvv, tix, blob>>
TINew == IsEvent("INew") /\ tix' = (Log[l].i :> <<>>) @@ tix /\ UNCHANGED <<obj, off, cfg, cvv, tu, blob>>
TIUpdate == IsEvent("IUpdate") /\ LET e == Log[l]
                                      v == IF e.fromUpdate THEN TVal(obj[e.src], off[e.src]) ELSE cvv[e.src] IN
            /\ tix' = [tix EXCEPT ![e.i] = Append(@, v)] /\ UNCHANGED <<obj, off, cfg, cvv, tu, blob>>
TIResult == IsEvent("IResult") /\ LET e == Log[l] IN
            /\ IF tix[e.i] = <<>>
               THEN Chk("result-before-update-refused", e.outcome = "throw") /\ UNCHANGED cvv
               ELSE /\ Chk("has-result", e.outcome = "ok")
                    /\ LET d == TInterDef(tix[e.i], cfg.maxH) IN
                       /\ TValOK(e.r, d, cfg.kind, cfg.nv, cfg.maxH) /\ cvv' = (e.dst :> d) @@ cvv
            /\ UNCHANGED <<obj, off, cfg, tu, tix, blob>>
TAnotB == IsEvent("AnotB") /\ LET e == Log[l]
                                  a == IF e.aFromUpdate THEN TVal(obj[e.a], off[e.a]) ELSE cvv[e.a]
                                  d == TAnotBDef(a, cvv[e.b], cfg.maxH) IN
            /\ TValOK(e.r, d, cfg.kind, cfg.nv, cfg.maxH)
            /\ cvv' = (e.dst :> d) @@ cvv /\ UNCHANGED <<obj, off, cfg, tu, tix, blob>>
TSer == IsEvent("Ser") /\ LET e == Log[l] IN
            /\ Chk("C09:bytes=stream", e.img = e.simg)
            /\ Chk("C09:header", e.total = e.hdr + e.size)
            /\ blob' = (e.blob :> [val |-> cvv[e.src], img |-> e.img, size |-> e.size, ordered |-> e.ordered]) @@ blob
            /\ UNCHANGED <<obj, off, cfg, cvv, tu, tix>>
TDeser == IsEvent("Deser") /\ LET e == Log[l]  b == blob[e.blob] IN
            /\ TValOK(e.r, b.val, cfg.kind, cfg.nv, cfg.maxH)
            /\ Chk("C09:ordered-flag", e.r.ordered = b.ordered)
            /\ Chk("C09:consumed", e.consumed = b.size)
            /\ Chk("C09:reserialize", e.reimg = b.img)
            /\ cvv' = (e.dst :> b.val) @@ cvv /\ UNCHANGED <<obj, off, cfg, tu, tix, blob>>

TInit == obj = <<>> /\ l = 1 /\ off = <<>> /\ cfg = <<>> /\ cvv = <<>> /\ tu = <<>> /\ tix = <<>> /\ blob = <<>>
TNext == TBegin \/ TNew \/ TUpdate \/ TUpdateIgnored \/ TTrim \/ TReset \/ TObs \/ TCopy \/ TCompact \/ TFilter \/ TFromTheta
         \/ TUNew \/ TUUpdate \/ TUResult \/ TUReset \/ TINew \/ TIUpdate \/ TIResult \/ TAnotB \/ TSer \/ TDeser
TSpec == TInit /\ [][TNext]_tvars
====
