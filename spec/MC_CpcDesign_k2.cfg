\* K = 2 rows: promote at the first coupon, window moves at C = 7, 9, 11, 13 (offset reaches 4) within 15 cells.
\* Alphabet = cell numbers row*64+col: columns 0..3 of both rows, then (0,5) (1,7) (0,9) (1,10) (0,11) (0,12) (1,20)
SPECIFICATION Spec
CONSTANTS LgK = 1
 Alphabet = {0, 1, 2, 3, 64, 65, 66, 67, 5, 71, 9, 74, 11, 12, 84}
 Prefix <- NoPrefix
 FicBias = 0
INVARIANT Rep RT Observables
PROPERTY Refines
CHECK_DEADLOCK FALSE
