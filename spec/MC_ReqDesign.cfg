\* single executions, both accuracy modes, section growth 1 -> 2 sections, two sketches with merges (lvalue / rvalue), every coin string
\* SecSizes: section sizes by generation (code k = 12: <<12, 8, 6, 4, 4>>), InitSec: initial number of sections (code: 3)
SPECIFICATION Spec
CONSTANTS Ids = {1, 2}
 Items = {1, 2}
 SecSizes <- Sec22
 InitSec = 1
 Hras = {TRUE, FALSE}
 MaxN = 11
 MergeCoin = "adopt"
INVARIANT RepOK CInv
PROPERTY Refines
CONSTRAINT NBound SmallOthers
CHECK_DEADLOCK FALSE
