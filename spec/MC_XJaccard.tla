---- MODULE MC_XJaccard ----
(***************************************************************************)
(* X04 - exhaustive model: the route the code takes (union of A and B in a *)
(* sketch of nominal size K(A,B), then the intersection of A, B and that   *)
(* union, then "B over A" of the two results) against the contract, for    *)
(* every pair of sketches over hashes 1..MaxH.                             *)
(* KRule = "sum": K = |A| + |B| (the code: ceiling power of two of the sum *)
(*   of the retained counts) - the union never trims, the route is the     *)
(*   contract.  KRule = "max": K = max(|A|, |B|) - TLC must report a       *)
(*   violation (the union trims below the common theta).                   *)
(***************************************************************************)
EXTENDS XJaccard
CONSTANTS MaxH, KRule
VARIABLES A, B
Hs == 1..MaxH
Thetas == 2..(MaxH + 1)              \* MaxH + 1 plays the maximum theta ("exact mode")
Sk == {[ent |-> S, theta |-> t, empty |-> FALSE] : t \in Thetas, S \in SUBSET Hs} \cup {[ent |-> {}, theta |-> MaxH + 1, empty |-> TRUE]}
Valid(s) == \A h \in s.ent : h < s.theta

\* k smallest elements of S
RECURSIVE Smallest(_, _)
Smallest(S, k) == IF k = 0 \/ S = {} THEN {} ELSE LET m == CHOOSE x \in S : \A y \in S : x <= y IN {m} \cup Smallest(S \ {m}, k - 1)
\* theta union with nominal size k: entries below the minimum theta; if more than k, keep the k smallest and lower theta to the (k+1)th
UnionK(a, b, k) ==
  LET t == Min2(a.theta, b.theta)  all == Below(a.ent \cup b.ent, t) IN
  IF Cardinality(all) <= k THEN [ent |-> all, theta |-> t, empty |-> a.empty /\ b.empty]
  ELSE LET keep == Smallest(all, k)  nt == CHOOSE x \in all \ keep : \A y \in all \ keep : x <= y
       IN [ent |-> keep, theta |-> nt, empty |-> FALSE]
Inter3(a, b, u) == LET t == Min2(Min2(a.theta, b.theta), u.theta) IN [ent |-> Below((a.ent \cap b.ent) \cap u.ent, t), theta |-> t, empty |-> FALSE]
K(a, b) == IF KRule = "sum" THEN Cardinality(a.ent) + Cardinality(b.ent)
           ELSE IF Cardinality(a.ent) > Cardinality(b.ent) THEN Cardinality(a.ent) ELSE Cardinality(b.ent)

Init == A \in {s \in Sk : Valid(s)} /\ B \in {s \in Sk : Valid(s)}
Next == UNCHANGED <<A, B>>
Spec == Init /\ [][Next]_<<A, B>>

RouteIsContract ==
  (~A.empty /\ ~B.empty) =>
    LET u == UnionK(A, B, K(A, B))  i == Inter3(A, B, u) IN
    /\ SubsetSketch(u, i)                                   \* what the bounds functions demand of their arguments
    /\ RatioNum(u, i) = JaccardNum(A, B) /\ RatioDen(u, i) = JaccardDen(A, B)
Theorems ==
  /\ JaccardNum(A, B) <= JaccardDen(A, B)                   \* the estimate is in [0, 1]
  /\ JaccardNum(A, B) = JaccardNum(B, A) /\ JaccardDen(A, B) = JaccardDen(B, A)
  /\ (SameSketch(A, B) /\ ~A.empty => JaccardNum(A, B) = JaccardDen(A, B))    \* identical sketches: J = 1
  /\ (A.ent \cap B.ent = {} => JaccardNum(A, B) = 0)                          \* disjoint samples: J = 0
====
