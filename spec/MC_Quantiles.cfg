\* Ids: sketch slots; Items: item ranks; MaxN: bound on n per sketch; Fams: families (classic has the exact retained formula)
SPECIFICATION Spec
CONSTANTS Ids = {1, 2}
 Items = {1, 2}
 MaxN = 3
 Fams = {"kll", "classic"}
INVARIANT Inv
CHECK_DEADLOCK FALSE
