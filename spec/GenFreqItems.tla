---- MODULE GenFreqItems ----
(***************************************************************************)
(* Behaviour generation (spec -> impl) from the frequent-items design      *)
(* model with the code's real minimum sizes (LG_MIN_MAP_SIZE = 3: 8 slots, *)
(* capacity 6; lg_max 3 or 4): TLC -simulate walks FreqItemsDesign on one  *)
(* sketch and each finished walk is written out with the model's expected  *)
(* map, offset, number of active items and lg_cur after every step;        *)
(* harness/fi_rec.cpp --replay-dir replays it on the real sketch.          *)
(*   tlc -simulate num=N -depth D -config GenFreqItems.cfg GenFreqItems.tla *)
(***************************************************************************)
EXTENDS FreqItemsDesign, Json, IOUtils
CONSTANTS Depth, NItems       \* Items = 1..NItems
OutDir == IOEnv.GEN_DIR      \* directory for the generated behaviours, supplied by the orchestrator
VARIABLE hist
gvars == <<obj, hist>>
Step(x, w) == LET o == obj'[1] IN
  [x |-> x, w |-> w, lgMax |-> o.lgMax, lgCur |-> o.lgCur, off |-> o.offset, total |-> o.total, n |-> Cardinality(DOMAIN o.cnt),
   cnt |-> [k \in 1..NItems |-> Get(o.cnt, k)]]
GInit == /\ \E lg \in LgMaxs : obj = (1 :> [lgMax |-> lg, lgCur |-> StartLg(0, LgMin), cnt |-> <<>>, offset |-> 0, total |-> 0,
                                             truth |-> <<>>, lgLo |-> lg, lgHi |-> lg])
         /\ hist = <<>>
GNext == /\ Len(hist) < Depth
         /\ \E x \in Items, w \in Weights \cup {0} : Update(1, x, w) /\ hist' = Append(hist, Step(x, w))
GSpec == GInit /\ [][GNext]_gvars
\* a finished walk is written to its own file.  In simulation mode TLC evaluates the constraint on EVERY successor of the
\* last state; exactly one of them (last item and weight determined by the two steps before) is written per walk
Collect == IF Len(hist) = Depth /\ hist[Depth].x = ((hist[Depth - 1].x + hist[Depth - 2].x) % NItems) + 1
              /\ hist[Depth].w = (hist[Depth - 1].w % 3) + 1
           THEN ndJsonSerialize(OutDir \o "/f" \o ToString(TLCGet("stats").traces) \o "_" \o ToString(RandomElement(1..1000000)) \o ".ndjson", hist)
           ELSE TRUE
====
