---- MODULE ClassicQDesign ----
(***************************************************************************)
(* Tier B design model of the classic quantiles_sketch                     *)
(* (quantiles/include/quantiles_sketch_impl.hpp): base buffer of 2k items  *)
(* (weight 1), levels of exactly k sorted items (level j, 1-based, weight  *)
(* 2^j) flagged by the bits of bit_pattern = n div 2k, update ->           *)
(* process_full_base_buffer -> in_place_propagate_carry with zip_buffer    *)
(* (the fair coin chooses the odd or even positions of a sorted 2k buffer) *)
(* and merge_two_size_k_buffers, merge of an exact operand (replay of its  *)
(* base buffer), standard_merge (equal k), "this is exact" merge (copy of  *)
(* the other sketch + replay of this base buffer).  The down-sampling      *)
(* merge (unequal k) draws its offset from random_utils::rand, not from    *)
(* the fair coin, and is not modelled here (covered by traces, C07).       *)
(*                                                                         *)
(* Checked: Refines / CInv (contract C07, including the documented         *)
(* retained-items formula), RepOK (shape is a function of n and k - the    *)
(* shadow machine in closed form: the schedule cannot depend on coins),    *)
(* Martingale (C08(b): per enabled update / merge, summing W(successor,q)  *)
(* over ALL coin strings gives 2^f times the exact weight, every string    *)
(* draws the same number of flips f, and f is the closed-form prediction). *)
(* The base buffer is kept sorted: every use of it in the code sorts it.   *)
(***************************************************************************)
EXTENDS Naturals, Sequences, FiniteSets, SequencesExt, TLC
CONSTANTS Ids, Items, Ks, MaxN,
          ZipIgnoresCoin    \* 0 = the code; 1 = negative config (zip_buffer always takes the even positions)
VARIABLES sk, obj
dvars == <<sk, obj>>

Live == DOMAIN sk
INSTANCE ClassicQMech      \* the mechanism operators (ZipBuf, Propagate, Upd, Replay, Levels, MergeCore, ...)

MsAdd(b, x) == IF x \in DOMAIN b THEN [b EXCEPT ![x] = @ + 1] ELSE (x :> 1) @@ b
MsCnt(b, x) == IF x \in DOMAIN b THEN b[x] ELSE 0
MsUnion(a, b) == [x \in DOMAIN a \cup DOMAIN b |-> MsCnt(a, x) + MsCnt(b, x)]
Fresh(k) == [k |-> k, n |-> 0, bb |-> <<>>, lv |-> <<>>, bp |-> 0, all |-> <<>>, minI |-> 0, maxI |-> 0]
\* the design keeps the base buffer canonical (sorted): every use of it in the code sorts it first, and the exhaustive
\* exploration offers the items in every order anyway
Canon(s) == [s EXCEPT !.bb = SortAsc(@)]
Ghost(s, n0, v) == [s EXCEPT !.all = MsAdd(@, v), !.minI = IF n0 = 0 THEN v ELSE Min2(@, v), !.maxI = IF n0 = 0 THEN v ELSE Max2(@, v)]
UpdateRes(s, v, cs) == LET r == Upd(s, v, cs, 0) IN [s |-> Ghost(Canon(r.s), s.n, v), used |-> r.used]
MergeGhost(r, s, o) == [r EXCEPT !.n = s.n + o.n, !.all = MsUnion(s.all, o.all),
                                  !.minI = IF s.n = 0 THEN o.minI ELSE Min2(s.minI, o.minI),
                                  !.maxI = IF s.n = 0 THEN o.maxI ELSE Max2(s.maxI, o.maxI)]
MergeRes(s, o, cs) ==
  IF o.n = 0 THEN [s |-> s, used |-> 0]
  ELSE LET r == MergeCore(s, o, cs) IN [s |-> MergeGhost(Canon(r.s), s, o), used |-> r.used]
CoinStrings(f) == [1..f -> {0, 1}]

-----------------------------------------------------------------------------
Wt(j) == 2^j           \* level j (1-based); the base buffer has weight 1
Pairs(s) ==
  LET pos == {<<0, x>> : x \in 1..Len(s.bb)} \cup UNION {{<<j, x>> : x \in 1..Len(s.lv[j])} : j \in 1..Len(s.lv)}
      item(p) == IF p[1] = 0 THEN s.bb[p[2]] ELSE s.lv[p[1]][p[2]]
      keys == {<<item(p), Wt(p[1])>> : p \in pos}
      ord(a, b) == a[1] < b[1] \/ (a[1] = b[1] /\ a[2] < b[2])
      ks == SetToSortSeq(keys, ord)
      cnt(key) == Cardinality({p \in pos : item(p) = key[1] /\ Wt(p[1]) = key[2]})
  IN [q \in 1..Len(ks) |-> <<ks[q][1], ks[q][2], cnt(ks[q])>>]
NumRetained(s) == Len(s.bb) + SumSeq([j \in 1..Len(s.lv) |-> Len(s.lv[j])])
ObjOf(s) == [fam |-> "classic", k |-> s.k, n |-> s.n, all |-> s.all, minI |-> s.minI, maxI |-> s.maxI,
             est |-> s.bp # 0, nret |-> NumRetained(s), used |-> 0, bound |-> 0, pairs |-> Pairs(s)]

Init == sk = <<>> /\ obj = <<>>
New(i, k) == i \notin Live /\ sk' = (i :> Fresh(k)) @@ sk
Update(i, v, cs) == i \in Live /\ sk' = [sk EXCEPT ![i] = UpdateRes(sk[i], v, cs).s]
Merge(i, j, rv, cs) ==
  /\ i \in Live /\ j \in Live /\ i # j /\ sk[i].k = sk[j].k
  /\ LET r == MergeRes(sk[i], sk[j], cs).s IN
     sk' = IF rv THEN [x \in Live \ {j} |-> IF x = i THEN r ELSE sk[x]] ELSE [sk EXCEPT ![i] = r]
Next == /\ \E i \in Ids :
             \/ \E k \in Ks : New(i, k)
             \/ i \in Live /\ \E v \in Items : \E cs \in CoinStrings(UpdateRes(sk[i], v, <<>>).used) : Update(i, v, cs)
             \/ \E j \in Ids, rv \in BOOLEAN : i \in Live /\ j \in Live /\ i # j /\ sk[i].k = sk[j].k /\
                  \E cs \in CoinStrings(MergeRes(sk[i], sk[j], <<>>).used) : Merge(i, j, rv, cs)
        /\ obj' = [i \in DOMAIN sk' |-> ObjOf(sk'[i])]
Spec == Init /\ [][Next]_dvars
C == INSTANCE Quantiles WITH Fams <- {"classic"}
Refines == [][C!StepOK]_dvars
CInv == C!InvCore

Sorted(s) == \A a \in 1..(Len(s) - 1) : s[a] <= s[a + 1]
\* the shape is a function of n and k alone (closed-form shadow machine)
RepOK == \A i \in Live : LET s == sk[i] IN
           /\ Len(s.bb) = s.n % (2 * s.k) /\ s.bp = s.n \div (2 * s.k) /\ Sorted(s.bb)
           /\ Len(s.lv) >= BitLen(s.bp)
           /\ \A j \in 1..Len(s.lv) : Sorted(s.lv[j]) /\ Len(s.lv[j]) = (IF Bit(s.bp, j - 1) = 1 THEN s.k ELSE 0)
           /\ obj[i] = ObjOf(s)

(* C08(b) *)
W(s, q, incl) == Cardinality({x \in 1..Len(s.bb) : IF incl THEN s.bb[x] <= q ELSE s.bb[x] < q})
                 + SumSeq([j \in 1..Len(s.lv) |-> Wt(j) * Cardinality({x \in 1..Len(s.lv[j]) : IF incl THEN s.lv[j][x] <= q ELSE s.lv[j][x] < q})])
Hit(x, q, incl) == IF (incl /\ x <= q) \/ (~incl /\ x < q) THEN 1 ELSE 0
SumOver(S, F(_)) == LET seq == SetToSeq(S) IN FoldLeft(LAMBDA a, b : a + F(b), 0, seq)
TrailingOnes(x) == LowestZeroFrom(x, 0)
\* flips of an update, predicted from n and k alone
PredUpdate(k, n) == IF (n + 1) % (2 * k) = 0 THEN 1 + TrailingOnes(n \div (2 * k)) ELSE 0
Martingale ==
  /\ \A i \in Live, v \in Items :
       LET s == sk[i]
           f == PredUpdate(s.k, s.n)
           res == [cs \in CoinStrings(f) |-> UpdateRes(s, v, cs)] IN
       /\ \A cs \in CoinStrings(f) : res[cs].used = f
       /\ \A q \in Items, incl \in BOOLEAN :
            SumOver(CoinStrings(f), LAMBDA cs : W(res[cs].s, q, incl)) = 2^f * (W(s, q, incl) + Hit(v, q, incl))
  /\ \A i \in Live, j \in Live : (i # j /\ sk[i].k = sk[j].k) =>
       LET f == MergeRes(sk[i], sk[j], <<>>).used
           res == [cs \in CoinStrings(f) |-> MergeRes(sk[i], sk[j], cs)] IN
       /\ \A cs \in CoinStrings(f) : res[cs].used = f
       /\ \A q \in Items, incl \in BOOLEAN :
            SumOver(CoinStrings(f), LAMBDA cs : W(res[cs].s, q, incl)) = 2^f * (W(sk[i], q, incl) + W(sk[j], q, incl))
TotalN == SumOver(Live, LAMBDA i : sk[i].n)
NBound == TotalN <= MaxN
====
