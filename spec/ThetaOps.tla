---- MODULE ThetaOps ----
(***************************************************************************)
(* Tier A contract of the Theta set operations (property C02): union,      *)
(* intersection, A-not-B and Jaccard as DECLARATIVE functions of the SET   *)
(* of input sketch values.  A sketch value is what the public API of any   *)
(* physical form exposes: [thetaH, ent, empty].  Because the definitions   *)
(* take sets of values, independence from presentation order and from the  *)
(* physical form of the operands is part of the contract.  Hashes are      *)
(* abstract ordered values (order-isomorphic renaming of 63-bit hashes).   *)
(***************************************************************************)
EXTENDS Naturals, FiniteSets, Sequences, SequencesExt, TLC

MinOf(S) == CHOOSE x \in S : \A y \in S : x <= y
\* n-th smallest element of a finite set of naturals (1-based)
NthSmallest(S, n) == SetToSortSeq(S, <)[n]

WellFormed(s, maxH) ==
  /\ \A x \in s.ent : x < s.thetaH
  /\ s.thetaH <= maxH
  /\ (s.empty => s.ent = {} /\ s.thetaH = maxH)

\* union of a set S of sketch values by a union object of nominal size K and starting theta th0
UnionDef(S, K, th0, maxH) ==
  LET NE == {s \in S : ~s.empty}
      t0 == MinOf({th0} \cup {s.thetaH : s \in NE})
      U  == {h \in UNION {s.ent : s \in NE} : h < t0}
  IN IF NE = {} THEN [thetaH |-> maxH, ent |-> {}, empty |-> TRUE]
     ELSE IF Cardinality(U) > K
          THEN LET t == NthSmallest(U, K + 1) IN [thetaH |-> t, ent |-> {h \in U : h < t}, empty |-> FALSE]
          ELSE [thetaH |-> t0, ent |-> U, empty |-> FALSE]

\* intersection of a non-empty set S of sketch values (documented empty-set semantics: an empty operand makes the
\* result empty; non-empty operands without common entries give an empty result only if theta is still the maximum)
InterDef(S, maxH) ==
  IF \E s \in S : s.empty THEN [thetaH |-> maxH, ent |-> {}, empty |-> TRUE]
  ELSE LET t == MinOf({s.thetaH : s \in S})
           E == {h \in UNION {s.ent : s \in S} : h < t /\ \A s \in S : h \in s.ent}
       IN [thetaH |-> t, ent |-> E, empty |-> (E = {} /\ t = maxH)]

\* the documented semantics applied input by input (running value cur, <<>> = the "universe" before any update)
InterStep(cur, s, maxH) == IF cur = <<>> THEN InterDef({s}, maxH) ELSE InterDef({cur, s}, maxH)

\* A-not-B (a_not_b with a empty returns a)
AnotBDef(a, b, maxH) ==
  IF a.empty THEN [thetaH |-> maxH, ent |-> {}, empty |-> TRUE]
  ELSE LET t == MinOf({a.thetaH, b.thetaH})
           E == {h \in a.ent \ b.ent : h < t}
       IN [thetaH |-> t, ent |-> E, empty |-> (E = {} /\ t = maxH)]

Exact(s, maxH) == s.thetaH = maxH /\ ~s.empty
====
