---- MODULE KllDesign ----
(***************************************************************************)
(* Tier B design model of kll_sketch (kll/include/kll_sketch_impl.hpp,     *)
(* kll_helper_impl.hpp): levels as sequences, level capacities with the    *)
(* integer (2/3)^depth arithmetic of int_cap_aux, compress_while_updating, *)
(* merge = replay of the other sketch's level 0 + merge_higher_levels /    *)
(* general_compress.  The library's fair coin is an explicit action        *)
(* parameter (Update: one coin, Merge: a coin string consumed in order).   *)
(*                                                                         *)
(* TLC checks for every history within the bounds                          *)
(*   Refines     every design step is a step of the Quantiles contract     *)
(*               (C07) whose free choices are the design's own post-state; *)
(*   CInv        the contract's invariants on the mapped state;            *)
(*   Martingale  C08(b): in every reachable state, for every enabled       *)
(*               update / merge, summing W(successor, q) over ALL coin     *)
(*               strings gives 2^f times the exact weight, and every coin  *)
(*               string consumes the same number f of flips;               *)
(*   ShadowOK    a sizes-only machine (no items, no coins) run in          *)
(*               lock-step predicts the level sizes and the number of      *)
(*               flips: the schedule does not depend on coin outcomes.     *)
(*                                                                         *)
(* Level h (1-based index h+1) has weight 2^h.  Level 0 is kept in buffer  *)
(* order, NEWEST FIRST (items are stored at --levels_[0]); levels >= 1 are *)
(* ascending.  An odd level leaves its first item (items_[raw_beg])        *)
(* behind; halve_up with coin c keeps the 0-based positions of parity      *)
(* 1 - c, halve_down those of parity c.                                    *)
(***************************************************************************)
EXTENDS Naturals, Sequences, FiniteSets, SequencesExt, TLC
CONSTANTS Ids,        \* sketch slots
          Items,      \* item ranks offered by Next
          Ks,         \* values of k offered to New (code: 8..65535)
          M,          \* minimum level width (code: kll_constants::DEFAULT_M = 8; lowered in small models)
          MaxN,       \* bound on the total n over all sketches (CONSTRAINT)
          HalveUpParityFlip   \* 0 = the code; 1 = negative config (halve_up ignores the coin)
VARIABLES sk, shadow, flips,
          obj        \* the refinement mapping, kept as a variable (computed once per step): obj[i] = ObjOf(sk[i])
dvars == <<sk, shadow, flips, obj>>

Live == DOMAIN sk
INSTANCE KllMech      \* the mechanism operators (IntCapAux, Cap, CompactLevel, Insert, GeneralCompress, MergeLevels, ...)

-----------------------------------------------------------------------------
(* ghost bookkeeping shared with the contract *)
MsAdd(b, x) == IF x \in DOMAIN b THEN [b EXCEPT ![x] = @ + 1] ELSE (x :> 1) @@ b
MsCnt(b, x) == IF x \in DOMAIN b THEN b[x] ELSE 0
MsUnion(a, b) == [x \in DOMAIN a \cup DOMAIN b |-> MsCnt(a, x) + MsCnt(b, x)]

Fresh(k) == [k |-> k, minK |-> k, lv |-> << <<>> >>, n |-> 0, all |-> <<>>, minI |-> 0, maxI |-> 0]
UpdateRes(s, v, c) ==
  LET r == Insert(s.k, s.lv, v, c) IN
  [s EXCEPT !.lv = r.lv, !.n = @ + 1, !.all = MsAdd(@, v),
            !.minI = IF s.n = 0 THEN v ELSE Min2(@, v), !.maxI = IF s.n = 0 THEN v ELSE Max2(@, v)]
\* ml = MergeLevels(s.k, s.lv, o.lv, cs), computed once by the caller
MergeWith(s, o, ml) ==
  IF o.n = 0 THEN s ELSE
  [s EXCEPT !.lv = ml.lv, !.n = @ + o.n, !.all = MsUnion(@, o.all),
            !.minK = IF Len(o.lv) > 1 THEN Min2(@, o.minK) ELSE @,
            !.minI = IF s.n = 0 THEN o.minI ELSE Min2(@, o.minI), !.maxI = IF s.n = 0 THEN o.maxI ELSE Max2(@, o.maxI)]
MergeML(s, o, cs) == IF o.n = 0 THEN [lv |-> s.lv, used |-> 0] ELSE MergeLevels(s.k, s.lv, o.lv, cs)
UpdateUsed(s, v) == Insert(s.k, s.lv, v, 0).used

-----------------------------------------------------------------------------
(* the shadow machine: level SIZES only - no items, no coins *)
ShCompact(sz, h) == LET pop == sz[h + 1] IN [sz EXCEPT ![h + 1] = pop % 2, ![h + 2] = @ + pop \div 2]
ShFind(k, sz) == CHOOSE h \in 0..(Len(sz) - 1) : /\ sz[h + 1] >= Cap(k, Len(sz), h)
                                                 /\ \A g \in 0..(h - 1) : sz[g + 1] < Cap(k, Len(sz), g)
ShInsert(k, sz) ==
  LET full == SumSeq(sz) = TotalCap(k, Len(sz))
      h == ShFind(k, sz)
      sz1 == IF h = Len(sz) - 1 THEN Append(sz, 0) ELSE sz
      sz2 == IF full THEN ShCompact(sz1, h) ELSE sz
  IN [sz |-> [sz2 EXCEPT ![1] = @ + 1], used |-> IF full THEN 1 ELSE 0]
RECURSIVE ShReplay(_, _, _, _)
ShReplay(k, sz, m, used) == IF m = 0 THEN [sz |-> sz, used |-> used]
                            ELSE LET r == ShInsert(k, sz) IN ShReplay(k, r.sz, m - 1, used + r.used)
RECURSIVE ShGC(_, _, _, _, _, _, _, _)
ShGC(k, in, out, level, nl, count, target, used) ==
  LET in1 == IF level = nl - 1 /\ Len(in) < level + 2 THEN Append(in, 0) ELSE in
      pop == in1[level + 1]
      asis == count < target \/ pop < Cap(k, nl, level)
      in2 == IF asis THEN in1 ELSE ShCompact(in1, level)
      out2 == Append(out, IF asis THEN pop ELSE pop % 2)
      grew == ~asis /\ level = nl - 1
      nl2 == IF grew THEN nl + 1 ELSE nl
  IN IF level = nl2 - 1 THEN [sz |-> out2, used |-> IF asis THEN used ELSE used + 1]
     ELSE ShGC(k, in2, out2, level + 1, nl2, IF asis THEN count ELSE count - pop \div 2,
               IF grew THEN target + Cap(k, nl + 1, 0) ELSE target, IF asis THEN used ELSE used + 1)
SzOr(sz, h) == IF h <= Len(sz) THEN sz[h] ELSE 0
ShMerge(k, a, b) ==
  IF SumSeq(b) = 0 THEN [sz |-> a, used |-> 0] ELSE
  LET r == ShReplay(k, a, b[1], 0)
      prov == Max2(Len(r.sz), Len(b))
      work == [h \in 1..prov |-> IF h = 1 THEN r.sz[1] ELSE SzOr(r.sz, h) + SzOr(b, h)]
  IN IF Len(b) >= 2 THEN ShGC(k, work, <<>>, 0, prov, SumSeq(work), TotalCap(k, prov), r.used) ELSE r

-----------------------------------------------------------------------------
CoinStrings(f) == [1..f -> {0, 1}]
Init0 == sk = <<>> /\ shadow = <<>> /\ flips = <<0, 0>>
New(i, k) == /\ i \notin Live
             /\ sk' = (i :> Fresh(k)) @@ sk /\ shadow' = (i :> <<0>>) @@ shadow /\ flips' = <<0, 0>>
Update(i, v, c) ==
  /\ i \in Live
  /\ LET sh == ShInsert(sk[i].k, shadow[i]) IN
     /\ c = 1 => UpdateUsed(sk[i], v) = 1       \* one successor when no coin is drawn
     /\ sk' = [sk EXCEPT ![i] = UpdateRes(sk[i], v, c)]
     /\ shadow' = [shadow EXCEPT ![i] = sh.sz]
     /\ flips' = <<UpdateUsed(sk[i], v), sh.used>>
Merge(i, j, rv, cs) ==
  /\ i \in Live /\ j \in Live /\ i # j
  /\ LET sh == ShMerge(sk[i].k, shadow[i], shadow[j])
         ml == MergeML(sk[i], sk[j], cs)
         r == MergeWith(sk[i], sk[j], ml) IN
     /\ Len(cs) = sh.used                         \* the coin string has exactly the predicted length ...
     /\ flips' = <<ml.used, sh.used>>             \* ... and the real merge consumes exactly that many (ShadowOK)
     /\ sk' = IF rv THEN [x \in Live \ {j} |-> IF x = i THEN r ELSE sk[x]] ELSE [sk EXCEPT ![i] = r]
     /\ shadow' = IF rv THEN [x \in Live \ {j} |-> IF x = i THEN sh.sz ELSE shadow[x]] ELSE [shadow EXCEPT ![i] = sh.sz]
\* get_sorted_view() sorts level 0 in place (observer with a side effect on the representation)
SortL0(i) == /\ i \in Live
             /\ sk' = [sk EXCEPT ![i].lv[1] = SortAsc(@)] /\ UNCHANGED shadow /\ flips' = <<0, 0>>
MaxFlips == 6
Next0 == \E i \in Ids :
          \/ \E k \in Ks : New(i, k)
          \/ \E v \in Items, c \in {0, 1} : Update(i, v, c)
          \/ \E j \in Ids, rv \in BOOLEAN : i \in Live /\ j \in Live /\ i # j /\
               \E cs \in CoinStrings(ShMerge(sk[i].k, shadow[i], shadow[j]).used) : Merge(i, j, rv, cs)
          \/ SortL0(i)

-----------------------------------------------------------------------------
(* observable projection and refinement mapping *)
Pairs(lv) ==    \* canonical bag of <<item, weight, count>>
  LET pos == UNION {{<<h, x>> : x \in 1..Len(lv[h])} : h \in 1..Len(lv)}
      keys == {<<lv[p[1]][p[2]], 2^(p[1] - 1)>> : p \in pos}
      ord(a, b) == a[1] < b[1] \/ (a[1] = b[1] /\ a[2] < b[2])
      ks == SetToSortSeq(keys, ord)
      cnt(key) == Cardinality({p \in pos : lv[p[1]][p[2]] = key[1] /\ 2^(p[1] - 1) = key[2]})
  IN [q \in 1..Len(ks) |-> <<ks[q][1], ks[q][2], cnt(ks[q])>>]
ObjOf(s) == [fam |-> "kll", k |-> s.k, n |-> s.n, all |-> s.all, minI |-> s.minI, maxI |-> s.maxI,
             est |-> Len(s.lv) > 1, nret |-> TotalItems(s.lv),
             \* published space in items: retained against compute_total_capacity(k, m, ub_on_num_levels(n))
             used |-> TotalItems(s.lv), bound |-> TotalCap(s.k, UbLevels(s.n)), pairs |-> Pairs(s.lv)]
Init == Init0 /\ obj = <<>>
Next == Next0 /\ obj' = [i \in DOMAIN sk' |-> ObjOf(sk'[i])]
Spec == Init /\ [][Next]_dvars
C == INSTANCE Quantiles WITH Fams <- {"kll"}
Refines == [][C!StepOK]_dvars
CInv == C!InvCore     \* (the consequences block of C!Inv is exhausted by MC_Quantiles for every state the contract admits)

(* representation invariants of the design *)
W(lv, q, incl) == SumSeq([h \in 1..Len(lv) |-> 2^(h - 1) * Cardinality({x \in 1..Len(lv[h]) : IF incl THEN lv[h][x] <= q ELSE lv[h][x] < q})])
Sorted(s) == \A a \in 1..(Len(s) - 1) : s[a] <= s[a + 1]
RepOK == \A i \in Live : LET s == sk[i] IN
           /\ \A h \in 2..Len(s.lv) : Sorted(s.lv[h])
           /\ TotalItems(s.lv) <= TotalCap(s.k, Len(s.lv))
           /\ Len(s.lv) <= UbLevels(s.n)
           /\ W(s.lv, 0, TRUE) = 0
ShadowOK == /\ \A i \in Live : Sizes(sk[i].lv) = shadow[i]
            /\ obj = [i \in Live |-> ObjOf(sk[i])]
            /\ flips[1] = flips[2]

(* C08(b): martingale over coin strings, per enabled operation of every reachable state *)
SumOver(S, F(_)) == LET seq == SetToSeq(S) IN FoldLeft(LAMBDA a, b : a + F(b), 0, seq)
Hit(x, q, incl) == IF (incl /\ x <= q) \/ (~incl /\ x < q) THEN 1 ELSE 0
Martingale ==
  /\ \A i \in Live, v \in Items :
       LET s == sk[i]
           r0 == Insert(s.k, s.lv, v, 0).lv
           r1 == Insert(s.k, s.lv, v, 1).lv IN
       \A q \in Items, incl \in BOOLEAN :
         W(r0, q, incl) + W(r1, q, incl) = 2 * (W(s.lv, q, incl) + Hit(v, q, incl))
  /\ \A i \in Live, j \in Live : i # j =>
       LET f == ShMerge(sk[i].k, shadow[i], shadow[j]).used
           res == [cs \in CoinStrings(f) |-> MergeML(sk[i], sk[j], cs)] IN
       /\ \A cs \in CoinStrings(f) : res[cs].used = f
       /\ \A q \in Items, incl \in BOOLEAN :
            SumOver(CoinStrings(f), LAMBDA cs : W(res[cs].lv, q, incl))
              = 2^f * (W(sk[i].lv, q, incl) + W(sk[j].lv, q, incl))
TotalN == SumOver(Live, LAMBDA i : sk[i].n)
NBound == TotalN <= MaxN
====
