\* X09 negative configuration (TLC must report a violation): with a load factor below 1/2 the formula is not the smallest sufficient size
SPECIFICATION Spec
CONSTANT LoadFactors <- LFsLow
INVARIANT LgOK
CHECK_DEADLOCK FALSE
