---- MODULE GenTheta ----
(***************************************************************************)
(* Behaviour generation (spec -> impl) from the Theta design model with    *)
(* the code's real minimum sizes: TLC -simulate walks ThetaDesign and each *)
(* finished walk is written out with the model's expected state after      *)
(* every step; harness/theta_replay.cpp replays it on the real sketch with *)
(* pool items whose reference hashes have the prescribed rank order.       *)
(*   tlc -simulate num=N -depth D -config GenTheta.cfg GenTheta.tla        *)
(***************************************************************************)
EXTENDS ThetaDesign, Json, IOUtils
CONSTANTS Depth
OutDir == IOEnv.GEN_DIR   \* directory for the generated behaviours, supplied by the orchestrator
VARIABLE hist
gvars == <<theta, ret, empty, lgCur, seen, hist>>
Step(op, h) == [op |-> op, h |-> h, theta |-> theta', n |-> Cardinality(ret'), empty |-> empty', lgCur |-> lgCur']
GInit == Init /\ hist = <<>>
GNext == /\ Len(hist) < Depth
         /\ \/ \E h \in 1..MaxHash : Update(h) /\ hist' = Append(hist, Step("U", h))
            \/ Trim /\ hist' = Append(hist, Step("T", 0))
            \/ (Len(hist) % 97 = 96) /\ Reset /\ hist' = Append(hist, Step("R", 0))
GSpec == GInit /\ [][GNext]_gvars
\* a finished walk is written to its own file.  In simulation mode TLC evaluates the constraint on EVERY successor of the
\* last state; exactly one of them (last hash determined by the step before) is written per walk
Collect == IF Len(hist) = Depth /\ hist[Depth].op = "U" /\ hist[Depth].h = ((hist[Depth - 1].h + hist[Depth - 2].h) % MaxHash) + 1
           THEN ndJsonSerialize(OutDir \o "/b" \o ToString(TLCGet("stats").traces) \o "_" \o ToString(RandomElement(1..1000000)) \o ".ndjson", hist)
           ELSE TRUE
====
