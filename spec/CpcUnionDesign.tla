---- MODULE CpcUnionDesign ----
(***************************************************************************)
(* Tier B design model of cpc_union_alloc (cpc/include/cpc_union_impl.hpp) *)
(* The union holds EITHER an accumulator sketch (while everything seen is  *)
(* EMPTY/SPARSE) OR a plain bit matrix; internal_update dispatches on the  *)
(* flavor of the source:                                                   *)
(*   A  SPARSE source, accumulator present : adopt the source (accumulator *)
(*      empty and equal lgK) or walk its table through row_col_update with *)
(*      the row mask of the accumulator; graduate to a bit matrix if the   *)
(*      accumulator left SPARSE                                            *)
(*   B  SPARSE source, bit matrix          : OR the table in (row mask)    *)
(*   C  HYBRID / PINNED source             : OR window (at its offset) and *)
(*      table in                                                           *)
(*   D  SLIDING source                     : build its bit matrix, OR it   *)
(* preceded by reduce_k when the source has a smaller lgK.  get_result     *)
(* copies the accumulator or rebuilds window / table / first interesting   *)
(* column from the matrix.  Sketch values use the representation of        *)
(* CpcMech; inputs come from a catalogue Cat of coupon sets in canonical   *)
(* representation (CpcDesign shows every reachable sketch is canonical up  *)
(* to first_interesting_column, which the union never reads).              *)
(* TLC checks: after every sequence of <= MaxIn inputs, get_result has     *)
(* lgK = min over the union and the NON-EMPTY inputs, is a well-formed     *)
(* sketch (RepOK) whose matrix is the OR of the row-folded inputs, the     *)
(* rest-state invariants that the code asserts (logic_error), and          *)
(* refinement of the contract's union.                                     *)
(***************************************************************************)
EXTENDS CpcMech
CONSTANTS ULgKs,     \* configured lg_k of the union
          MaxIn,     \* number of inputs per behaviour
          FoldBug    \* 0 = code; 1 = case B forgets the row mask (negative config)
VARIABLES u, inputs, cfg  \* ghosts: inputs = the sequence of catalogue indices offered, cfg = the configured lg_k
uvars == <<u, inputs, cfg>>

\* ---- catalogue of input sketches: [lgK, fed, merged] ----
Block(rows, cols) == {Cell(r, c) : r \in rows, c \in cols}
Cat == <<
  [lgK |-> 4, fed |-> {}, merged |-> FALSE],                                              \* 1 empty
  [lgK |-> 3, fed |-> {}, merged |-> FALSE],                                              \* 2 empty with the smallest lgK: must not lower the result
  [lgK |-> 4, fed |-> {Cell(3, 9)}, merged |-> FALSE],                                    \* 3 SPARSE, K = 16
  [lgK |-> 5, fed |-> {Cell(19, 0), Cell(3, 9)}, merged |-> TRUE],                        \* 4 SPARSE, K = 32, a merged sketch; folds onto row 3
  [lgK |-> 6, fed |-> {Cell(35, 1), Cell(3, 1), Cell(51, 12), Cell(60, 0), Cell(44, 8)}, merged |-> FALSE],  \* 5 SPARSE, K = 64 (C < 6)
  [lgK |-> 5, fed |-> {Cell(19, 0), Cell(20, 7), Cell(4, 7), Cell(31, 8), Cell(0, 30)}, merged |-> FALSE],   \* 6 HYBRID, K = 32 (3 <= C < 16)
  [lgK |-> 4, fed |-> Block(0..3, 0..1) \cup {Cell(9, 9), Cell(15, 63)}, merged |-> FALSE],                 \* 7 PINNED, K = 16 (8 <= C < 54)
  [lgK |-> 4, fed |-> (Block(0..15, 0..3) \ {Cell(5, 0), Cell(6, 1)}) \cup {Cell(7, 12), Cell(8, 9)}, merged |-> FALSE],   \* 8 SLIDING, K = 16, C = 64, offset 1, a surprising 0 in column 0
  [lgK |-> 5, fed |-> (Block(0..31, 0..3) \ {Cell(21, 0)}) \cup {Cell(30, 11)}, merged |-> FALSE]             \* 9 SLIDING, K = 32, C = 128, offset 1
>>
Src(i) == Canon(Cat[i].lgK, Cat[i].fed, Cat[i].merged)

Init == inputs = <<>> /\ \E k \in ULgKs : u = UNew(k) /\ cfg = k
Update(i) == /\ Len(inputs) < MaxIn
             /\ u' = InternalUpdateX(u, Src(i), FoldBug)
             /\ inputs' = Append(inputs, i)
             /\ UNCHANGED cfg
Next == \E i \in DOMAIN Cat : Update(i)
Spec == Init /\ [][Next]_uvars

\* ---- what the code asserts between calls (its logic_error checks) ----
RestInv ==
  /\ u.hasAcc # u.hasBM
  /\ (u.hasAcc => u.acc.lgK = u.lgK /\ Flavor(u.acc.lgK, u.acc.C) <= 1)
  /\ (u.hasBM => /\ Flavor(u.lgK, Cardinality(u.bm)) >= 2
                 /\ \A x \in u.bm : Row(x) < Pow2(u.lgK))

\* ---- the contract's union, instantiated on the ghosts ----
ModelUnion == [lgK |-> cfg, inputs |-> [k \in DOMAIN inputs |-> [lgK |-> Cat[inputs[k]].lgK, fed |-> Cat[inputs[k]].fed]]]
C == INSTANCE Cpc WITH obj <- Cat, uni <- (1 :> ModelUnion), blob <- <<>>,
                       Ids <- DOMAIN Cat, UIds <- {1}, BIds <- {}, LgKs <- ULgKs, Cells <- {}
Refines == [][\E i \in DOMAIN Cat : C!UnionUpdate(1, i)]_uvars
\* get_result() at every reachable state: lgK = min over union and non-empty inputs, a well-formed sketch whose matrix is
\* the OR of the row-folded inputs and whose count is its cardinality, in merged form when non-empty
ResultInv ==
  LET r == UGetResult(u)  d == C!UnionDef(ModelUnion) IN
  /\ r.lgK = C!ResLgK(ModelUnion)
  /\ u.lgK = r.lgK
  /\ RepOK(r, d)
  /\ (d # {} => r.merged)
  /\ RoundTrip(r)
CInv == C!UnionOK(ModelUnion) /\ C!OrderFree(ModelUnion)
\* the catalogue really contains every flavor
ASSUME CatOK == {Flavor(Cat[i].lgK, Cardinality(Cat[i].fed)) : i \in DOMAIN Cat} = 0..4
====
