---- MODULE ThetaOpsDesign ----
(***************************************************************************)
(* Tier B design model of the Theta set operations as implemented in       *)
(* theta_union_base_impl.hpp, theta_intersection_base_impl.hpp and         *)
(* theta_set_difference_base_impl.hpp: the union's two thetas and its hash *)
(* table with rebuild, per-entry processing of an input in its physical    *)
(* iteration order with the early stop on ordered inputs; the              *)
(* intersection's valid/empty/theta/table state machine; sort-based vs     *)
(* hash-based A-not-B.  TLC checks that every result the mechanism can     *)
(* produce equals the declarative definition of the contract ThetaOps,     *)
(* for every sequence of inputs from a catalogue, every iteration order of *)
(* unordered inputs and every interleaving of result calls.                *)
(***************************************************************************)
EXTENDS ThetaOps
CONSTANTS K,        \* nominal size of the union
          N,        \* hashes are 1..N, the maximum theta is N+1
          Th0,      \* starting theta of the union (p < 1 when below N+1)
          MaxInputs \* bound on the number of updates per object
MaxH == N + 1
RebuildAt == (15 * 2 * K) \div 16   \* table of 2K slots rebuilds when more than 15/16 full

\* catalogue of operand values with their physical ordering flag
Mk(t, e, emp, ord) == [thetaH |-> t, ent |-> e, empty |-> emp, ordered |-> ord]
Cat == { Mk(MaxH, {}, TRUE, TRUE),
         Mk(3, {}, FALSE, TRUE),                      \* non-empty, nothing retained (p < 1)
         Mk(MaxH, {1, 3}, FALSE, TRUE), Mk(MaxH, {1, 3}, FALSE, FALSE),
         Mk(MaxH, {2, 3, 5}, FALSE, TRUE), Mk(MaxH, {2, 3, 5}, FALSE, FALSE),
         Mk(MaxH, {4}, FALSE, TRUE),
         Mk(5, {1, 2, 4}, FALSE, TRUE), Mk(5, {1, 2, 4}, FALSE, FALSE),
         Mk(4, {2, 3}, FALSE, FALSE),
         Mk(6, {1, 2, 3, 4, 5}, FALSE, TRUE) }
Value(s) == [thetaH |-> s.thetaH, ent |-> s.ent, empty |-> s.empty]
\* physical iteration orders of an operand
Orders(s) == IF s.ordered THEN {SetToSortSeq(s.ent, <)} ELSE SetToSeqs(s.ent)

VARIABLES uTheta, tTheta, tbl, uEmpty, cur, curOrd, uIn,     \* union
          iValid, iEmpty, iTheta, iTbl, iIn, iFold           \* intersection
dvars == <<uTheta, tTheta, tbl, uEmpty, cur, curOrd, uIn, iValid, iEmpty, iTheta, iTbl, iIn, iFold>>
uvars == <<uTheta, tTheta, tbl, uEmpty, cur, curOrd, uIn>>
ivars == <<iValid, iEmpty, iTheta, iTbl, iIn, iFold>>
Min2(a, b) == IF a < b THEN a ELSE b

Init == /\ uTheta = Th0 /\ tTheta = Th0 /\ tbl = {} /\ uEmpty = TRUE /\ cur = <<>> /\ curOrd = FALSE /\ uIn = {}
        /\ iValid = FALSE /\ iEmpty = FALSE /\ iTheta = MaxH /\ iTbl = {} /\ iIn = {} /\ iFold = <<>>

\* ---- union: update() split into one step per entry -------------------------------------------
Idle == cur = <<>>
UBegin(s, ord) ==
  /\ Idle /\ Cardinality(uIn) < MaxInputs
  /\ uIn' = uIn \cup {Value(s)}
  /\ IF s.empty THEN UNCHANGED <<uTheta, tTheta, tbl, uEmpty, cur, curOrd>>
     ELSE /\ uEmpty' = FALSE
          /\ uTheta' = Min2(uTheta, s.thetaH)
          \* a sentinel 0 marks "loop finished, post-processing pending"
          /\ cur' = ord \o <<0>> /\ curOrd' = s.ordered
          /\ UNCHANGED <<tTheta, tbl>>
UStep ==
  /\ cur # <<>>
  /\ LET h == Head(cur) IN
     IF h = 0 THEN \* after the loop: union_theta_ = min(union_theta_, table_.theta_)
        /\ uTheta' = Min2(uTheta, tTheta) /\ cur' = <<>> /\ UNCHANGED <<tTheta, tbl, uEmpty, curOrd, uIn>>
     ELSE IF h < uTheta /\ h < tTheta THEN
        LET t1 == tbl \cup {h} IN
        /\ IF Cardinality(t1) > RebuildAt
           THEN LET t == NthSmallest(t1, K + 1) IN tTheta' = t /\ tbl' = {x \in t1 : x < t}
           ELSE tbl' = t1 /\ UNCHANGED tTheta
        /\ cur' = Tail(cur) /\ UNCHANGED <<uTheta, uEmpty, curOrd, uIn>>
     ELSE \* early stop on ordered input
        /\ cur' = IF curOrd THEN <<0>> ELSE Tail(cur)
        /\ UNCHANGED <<uTheta, tTheta, tbl, uEmpty, curOrd, uIn>>
UReset == Idle /\ uTheta' = Th0 /\ tTheta' = Th0 /\ tbl' = {} /\ uEmpty' = TRUE /\ uIn' = {} /\ UNCHANGED <<cur, curOrd>>
\* get_result() as coded (after the fix: an empty union reports the maximum theta)
UResult ==
  IF uEmpty THEN [thetaH |-> MaxH, ent |-> {}, empty |-> TRUE]
  ELSE LET t0 == Min2(uTheta, tTheta)
           e0 == IF uTheta >= tTheta THEN tbl ELSE {x \in tbl : x < t0}
       IN IF Cardinality(e0) > K
          THEN LET t == NthSmallest(e0, K + 1) IN [thetaH |-> t, ent |-> {x \in e0 : x < t}, empty |-> FALSE]
          ELSE [thetaH |-> t0, ent |-> e0, empty |-> FALSE]

\* ---- intersection -----------------------------------------------------------------------------
IUpdate(s, ord) ==
  /\ Cardinality(iIn) < MaxInputs
  /\ iIn' = iIn \cup {Value(s)}
  /\ iFold' = InterStep(iFold, Value(s), MaxH)
  /\ IF iEmpty THEN UNCHANGED <<iValid, iEmpty, iTheta, iTbl>>
     ELSE LET emp == iEmpty \/ s.empty
              th  == IF emp THEN MaxH ELSE Min2(iTheta, s.thetaH) IN
          /\ iTheta' = th
          /\ IF iValid /\ iTbl = {} THEN iEmpty' = emp /\ UNCHANGED <<iValid, iTbl>>
             ELSE IF s.ent = {} THEN iValid' = TRUE /\ iTbl' = {} /\ iEmpty' = emp
             ELSE IF ~iValid THEN iValid' = TRUE /\ iTbl' = s.ent /\ iEmpty' = emp
             ELSE \* scan the operand in its physical order with early stop; matches only
                  LET RECURSIVE Scan(_, _)
                      Scan(q, acc) == IF q = <<>> THEN acc
                                      ELSE IF Head(q) < th THEN Scan(Tail(q), IF Head(q) \in iTbl THEN acc \cup {Head(q)} ELSE acc)
                                      ELSE IF s.ordered THEN acc ELSE Scan(Tail(q), acc)
                      m == Scan(ord, {}) IN
                  /\ iValid' = TRUE /\ iTbl' = m
                  /\ iEmpty' = (emp \/ (m = {} /\ th = MaxH))
IResult == [thetaH |-> iTheta, ent |-> iTbl, empty |-> iEmpty]

\* ---- A-not-B as a pure function of two operands in physical form ----------------------------
AnotBImpl(a, oa, b, ob) ==
  IF a.empty \/ (a.ent # {} /\ b.empty) THEN Value(a)
  ELSE LET th == Min2(a.thetaH, b.thetaH)
           RECURSIVE BSet(_, _), AScan(_, _, _)
           \* hash-based: build B's table with early stop, then scan A with early stop
           BSet(q, acc) == IF q = <<>> THEN acc ELSE IF Head(q) < th THEN BSet(Tail(q), acc \cup {Head(q)})
                           ELSE IF b.ordered THEN acc ELSE BSet(Tail(q), acc)
           AScan(q, bs, acc) == IF q = <<>> THEN acc
                                ELSE IF Head(q) < th THEN AScan(Tail(q), bs, IF Head(q) \in bs THEN acc ELSE acc \cup {Head(q)})
                                ELSE IF a.ordered THEN acc ELSE AScan(Tail(q), bs, acc)
           e == IF b.ent = {} THEN {x \in a.ent : x < th}
                ELSE IF a.ordered /\ b.ordered THEN {x \in a.ent \ b.ent : x < th}     \* std::set_difference + filter
                ELSE AScan(oa, BSet(ob, {}), {})
       IN [thetaH |-> th, ent |-> e, empty |-> (a.empty \/ (e = {} /\ th = MaxH))]

Next == \/ \E s \in Cat : \E ord \in Orders(s) : UBegin(s, ord) /\ UNCHANGED ivars
        \/ UStep /\ UNCHANGED ivars
        \/ UReset /\ UNCHANGED ivars
        \/ \E s \in Cat : \E ord \in Orders(s) : IUpdate(s, ord) /\ UNCHANGED uvars
Spec == Init /\ [][Next]_dvars

\* ---- the contract as invariants ----------------------------------------------------------------
UnionOK == Idle => UResult = UnionDef(uIn, K, Th0, MaxH)
\* the mechanism always equals the documented semantics applied input by input ...
InterFoldOK == iValid => IResult = iFold
\* ... which equals the order-free definition except in one corner (KNOWN FINDING C02:inter-sticky-empty): once the
\* running intersection is exactly empty (disjoint exact operands, theta still maximal) it stays (max, {}, empty) even if a
\* later non-empty operand has a lower theta, so theta is not the minimum input theta and the result depends on the order
InterOK == iValid => \/ IResult = InterDef(iIn, MaxH)
                     \/ (IResult.empty /\ ~InterDef(iIn, MaxH).empty /\ InterDef(iIn, MaxH).ent = {})
InterOKStrict == iValid => IResult = InterDef(iIn, MaxH)   \* negative config: violated by the pinned mechanism
InterValid == iValid <=> iIn # {}
AnotBOK == \A a \in Cat, b \in Cat : \A oa \in Orders(a), ob \in Orders(b) :
             AnotBImpl(a, oa, b, ob) = AnotBDef(Value(a), Value(b), MaxH)
CatOK == \A s \in Cat : WellFormed(Value(s), MaxH)
====
