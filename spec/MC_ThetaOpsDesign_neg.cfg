SPECIFICATION Spec
CONSTANTS K = 2
 N = 6
 Th0 = 7
 MaxInputs = 3
INVARIANT InterOKStrict
CHECK_DEADLOCK FALSE
