\* NEGATIVE config (expected: ResultInv violated): case B ORs a sparse table into the matrix without the row mask
\* a merged input) into unions configured with lg_k 4, 5 or 6
SPECIFICATION Spec
CONSTANTS ULgKs = {4, 5, 6}
 MaxIn = 3
 FoldBug = 1
INVARIANT RestInv ResultInv CInv
PROPERTY Refines
CHECK_DEADLOCK FALSE
