---- MODULE Lifecycle ----
(***************************************************************************)
(* C19 contract: value semantics of sketch objects and allocation balance. *)
(*                                                                         *)
(* Slots 1..N hold objects of ONE sketch/operator type.  slot[i].st is     *)
(* "Dead" (no object), "Live" (object whose content is the value of the    *)
(* term slot[i].hist) or "Moved" (object that was the source of a move:    *)
(* only Destroy and being the TARGET of an assignment are allowed).        *)
(* hist is the term of mutating operations that produced the content:      *)
(* a sequence of records [o |-> operation name, a |-> argument term]       *)
(* (a = hist of the merged operand for "merge", <<>> otherwise).           *)
(*                                                                         *)
(* The implementation is observed through                                  *)
(*   D    : Slots -> digest (content hash of the full projection of every  *)
(*          Live slot after the call; 0 for Dead / Moved slots), and       *)
(*   env  : what the tracking allocator and the instrumented items logged  *)
(*          during the call, a record of lists:                            *)
(*          A  = <<id, bytes, al>> blocks obtained from allocator instance *)
(*               al (ids are unique per allocation: the harness never      *)
(*               recycles an address inside a segment; id 0 = a pointer    *)
(*               that no allocate call returned),                          *)
(*          F  = <<id, bytes, al>> blocks handed to deallocate of al,      *)
(*          ic = serials of items constructed (one fresh serial per        *)
(*               construction, stored in the item); ic, id and iu are      *)
(*               lists of RUNS <<lo, hi>> of consecutive serials,          *)
(*          ov = <<serial, old>> constructions on storage whose canary     *)
(*               says item `old` was never destroyed there,                *)
(*          id = serials of items destroyed, iu = serials of items whose   *)
(*               value was read (negative = the item's canary says it was  *)
(*               already destroyed), im = serials of items whose value was *)
(*               read while they were in the moved-from state.             *)
(* Both are explicit action parameters: the model checker quantifies over  *)
(* small candidate sets, trace validation passes the logged values.        *)
(*                                                                         *)
(* Clauses (each a named operator, so the trace spec can name a failure):  *)
(*  Deterministic   equal hist => equal digest (coins/seeds are constant)  *)
(*  Independent     an action on i leaves the digest of every k # i (and   *)
(*                  of a by-reference operand) unchanged                   *)
(*  CopyEqual       copy ctor/assign: target digest = source digest, and   *)
(*                  source unchanged; SelfAssign / Serialize change nothing*)
(*  MoveExact       move ctor/assign: target digest = OLD source digest    *)
(*  (chains)        ChainAssign(i,j,k) = CopyAssign(k,j) ; CopyAssign(j,i) *)
(*  env legality    see EnvAfter: size/allocator match on release, no      *)
(*                  double free, items constructed/destroyed exactly once, *)
(*                  no use of a destroyed or moved-from item               *)
(*  Balanced        when no object exists: liveBlocks = {} /\ liveItems={} *)
(*  NoGlobalAlloc   no call of the global operator new inside a library    *)
(*                  call (exclusions: see TraceLifecycle)                  *)
(***************************************************************************)
EXTENDS Integers, Sequences, FiniteSets, TLC
CONSTANTS Slots,      \* e.g. 1..3
          MutOps      \* names of the mutating operations of the family driver, e.g. {"few","many","alt"}

VARIABLES slot, dig, known, liveBlocks, liveItems
vars == <<slot, dig, known, liveBlocks, liveItems>>

Kinds == {"Construct", "Mutate", "CopyConstruct", "MoveConstruct", "CopyAssign", "MoveAssign", "SelfAssign",
          "ChainAssign", "MergeRef", "MergeCRef", "MergeMove", "Serialize", "Reset", "Destroy"}

Dead == [st |-> "Dead", hist |-> <<>>]
Live(h) == [st |-> "Live", hist |-> h]
MovedFrom == [st |-> "Moved", hist |-> <<>>]
IsLive(i) == slot[i].st = "Live"
IsObj(i) == slot[i].st # "Dead"
Term(o, a) == [o |-> o, a |-> a]

\* canonical choice among interchangeable Dead slots (slot symmetry): a new object goes to the least Dead slot
LeastDead(j) == slot[j].st = "Dead" /\ \A k \in Slots : k < j => slot[k].st # "Dead"

(***************************************************************************)
(* Control part: enabledness and the new slot map.  i = object acted on /  *)
(* source, j = target or operand (0 if unused), k = third slot of a chain, *)
(* op = mutating operation name.                                           *)
(***************************************************************************)
Pre(kind, i, j, k, op) ==
  CASE kind = "Construct"     -> slot[i].st = "Dead"
    [] kind = "Mutate"        -> IsLive(i) /\ op \in MutOps
    [] kind = "CopyConstruct" -> IsLive(i) /\ j \in Slots /\ slot[j].st = "Dead"
    [] kind = "MoveConstruct" -> IsLive(i) /\ j \in Slots /\ slot[j].st = "Dead"
    [] kind = "CopyAssign"    -> IsLive(i) /\ j \in Slots /\ j # i /\ IsObj(j)
    [] kind = "MoveAssign"    -> IsLive(i) /\ j \in Slots /\ j # i /\ IsObj(j)
    [] kind = "SelfAssign"    -> IsLive(i)
    [] kind = "ChainAssign"   -> /\ j \in Slots /\ k \in Slots /\ Cardinality({i, j, k}) = 3
                                 /\ IsLive(k) /\ IsObj(j) /\ IsObj(i)          \* s[i] = s[j] = s[k]
    [] kind = "MergeRef"      -> IsLive(i) /\ j \in Slots /\ j # i /\ IsLive(j)   \* s[i].merge(s[j]), s[j] a non-const lvalue
    [] kind = "MergeCRef"     -> IsLive(i) /\ j \in Slots /\ j # i /\ IsLive(j)   \* s[i].merge(s[j]), s[j] a const lvalue
    [] kind = "MergeMove"     -> IsLive(i) /\ j \in Slots /\ j # i /\ IsLive(j)   \* s[i].merge(std::move(s[j]))
    [] kind = "Serialize"     -> IsLive(i)
    [] kind = "Reset"         -> IsLive(i)
    [] kind = "Destroy"       -> IsObj(i)
    [] OTHER -> FALSE

NewSlot(kind, i, j, k, op) ==
  CASE kind = "Construct"     -> [slot EXCEPT ![i] = Live(<<>>)]
    [] kind = "Mutate"        -> [slot EXCEPT ![i] = Live(Append(@.hist, Term(op, <<>>)))]
    [] kind = "CopyConstruct" -> [slot EXCEPT ![j] = Live(slot[i].hist)]
    [] kind = "MoveConstruct" -> [slot EXCEPT ![j] = Live(slot[i].hist), ![i] = MovedFrom]
    [] kind = "CopyAssign"    -> [slot EXCEPT ![j] = Live(slot[i].hist)]
    [] kind = "MoveAssign"    -> [slot EXCEPT ![j] = Live(slot[i].hist), ![i] = MovedFrom]
    [] kind = "ChainAssign"   -> [slot EXCEPT ![j] = Live(slot[k].hist), ![i] = Live(slot[k].hist)]
    [] kind \in {"MergeRef", "MergeCRef"} -> [slot EXCEPT ![i] = Live(Append(@.hist, Term("merge", slot[j].hist)))]
    [] kind = "MergeMove"     -> [slot EXCEPT ![i] = Live(Append(@.hist, Term("merge", slot[j].hist))), ![j] = MovedFrom]
    [] kind = "Reset"         -> [slot EXCEPT ![i] = Live(Append(@.hist, Term("reset", <<>>)))]
    [] kind = "Destroy"       -> [slot EXCEPT ![i] = Dead]
    [] OTHER                  -> slot          \* SelfAssign, Serialize

Ctl(kind, i, j, k, op) == Pre(kind, i, j, k, op) /\ slot' = NewSlot(kind, i, j, k, op)

(***************************************************************************)
(* Observation clauses on the digests D logged after the call.             *)
(***************************************************************************)
\* slots whose content the call is allowed to change
Touched(kind, i, j, k) ==
  CASE kind \in {"Construct", "Mutate", "MergeRef", "MergeCRef", "Reset", "Destroy"} -> {i}
    [] kind \in {"CopyConstruct", "CopyAssign"} -> {j}
    [] kind \in {"MoveConstruct", "MoveAssign", "MergeMove", "ChainAssign"} -> {i, j}
    [] OTHER -> {}                              \* SelfAssign, Serialize
DigShape(ns, D) == \A s \in Slots : (ns[s].st # "Live") => D[s] = 0
Independent(kind, i, j, k, D) == \A s \in Slots \ Touched(kind, i, j, k) : D[s] = dig[s]
CopyEqual(kind, i, j, k, D) ==
  /\ kind \in {"CopyConstruct", "CopyAssign"} => D[j] = dig[i]
  /\ kind = "ChainAssign" => D[j] = dig[k] /\ D[i] = dig[k]
MoveExact(kind, i, j, D) == kind \in {"MoveConstruct", "MoveAssign"} => D[j] = dig[i]
Deterministic(ns, D) ==
  /\ \A s \in Slots : (ns[s].st = "Live" /\ ns[s].hist \in DOMAIN known) => D[s] = known[ns[s].hist]
  /\ \A s, t \in Slots : (ns[s].st = "Live" /\ ns[t].st = "Live" /\ ns[s].hist = ns[t].hist) => D[s] = D[t]
Learn(ns, D) == LET new == {ns[s].hist : s \in {t \in Slots : ns[t].st = "Live"}} \ DOMAIN known IN
                [h \in new |-> D[CHOOSE s \in Slots : ns[s].st = "Live" /\ ns[s].hist = h]] @@ known

(***************************************************************************)
(* Environment events of one call.  Because block ids and item serials are *)
(* unique per allocation / construction and a destroyed item reports a     *)
(* negative serial, the legality of the event SEQUENCE is equivalent to    *)
(* the set conditions below.  EnvAfter returns the new ghost state and the *)
(* name of the first violated clause ("" if none).                         *)
(***************************************************************************)
SeqSet(q) == {q[n] : n \in DOMAIN q}
NoDup(q) == Cardinality(SeqSet(q)) = Len(q)
BlockClause(have, F) ==
  IF ~NoDup(F) THEN "block-deallocated-twice"
  ELSE IF SeqSet(F) \subseteq have THEN ""
  ELSE LET d == CHOOSE x \in SeqSet(F) : x \notin have
           same == {h \in have : h[1] = d[1]} IN
       IF same = {} THEN "dealloc-of-unallocated-or-freed-block"
       ELSE IF \A h \in same : h[2] # d[2] THEN "dealloc-size-mismatch"
       ELSE "dealloc-through-other-allocator"
\* ic / id / iu are lists of runs <<lo, hi>> (consecutive serials lo..hi, in the order they were logged)
RunSet(q) == UNION {r[1]..r[2] : r \in SeqSet(q)}
RECURSIVE RunCount(_, _)
RunCount(q, n) == IF n > Len(q) THEN 0 ELSE (q[n][2] - q[n][1] + 1) + RunCount(q, n + 1)
RunsNoDup(q) == RunCount(q, 1) = Cardinality(RunSet(q))
ItemClause(have, env) ==
  IF env.im # <<>> THEN "moved-from-item-read"
  ELSE IF \E o \in SeqSet(env.ov) : o[2] \in have THEN "item-constructed-over-live-item"
  ELSE IF ~RunsNoDup(env.id) \/ ~(RunSet(env.id) \subseteq have) THEN "item-destroyed-twice-or-never-constructed"
  ELSE IF ~(RunSet(env.iu) \subseteq have) THEN "item-used-after-destruction"
  ELSE ""
EnvAfter(env) ==
  LET haveB == liveBlocks \cup SeqSet(env.A)
      haveI == liveItems \cup RunSet(env.ic)
      bc == IF ~NoDup(env.A) \/ (SeqSet(env.A) \cap liveBlocks # {}) \/ (\E x \in SeqSet(env.A) : x[1] = 0)
            THEN "alloc-returns-live-block" ELSE BlockClause(haveB, env.F)
      ic == IF RunSet(env.ic) \cap liveItems # {} \/ ~RunsNoDup(env.ic) THEN "item-constructed-over-live-item" ELSE ItemClause(haveI, env) IN
  [b |-> haveB \ SeqSet(env.F), it |-> haveI \ RunSet(env.id), bad |-> IF bc # "" THEN bc ELSE ic]

\* "all memory is obtained through the allocator supplied by the user": gnew / gobs = number of calls of the (throwing) global
\* operator new observed during the call / during the digest observation that follows it
NoGlobalAlloc(gnew, gobs) == gnew = 0 /\ gobs = 0

NoObject(ns) == \A s \in Slots : ns[s].st = "Dead"
Balanced(ns, s) == NoObject(ns) => (s.b = {} /\ s.it = {})

(***************************************************************************)
(* One public call.                                                        *)
(***************************************************************************)
Act(kind, i, j, k, op, D, env) ==
  LET ns == NewSlot(kind, i, j, k, op)
      s  == EnvAfter(env) IN
  /\ Ctl(kind, i, j, k, op)
  /\ s.bad = "" /\ Balanced(ns, s)
  /\ DigShape(ns, D) /\ Independent(kind, i, j, k, D) /\ CopyEqual(kind, i, j, k, D) /\ MoveExact(kind, i, j, D)
  /\ Deterministic(ns, D)
  /\ dig' = D /\ known' = Learn(ns, D)
  /\ liveBlocks' = s.b /\ liveItems' = s.it

Init == /\ slot = [s \in Slots |-> Dead] /\ dig = [s \in Slots |-> 0] /\ known = <<>>
        /\ liveBlocks = {} /\ liveItems = {}

Inv == /\ \A s \in Slots : IsLive(s) => (slot[s].hist \in DOMAIN known /\ dig[s] = known[slot[s].hist])
       /\ \A s \in Slots : ~IsLive(s) => dig[s] = 0
       /\ NoObject(slot) => (liveBlocks = {} /\ liveItems = {})
====
