\* NEGATIVE config (expected: TableOK violated): the cluster repair of maybe_delete stops at the last slot (no wrap-around)
SPECIFICATION Spec
CONSTANTS ValidBits = 4
 MinLg = 2
 MaxLg = 3
 Wrap = FALSE
INVARIANT TableOK AnswerOK
PROPERTY Refines
CHECK_DEADLOCK FALSE
