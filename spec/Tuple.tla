---- MODULE Tuple ----
(***************************************************************************)
(* Tier A contract of Tuple sketches (property C13).  Keys behave exactly  *)
(* as in the Theta contract (module Theta: same Update/Trim/Reset actions  *)
(* on obj[i]); the summary attached to a retained key is modelled in the   *)
(* FREE MONOID: the sequence of all values offered with that key since the *)
(* last reset, in arrival order.  Every concrete update policy is a fold   *)
(* of that sequence (list summary: the sequence itself; array-of-doubles   *)
(* with the default policy: per-column sums).  Set operations select keys  *)
(* as the Theta operations do (module ThetaOps) and combine the summaries  *)
(* of all inputs holding the key, in presentation order.                   *)
(***************************************************************************)
EXTENDS Theta, ThetaOps

\* offers: sequence of <<hash, value>>; summary of key h = values offered with h, in order
Sel(offs, h) == LET f == SelectSeq(offs, LAMBDA p : p[1] = h) IN [i \in 1..Len(f) |-> f[i][2]]

\* tuple value exposed by a sketch with key state o and offers offs
TVal(o, offs) == [thetaH |-> ObsTheta(o), empty |-> o.empty, summ |-> [h \in Ret(o) |-> Sel(offs, h)]]
Keys(v) == [thetaH |-> v.thetaH, ent |-> DOMAIN v.summ, empty |-> v.empty]

\* concatenation, over the inputs (a sequence of tuple values) holding key h, of their summaries, in presentation order
RECURSIVE Cat(_, _)
Cat(ins, h) == IF ins = <<>> THEN <<>>
               ELSE (IF h \in DOMAIN Head(ins).summ THEN Head(ins).summ[h] ELSE <<>>) \o Cat(Tail(ins), h)
WithSumm(kv, ins) == [thetaH |-> kv.thetaH, empty |-> kv.empty, summ |-> [h \in kv.ent |-> Cat(ins, h)]]

TUnionDef(ins, K, th0, maxH) == WithSumm(UnionDef({Keys(ins[i]) : i \in DOMAIN ins}, K, th0, maxH), ins)
\* keys of an intersection: the Theta semantics applied input by input (see ThetaOps!InterStep)
RECURSIVE InterFold(_, _, _)
InterFold(cur, ins, maxH) == IF ins = <<>> THEN cur ELSE InterFold(InterStep(cur, Keys(Head(ins)), maxH), Tail(ins), maxH)
TInterDef(ins, maxH) == WithSumm(InterFold(<<>>, ins, maxH), ins)
TAnotBDef(a, b, maxH) == WithSumm(AnotBDef(Keys(a), Keys(b), maxH), <<a>>)

RECURSIVE SumSeq(_)
SumSeq(s) == IF s = <<>> THEN 0 ELSE Head(s) + SumSeq(Tail(s))

\* filter (predicate "sum of the offered values >= thr") keeps precisely the entries whose summary satisfies the predicate; theta is kept; the result is empty only
\* if nothing is left and the source was not in estimation mode
TFilterDef(v, thr, maxH) ==
  LET keep == {h \in DOMAIN v.summ : SumSeq(v.summ[h]) >= thr}
      est  == v.thetaH < maxH /\ ~v.empty
  IN [thetaH |-> v.thetaH, empty |-> (~est /\ keep = {}), summ |-> [h \in keep |-> v.summ[h]]]

\* a compact tuple sketch made from a theta sketch value: every key carries the given summary
FromThetaDef(kv, s) == [thetaH |-> kv.thetaH, empty |-> kv.empty, summ |-> [h \in kv.ent |-> s]]
====
