\* (thorough tier) K = 4 rows from the empty sketch: window moves at C = 14 and C = 18 within 18 cells in EVERY order.
\* Alphabet: columns 0..2 of all four rows (12 cells), then (0,4) (1,3) (1,9) (2,10) (3,11) (0,12)
SPECIFICATION Spec
CONSTANTS LgK = 2
 Alphabet = {0, 1, 2, 64, 65, 66, 128, 129, 130, 192, 193, 194, 4, 67, 73, 138, 203, 12}
 Prefix <- NoPrefix
 FicBias = 0
INVARIANT Rep RT Observables
PROPERTY Refines
CHECK_DEADLOCK FALSE
