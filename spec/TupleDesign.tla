---- MODULE TupleDesign ----
(***************************************************************************)
(* Tier B design model of update_tuple_sketch: the Theta hash table        *)
(* mechanism (ThetaDesign) whose entries carry a summary that is created   *)
(* on first insertion, updated in place on a repeated key, and moved with  *)
(* its key through resize and rebuild.  TLC checks the C13 contract clause *)
(* "summary = fold of every value offered with the key, in arrival order"  *)
(* (free monoid: the sequence itself) for every history within the bounds. *)
(***************************************************************************)
EXTENDS Naturals, FiniteSets, Sequences, TLC
CONSTANTS LgK, LgRf, MaxHash, StartTheta, MinLgK, RebuildPivot, Vals, MaxOffers
VARIABLES theta, ret, empty, lgCur, seen, sm, offers
tdvars == <<theta, ret, empty, lgCur, seen, sm, offers>>
D == INSTANCE ThetaDesign
T == INSTANCE Tuple WITH obj <- <<>>, Ids <- {}, Hashes <- {}, Ks <- {}, Starts <- {}, MaxH <- 0

Init == D!Init /\ sm = <<>> /\ offers = <<>>
Update(h, v) ==
  /\ Len(offers) < MaxOffers
  /\ D!Update(h)
  /\ offers' = Append(offers, <<h, v>>)
  \* the entry of h is created (create(); update(v)) or updated in place; every other surviving entry keeps its summary
  /\ sm' = [x \in ret' |-> IF x = h THEN (IF h \in ret THEN sm[h] ELSE <<>>) \o <<v>> ELSE sm[x]]
Trim == D!Trim /\ sm' = [x \in ret' |-> sm[x]] /\ UNCHANGED offers
Reset == D!Reset /\ sm' = <<>> /\ offers' = <<>>
Next == (\E h \in 1..MaxHash, v \in Vals : Update(h, v)) \/ Trim \/ Reset
Spec == Init /\ [][Next]_tdvars

KeysAreTheta == DOMAIN sm = ret /\ D!Sample
SummariesExact == \A x \in ret : sm[x] = T!Sel(offers, x)
====
