---- MODULE MC_Bloom ----
\* bounded instance of the multi-filter Bloom contract itself: all interleavings of the 16 actions over
\* 3 filter slots and 1 memory region up to MaxCalls calls; checks that the contract keeps its own invariants
\* (no false negative in any representation, images keep their items) - i.e. the clauses are consistent.
EXTENDS Bloom
CONSTANTS MaxCalls, f1, f2, f3
C1 == [cap |-> 4, hashes |-> 2, seed |-> 1]
C2 == [cap |-> 4, hashes |-> 2, seed |-> 2]     \* incompatible with C1 (different seed)
MCCfgs == {C1, C2}
MCItems == {{0, 1}, {1, 2}, {2, 3}}              \* 3 items with overlapping index pairs; {0,1} u {2,3} covers {1,2}
\* exact call counter (TLCGet("level") is not exact with several workers)
VARIABLE calls
MCInit == Init /\ calls = 0
MCNext == Next /\ calls' = calls + 1
MCSpec == MCInit /\ [][MCNext]_<<vars, calls>>
Bound == calls <= MaxCalls
Sym == Permutations({f1, f2, f3})
\* `out` (the result of the last call) never influences enabledness or an invariant: states are identified without it
NoOut == <<flt, mem, calls>>
====
