---- MODULE ThetaDesign ----
(***************************************************************************)
(* Tier B design model of update_theta_sketch: the hash table mechanism of *)
(* theta_update_sketch_base (theta/include/theta_update_sketch_base_impl   *)
(* .hpp): starting sub-multiple, resize below nominal size, rebuild at     *)
(* 15/16 load above it, trim, reset.  TLC checks that it refines the       *)
(* contract Theta (PROPERTY Refines) for every history within the bounds.  *)
(***************************************************************************)
EXTENDS Naturals, FiniteSets, Sequences, TLC
CONSTANTS LgK, LgRf, MaxHash, StartTheta,
          MinLgK,        \* code: theta_constants::MIN_LG_K = 5 (lowered in small models)
          RebuildPivot   \* code: K + 1 (the (k+1)-th smallest becomes theta); negative configs use K
VARIABLES theta, ret, empty, lgCur, seen
dvars == <<theta, ret, empty, lgCur, seen>>
K == 2^LgK
MaxTheta == MaxHash + 1
StartLg == LET t == LgK + 1 IN
           IF t <= MinLgK THEN MinLgK ELSE IF LgRf = 0 THEN t ELSE ((t - MinLgK) % LgRf) + MinLgK
Cap(lg) == IF lg <= LgK THEN (2^lg) \div 2 ELSE (15 * 2^lg) \div 16
NthSmallest(S, n) == CHOOSE x \in S : Cardinality({y \in S : y < x}) = n - 1
Init == theta = StartTheta /\ ret = {} /\ empty = TRUE /\ lgCur = StartLg /\ seen = {}
Rebuild(r1) == LET t == NthSmallest(r1, RebuildPivot) IN
               /\ theta' = t /\ ret' = {x \in r1 : x < t}
Update(h) ==
  /\ empty' = FALSE
  /\ seen' = seen \cup {h}
  /\ IF h >= theta \/ h \in ret THEN UNCHANGED <<theta, ret, lgCur>>
     ELSE LET r1 == ret \cup {h} IN
       IF Cardinality(r1) > Cap(lgCur) THEN
          IF lgCur <= LgK
          THEN /\ lgCur' = IF lgCur + LgRf < LgK + 1 /\ LgRf > 0 THEN lgCur + LgRf ELSE LgK + 1
               /\ ret' = r1 /\ UNCHANGED theta
          ELSE Rebuild(r1) /\ UNCHANGED lgCur
       ELSE ret' = r1 /\ UNCHANGED <<theta, lgCur>>
Trim == /\ IF Cardinality(ret) > K THEN Rebuild(ret) ELSE UNCHANGED <<theta, ret>>
        /\ UNCHANGED <<empty, lgCur, seen>>
Reset == theta' = StartTheta /\ ret' = {} /\ empty' = TRUE /\ lgCur' = StartLg /\ seen' = {}
Next == (\E h \in 1..MaxHash : Update(h)) \/ Trim \/ Reset
Spec == Init /\ [][Next]_dvars

\* representation invariant of the design and the refinement mapping
Sample == ret = {h \in seen : h < theta}
C == INSTANCE Theta WITH
       obj <- (1 :> [k |-> K, startH |-> StartTheta, maxH |-> MaxTheta, thetaH |-> theta, seen |-> seen, empty |-> empty]),
       Ids <- {1}, Hashes <- 1..MaxHash, Ks <- {K}, Starts <- {StartTheta}, MaxH <- MaxTheta
\* the design starts with object 1 already constructed, so refine the contract's step relation and invariants
Refines == [][C!Next]_dvars
CInv == C!Inv
====
