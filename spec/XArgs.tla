---- MODULE XArgs ----
(***************************************************************************)
(* X02 - table of the documented argument ranges of every constructor /    *)
(* builder / weighted update of the library, as a function                 *)
(*     Zone(site, a, cls) \in {"valid", "invalid", "free"}                 *)
(* and the contract of a recorded call:                                    *)
(*   valid   : the call is accepted (no reject inside) and the configured  *)
(*             value is the one the getter reports afterwards;             *)
(*   invalid : the call is refused with std::invalid_argument (no accept   *)
(*             outside) and leaves the object as it was;                   *)
(*   free    : the documentation states no rule (or states "must" without  *)
(*             promising a refusal); any outcome but a crash.              *)
(* A crash (signal) is never allowed; neither is a crash when the accepted *)
(* object is used.  std::bad_alloc is an answer of the environment, not of *)
(* the library, and is accepted wherever "ok" is.                          *)
(*                                                                         *)
(* Sources: doc comments of the public headers, the public named constants *)
(* (theta_constants::MIN_LG_K ...), and - where the header is silent - the *)
(* rule the library states itself in the text of its exception.            *)
(*                                                                         *)
(* Integer arguments are tuples of four 16-bit limbs (most significant     *)
(* first) so that 32/64-bit parameters can be compared exactly; floating   *)
(* point arguments are classified by order against 0, 1 and +-infinity.    *)
(***************************************************************************)
EXTENDS Integers, Sequences, FiniteSets, TLC

\* ---- limbs
RECURSIVE LimbCmpFrom(_, _, _)
LimbCmpFrom(a, b, i) == IF i > 4 THEN 0 ELSE IF a[i] < b[i] THEN -1 ELSE IF a[i] > b[i] THEN 1 ELSE LimbCmpFrom(a, b, i + 1)
LimbLE(a, b) == LimbCmpFrom(a, b, 1) <= 0
IsZero(a) == a = <<0, 0, 0, 0>>
BigV == 2147483647
\* the value, clamped to 2^31 - 1 ("at least 2^31 - 1")
Val(a) == IF a[1] = 0 /\ a[2] = 0 /\ a[3] < 32768 THEN a[3] * 65536 + a[4] ELSE BigV
L(v) == <<0, 0, v \div 65536, v % 65536>>          \* limbs of a value below 2^31
In(v, lo, hi) == lo <= v /\ v <= hi
IsPow2(v) == v \in {2^i : i \in 0..30}
Z3(c) == IF c THEN "valid" ELSE "invalid"

\* (INT32_MAX - 32) * 8 = 17179868920 bits: "Filter may not exceed ... bits"
BloomMaxBits == <<0, 3, 65535, 65272>>

FloatClasses == {"nan", "ninf", "neg", "zero", "unit", "one", "big", "pinf"}
Probability(cls) == cls \in {"unit", "one"}                      \* (0, 1]
NonNegFinite(cls) == cls \in {"zero", "unit", "one", "big"}

Sites == {"theta.lg_k", "theta_union.lg_k", "tuple.lg_k", "tuple_union.lg_k", "aod.lg_k", "theta.p", "tuple.p",
          "hll.lg_k", "hll_union.lg_max_k", "hll.max_ser_bytes", "cpc.lg_k", "cpc_union.lg_k",
          "kll.k", "req.k", "quantiles.k", "fi.lg_sizes", "fi.weight_i64", "fi.weight_double",
          "countmin.shape", "bloom.by_size", "bloom.by_accuracy",
          "varopt.k", "varopt_union.max_k", "ebpps.k", "varopt.weight", "ebpps.weight",
          "tdigest.k", "density.k",
          \* checks behind the constructors (added after bin/implcov showed that no trace executed them)
          "hll.bound_num_std_dev", "hll_union.bound_num_std_dev", "cpc.bound_kappa", "cpc_union.update_seed", "tdigest.split_points",
          "bloom.init_by_size", "bloom.init_by_accuracy", "bloom.from_memory", "bloom.serialized_size", "bloom.suggest_hashes_nm",
          "theta_intersection.operand"}

Zone(site, a, cls) ==
  CASE site \in {"theta.lg_k", "theta_union.lg_k", "tuple.lg_k", "tuple_union.lg_k", "aod.lg_k"} ->
         \* theta_constants::MIN_LG_K = 5 ("min log2 of K"), MAX_LG_K = 26 ("max log2 of K")
         Z3(In(Val(a[1]), 5, 26))
    [] site \in {"theta.p", "tuple.p"} ->
         \* set_p: "sampling probability"; "sampling probability must be between 0 and 1" (p <= 0 refused)
         Z3(Probability(cls))
    [] site = "hll.lg_k" ->
         \* "The Log2 of K for the target HLL sketch. This value must be between 4 and 21 inclusively."
         Z3(In(Val(a[1]), 4, 21))
    [] site = "hll_union.lg_max_k" ->
         \* "The value must be between 7 and 21, inclusive" - while the union is documented to follow operands down to
         \* lg_k = 4 and hll_constants::MIN_LOG_K = 4: 4..6 is left free
         IF In(Val(a[1]), 7, 21) THEN "valid" ELSE IF In(Val(a[1]), 4, 6) THEN "free" ELSE "invalid"
    [] site = "hll.max_ser_bytes" ->
         \* static helper: "must be between 4 and 21 inclusively", no refusal promised
         IF In(Val(a[1]), 4, 21) THEN "valid" ELSE "free"
    [] site \in {"cpc.lg_k", "cpc_union.lg_k"} ->
         \* cpc_constants::MIN_LG_K = 4, MAX_LG_K = 26
         Z3(In(Val(a[1]), 4, 26))
    [] site = "kll.k" ->
         \* kll_constants::MIN_K = 8 ("min value of parameter K"), MAX_K = 65535
         Z3(In(Val(a[1]), 8, 65535))
    [] site = "req.k" ->
         \* "It must be even and in the range [4, 1024], inclusive." (other values: silently adjusted, no rule)
         IF In(Val(a[1]), 4, 1024) /\ Val(a[1]) % 2 = 0 THEN "valid" ELSE "free"
    [] site = "quantiles.k" ->
         \* quantiles_constants::MIN_K = 2, MAX_K = 32768; "k must be a power of 2 that is >= MIN_K and <= MAX_K"
         Z3(In(Val(a[1]), 2, 32768) /\ IsPow2(Val(a[1])))
    [] site = "fi.lg_sizes" ->
         \* a = <<lg_max_map_size, lg_start_map_size>>: "starting size must not be greater than maximum size"
         Z3(Val(a[2]) <= Val(a[1]))
    [] site = "fi.weight_i64" ->
         \* a = <<|w|, sign>>: "weight must be non-negative"
         Z3(Val(a[2]) = 0 \/ IsZero(a[1]))
    [] site \in {"fi.weight_double", "varopt.weight", "ebpps.weight"} ->
         \* "weight must be non-negative" / "a valid number" / "finite"; "Item weights must be nonnegative and finite"
         Z3(NonNegFinite(cls))
    [] site = "countmin.shape" ->
         \* a = <<num_hashes, num_buckets>>: "Using fewer than 3 buckets incurs relative error greater than 1.";
         \* "These parameters generate a sketch that exceeds 2^30 elements."; a sketch without hash functions is not
         \* ruled out by any text: free (but it must not crash when used)
         LET h == Val(a[1])  b == Val(a[2]) IN
         IF b < 3 THEN "invalid" ELSE IF h = 0 THEN "free" ELSE IF b > (2^30 - 1) \div h THEN "invalid" ELSE "valid"
    [] site = "bloom.by_size" ->
         \* a = <<num_bits, num_hashes>>: "number of bits in the filter must be strictly positive", "Filter may not exceed
         \* (INT32_MAX - 32) * 8 bits", "number of hashes for the filter must be strictly positive"
         Z3(~IsZero(a[1]) /\ LimbLE(a[1], BloomMaxBits) /\ ~IsZero(a[2]))
    [] site = "bloom.by_accuracy" ->
         \* a = <<max_distinct_items>>, cls of target_false_positive_prob: "maximum number of distinct items must be strictly
         \* positive", "target false positive probability must be a valid probability strictly greater than 0.0";
         \* probability 1 needs a filter of 0 bits: free; more than 2^24 items may need more bits than one filter can
         \* hold (a question of capacity, not of the argument check): free
         IF IsZero(a[1]) \/ ~Probability(cls) THEN "invalid" ELSE IF cls = "one" \/ Val(a[1]) > 16777216 THEN "free" ELSE "valid"
    [] site \in {"varopt.k", "varopt_union.max_k", "ebpps.k"} ->
         \* var_opt_constants::MAX_K = ebpps_constants::MAX_K = 2^31 - 2; "k must be at least 1 and less than 2^31 - 1"
         Z3(In(Val(a[1]), 1, 2147483646))
    [] site = "tdigest.k" ->
         \* "k must be at least 10"
         Z3(Val(a[1]) >= 10)
    [] site \in {"hll.bound_num_std_dev", "hll_union.bound_num_std_dev", "cpc.bound_kappa"} ->
         \* a = <<number of standard deviations, lower / upper, state of the sketch>>: "This must be an integer between 1 and 3,
         \* inclusive" (hll); "kappa must be 1, 2 or 3" (cpc)
         Z3(In(Val(a[1]), 1, 3))
    [] site = "cpc_union.update_seed" ->
         \* a = <<1 if the sketch was built with the union's seed, lvalue / rvalue>>: "Incompatible seed hashes"
         Z3(Val(a[1]) = 1)
    [] site = "tdigest.split_points" ->
         \* a = <<kind, get_CDF / get_PMF>>: kind 0 = increasing; 1..3 = a NaN first / in the middle / last ("Values must not be NaN");
         \* 4 = a repeated value, 5 = decreasing ("Values must be unique and monotonically increasing"); 6 = a single NaN, 7 = a single value
         Z3(Val(a[1]) \in {0, 7})
    [] site = "bloom.init_by_size" ->
         \* a = <<num_bits, num_hashes, length of the caller's memory>>: the rules of by_size, and "Input memory block is too small":
         \* the block must hold get_serialized_size_bytes(num_bits) = 32 + 8 * ceil(num_bits / 64) bytes
         IF IsZero(a[1]) \/ ~LimbLE(a[1], BloomMaxBits) \/ IsZero(a[2]) THEN "invalid"
         ELSE IF Val(a[1]) > 100000000 THEN "free"            \* filters of more than 10^8 bits in caller's memory are not probed
         ELSE Z3(Val(a[3]) >= 32 + 8 * ((Val(a[1]) + 63) \div 64))
    [] site = "bloom.init_by_accuracy" ->
         \* a = <<max_distinct_items, length of the caller's memory>>, cls of the probability: the rules of by_accuracy; a block
         \* below 40 bytes cannot hold the header and one word of any filter; a megabyte holds every filter for <= 1000 items
         IF IsZero(a[1]) \/ ~Probability(cls) \/ Val(a[2]) < 40 THEN "invalid"
         ELSE IF cls = "one" \/ Val(a[1]) > 1000 \/ Val(a[2]) < 1048576 THEN "free" ELSE "valid"
    [] site = "bloom.from_memory" ->
         \* a = <<kind, deserialize / wrap / writable_wrap>>: 0 = a valid image, 1 = a null pointer with a length ("Input data is null
         \* or empty"), 2 = a null pointer with length 0 (refused as too short, by another exception type: free)
         IF Val(a[1]) = 0 THEN "valid" ELSE IF Val(a[1]) = 1 THEN "invalid" ELSE "free"
    [] site = "bloom.serialized_size" ->
         \* get_serialized_size_bytes(num_bits): "Number of bits must be greater than zero"
         Z3(~IsZero(a[1]))
    [] site = "bloom.suggest_hashes_nm" ->
         \* a = <<max_distinct_items, num_filter_bits>>: both strictly positive, "number of bits in the filter must be less than 2^63"
         \* (the limit tested is the largest filter)
         Z3(~IsZero(a[1]) /\ ~IsZero(a[2]) /\ LimbLE(a[2], BloomMaxBits))
    [] site = "theta_intersection.operand" ->
         \* a = <<corruption, operand position 1 / 2, ordered, deserialized 0 / wrapped 1>> of a hand-corrupted compact image:
         \* 1 = a duplicated hash, 2 = a zero hash (one entry fewer than the count says).  "... possibly corrupted input sketch":
         \* what the intersection can see must be refused (a duplicate while it copies its first operand; a count that does not
         \* match what the iteration of a deserialized sketch yields); what it cannot see is free.  "Unchanged" means here: still usable.
         LET kind == Val(a[1])  pos == Val(a[2])  ord == Val(a[3])  form == Val(a[4]) IN
         IF kind = 0 THEN "valid"
         ELSE IF kind = 1 /\ pos = 1 THEN "invalid"
         ELSE IF kind = 2 /\ form = 0 /\ (pos = 1 \/ ord = 0) THEN "invalid"
         ELSE "free"
    [] site = "density.k" ->
         \* a = <<k, dim>>: "k must be > 1"; a zero dimension is not ruled out by any text: free
         IF Val(a[1]) < 2 THEN "invalid" ELSE IF IsZero(a[2]) THEN "free" ELSE "valid"

\* which argument (index) the getter of an accepted object must report; 0 = the site has no getter
EchoArg(site) ==
  CASE site \in {"theta.lg_k", "tuple.lg_k", "aod.lg_k", "hll.lg_k", "hll_union.lg_max_k", "cpc.lg_k", "kll.k", "req.k", "quantiles.k",
                 "varopt.k", "ebpps.k", "tdigest.k", "density.k"} -> 1
    [] site \in {"bloom.by_size", "bloom.init_by_size"} -> 2
    [] OTHER -> 0

Outcomes == {"ok", "invalid_argument", "bad_alloc", "other", "crash"}
\* the contract of one recorded call: zone z, outcome out, echo = value reported by the getter (<<>> if none),
\* used = outcome of using the accepted object ("ok" / "crash" / "none"), same = the object was left as it was (refusals)
CallOK(site, a, cls, out, echo, used, same) ==
  LET z == Zone(site, a, cls) IN
  /\ out /= "crash" /\ used /= "crash"
  /\ (z = "valid" => out \in {"ok", "bad_alloc"})
  /\ (z = "invalid" => out = "invalid_argument" /\ same)
  /\ (z = "valid" /\ out = "ok" /\ EchoArg(site) > 0 /\ echo /= <<>> => echo = a[EchoArg(site)])
====
