\* thorough tier: as MC_Ebpps.cfg with sketches of different k (1 and 3): merges take the smaller k
SPECIFICATION Spec
CONSTANTS Ids = {1, 2}
 Items = {1, 2, 3, 4, 5}
 Wts = {1, 2, 4}
 Ks = {1, 3}
 MaxN = 5
 ResetInNext = TRUE
INVARIANT Inv
CHECK_DEADLOCK FALSE
