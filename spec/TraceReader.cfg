SPECIFICATION TSpec
CONSTANTS MaxSize = 0 Paths = {} Vals = {} Strict = TRUE
POSTCONDITION AcceptedR
CHECK_DEADLOCK FALSE
