SPECIFICATION TSpec
CONSTANTS Ids = {} UIds = {} Items = {} Wts = {} Ks = {}
POSTCONDITION Accepted
CHECK_DEADLOCK FALSE
