\* HLL design model with the SET stage: 8 slots (lgK = 3), list of 2 -> set of 2 ints growing to 4 -> HLL at 4 coupons.
\* Thresholds lowered: ListSize 2 (code 8), SetMinLgK 3 (code 8), LgInitSet 1 (code 5), SetLgDelta 1 (code 3); the growth
\* rule 4*count > 3*size is the code's.
SPECIFICATION Spec
CONSTANTS LgK = 3
 Full = FALSE
 Alphabet <- Alpha8
 ListSize = 2
 SetMinLgK = 3
 LgInitSet = 1
 SetLgDelta = 1
 AuxToken = 15
 ShiftBack = 14
INVARIANT ContentOK EmptyOK Rep Rep68 CInv
PROPERTY Refines
CHECK_DEADLOCK FALSE
