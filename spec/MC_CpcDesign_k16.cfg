\* K = 16 (the library's minimum): the sketch is sparse for one coupon and is promoted at C = 2; K = 32 is in _k32.
\* Alphabet: (0,0) (3,7) (3,8) (5,20) (15,63) (15,0) (9,9)
SPECIFICATION Spec
CONSTANTS LgK = 4
 Alphabet = {0, 199, 200, 340, 1023, 960, 585}
 Prefix <- NoPrefix
 FicBias = 0
INVARIANT Rep RT Observables
PROPERTY Refines
CHECK_DEADLOCK FALSE
