---- MODULE HllDesign ----
(***************************************************************************)
(* Tier B design model of hll_sketch: the mechanism of                     *)
(*   CouponList-internal.hpp      (linear list, promotion when full)       *)
(*   CouponHashSet-internal.hpp   (growth at 3/4 load, promotion at max)   *)
(*   HllSketchImplFactory.hpp     (promotion replays the coupons)          *)
(*   Hll4Array-internal.hpp       (nibbles relative to curMin, AUX_TOKEN,  *)
(*                                 the four aux cases, shiftToBiggerCurMin)*)
(*   Hll6Array / Hll8Array        (6-bit packing across bytes / bytes,     *)
(*                                 numAtCurMin = number of zero slots)     *)
(*   conversion constructors      (replay of the non-empty slots)          *)
(* TLC checks (MC_HllDesign*.cfg) that every history within the bounds     *)
(* keeps the observable content equal to the contract's (ContentOK), keeps *)
(* the representation invariants (Rep), reports emptiness correctly and    *)
(* refines the contract's step relation (Refines).  hip/kxq are not        *)
(* modelled (estimator registers; compared bit-for-bit across types by the *)
(* trace specification instead).                                          *)
(***************************************************************************)
EXTENDS HllMech
CONSTANTS LgK, Full, Alphabet     \* (the thresholds ListSize .. ShiftBack are constants of HllMech)
VARIABLES d,             \* the design record [mode, type, list, set, setLg, h] of HllMech
          fed, gtop      \* ghosts: coupons offered, their per-slot maximum (the contract's fed/top)
dvars == <<d, fed, gtop>>

HLL == MHLL
LIST == MLIST
K == KOf(LgK)
SlotsK == SlotsOf(LgK)
SlotOf(c) == MSlot(c, LgK)
Max2(a, b) == IF a >= b THEN a ELSE b
NCov == 8

Init == /\ \E t \in {4, 6, 8} : d = DInit(t, Full, LgK)
        /\ fed = {} /\ gtop = [s \in SlotsK |-> 0]
        /\ \A n \in 1..NCov : TLCSet(n, FALSE)
Update(c) == /\ d' = DStep(d, LgK, c)
             /\ fed' = fed \cup {c} /\ gtop' = [gtop EXCEPT ![SlotOf(c)] = Max2(@, c[2])]
\* hll_sketch(const hll_sketch&, t), continuing with the copy
Convert(t) == d' = DConvert(d, LgK, t) /\ UNCHANGED <<fed, gtop>>
Reset == d' = DReset(d, Full, LgK) /\ fed' = {} /\ gtop' = [s \in SlotsK |-> 0]
Next == (\E c \in Alphabet : Update(c)) \/ (\E t \in {4, 6, 8} : Convert(t)) \/ Reset
Spec == Init /\ [][Next]_dvars

mode == d.mode
type == d.type
h == d.h
Regs == DRegs(d, LgK)
IsEmptyImpl == DIsEmpty(d, LgK)
Coupons == DCoupons(d)

\* ---- refinement mapping and the properties checked ----
CObj == [lgK |-> LgK, type |-> type, full |-> Full, mode |-> mode, fed |-> fed, top |-> gtop, empty |-> fed = {}, big |-> FALSE]
C == INSTANCE Hll WITH obj <- (1 :> CObj), Ids <- {1}, LgKs <- {LgK}, Coupons <- Alphabet, Bigs <- {FALSE}, TrackFed <- TRUE
ContentOK == IF mode = HLL THEN Regs = C!Content(CObj) ELSE Coupons = C!Content(CObj) /\ (mode = LIST => Len(d.list) = Cardinality(Coupons))
EmptyOK == IsEmptyImpl = CObj.empty
CInv == C!Inv
\* representation invariants of the HLL_4 array (DESIGN C03)
Rep == (mode = HLL /\ type = 4) =>
         /\ \A s \in SlotsK : (h.nib[s] = AuxToken) = (s \in DOMAIN h.aux)
         /\ \A s \in DOMAIN h.aux : h.aux[s] - h.curMin >= AuxToken
         /\ \A s \in SlotsK : h.nib[s] \in 0..AuxToken
         /\ h.curMin = CHOOSE m \in {Regs[s] : s \in SlotsK} : \A s \in SlotsK : m <= Regs[s]
         /\ h.nac = Cardinality({s \in SlotsK : Regs[s] = h.curMin})
Rep68 == (mode = HLL /\ type # 4) => h.nac = Cardinality({s \in SlotsK : Regs[s] = 0})
Refines == [][C!Next]_dvars
\* which mechanism branches this bounded run must have reached: 1 aux case 1, 3 aux case 3, 4 plain nibble,
\* 5 a cur-min shift, 6 a multi-step shift, 7 a shift with a non-empty aux map
Covered == \A n \in {1, 3, 4, 5, 6, 7} : TLCGet(n) = TRUE
====
