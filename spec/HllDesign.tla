---- MODULE HllDesign ----
(***************************************************************************)
(* Tier B design model of hll_sketch: the mechanism of                     *)
(*   CouponList-internal.hpp      (linear list, promotion when full)       *)
(*   CouponHashSet-internal.hpp   (growth at 3/4 load, promotion at max)   *)
(*   HllSketchImplFactory.hpp     (promotion replays the coupons)          *)
(*   Hll4Array-internal.hpp       (nibbles relative to curMin, AUX_TOKEN,  *)
(*                                 the four aux cases, shiftToBiggerCurMin)*)
(*   Hll6Array / Hll8Array        (6-bit packing across bytes / bytes,     *)
(*                                 numAtCurMin = number of zero slots)     *)
(*   conversion constructors      (replay of the non-empty slots)          *)
(* TLC checks (MC_HllDesign*.cfg) that every history within the bounds     *)
(* keeps the observable content equal to the contract's (ContentOK), keeps *)
(* the representation invariants (Rep), reports emptiness correctly and    *)
(* refines the contract's step relation (Refines).  hip/kxq are not        *)
(* modelled (estimator registers; compared bit-for-bit across types by the *)
(* trace specification instead).                                          *)
(***************************************************************************)
EXTENDS Naturals, FiniteSets, Sequences, TLC
CONSTANTS LgK, Full, Alphabet,
          ListSize,     \* code: 1 << LG_INIT_LIST_SIZE = 8
          SetMinLgK,    \* code: 8 (lgK < 8 promotes the list directly to HLL)
          LgInitSet,    \* code: LG_INIT_SET_SIZE = 5
          SetLgDelta,   \* code: 3 (the set is promoted when full at lg size lgK - 3)
          AuxToken,     \* code: 15; negative configs use other values
          ShiftBack     \* code: 14 = AuxToken - 1 (shifted value at which a former exception returns to the nibbles)
VARIABLES mode, type, list, set, setLg, h,
          fed, gtop      \* ghosts: coupons offered, their per-slot maximum (the contract's fed/top)
dvars == <<mode, type, list, set, setLg, h, fed, gtop>>

LIST == 0
SET == 1
HLL == 2
K == 2^LgK
SlotsK == 0..(K - 1)
SlotOf(c) == c[1] % K
Max2(a, b) == IF a >= b THEN a ELSE b

\* vacuity guard: TLC registers 1..NCov record that a branch of the mechanism was exercised (POSTCONDITION Covered, -workers 1)
NCov == 8
Tag(n, v) == IF TLCSet(n, TRUE) THEN v ELSE v

(* ---------------- HLL_4: h = [nib, curMin, nac, aux] -------------------- *)
Empty4 == [nib |-> [s \in SlotsK |-> 0], curMin |-> 0, nac |-> K, aux |-> <<>>]
Val4(x, s) == IF x.nib[s] = AuxToken THEN x.aux[s] ELSE x.nib[s] + x.curMin
\* shiftToBiggerCurMin: one increment of curMin
Shift1(x) ==
  LET ncm == x.curMin + 1
      dec == [s \in SlotsK |-> IF x.nib[s] < AuxToken THEN x.nib[s] - 1 ELSE x.nib[s]]   \* a stored 0 is an error (Nat underflow => TLC error)
      back == {s \in DOMAIN x.aux : x.aux[s] - ncm < AuxToken}     \* former exceptions that fit again
      nib2 == [s \in SlotsK |-> IF s \in back THEN x.aux[s] - ncm ELSE dec[s]]
  IN  [nib |-> nib2, curMin |-> ncm,
       nac |-> Cardinality({s \in SlotsK : x.nib[s] < AuxToken /\ dec[s] = 0}),
       aux |-> [s \in (DOMAIN x.aux) \ back |-> x.aux[s]]]
ShiftBackOK(x) == \A s \in DOMAIN x.aux : x.aux[s] - (x.curMin + 1) < AuxToken => x.aux[s] - (x.curMin + 1) = ShiftBack
RECURSIVE ShiftLoop(_, _)
ShiftLoop(x, n) == IF x.nac # 0 THEN x
                   ELSE IF ~ShiftBackOK(x) THEN Assert(FALSE, "newShiftedVal != 14")   \* the code throws logic_error
                   ELSE ShiftLoop(Tag(IF n > 0 THEN 6 ELSE 5, IF DOMAIN x.aux # {} THEN Tag(7, Shift1(x)) ELSE Shift1(x)), n + 1)
\* internalHll4Update
Upd4(x, s, v) ==
  IF v <= x.curMin THEN x                                   \* quick rejection
  ELSE LET raw == x.nib[s]
           lb == raw + x.curMin
       IN IF v <= lb THEN x
          ELSE LET old == IF raw < AuxToken THEN lb ELSE x.aux[s]
               IN IF v <= old THEN x
                  ELSE LET sh == v - x.curMin
                           y == IF raw = AuxToken
                                THEN IF sh >= AuxToken THEN Tag(1, [x EXCEPT !.aux[s] = v])     \* case 1
                                     ELSE x                                                       \* case 2 (impossible)
                                ELSE IF sh >= AuxToken
                                     THEN Tag(3, [x EXCEPT !.nib[s] = AuxToken, !.aux = (s :> v) @@ @])   \* case 3
                                     ELSE Tag(4, [x EXCEPT !.nib[s] = sh])                        \* case 4
                       IN IF old = x.curMin THEN ShiftLoop([y EXCEPT !.nac = @ - 1], 0) ELSE y

(* ---------------- HLL_6: h = [bytes, nac], 6-bit values packed little-endian across byte boundaries ---------- *)
Bytes6 == (K * 3) \div 4 + 1
Empty6 == [bytes |-> [b \in 0..(Bytes6 - 1) |-> 0], nac |-> K]
Get6(x, s) == LET start == 6 * s  sh == start % 8  ix == start \div 8
                  two == x.bytes[ix + 1] * 256 + x.bytes[ix]
              IN (two \div 2^sh) % 64
Put6(x, s, v) == LET start == 6 * s  sh == start % 8  ix == start \div 8
                     two == x.bytes[ix + 1] * 256 + x.bytes[ix]
                     cleared == two - ((two \div 2^sh) % 64) * 2^sh
                     ins == cleared + (v % 64) * 2^sh
                 IN [x EXCEPT !.bytes[ix] = ins % 256, !.bytes[ix + 1] = (ins \div 256) % 256]
Upd6(x, s, v) == LET cur == Get6(x, s) IN
                 IF v > cur THEN [Put6(x, s, v) EXCEPT !.nac = IF cur = 0 THEN @ - 1 ELSE @] ELSE x
(* ---------------- HLL_8: h = [reg, nac] ---------------- *)
Empty8 == [reg |-> [s \in SlotsK |-> 0], nac |-> K]
Upd8(x, s, v) == IF v > x.reg[s] THEN [x EXCEPT !.reg[s] = v, !.nac = IF x.reg[s] = 0 THEN @ - 1 ELSE @] ELSE x

EmptyArr(t) == CASE t = 4 -> Empty4 [] t = 6 -> Empty6 [] OTHER -> Empty8
UpdArr(t, x, c) == CASE t = 4 -> Upd4(x, SlotOf(c), c[2]) [] t = 6 -> Upd6(x, SlotOf(c), c[2]) [] OTHER -> Upd8(x, SlotOf(c), c[2])
ValArr(t, x, s) == CASE t = 4 -> Val4(x, s) [] t = 6 -> Get6(x, s) [] OTHER -> x.reg[s]
Regs == [s \in SlotsK |-> ValArr(type, h, s)]
RECURSIVE Replay(_, _, _)
Replay(t, x, cs) == IF cs = <<>> THEN x ELSE Replay(t, UpdArr(t, x, Head(cs)), Tail(cs))
RECURSIVE SeqOfSet(_)
SeqOfSet(S) == IF S = {} THEN <<>> ELSE LET c == CHOOSE c \in S : TRUE IN <<c>> \o SeqOfSet(S \ {c})
\* conversion constructors: replay <<slot, value>> of the non-empty slots in slot order; Hll6/Hll8 set numAtCurMin to the zero count
RECURSIVE NonEmptyFrom(_, _)
NonEmptyFrom(r, s) == IF s = K THEN <<>> ELSE (IF r[s] > 0 THEN <<<<s, r[s]>>>> ELSE <<>>) \o NonEmptyFrom(r, s + 1)
ConvertArr(t, r) == LET y == Replay(t, EmptyArr(t), NonEmptyFrom(r, 0)) IN
                    IF t = 4 THEN y ELSE [y EXCEPT !.nac = Cardinality({s \in SlotsK : r[s] = 0})]

NoArr == [none |-> 0]
InitMode == IF Full THEN HLL ELSE LIST
Init == /\ mode = InitMode /\ type \in {4, 6, 8} /\ list = <<>> /\ set = {} /\ setLg = 0
        /\ h = IF Full THEN EmptyArr(type) ELSE NoArr
        /\ fed = {} /\ gtop = [s \in SlotsK |-> 0]
        /\ \A n \in 1..NCov : TLCSet(n, FALSE)

\* promoteListOrSetToHll
ToHll(cs) == /\ mode' = HLL /\ h' = Replay(type, EmptyArr(type), cs) /\ list' = <<>> /\ set' = {} /\ setLg' = 0
\* CouponHashSet::couponUpdate on a (set, lg) pair; returns [set, lg, promote]
SetIns(S, lg, c) ==
  IF c \in S THEN [set |-> S, lg |-> lg, promote |-> FALSE]
  ELSE LET S2 == S \cup {c} IN
       IF 4 * Cardinality(S2) > 3 * 2^lg
       THEN IF lg = LgK - SetLgDelta THEN [set |-> S2, lg |-> lg, promote |-> TRUE]
            ELSE [set |-> S2, lg |-> lg + 1, promote |-> FALSE]
       ELSE [set |-> S2, lg |-> lg, promote |-> FALSE]
RECURSIVE ListToSet(_, _)
ListToSet(r, cs) == IF cs = <<>> THEN r
                    ELSE LET n == SetIns(r.set, r.lg, Head(cs)) IN
                         IF n.promote THEN Assert(FALSE, "promotion while building the set") ELSE ListToSet(n, Tail(cs))

Update(c) ==
  /\ fed' = fed \cup {c} /\ gtop' = [gtop EXCEPT ![SlotOf(c)] = Max2(@, c[2])]
  /\ UNCHANGED type
  /\ CASE mode = LIST ->
            IF \E n \in DOMAIN list : list[n] = c THEN UNCHANGED <<mode, list, set, setLg, h>>
            ELSE LET l2 == Append(list, c) IN
                 IF Len(l2) < ListSize THEN list' = l2 /\ UNCHANGED <<mode, set, setLg, h>>
                 ELSE IF LgK < SetMinLgK THEN ToHll(l2)
                 ELSE LET r == ListToSet([set |-> {}, lg |-> LgInitSet, promote |-> FALSE], l2) IN
                      /\ mode' = SET /\ set' = r.set /\ setLg' = r.lg /\ list' = <<>> /\ UNCHANGED h
       [] mode = SET ->
            LET r == SetIns(set, setLg, c) IN
            IF r.promote THEN ToHll(SeqOfSet(r.set))
            ELSE set' = r.set /\ setLg' = r.lg /\ UNCHANGED <<mode, list, h>>
       [] OTHER -> h' = UpdArr(type, h, c) /\ UNCHANGED <<mode, list, set, setLg>>
\* hll_sketch(const hll_sketch&, t), continuing with the copy
Convert(t) ==
  /\ type' = t
  /\ IF mode = HLL /\ t # type THEN h' = ConvertArr(t, Regs) ELSE UNCHANGED h
  /\ UNCHANGED <<mode, list, set, setLg, fed, gtop>>
Reset == /\ mode' = InitMode /\ list' = <<>> /\ set' = {} /\ setLg' = 0
         /\ h' = IF Full THEN EmptyArr(type) ELSE NoArr
         /\ fed' = {} /\ gtop' = [s \in SlotsK |-> 0] /\ UNCHANGED type
Next == (\E c \in Alphabet : Update(c)) \/ (\E t \in {4, 6, 8} : Convert(t)) \/ Reset
Spec == Init /\ [][Next]_dvars

\* what is_empty() computes
IsEmptyImpl == CASE mode = LIST -> list = <<>> [] mode = SET -> set = {}
               [] OTHER -> (IF type = 4 THEN h.curMin = 0 ELSE TRUE) /\ h.nac = K
Coupons == IF mode = LIST THEN {list[n] : n \in DOMAIN list} ELSE set

\* ---- refinement mapping and the properties checked ----
CObj == [lgK |-> LgK, type |-> type, full |-> Full, mode |-> mode, fed |-> fed, top |-> gtop, empty |-> fed = {}, big |-> FALSE]
C == INSTANCE Hll WITH obj <- (1 :> CObj), Ids <- {1}, LgKs <- {LgK}, Coupons <- Alphabet, Bigs <- {FALSE}, TrackFed <- TRUE
ContentOK == IF mode = HLL THEN Regs = C!Content(CObj) ELSE Coupons = C!Content(CObj) /\ (mode = LIST => Len(list) = Cardinality(Coupons))
EmptyOK == IsEmptyImpl = CObj.empty
CInv == C!Inv
\* representation invariants of the HLL_4 array (DESIGN C03)
Rep == (mode = HLL /\ type = 4) =>
         /\ \A s \in SlotsK : (h.nib[s] = AuxToken) = (s \in DOMAIN h.aux)
         /\ \A s \in DOMAIN h.aux : h.aux[s] - h.curMin >= AuxToken
         /\ \A s \in SlotsK : h.nib[s] \in 0..AuxToken
         /\ h.curMin = CHOOSE m \in {Regs[s] : s \in SlotsK} : \A s \in SlotsK : m <= Regs[s]
         /\ h.nac = Cardinality({s \in SlotsK : Regs[s] = h.curMin})
Rep68 == (mode = HLL /\ type # 4) => h.nac = Cardinality({s \in SlotsK : Regs[s] = 0})
Refines == [][C!Next]_dvars
\* which mechanism branches this bounded run must have reached: 1 aux case 1, 3 aux case 3, 4 plain nibble,
\* 5 a cur-min shift, 6 a multi-step shift, 7 a shift with a non-empty aux map
Covered == \A n \in {1, 3, 4, 5, 6, 7} : TLCGet(n) = TRUE
====
