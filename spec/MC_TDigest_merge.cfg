\* exhaustive run of the t-digest contract, TWO sketches merged in both directions (and re-merged): values 1..4,
\* a buffer of 2, at most Cap = 3 centroids, every coarsening at every compress and merge, at most MaxN values
\* accepted by both sketches together.  Conservation of weight and extremes under every grouping and merge order.
SPECIFICATION Spec
CONSTANTS Ids = {1, 2}
 Vals = {1, 2, 3, 4}
 Ks = {10}
 Cap = 3
 BufCap = 2
 MaxN = 5
INVARIANT Inv
VIEW View
CHECK_DEADLOCK FALSE
