\* NEGATIVE config (bin/selftest; not part of bin/check): zip_buffer ignores the coin; the contract is still refined, Martingale must be violated
SPECIFICATION Spec
CONSTANTS Ids = {1}
 Items = {1, 2, 3}
 Ks = {2}
 MaxN = 6
 ZipIgnoresCoin = 1
INVARIANT RepOK CInv Martingale
PROPERTY Refines
CONSTRAINT NBound
CHECK_DEADLOCK FALSE
