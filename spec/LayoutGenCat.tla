---- MODULE LayoutGenCat ----
(***************************************************************************)
(* C10, spec -> impl: a catalogue of abstract states and the images the    *)
(* documented writers (Enc_* of Layout.tla) produce for them in every      *)
(* format version the C++ readers claim to accept:                         *)
(*   Theta compact serial versions 1, 2, 3, 4; Tuple current (3 / type 1)  *)
(*   and legacy (1 / type 5); KLL version 1 (full preamble, incl. n = 1)   *)
(*   and version 2 (single item); classic quantiles versions 1, 2, 3 with  *)
(*   every header combination of check_header_validity; t-digest native    *)
(*   and the two big-endian reference-implementation formats.              *)
(* Each entry: variant (which deserializer the harness calls), aux (KLL:   *)
(* the min_k a reader must report), st (the projection the public API must *)
(* report after reading img), img.                                         *)
(* GenLayout.tla writes the images out; TraceLayout.tla checks the replay. *)
(***************************************************************************)
EXTENDS Layout

H8(x) == LE(x, 8)
Theta62 == <<0, 0, 0, 0, 0, 0, 0, 64>>               \* 2^62
HA == <<17, 34, 51, 68, 85, 102, 119, 1>>             \* three ascending 63-bit hashes below 2^62
HB == <<1, 2, 3, 4, 5, 6, 7, 33>>
HC == <<254, 255, 0, 128, 9, 8, 7, 63>>
\* IEEE-754 encodings (little endian) of small numbers
D(n) == <<0, 0, 0, 0, 0, 0>> \o (CASE n = 0 -> <<0, 0>> [] n = 1 -> <<240, 63>> [] n = 2 -> <<0, 64>> [] n = 3 -> <<8, 64>> [] n = 4 -> <<16, 64>> [] n = 5 -> <<20, 64>>
                                   [] n = 6 -> <<24, 64>> [] n = 7 -> <<28, 64>> [] n = 8 -> <<32, 64>> [] n = 9 -> <<34, 64>> [] n = 10 -> <<36, 64>>
                                   [] n = 11 -> <<38, 64>> [] n = 12 -> <<40, 64>> [] n = 13 -> <<42, 64>> [] n = 100 -> <<89, 64>>)
F(n) == <<0, 0>> \o (CASE n = 0 -> <<0, 0>> [] n = 1 -> <<128, 63>> [] n = 2 -> <<0, 64>> [] n = 3 -> <<64, 64>> [] n = 4 -> <<128, 64>> [] n = 5 -> <<160, 64>>
                       [] n = 6 -> <<192, 64>> [] n = 7 -> <<224, 64>> [] n = 8 -> <<0, 65>> [] n = 9 -> <<16, 65>> [] n = 100 -> <<200, 66>>)
I64(n) == LE(n, 8)

\* ------------------------------------------------------------------ Theta
TV(empty, ordered, theta, ent) == ThetaV(empty, ordered, Len(ent), theta, DefaultSeedHash, ent)
tE == TV(TRUE, TRUE, MaxTheta, <<>>)
tS == TV(FALSE, TRUE, MaxTheta, <<HB>>)
tX == TV(FALSE, TRUE, MaxTheta, <<HA, HB, HC>>)
tXu == TV(FALSE, FALSE, MaxTheta, <<HC, HA, HB>>)
tEst == TV(FALSE, TRUE, Theta62, <<HA, HB, HC, <<0, 0, 0, 0, 0, 0, 0, 63>> >>)
tEstu == TV(FALSE, FALSE, Theta62, <<HB, HA>>)
tZ == TV(FALSE, TRUE, Theta62, <<>>)
Th(st, img) == [variant |-> "theta", aux |-> 0, st |-> st, img |-> img]
Ord(st) == [st EXCEPT !.ordered = TRUE]          \* versions 1 and 2 carry no order flag: readers report ordered
V4Vals1 == <<5, 70, 1000, 65000>>
V4Vals2 == <<3, 4, 900, 901, 2000, 4000, 4001, 8000, 8191>>
V4Vals3 == <<123456789>>
V4St(vals, theta) == TV(FALSE, TRUE, theta, [i \in 1..Len(vals) |-> H8(vals[i])])
ThetaCat ==
  << Th(tE, Enc_theta_v3(tE)), Th(tS, Enc_theta_v3(tS)), Th(tX, Enc_theta_v3(tX)), Th(tXu, Enc_theta_v3(tXu)),
     Th(tEst, Enc_theta_v3(tEst)), Th(tEstu, Enc_theta_v3(tEstu)), Th(tZ, Enc_theta_v3(tZ)),
     \* version 1: always three preamble longs
     Th(tE, Enc_theta_v1(tE)), Th(tS, Enc_theta_v1(tS)), Th(tX, Enc_theta_v1(tX)), Th(tEst, Enc_theta_v1(tEst)), Th(tZ, Enc_theta_v1(tZ)),
     \* version 2: 1, 2 or 3 preamble longs
     Th(tE, Enc_theta_v2(tE, 1)), Th(tE, Enc_theta_v2(tE, 2)), Th(tE, Enc_theta_v2(tE, 3)), Th(tS, Enc_theta_v2(tS, 2)), Th(tX, Enc_theta_v2(tX, 2)),
     Th(tX, Enc_theta_v2(tX, 3)), Th(tEst, Enc_theta_v2(tEst, 3)), Th(tZ, Enc_theta_v2(tZ, 3)),
     \* version 4: delta + bit packing
     Th(V4St(V4Vals1, MaxTheta), Enc_theta_v4(V4Vals1, 16, MaxTheta, FALSE, DefaultSeedHash)),
     Th(V4St(V4Vals1, Theta62), Enc_theta_v4(V4Vals1, 17, Theta62, TRUE, DefaultSeedHash)),
     Th(V4St(V4Vals2, MaxTheta), Enc_theta_v4(V4Vals2, 12, MaxTheta, FALSE, DefaultSeedHash)),
     Th(V4St(V4Vals2, Theta62), Enc_theta_v4(V4Vals2, 13, Theta62, TRUE, DefaultSeedHash)),
     Th(V4St(V4Vals3, Theta62), Enc_theta_v4(V4Vals3, 27, Theta62, TRUE, DefaultSeedHash)),
     Th(V4St(V4Vals2, Theta62), Enc_theta_v4(V4Vals2, 30, Theta62, TRUE, DefaultSeedHash)) >>

\* version 4, every packing width 1..63: nine deltas (one block of eight + one packed singly); delta j has its top bit set where the sum
\* of nine such deltas stays below 2^63 (width <= 59; above that only the first), plus bit j from the top and the lowest bit
SweepDelta(eb, j) == [i \in 1..eb |-> IF (i = 1 /\ (eb <= 59 \/ j = 1)) \/ i = eb \/ (i = j + 1 /\ i > 2) THEN 1 ELSE 0]
SweepBits(eb) == [j \in 1..9 |-> SweepDelta(eb, j)]
SweepSt(eb) == TV(FALSE, TRUE, MaxTheta, PrefixSums([j \in 1..9 |-> BitsToLE(SweepDelta(eb, j))], 1, Zeros(8)))
ThetaSweepCat == [eb \in 1..63 |-> Th(SweepSt(eb), Enc_theta_v4_bits(SweepBits(eb), eb, MaxTheta, FALSE, DefaultSeedHash))]

\* ------------------------------------------------------------------ Tuple<double>
UV(empty, ordered, theta, ent) == ThetaV(empty, ordered, Len(ent), theta, DefaultSeedHash, ent)
uE == UV(TRUE, TRUE, MaxTheta, <<>>)
uS == UV(FALSE, TRUE, MaxTheta, << <<HB, D(2)>> >>)
uX == UV(FALSE, TRUE, MaxTheta, << <<HA, D(1)>>, <<HB, D(7)>>, <<HC, D(3)>> >>)
uXu == UV(FALSE, FALSE, MaxTheta, << <<HC, D(5)>>, <<HA, D(1)>> >>)
uEst == UV(FALSE, TRUE, Theta62, << <<HA, D(4)>>, <<HB, D(4)>>, <<HC, D(9)>> >>)
uZ == UV(FALSE, TRUE, Theta62, <<>>)
Tu(st, ver, type) == [variant |-> "tuple", aux |-> 0, st |-> st, img |-> Enc_tuple(st, ver, type)]
TupleCat == << Tu(uE, 3, 1), Tu(uS, 3, 1), Tu(uX, 3, 1), Tu(uXu, 3, 1), Tu(uEst, 3, 1), Tu(uZ, 3, 1),
               Tu(uE, 1, 5), Tu(uS, 1, 5), Tu(uX, 1, 5), Tu(uXu, 1, 5), Tu(uEst, 1, 5), Tu(uZ, 1, 5) >>

\* ------------------------------------------------------------------ KLL (float and int64 items)
KSt(k, n, mink, levels, min, max) ==
  LET all == Flat(levels) IN
  [k |-> k, n |-> n, empty |-> FALSE, est |-> (Len(levels) > 1), nret |-> Len(all), mink |-> mink, items |-> all,
   wts |-> UNION {{<<levels[h][i], h - 1>> : i \in 1..Len(levels[h])} : h \in 1..Len(levels)}, min |-> min, max |-> max]
KEmpty(k) == [k |-> k, n |-> 0, empty |-> TRUE, est |-> FALSE, nret |-> 0, items |-> <<>>, wts |-> {}]
KllEntries(variant, isz, V(_)) ==
  LET lv1 == << <<V(1)>> >>
      lv3 == << <<V(3), V(1), V(2)>> >>
      lv2 == << <<V(7), V(2)>>, <<V(1), V(3), V(5), V(8)>> >>            \* n = 2 + 2*4 = 10
      lv3e == << <<>>, <<V(4), V(6)>>, <<V(1), V(9)>> >>                   \* empty level 0: n = 2*2 + 2*4 = 12
      E(aux, st, img) == [variant |-> variant, aux |-> aux, st |-> st, img |-> img]
  IN << E(200, KEmpty(200), Enc_kll_empty(200, 1)), E(200, KEmpty(200), Enc_kll_empty(200, 2)),
        E(200, KSt(200, 1, 200, lv1, V(1), V(1)), Enc_kll_single(200, V(1), isz)),
        \* the form of the shipped kll_sketch_float_one_item_v1.sk: version 1, full preamble, n = 1
        E(200, KSt(200, 1, 200, lv1, V(1), V(1)), Enc_kll_v1([k |-> 200, n |-> 1, mink |-> 200, levels |-> lv1, min |-> V(1), max |-> V(1)], 200, isz)),
        E(200, KSt(200, 3, 200, lv3, V(1), V(3)), Enc_kll_v1([k |-> 200, n |-> 3, mink |-> 200, levels |-> lv3, min |-> V(1), max |-> V(3)], 200, isz)),
        E(8, KSt(200, 3, 8, lv3, V(1), V(3)), Enc_kll_v1([k |-> 200, n |-> 3, mink |-> 8, levels |-> lv3, min |-> V(1), max |-> V(3)], 200, isz)),
        \* k = 8: every level has capacity max(m, .) = 8, total capacity 8 * numLevels
        E(8, KSt(8, 10, 8, lv2, V(1), V(8)), Enc_kll_v1([k |-> 8, n |-> 10, mink |-> 8, levels |-> lv2, min |-> V(1), max |-> V(8)], 16, isz)),
        E(8, KSt(8, 12, 8, lv3e, V(1), V(9)), Enc_kll_v1([k |-> 8, n |-> 12, mink |-> 8, levels |-> lv3e, min |-> V(1), max |-> V(9)], 24, isz)) >>
KllCat == KllEntries("kll_f32", 4, F) \o KllEntries("kll_i64", 8, I64)

\* ------------------------------------------------------------------ classic quantiles (doubles), k = 2
QSt(n, bb, levels, lgws, min, max) ==
  [k |-> 2, n |-> n, empty |-> FALSE, est |-> (n >= 4), nret |-> Len(bb) + 2 * Len(levels),
   items |-> [i \in 1..Len(bb) |-> <<bb[i], 0>>] \o Flat([h \in 1..Len(levels) |-> [i \in 1..2 |-> <<levels[h][i], lgws[h]>>]]),
   min |-> min, max |-> max]
QEmpty == [k |-> 2, n |-> 0, empty |-> TRUE, est |-> FALSE, nret |-> 0, items |-> <<>>]
Q(st, img) == [variant |-> "quantiles_f64", aux |-> 0, st |-> st, img |-> img]
q3 == [k |-> 2, n |-> 3, min |-> D(1), max |-> D(3), bb |-> <<D(1), D(2), D(3)>>, levels |-> <<>>]
q7 == [k |-> 2, n |-> 7, min |-> D(1), max |-> D(7), bb |-> <<D(3), D(5), D(7)>>, levels |-> << <<D(1), D(6)>> >>]               \* pattern 0b1
q9 == [k |-> 2, n |-> 9, min |-> D(1), max |-> D(9), bb |-> <<D(9)>>, levels |-> << <<D(2), D(6)>> >>]                          \* pattern 0b10: only level 1
q13 == [k |-> 2, n |-> 13, min |-> D(1), max |-> D(13), bb |-> <<D(13)>>, levels |-> << <<D(1), D(4)>>, <<D(3), D(11)>> >>]    \* pattern 0b11
S3 == QSt(3, q3.bb, <<>>, <<>>, D(1), D(3))
S7 == QSt(7, q7.bb, q7.levels, <<1>>, D(1), D(7))
S9 == QSt(9, q9.bb, q9.levels, <<2>>, D(1), D(9))
S13 == QSt(13, q13.bb, q13.levels, <<1, 2>>, D(1), D(13))
QuantCat ==
  << \* empty images: every (preamble longs, flags, version) combination check_header_validity lists
     Q(QEmpty, Enc_cq_empty(2, 1, 1, 4)), Q(QEmpty, Enc_cq_empty(2, 2, 1, 4)), Q(QEmpty, Enc_cq_empty(2, 3, 1, 12)), Q(QEmpty, Enc_cq_empty(2, 3, 1, 4)),
     Q(QEmpty, Enc_cq_empty(2, 3, 2, 12)), Q(QEmpty, Enc_cq_empty(2, 3, 2, 4)),
     \* version 1: five preamble longs, never compact (base buffer occupies 2k slots once levels exist); full bit patterns only,
     \* where "one k-array per set bit" and "one k-array per level" describe the same bytes
     Q(S3, Enc_cq(q3, 1, FALSE, FALSE, D(0))), Q(S7, Enc_cq(q7, 1, FALSE, FALSE, D(0))), Q(S13, Enc_cq(q13, 1, FALSE, FALSE, D(0))),
     \* version 2: always compact
     Q(S3, Enc_cq(q3, 2, FALSE, FALSE, D(0))), Q(S7, Enc_cq(q7, 2, FALSE, TRUE, D(0))), Q(S9, Enc_cq(q9, 2, FALSE, TRUE, D(0))), Q(S13, Enc_cq(q13, 2, FALSE, FALSE, D(0))),
     \* version 3 compact and not compact
     Q(S3, Enc_cq(q3, 3, TRUE, TRUE, D(0))), Q(S7, Enc_cq(q7, 3, TRUE, TRUE, D(0))), Q(S9, Enc_cq(q9, 3, TRUE, TRUE, D(0))), Q(S13, Enc_cq(q13, 3, TRUE, FALSE, D(0))),
     Q(S3, Enc_cq(q3, 3, FALSE, TRUE, D(0))), Q(S7, Enc_cq(q7, 3, FALSE, FALSE, D(0))), Q(S13, Enc_cq(q13, 3, FALSE, TRUE, D(0))) >>

\* ------------------------------------------------------------------ t-digest
TdSt(k, total, min, max) == [k |-> k, empty |-> FALSE, total |-> total, min |-> min, max |-> max]
TdEmpty(k) == [k |-> k, empty |-> TRUE, total |-> 0]
DBE(n) == Rev(D(n))
FBE(n) == Rev(F(n))
TdCat ==
  LET T(variant, st, img) == [variant |-> variant, aux |-> 0, st |-> st, img |-> img] IN
  << T("tdigest_f64", TdEmpty(100), Enc_tdigest_empty(100)), T("tdigest_f32", TdEmpty(20), Enc_tdigest_empty(20)),
     T("tdigest_f64", TdSt(100, 1, D(5), D(5)), Enc_tdigest_single(100, D(5))), T("tdigest_f32", TdSt(100, 1, F(5), F(5)), Enc_tdigest_single(100, F(5))),
     T("tdigest_f64", TdSt(100, 6, D(1), D(9)), Enc_tdigest([k |-> 100, min |-> D(1), max |-> D(9), cent |-> << <<D(1), 1>>, <<D(4), 3>>, <<D(9), 1>> >>, buf |-> <<D(2)>>], 8, FALSE)),
     T("tdigest_f64", TdSt(50, 4, D(1), D(9)), Enc_tdigest([k |-> 50, min |-> D(1), max |-> D(9), cent |-> << <<D(1), 1>>, <<D(4), 2>>, <<D(9), 1>> >>, buf |-> <<>>], 8, TRUE)),
     T("tdigest_f64", TdSt(50, 3, D(2), D(8)), Enc_tdigest([k |-> 50, min |-> D(2), max |-> D(8), cent |-> <<>>, buf |-> <<D(8), D(2), D(3)>>], 8, FALSE)),
     T("tdigest_f32", TdSt(100, 6, F(1), F(9)), Enc_tdigest([k |-> 100, min |-> F(1), max |-> F(9), cent |-> << <<F(1), 1>>, <<F(4), 3>>, <<F(9), 1>> >>, buf |-> <<F(2)>>], 4, FALSE)),
     \* reference implementation, big endian; weights are IEEE numbers: 1, 2, 1
     T("tdigest_f64", TdSt(100, 4, D(1), D(9)), Enc_tdigest_ref_double(DBE(1), DBE(9), DBE(100), << <<DBE(1), DBE(1)>>, <<DBE(4), DBE(2)>>, <<DBE(9), DBE(1)>> >>)),
     T("tdigest_f64", TdSt(100, 4, D(1), D(9)), Enc_tdigest_ref_float(DBE(1), DBE(9), FBE(100), << <<FBE(1), FBE(1)>>, <<FBE(4), FBE(2)>>, <<FBE(9), FBE(1)>> >>)),
     T("tdigest_f32", TdSt(100, 4, F(1), F(9)), Enc_tdigest_ref_float(DBE(1), DBE(9), FBE(100), << <<FBE(1), FBE(1)>>, <<FBE(4), FBE(2)>>, <<FBE(9), FBE(1)>> >>)) >>

GenCat == ThetaCat \o TupleCat \o KllCat \o QuantCat \o TdCat \o ThetaSweepCat

\* the documented reader applied to the documented writer's image gives back the abstract state (self-consistency of the transcription)
GenHints(variant) == [dsh |-> DefaultSeedHash, ssz |-> 8,
                      isz |-> IF variant \in {"kll_f32", "tdigest_f32"} THEN 4 ELSE 8]
GenFam(variant) == CASE variant = "theta" -> "theta" [] variant = "tuple" -> "tuple" [] variant \in {"kll_f32", "kll_i64"} -> "kll"
                     [] variant = "quantiles_f64" -> "quantiles" [] OTHER -> "tdigest"
IsRefFormat(g) == GenFam(g.variant) = "tdigest" /\ SubSeq(g.img, 1, 3) = <<0, 0, 0>>
RoundTrip(g) == IsRefFormat(g) \/
                LET d == Dec(GenFam(g.variant), g.img, GenHints(g.variant)) IN
                /\ \A f \in DOMAIN g.st : f \in DOMAIN d.v /\ d.v[f] = g.st[f]
                /\ \A i \in 1..Len(d.c) : d.c[i][2]
====
