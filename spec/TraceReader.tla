---- MODULE TraceReader ----
(***************************************************************************)
(* Trace validation of outcome traces written by harness/reader_rec.cpp    *)
(* against the Reader contract (C11).  One segment per image:              *)
(*   Begin   {family, kind, size, infoLen, preLen, paths, img}             *)
(*   Attempt {family, kind, path, mode, n, pos, val, size, infoLen,        *)
(*            preLen, outcome, stage, off, leak, what}      (one per try)  *)
(* The contract's own action Attempt(a, o) is called with the logged       *)
(* attempt and outcome; it is enabled iff the outcome is allowed.          *)
(*                                                                         *)
(* Strict = TRUE  (TraceReader.cfg): a forbidden outcome disables the      *)
(*   event, validation stops there (replays, triage of one attempt).       *)
(* Strict = FALSE (TraceReaderScan.cfg): the enumeration consists of       *)
(*   independent attempts, so a forbidden outcome is reported              *)
(*   (<<"REJECT", clause, l>>), counted in TLC register 7 and validation   *)
(*   continues with the next attempt; the post-condition fails if the      *)
(*   count is not 0.  bin/vlib/p_reader.py re-validates every reported     *)
(*   attempt in isolation under Strict before it is reported.              *)
(* Clause names: "<mode>:<outcome>" (e.g. "prefix:OOB", "prefix:Same"      *)
(* for Same before infoLen, "corrupt:HugeAlloc"); a full image that is     *)
(* rejected with an exception is a round-trip matter ("C09:full:Throw").   *)
(***************************************************************************)
EXTENDS Reader, TraceCommon
CONSTANT Strict
tvars == <<img, last, count, l>>

ClauseName(e) == IF e.mode = "full" /\ e.outcome = "Throw" THEN "C09:full:Throw"
                 ELSE e.mode \o ":" \o e.outcome

TBegin == IsEvent("Begin") /\ LET e == Log[l]
                                  i == [size |-> e.size, infoLen |-> e.infoLen, preLen |-> e.preLen, loaded |-> TRUE] IN
            /\ Chk("image-wellformed", WellFormedImage(i))        \* harness sanity: infoLen <= size, preLen <= size
            /\ Load(i)

TAttempt == IsEvent("Attempt") /\ LET e == Log[l]
                                      a == [mode |-> e.mode, path |-> e.path, n |-> e.n, pos |-> e.pos, val |-> e.val] IN
            /\ Chk("same-image", e.size = img.size /\ e.infoLen = img.infoLen /\ e.preLen = img.preLen)
            /\ Chk("attempt-wellformed", WellFormedAttempt(img, a))
            /\ Chk("known-outcome", e.outcome \in Outcomes)
            /\ IF e.outcome \in Allowed(img, a)
                 THEN Attempt(a, e.outcome)
                 ELSE /\ PrintT(<<"REJECT", ClauseName(e), l>>)
                      /\ ~Strict
                      /\ TLCSet(7, TLCGet(7) + 1)
                      /\ UNCHANGED <<img, last, count>>

TInit == Init /\ l = 1 /\ TLCSet(7, 0)
TNext == TBegin \/ TAttempt
TSpec == TInit /\ [][TNext]_tvars

AcceptedR == /\ TLCGet(7) = 0
             /\ Accepted
====
