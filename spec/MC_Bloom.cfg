\* cap = 4 bits, 2 hashes, two seeds (incompatibility), 3 items, 3 filter slots (symmetric), 1 region,
\* every history of at most MaxCalls calls
SPECIFICATION MCSpec
CONSTANTS f1 = f1 f2 = f2 f3 = f3
 FltIds = {f1, f2, f3}
 MemIds = {1}
 Cfgs <- MCCfgs
 Items <- MCItems
 MaxCalls = 6
SYMMETRY Sym
INVARIANT Inv
CONSTRAINT Bound
VIEW NoOut
CHECK_DEADLOCK FALSE
