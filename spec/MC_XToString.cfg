\* X06: observer contract (to_string never changes the value, may only build caches) and sanity of the label table
SPECIFICATION Spec
INVARIANT TextIsCurrent
INVARIANT TableSane
PROPERTY ObserverStutters
CHECK_DEADLOCK FALSE
