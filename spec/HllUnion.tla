---- MODULE HllUnion ----
(***************************************************************************)
(* Tier A contract of hll_union (property C04), written from the property  *)
(* statement and the public documentation only.                            *)
(*                                                                         *)
(* An input sketch is a VALUE sv = [lgK, mode, fed, top, empty, ...] of    *)
(* the Hll contract: its distinct coupons while in LIST/SET mode, its      *)
(* per-slot maxima (standing for its unknown coupons) once in HLL mode.    *)
(* State un[u] of a union:                                                 *)
(*   lgMaxK                                                                *)
(*   hllLg  ghost: the lgK of every HLL-mode input since construction/reset*)
(*   fed    ghost: coupons offered directly or inside coupon-mode inputs   *)
(*   hins   ghost: the HLL-mode inputs [lgK, top]                          *)
(*   top    ghost, incremental: per-slot maximum of everything offered,    *)
(*          folded to 2^LgStar slots                                       *)
(*   empty  ghost: nothing was offered                                     *)
(* ResultDef: the result of get_result(any type) has lgK = LgStar =        *)
(* Min({lgMaxK} \cup hllLg) and the content of a single sketch of that lgK *)
(* that saw every input item: the coupon set fed while it reports a coupon *)
(* mode (possible only if no HLL-mode input was offered), the per-slot     *)
(* maxima ResultTop after folding (slot mod 2^LgStar) in HLL mode.  All    *)
(* ghosts are order-free (sets, maxima), so independence from the order of *)
(* presentation, from intermediate observers and from lvalue / rvalue      *)
(* update is part of the contract: no action has a parameter for them.     *)
(* Inv states that the incremental top is the declarative ResultTop        *)
(* (model-checked with TrackFed = TRUE); trace specifications use          *)
(* TrackFed = FALSE and drop fed / hins once an HLL-mode input arrived.    *)
(***************************************************************************)
EXTENDS Naturals, FiniteSets, Sequences, TLC
CONSTANTS UIds, LgMaxKs, UCoupons, Inputs, UBigs,    \* bounds used only by UNext (model checking); Inputs = catalogue of sketch values
          TrackFed
VARIABLE un
uvars == <<un>>

HLL == 2
Max2(a, b) == IF a >= b THEN a ELSE b
MaxOf(S) == IF S = {} THEN 0 ELSE CHOOSE x \in S : \A y \in S : y <= x
MinOf(S) == CHOOSE x \in S : \A y \in S : x <= y
Slots(lgK) == 0..(2^lgK - 1)
Zero(lgK) == [s \in Slots(lgK) |-> 0]
\* registers f of 2^from slots folded to 2^to slots (to <= from): slot s collects the slots congruent to it
Fold(f, from, to) == IF from = to THEN f
                     ELSE [s \in Slots(to) |-> MaxOf({f[s + j * 2^to] : j \in 0..(2^(from - to) - 1)})]
\* per-slot maximum of a coupon set at 2^lgK slots
CouponTop(S, lgK) == [s \in Slots(lgK) |-> MaxOf({c[2] : c \in {d \in S : d[1] % (2^lgK) = s}})]
Merge(f, g) == [s \in DOMAIN f |-> Max2(f[s], g[s])]

(* Sparse ghost (big = TRUE; trace specifications use it for lg_max_k > 16): no dense register function; fed is kept for *)
(* good and sp collects <<address-or-slot, value>> pairs standing for the HLL-mode inputs (their coupons when the input    *)
(* itself has a sparse ghost, else their non-zero registers).  Every such pair folds correctly by mod 2^LgStar because      *)
(* LgStar never exceeds the lg_k of an HLL-mode input.  The result registers are PairsOf(fed \cup sp, LgStar).             *)
PairsOf(S, lgK) == {<<s, MaxOf({c[2] : c \in {d \in S : d[1] % (2^lgK) = s}})>> : s \in {c[1] % (2^lgK) : c \in S}}
\* near-linear test that L is PairsOf(S, lgK) (same operator as in Hll.tla, model-checked there and in MC_HllUnion)
PairsMatch(L, S, lgK) ==
  LET W == {<<c[1] % (2^lgK), c[2]>> : c \in S} IN
  /\ Cardinality({p[1] : p \in L}) = Cardinality(L)
  /\ \A p \in L : p \in W
  /\ \A c \in S : \E v \in c[2]..63 : <<c[1] % (2^lgK), v>> \in L
NzOf(f) == {<<s, f[s]>> : s \in {x \in DOMAIN f : f[x] > 0}}

ULive == DOMAIN un
LgStar(o) == MinOf({o.lgMaxK} \cup o.hllLg)
UFresh(lgMaxK, big) == [lgMaxK |-> lgMaxK, hllLg |-> {}, fed |-> {}, hins |-> {}, top |-> IF big THEN <<>> ELSE Zero(lgMaxK),
                        empty |-> TRUE, big |-> big, sp |-> {}]
\* the declarative definition of the result registers
ResultTop(o) == LET lg == LgStar(o) IN
  [s \in Slots(lg) |-> MaxOf({c[2] : c \in {d \in o.fed : d[1] % (2^lg) = s}}
                             \cup UNION {{hh.top[s + j * 2^lg] : j \in 0..(2^(hh.lgK - lg) - 1)} : hh \in o.hins})]
KeepU(o, hl) == TrackFed \/ o.big \/ hl = {}

AddCoupons(o, S) ==
  [o EXCEPT !.fed = IF KeepU(o, o.hllLg) THEN @ \cup S ELSE {},
            !.top = IF o.big THEN @ ELSE Merge(@, CouponTop(S, LgStar(o))),
            !.empty = @ /\ S = {}]
AddHll(o, sv) ==
  LET lg == LgStar(o)  ng == IF sv.lgK < lg THEN sv.lgK ELSE lg  hl == o.hllLg \cup {sv.lgK} IN
  [o EXCEPT !.hllLg = hl,
            !.fed = IF KeepU(o, hl) THEN @ ELSE {},
            !.hins = IF TrackFed THEN @ \cup {[lgK |-> sv.lgK, top |-> sv.top]} ELSE {},
            !.top = IF o.big THEN @
                    ELSE Merge(Fold(@, lg, ng), IF sv.big THEN CouponTop(sv.fed, ng) ELSE Fold(sv.top, sv.lgK, ng)),
            !.sp = IF o.big THEN @ \cup (IF sv.big THEN sv.fed ELSE NzOf(sv.top)) ELSE @,
            !.empty = @ /\ sv.empty]

UInit == un = <<>>
UNew(u, lgMaxK, big) == un' = (u :> UFresh(lgMaxK, big)) @@ un
\* update(const hll_sketch&) and update(hll_sketch&&): identical in the contract.  An EMPTY input contributes no item;
\* whether an empty HLL-mode input still lowers the precision is not fixed by the statement: parameter counted.
UpdateSketch(u, sv, counted) ==
  /\ u \in ULive
  /\ IF sv.empty THEN /\ (counted => sv.mode = HLL)
                      /\ un' = IF counted THEN [un EXCEPT ![u] = AddHll(@, sv)] ELSE un
     ELSE /\ counted = (sv.mode = HLL)
          /\ un' = [un EXCEPT ![u] = IF sv.mode = HLL THEN AddHll(@, sv) ELSE AddCoupons(@, sv.fed)]
\* update(item): the item's coupon
UpdateItem(u, c) == u \in ULive /\ un' = [un EXCEPT ![u] = AddCoupons(@, {c})]
UpdateIgnoredItem(u) == u \in ULive /\ UNCHANGED un
UReset(u) == u \in ULive /\ un' = [un EXCEPT ![u] = UFresh(@.lgMaxK, @.big)]
\* observers (get_result, get_estimate, bounds, is_empty, get_lg_config_k) do not change the contract state
Observe(u) == u \in ULive /\ UNCHANGED un

\* a result value r = [lgK, mode, coup (set) | regs (function on slots), empty] returned by get_result(any type)
ResultOK(o, r) ==
  /\ r.lgK = LgStar(o)
  /\ r.empty = o.empty
  /\ IF r.mode = HLL THEN (IF o.big THEN PairsMatch(r.nz, o.fed \cup o.sp, LgStar(o)) ELSE r.regs = o.top)
     ELSE o.hllLg = {} /\ r.coup = o.fed

UNext == \E u \in UIds :
          \/ \E k \in LgMaxKs, big \in UBigs : UNew(u, k, big)
          \/ \E sv \in Inputs, cnt \in BOOLEAN : UpdateSketch(u, sv, cnt)
          \/ \E c \in UCoupons : UpdateItem(u, c)
          \/ UReset(u)
USpec == UInit /\ [][UNext]_uvars

UInv == \A u \in ULive : LET o == un[u] IN
         /\ ~o.big => /\ DOMAIN o.top = Slots(LgStar(o))
                      /\ TrackFed => o.top = ResultTop(o)
                      /\ (~TrackFed /\ o.hllLg # {}) => (o.fed = {} /\ o.hins = {})
         \* the sparse ghost describes the same registers as the declarative definition, and the near-linear test accepts exactly them
         /\ o.big => /\ o.top = <<>>
                     /\ TrackFed => /\ PairsOf(o.fed \cup o.sp, LgStar(o)) = NzOf(ResultTop(o))
                                     /\ PairsMatch(NzOf(ResultTop(o)), o.fed \cup o.sp, LgStar(o))
         /\ TrackFed => (o.empty = (o.fed = {} /\ \A hh \in o.hins : hh.top = Zero(hh.lgK)))
====
