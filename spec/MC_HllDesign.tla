---- MODULE MC_HllDesign ----
\* coupon alphabets <<addr, val>> of the bounded HllDesign runs (config files cannot hold tuples)
EXTENDS HllDesign
\* 4 slots: two addresses per slot 0,1,3; values 15..18 are exceptions at curMin 0; {16,17,15,3} on the four slots gives a
\* three-step cur-min shift during which 15, 16, 17 return to the nibble array one after the other
Alpha4 == {<<0,1>>, <<4,2>>, <<0,16>>, <<1,1>>, <<1,17>>, <<5,18>>, <<2,2>>, <<2,15>>, <<3,1>>, <<3,3>>, <<7,16>>}
\* 8 slots, set stage
Alpha8 == {<<0,1>>, <<8,2>>, <<1,16>>, <<2,1>>, <<3,2>>, <<4,1>>, <<5,15>>, <<6,1>>, <<7,3>>, <<15,2>>}
\* 16 slots, the code's real thresholds (list of 8, then HLL because lgK < 8)
Alpha16 == {<<0,1>>, <<16,2>>, <<1,1>>, <<2,16>>, <<3,1>>, <<4,2>>, <<5,1>>, <<6,3>>, <<22,1>>}
====
