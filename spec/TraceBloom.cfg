SPECIFICATION TSpec
CONSTANTS FltIds = {} MemIds = {} Cfgs = {} Items = {}
INVARIANT Inv
POSTCONDITION Accepted
CHECK_DEADLOCK FALSE
