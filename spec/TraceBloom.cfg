SPECIFICATION TSpec
CONSTANTS FltIds = {} MemIds = {} Cfgs = {} Items = {} CheckDesign = FALSE
INVARIANT Inv
POSTCONDITION Accepted
CHECK_DEADLOCK FALSE
