SPECIFICATION TSpec
CONSTANTS FltIds = {} MemIds = {} Cfgs = {} Items = {} CheckDesign = TRUE
INVARIANT Inv
POSTCONDITION Accepted
CHECK_DEADLOCK FALSE
