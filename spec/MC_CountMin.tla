---- MODULE MC_CountMin ----
\* bounded instance of the multi-object count-min contract itself: every admissible outcome (any cell array) of update and
\* merge for a 1 x 3 configuration and a second seed; Inv: total weight = sum of update weights, truth = fold of the stream.
EXTENDS CountMin
MCCfgs == {[rows |-> 1, buckets |-> 3, seed |-> 1], [rows |-> 1, buckets |-> 3, seed |-> 2]}
Bound == \A i \in Live : obj[i].total <= MaxTotal /\ Len(obj[i].stream) <= MaxTotal
====
