---- MODULE MC_Theta ----
\* bounded instance of the multi-object Theta contract: copies that diverge, resets, trims
EXTENDS Theta
Bound == \A i \in Live : Cardinality(obj[i].seen) <= 4
====
