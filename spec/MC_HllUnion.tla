---- MODULE MC_HllUnion ----
\* bounded instance of the union contract itself: the incremental ghost `top` equals the declarative ResultTop for every
\* sequence of inputs (UInv), for lg_max_k 1..3 against inputs of lg_k 1..3
EXTENDS HllUnion
Sk(lgK, mode, S) == [lgK |-> lgK, mode |-> mode, fed |-> IF mode = HLL THEN {} ELSE S, top |-> CouponTop(S, lgK), empty |-> S = {}, big |-> FALSE]
A == {<<1, 2>>, <<6, 1>>}
B == {<<3, 3>>, <<5, 1>>}
Catalogue == {Sk(2, 0, {}), Sk(1, HLL, {})}
             \cup {Sk(k, 0, S) : k \in {1, 3}, S \in {A}} \cup {Sk(2, 0, B)}
             \cup {Sk(k, HLL, S) : k \in {1, 2, 3}, S \in {A, B}}
MCItems == {<<0, 1>>, <<7, 2>>}
====
