---- MODULE MC_XKs ----
\* X01: exhaustive model of the Kolmogorov-Smirnov contract and of the two walk mechanisms (see XKs.tla)
EXTENDS XKs
\* ---- exhaustive model: every pair of small non-empty views is a state (no transitions)
CONSTANTS MaxItem, MaxWeight, MaxLen
VARIABLES va, vb
Items == 1..MaxItem
RECURSIVE SeqsUpTo(_)
SeqsUpTo(n) == IF n = 0 THEN {<<>>} ELSE LET S == SeqsUpTo(n - 1) IN S \cup {Append(s, <<x, w>>) : s \in {t \in S : Len(t) = n - 1}, x \in Items, w \in 1..MaxWeight}
RECURSIVE CumSeq(_, _)
CumSeq(ws, i) == IF i = 0 THEN <<>> ELSE LET c == CumSeq(ws, i - 1) IN Append(c, (IF i = 1 THEN 0 ELSE c[i - 1]) + ws[i])
MkView(s) == [it |-> [i \in 1..Len(s) |-> s[i][1]], cw |-> CumSeq([i \in 1..Len(s) |-> s[i][2]], Len(s))]
Views == {MkView(s) : s \in {t \in SeqsUpTo(MaxLen) : Len(t) > 0 /\ \A i \in 1..(Len(t) - 1) : t[i][1] <= t[i + 1][1]}}

Init == va \in Views /\ vb \in Views
Next == UNCHANGED <<va, vb>>
Spec == Init /\ [][Next]_<<va, vb>>

\* theorems of the contract (checked for every pair)
Inv == /\ WellFormed(va)
       /\ KsNum(va, vb) = KsNumDef(va, vb)                 \* the group-end evaluation is the definition
       /\ KsNum(va, vb) = KsNum(vb, va)                    \* symmetric
       /\ KsNum(va, vb) >= 0 /\ KsNum(va, vb) <= ViewN(va) * ViewN(vb)   \* D in [0, 1]
       /\ KsNum(va, va) = 0                                \* identical sketches
       \* disjoint supports: D = 1 exactly when one support lies entirely below the other
       /\ (va.it[Len(va.it)] < vb.it[1] => KsNum(va, vb) = ViewN(va) * ViewN(vb))
\* the mechanisms against the contract
WalkNeverBelow == Walk(va, vb) >= KsNum(va, vb)
WalkExactWithoutSharedItems == ~SharesItem(va, vb) => Walk(va, vb) = KsNum(va, vb)
WalkExact == Walk(va, vb) = KsNum(va, vb)                  \* FALSE for the shipped walk (negative configuration)
WalkGExact == WalkG(va, vb) = KsNum(va, vb)
====
