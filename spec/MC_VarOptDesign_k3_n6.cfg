\* exhaustive run of the VarOpt design model (var_opt_sketch::update) refining the contract VarOpt:
\* K = sketch size k, items 1..MaxN offered in this order (items are interchangeable), every weight
\* sequence over Wts, every deletion choice of downsample_candidate_set.  Variant 0 = the code.
SPECIFICATION Spec
CONSTANTS K = 3
 MaxN = 6
 Wts = {1, 2, 3, 10}
 Variant = 0
INVARIANT DInv CInv
PROPERTY Refines
CHECK_DEADLOCK FALSE
