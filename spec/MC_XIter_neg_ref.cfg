\* X07 negative configuration (TLC must report a violation): a postfix increment that returns a reference to its dead temporary
SPECIFICATION Spec
CONSTANTS Entries = {"a", "b"} MaxLen = 2 PostfixReturns = "reference"
INVARIANT SavedStayValid
CHECK_DEADLOCK FALSE
