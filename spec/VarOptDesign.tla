---- MODULE VarOptDesign ----
(***************************************************************************)
(* Tier B design model of var_opt_sketch::update (sampling/include/        *)
(* var_opt_sketch_impl.hpp): warm-up until h > k (transition_from_warmup), *)
(* then the dispatch light / heavy with r = 1 / heavy general, growth of   *)
(* the candidate set by popping H's minima while                           *)
(*        next_wt * num_cands < wt_cands + next_wt                         *)
(* (grow_candidate_set), and deletion of ONE candidate                     *)
(* (downsample_candidate_set; the deleted candidate is the one random      *)
(* choice of the algorithm: explicit parameter del).  With integer weights *)
(* every comparison the code makes in doubles is exact, so the model       *)
(* decides identically.  TLC checks that every step is a step of the       *)
(* contract VarOpt (PROPERTY Refines) for every history in the bounds.     *)
(* The heap is modelled by its content (H as a function): only the         *)
(* minimum matters, and equal minima are always popped together.           *)
(***************************************************************************)
EXTENDS Naturals, FiniteSets, Sequences, TLC
CONSTANTS K,        \* sketch size k
          MaxN,     \* items 1..MaxN are offered in this order (items are interchangeable)
          Wts,      \* integer weights
          Variant   \* 0 = the code.  Negative configs (TLC must report a violation of the contract):
                    \* 1 = candidate-set growth goes one item too far, 2 = the weight of the items popped into
                    \* the candidate set is not added to the reservoir total, 3 = heavy r = 1 case forgets the pop
VARIABLES n, H, R, twr, stream, tot
dvars == <<n, H, R, twr, stream, tot>>

MinW(h) == CHOOSE w \in {h[x] : x \in DOMAIN h} : \A y \in DOMAIN h : w <= h[y]
PopMin(h) == CHOOSE x \in DOMAIN h : h[x] = MinW(h)       \* peek_min / pop_min_to_m_region
Drop(h, x) == [y \in DOMAIN h \ {x} |-> h[y]]
Push(h, x, w) == (x :> w) @@ h

\* grow_candidate_set(wt_cands, num_cands): <<remaining H, M, wt_cands, num_cands>>
RECURSIVE Grow(_, _, _, _)
Grow(h, M, wt, num) ==
  IF DOMAIN h = {} THEN <<h, M, wt, num>>
  ELSE LET mw == MinW(h)  x == PopMin(h) IN
       IF mw * num < wt + mw
       THEN Grow(Drop(h, x), M \cup {x}, wt + mw, num + 1)
       ELSE <<h, M, wt, num>>
\* negative variant 1: one more item is popped after the loop has (correctly) stopped
GrowTooFar(h, M, wt, num) ==
  LET g == Grow(h, M, wt, num) IN
  IF DOMAIN g[1] = {} THEN g
  ELSE LET x == PopMin(g[1]) IN <<Drop(g[1], x), g[2] \cup {x}, g[3] + g[1][x], g[4] + 1>>
G(h, M, wt, num) == IF Variant = 1 THEN GrowTooFar(h, M, wt, num) ELSE Grow(h, M, wt, num)

\* downsample_candidate_set: the candidates are M (explicit weights) and the old reservoir; one of them is deleted
Down(g, Rold, del) ==
  /\ del \in g[2] \cup Rold
  /\ H' = g[1]
  /\ R' = (g[2] \cup Rold) \ {del}
  /\ twr' = IF Variant = 2 /\ g[2] # {} THEN g[3] - stream'[CHOOSE y \in g[2] : TRUE] ELSE g[3]

NoDel == 0
Init == n = 0 /\ H = <<>> /\ R = {} /\ twr = 0 /\ stream = <<>> /\ tot = 0
UpdateK(k, x, w, del) ==      \* k is a parameter so that trace validation (TraceVarOptDesign) can bind it per sketch
  /\ n' = n + 1 /\ stream' = (x :> w) @@ stream /\ tot' = tot + w
  /\ IF R = {}
     THEN \* update_warmup_phase
          LET h1 == Push(H, x, w) IN
          IF Cardinality(DOMAIN h1) <= k
          THEN del = NoDel /\ H' = h1 /\ UNCHANGED <<R, twr>>
          ELSE \* transition_from_warmup: the two lightest leave H, the lightest is the first reservoir item
               LET a == PopMin(h1)  h2 == Drop(h1, a)
                   b == PopMin(h2)  h3 == Drop(h2, b)
               IN Down(G(h3, {b}, h1[a] + h1[b], 2), {a}, del)
     ELSE LET r == Cardinality(R)
              c1 == DOMAIN H = {} \/ w <= MinW(H)       \* is it the new item's turn for the reservoir?
              c2 == w * r < w + twr                      \* weight < (weight + total_wt_r) / r
          IN IF c1 /\ c2 THEN Down(G(H, {x}, twr + w, r + 1), R, del)                       \* update_light
             ELSE IF r = 1 THEN LET h1 == Push(H, x, w)  b == PopMin(h1) IN
                                Down(G(Drop(h1, b), {b}, h1[b] + twr, 2), R, del)          \* update_heavy_r_eq1
             ELSE Down(G(Push(H, x, w), {}, twr, r), R, del)                               \* update_heavy_general
Update(x, w, del) == UpdateK(K, x, w, del)
Next == n < MaxN /\ \E w \in Wts, del \in 0..MaxN : Update(n + 1, w, del)
Spec == Init /\ [][Next]_dvars

\* representation invariants of the design
DInv == /\ Cardinality(DOMAIN H) + Cardinality(R) = (IF n <= K THEN n ELSE K)
        /\ DOMAIN H \cap R = {}
        /\ (n <= K => R = {})
        \* nothing in the heap is lighter than tau, everything in the reservoir is strictly lighter
        /\ \A x \in DOMAIN H : H[x] * Cardinality(R) >= twr
        /\ \A x \in R : stream[x] * Cardinality(R) < twr

\* refinement: every design step is an Update step of the contract with the design's own post-state as witness
C == INSTANCE VarOpt WITH
       obj <- (1 :> [k |-> K, n |-> n, H |-> H, R |-> R, twr |-> twr, stream |-> stream, tot |-> tot]),
       un <- <<>>, Ids <- {1}, UIds <- {}, Items <- 1..MaxN, Ks <- {K}
Refines == [][\E x \in 1..MaxN, w \in Wts : C!Update(1, x, w, H', R', twr')]_dvars
CInv == C!Inv
====
