---- MODULE MC_XCommon ----
(***************************************************************************)
(* X09 - finite case analysis of three helpers whose code is an algorithm  *)
(* rather than a table:                                                    *)
(*  "ceil": the or-shift cascade of ceiling_power_of_2 (scaled to 16 bits: *)
(*          shifts 1, 2, 4, 8) against "the power of two r with r/2 < n    *)
(*          <= r" for every n in 1..2^15, and its two documented-nowhere   *)
(*          corners (0 -> 0, above the largest power -> 0);                *)
(*  "lg":   lg_size_from_count's formula against "smallest g with n <=     *)
(*          2^g * load factor" for n in 1..4096 and the load factors 1/2,  *)
(*          3/4, 15/16 (LoadFactors); with 1/4 the formula is NOT the      *)
(*          smallest sufficient size (negative configuration);             *)
(*  "str":  the string layout: decode(encode(s)) = s, the image length is  *)
(*          the sum of size_of_item, and EVERY proper prefix of the image  *)
(*          is refused, for all sequences of up to 2 strings of up to 2    *)
(*          bytes over {0, 7}.                                             *)
(***************************************************************************)
EXTENDS XCommon
CONSTANTS LoadFactors          \* set of <<num, den>>
VARIABLES what, n, lf, strs
vars == <<what, n, lf, strs>>

Bit(x, k) == (x \div (2 ^ k)) % 2
Or16(a, b) == LET RECURSIVE acc(_) acc(k) == IF k < 0 THEN 0 ELSE (IF Bit(a, k) = 1 \/ Bit(b, k) = 1 THEN 2 ^ k ELSE 0) + acc(k - 1) IN acc(15)
Shr(x, s) == x \div (2 ^ s)
\* the code, on 16-bit words
CodeCeil16(x) == LET a == (x + 65535) % 65536  b == Or16(a, Shr(a, 1))  c == Or16(b, Shr(b, 2))  d == Or16(c, Shr(c, 4))  e == Or16(d, Shr(d, 8))
                 IN (e + 1) % 65536
RECURSIVE FloorLog2(_)
FloorLog2(x) == IF x > 1 THEN 1 + FloorLog2(x \div 2) ELSE 0
\* log2(n) + ((n > trunc((1 << (log2(n) + 1)) * lf)) ? 2 : 1)
CodeLgSize(x, f) == LET l == FloorLog2(x) IN l + (IF x > ((2 ^ (l + 1)) * f[1]) \div f[2] THEN 2 ELSE 1)

LFs == {<<1, 2>>, <<3, 4>>, <<15, 16>>}
LFsLow == {<<1, 4>>}
Bytes2 == {<<>>, <<0>>, <<7>>, <<0, 0>>, <<0, 7>>, <<7, 0>>, <<7, 7>>}
StrSeqs == {<<>>} \cup {<<a>> : a \in Bytes2} \cup {<<a, b>> : a \in Bytes2, b \in Bytes2}
Init == \/ what = "ceil" /\ n \in 0..40000 /\ lf = <<1, 1>> /\ strs = <<>>
        \/ what = "lg" /\ n \in 1..4096 /\ lf \in LoadFactors /\ strs = <<>>
        \/ what = "str" /\ n = 0 /\ lf = <<1, 1>> /\ strs \in StrSeqs
Next == UNCHANGED vars
Spec == Init /\ [][Next]_vars

RECURSIVE SumSeq(_)
SumSeq(s) == IF s = <<>> THEN 0 ELSE Head(s) + SumSeq(Tail(s))
CeilOK == what = "ceil" =>
            IF n >= 1 /\ n <= 32768 THEN LET r == CodeCeil16(n) IN (\E j \in 0..15 : r = 2 ^ j) /\ n <= r /\ (r = 1 \/ r \div 2 < n)
            ELSE CodeCeil16(n % 65536) = 0          \* 0 and values above 2^15 wrap to 0 (documented nowhere: free in the contract)
LgOK == what = "lg" => LgSizeOK(n, lf[1], lf[2], CodeLgSize(n, lf))
StrOK == what = "str" =>
           LET img == StrImage(strs) IN
           /\ Len(img) = SumSeq(StrSizes(strs))
           /\ StrDecode(img, Len(strs)) = [ok |-> TRUE, strs |-> strs]
           /\ \A cut \in 0..(Len(img) - 1) : ~StrDecode(SubSeq(img, 1, cut), Len(strs)).ok
====
