\* C08(b) ensemble semantics: all leaves of all coin strings, for every pair of streams and every merge within the bound; HRA only in the quick tier
\* SecSizes: section sizes by generation (code k = 12: <<12, 8, 6, 4, 4>>), InitSec: initial number of sections (code: 3)
SPECIFICATION ESpec
CONSTANTS Ids = {1, 2}
 Items = {1, 2}
 SecSizes <- Sec22
 InitSec = 1
 Hras = {TRUE}
 MaxN = 12
 MergeCoin = "adopt"
INVARIANT EUnbiased ESchedule
CONSTRAINT ENBound ESmallOthers
CHECK_DEADLOCK FALSE
