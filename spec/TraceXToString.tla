---- MODULE TraceXToString ----
(***************************************************************************)
(* X06 - trace validation of to_string / items_to_string of every family   *)
(* against XToString.  d0 / d1: image of copy A before / after its         *)
(* to_string; dB: image of copy B after two to_string calls; dC: image of   *)
(* copy C that was never stringified (equal images <=> equal tokens).       *)
(***************************************************************************)
EXTENDS XToString, TraceCommon
VARIABLES group
tvars == <<l, group>>

TBegin == IsEvent("Begin") /\ group' = Log[l].group

NonEmptyOf(e) == IF "Empty" \in DOMAIN e.get THEN e.get["Empty"] = "false" ELSE IF "Total Weight" \in DOMAIN e.get THEN e.get["Total Weight"] /= "0" ELSE TRUE

TToString == IsEvent("ToString") /\ LET e == Log[l] IN
  /\ Chk("known-family", e.fam \in Families)
  /\ Chk("text-not-empty", e.len > 0)
  /\ Chk("state-unchanged-same-object", e.d0 = e.d1)
  /\ Chk("state-unchanged-against-untouched-copy", e.dB = e.dC /\ e.d1 = e.dC)
  /\ Chk("same-text-twice", e.sameText)
  /\ Chk("summary-mentions-getter-values", e.variant = "items-only" \/ MentionsOK(e.fam, e.fields, e.get, e.dev, NonEmptyOf(e)))
  \* var_opt prints the sample as its two regions: h + r is the number of samples
  /\ Chk("varopt-h-plus-r", (e.fam = "varopt" /\ e.variant /= "items-only") =>
           ("h" \in DOMAIN e.fieldsI /\ "r" \in DOMAIN e.fieldsI /\ e.fieldsI["h"] + e.fieldsI["r"] = e.getI["num_samples"]))
  /\ UNCHANGED group

TInit == l = 1 /\ group = ""
TNext == TBegin \/ TToString
TSpec == TInit /\ [][TNext]_tvars
====
