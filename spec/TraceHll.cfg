\* job hll (C03, C06): the contract and the C06 clauses; clauses named C09:... are not enforced here (see TraceHll.tla)
SPECIFICATION TSpec
CONSTANTS Ids = {} LgKs = {} Coupons = {} Bigs = {} TrackFed = FALSE CheckDesign = FALSE Strict09 = FALSE SkPrefix = ""
INVARIANT TInv
POSTCONDITION Accepted
CHECK_DEADLOCK FALSE
