\* one sketch, k = 2 (code minimum), items 1..3, every stream of up to 16 items (thorough tier) (bit patterns 0..4: carries over two levels),
\* every coin string of every carry propagation
SPECIFICATION Spec
CONSTANTS Ids = {1}
 Items = {1, 2, 3}
 Ks = {2}
 MaxN = 16
 ZipIgnoresCoin = 0
INVARIANT RepOK CInv Martingale
PROPERTY Refines
CONSTRAINT NBound
CHECK_DEADLOCK FALSE
