\* quick tier: all interleavings to depth 6 over 3 slots under the quotas explained in GenLifecycle.tla
SPECIFICATION GSpec
CONSTANTS Slots = {1, 2, 3}
 MutOps = {"few", "many", "alt"}
 Depth = 6
 MaxMut = 2
 MaxObs = 1
 MaxReset = 1
 MinRel = 1
CONSTRAINT Collect
POSTCONDITION Post
CHECK_DEADLOCK FALSE
