SPECIFICATION TSpec
CONSTANTS Ids = {} Vals = {} Ks = {} Cap = 0 BufCap = 0 MaxN = 0
INVARIANT Inv
POSTCONDITION Accepted
CHECK_DEADLOCK FALSE
