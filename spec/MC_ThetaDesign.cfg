SPECIFICATION Spec
CONSTANTS LgK = 2
 LgRf = 1
 MaxHash = 9
 StartTheta = 10
 MinLgK = 1
 RebuildPivot = 5
INVARIANT Sample CInv
PROPERTY Refines
CHECK_DEADLOCK FALSE
