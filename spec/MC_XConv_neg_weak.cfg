\* X03 negative configuration (TLC must report a violation): rank equality does not survive a conversion that merges items
SPECIFICATION Spec
CONSTANTS MaxLen = 2 MaxImg = 2 Strict = FALSE
INVARIANT RanksCommute
CHECK_DEADLOCK FALSE
