---- MODULE CpcTable ----
(***************************************************************************)
(* Tier B model of u32_table (cpc/include/u32_table_impl.hpp): the open-   *)
(* addressing hash table behind the surprising-value table of CpcMech      *)
(* (where it is abstracted to a set).  Linear probing from the home slot   *)
(* item >> (num_valid_bits - lg_size) with wrap-around; maybe_insert with  *)
(* growth at load > 3/4; maybe_delete with repair of the probe cluster     *)
(* (every item between the freed slot and the next empty slot is taken out *)
(* and re-inserted, continuing past the last slot at slot 0) and shrinking *)
(* at load < 1/4; rebuild re-inserts everything in slot order.             *)
(* TLC checks, for every sequence of inserts / deletes over all items of   *)
(* ValidBits bits, refinement to a SET: the novelty answer of every call   *)
(* is the set's, every stored item is reachable by lookup from its home    *)
(* slot, no item is stored twice, num_items is the set's size.             *)
(* Wrap = FALSE is the negative configuration: the repair loop stops at    *)
(* the last slot (a seeded fault of exactly this kind was caught by the    *)
(* traces; TLC reports it here as a violated invariant).                   *)
(***************************************************************************)
EXTENDS Naturals, FiniteSets, Sequences, TLC
CONSTANTS ValidBits,   \* code: 6 + lg_k; items are 0 .. 2^ValidBits - 1
          MinLg,       \* code: 2 (smallest table 4 slots)
          MaxLg,       \* bound of the model: insertion that would need a larger table is disabled
          Wrap         \* TRUE = code
VARIABLES slots, lg, n, S      \* slots: 0-based function; S: ghost set of items
tvars == <<slots, lg, n, S>>
Empty == 2 ^ ValidBits        \* UINT32_MAX
Items == 0..(2 ^ ValidBits - 1)
Size(l) == 2 ^ l
Home(x, l) == x \div (2 ^ (ValidBits - l))
Blank(l) == [i \in 0..(Size(l) - 1) |-> Empty]

\* lookup: first slot from the home slot that holds the item or is empty
RECURSIVE Probe(_, _, _, _)
Probe(sl, l, x, p) == IF sl[p] = x \/ sl[p] = Empty THEN p ELSE Probe(sl, l, x, (p + 1) % Size(l))
Lookup(sl, l, x) == Probe(sl, l, x, Home(x, l))
MustInsert(sl, l, x) == [sl EXCEPT ![Lookup(sl, l, x)] = x]
\* rebuild: re-insert in slot order into a blank table of the new size
RECURSIVE Refill(_, _, _, _)
Refill(new, nl, old, i) == IF i = Len(old) THEN new
                           ELSE Refill(IF old[i + 1] = Empty THEN new ELSE MustInsert(new, nl, old[i + 1]), nl, old, i + 1)
AsSeq(sl, l) == [i \in 1..Size(l) |-> sl[i - 1]]
Rebuild(sl, l, nl) == Refill(Blank(nl), nl, AsSeq(sl, l), 0)
\* cluster repair after freeing slot `index`
RECURSIVE Repair(_, _, _)
Repair(sl, l, p) ==
  IF (~Wrap /\ p >= Size(l)) THEN sl                       \* negative configuration: no wrap-around
  ELSE LET q == p % Size(l) IN
       IF sl[q] = Empty THEN sl
       ELSE Repair(MustInsert([sl EXCEPT ![q] = Empty], l, sl[q]), l, q + 1)

Init == lg = MinLg /\ slots = Blank(MinLg) /\ n = 0 /\ S = {}
MaybeInsert(x) ==
  LET i == Lookup(slots, lg, x) IN
  IF slots[i] = x THEN x \in S /\ UNCHANGED tvars            \* answer "not novel" must be the set's
  ELSE /\ x \notin S                                         \* answer "novel" must be the set's
       /\ S' = S \cup {x} /\ n' = n + 1
       /\ LET s1 == [slots EXCEPT ![i] = x] IN
          IF 4 * (n + 1) > 3 * Size(lg)
          THEN lg < MaxLg /\ lg' = lg + 1 /\ slots' = Rebuild(s1, lg, lg + 1)
          ELSE lg' = lg /\ slots' = s1
MaybeDelete(x) ==
  LET i == Lookup(slots, lg, x) IN
  IF slots[i] = Empty THEN x \notin S /\ UNCHANGED tvars
  ELSE /\ x \in S
       /\ S' = S \ {x} /\ n' = n - 1
       /\ LET s1 == Repair([slots EXCEPT ![i] = Empty], lg, i + 1) IN
          IF 4 * (n - 1) < Size(lg) /\ lg > MinLg
          THEN lg' = lg - 1 /\ slots' = Rebuild(s1, lg, lg - 1)
          ELSE lg' = lg /\ slots' = s1
\* the guards x \in S / x \notin S make a wrong novelty answer a DEADLOCK of that call; AnswerOK states it as an invariant
Next == \E x \in Items : MaybeInsert(x) \/ MaybeDelete(x)
Spec == Init /\ [][Next]_tvars

Stored == {slots[i] : i \in 0..(Size(lg) - 1)} \ {Empty}
TableOK ==
  /\ Stored = S                                                          \* refinement mapping: the table IS the set
  /\ n = Cardinality(S)
  /\ Cardinality({i \in 0..(Size(lg) - 1) : slots[i] # Empty}) = n       \* nothing stored twice
  /\ \A x \in S : slots[Lookup(slots, lg, x)] = x                        \* every item reachable from its home slot
  /\ \A x \in Items \ S : slots[Lookup(slots, lg, x)] = Empty
  /\ 4 * n <= 3 * Size(lg)
AnswerOK == \A x \in Items : (slots[Lookup(slots, lg, x)] = x) = (x \in S)
C == INSTANCE CpcTableSet
Refines == [][\E x \in Items : C!Insert(x) \/ C!Delete(x) \/ UNCHANGED S]_tvars
====
