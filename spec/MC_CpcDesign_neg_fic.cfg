\* NEGATIVE config (expected: invariant Rep violated): first_interesting_column one too high after a window move
SPECIFICATION Spec
CONSTANTS LgK = 1
 Alphabet = {0, 1, 2, 3, 64, 65, 66, 67, 5, 71, 9, 74}
 Prefix <- NoPrefix
 FicBias = 1
INVARIANT Rep RT Observables
PROPERTY Refines
CHECK_DEADLOCK FALSE
