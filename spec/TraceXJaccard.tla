---- MODULE TraceXJaccard ----
(***************************************************************************)
(* X04 - trace validation of theta / tuple Jaccard similarity and of the   *)
(* bounds on ratios against XJaccard.  Operands are logged as the API      *)
(* shows them (retained hashes as order tokens, theta, emptiness); results *)
(* as order tokens next to the reference points 0 and 1, the estimate also *)
(* as round(est * 1e5) so that it can be compared with the exact ratio of  *)
(* sample counts (|est5 * den - num * 1e5| <= den, i.e. 1e-5 absolute;     *)
(* den < 21000 keeps the products within 32 bits).                         *)
(***************************************************************************)
EXTENDS XJaccard, TraceCommon
VARIABLES mode
tvars == <<l, mode>>

Sk(r) == [ent |-> ToSet(r.ent), theta |-> r.theta, empty |-> r.empty]
SkOK(r) == Len(r.ent) = r.n /\ Cardinality(ToSet(r.ent)) = r.n /\ \A i \in DOMAIN r.ent : r.ent[i] < r.theta
Abs(x) == IF x < 0 THEN -x ELSE x
IsRatio(est5, num, den) == den = 0 \/ den > 21000 \/ Abs(est5 * den - num * 100000) <= den
Ordered(e) == e.zero <= e.lb /\ e.lb <= e.est /\ e.est <= e.ub /\ e.ub <= e.one

TBegin == IsEvent("Begin") /\ mode' = Log[l].mode

TJaccard == IsEvent("Jaccard") /\ LET e == Log[l] IN \A A \in {Sk(e.a)} : \A B \in {Sk(e.b)} :
  /\ Chk("operands-well-formed", SkOK(e.a) /\ SkOK(e.b))
  /\ Chk("jaccard-returns", ~e.threw /\ e.finite)
  /\ Chk("bounds-order", Ordered(e))
  /\ Chk("estimate-is-sample-ratio-at-common-theta", IsRatio(e.est5, JaccardNum(A, B), JaccardDen(A, B)))
  /\ Chk("identical-sketches-one", (SameSketch(A, B) /\ ~A.empty /\ A.ent /= {}) => e.est = e.one)
  /\ Chk("disjoint-samples-zero", (A.ent \cap B.ent = {} /\ JaccardDen(A, B) > 0) => e.est = e.zero)
  \* both operands exact (theta = maximum, f = 1): "When f = 1.0 this returns the estimate"
  /\ Chk("exact-mode-bounds-collapse", (A.theta = e.maxTheta /\ B.theta = e.maxTheta /\ ~A.empty /\ ~B.empty) => e.lb = e.est /\ e.ub = e.est)
  /\ Chk("symmetric", e.estRev = e.est /\ e.lbRev = e.lb /\ e.ubRev = e.ub)
  /\ Chk("exactly-equal", e.equal = SameSketch(A, B) /\ e.equalRev = e.equal)
  /\ Chk("similarity-test-is-lb-at-least-threshold", \A i \in DOMAIN e.t : (e.sim[i] = 1) = (e.lb >= e.t[i]))
  /\ Chk("dissimilarity-test-is-ub-at-most-threshold", \A i \in DOMAIN e.t : (e.dis[i] = 1) = (e.ub <= e.t[i]))
  /\ UNCHANGED mode

TJaccardSelf == IsEvent("JaccardSelf") /\ LET e == Log[l] IN
  /\ Chk("same-object-one", e.lb = e.one /\ e.est = e.one /\ e.ub = e.one /\ e.equal)
  /\ UNCHANGED mode

TRatio == IsEvent("Ratio") /\ LET e == Log[l] IN \A A \in {Sk(e.a)} : \A B \in {Sk(e.b)} :
  /\ Chk("operands-well-formed", SkOK(e.a) /\ SkOK(e.b))
  /\ Chk("refusal-is-invalid-argument", ~e.other)
  \* "the theta of B is guaranteed to be less than or equal to the theta of A": otherwise refused
  /\ Chk("theta-precondition-refused", B.theta > A.theta => e.threw)
  /\ Chk("subset-sketch-accepted", SubsetSketch(A, B) => ~e.threw)
  /\ Chk("ratio-bounds-order", (SubsetSketch(A, B) /\ ~e.threw) => Ordered(e))
  /\ Chk("ratio-estimate-is-sample-ratio", (SubsetSketch(A, B) /\ ~e.threw) => IsRatio(e.est5, RatioNum(A, B), RatioDen(A, B)))
  /\ Chk("ratio-exact-mode-collapse", (SubsetSketch(A, B) /\ ~e.threw /\ B.theta = e.maxTheta /\ RatioDen(A, B) > 0) => e.lb = e.est /\ e.ub = e.est)
  /\ UNCHANGED mode

TSampled == IsEvent("Sampled") /\ LET e == Log[l] IN
  /\ Chk("sampled-bounds-order", Ordered(e))
  /\ Chk("sampled-estimate-is-b-over-a", IsRatio(e.est5, e.b, e.a))
  /\ Chk("sampled-f-one-returns-estimate", (e.fOne /\ e.a > 0) => e.lb = e.est /\ e.ub = e.est)
  /\ UNCHANGED mode
TSampledBad == IsEvent("SampledBad") /\ LET e == Log[l] IN
  /\ Chk("sampled-invalid-arguments-refused", e.refused = e.of /\ e.other = 0)
  /\ UNCHANGED mode

TInit == l = 1 /\ mode = ""
TNext == TBegin \/ TJaccard \/ TJaccardSelf \/ TRatio \/ TSampled \/ TSampledBad
TSpec == TInit /\ [][TNext]_tvars
====
