\* K = 4 rows: window moves at C = 14, 18 and 22 (offset reaches 3) within 22 cells: the 8 cells of Prefix (column 0 of
\* all rows, column 1 of rows 0..2, (0,2)) are fed first in that order, then the 14 cells of Alphabet in EVERY order:
\* (3,1) (1,2) (2,2) (3,2) (0,3) (1,3) (2,3) (0,4) (1,9) (2,10) (3,11) (0,12) (2,13) (0,16) - the zeros left in columns 1, 2
\* become surprising 0s of the early zone (inverted logic) after the window has moved past them
SPECIFICATION Spec
CONSTANTS LgK = 2
 Alphabet = {193, 66, 130, 194, 3, 67, 131, 4, 73, 138, 203, 12, 141, 16}
 Prefix <- PrefixK4
 FicBias = 0
INVARIANT Rep RT Observables
PROPERTY Refines
CHECK_DEADLOCK FALSE
