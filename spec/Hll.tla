---- MODULE Hll ----
(***************************************************************************)
(* Tier A contract of hll_sketch (property C03), written from the property *)
(* statement and the public documentation only.                            *)
(*                                                                         *)
(* A coupon is a pair <<addr, val>>: addr = 26 low bits of the first hash  *)
(* word, val = min(leading zeros of the second word, 62) + 1 (1..63).  In  *)
(* a sketch of 2^lgK slots it falls into slot addr mod 2^lgK.              *)
(*                                                                         *)
(* State obj[i] of a live sketch i:                                        *)
(*   lgK, type (4|6|8 bits per slot), full (start_full_size)  configuration*)
(*   mode   LIST(0) | SET(1) | HLL(2): the mode bits of byte 7 of its image*)
(*   fed    ghost: the distinct coupons offered since construction/reset   *)
(*   top    ghost: per-slot maximum value of everything offered            *)
(*   empty  ghost: nothing was offered                                     *)
(* The observable content is NOT a free variable: the property fixes it as *)
(* a function of the ghosts and the mode (Content).  What the property     *)
(* leaves open - WHEN the representation changes - is the explicit         *)
(* parameter m of the actions (bound to the logged mode in trace specs).   *)
(* The only restriction on m: a sketch in HLL mode has forgotten the       *)
(* individual coupons and stays in HLL mode until it is reset.             *)
(*                                                                         *)
(* top is maintained incrementally; Inv states that it is the declarative  *)
(* per-slot maximum SlotMax(fed) (model-checked with TrackFed = TRUE).     *)
(* Trace specifications set TrackFed = FALSE: the coupon set is dropped    *)
(* once a sketch is in HLL mode, where only top is observable, so that     *)
(* validation stays linear for streams far beyond k.                       *)
(***************************************************************************)
EXTENDS Naturals, FiniteSets, Sequences, TLC
LOCAL INSTANCE SequencesExt
CONSTANTS Ids, LgKs, Coupons,  \* bounds used only by Next (model checking)
          Bigs,                \* subset of BOOLEAN: ghost representations explored by Next
          TrackFed             \* TRUE: keep the full coupon ghost also in HLL mode
VARIABLE obj
vars == <<obj>>

LIST == 0
SET == 1
HLL == 2
Modes == {LIST, SET, HLL}
Types == {4, 6, 8}

Max2(a, b) == IF a >= b THEN a ELSE b
\* left fold over a sequence (iterative Java override of the CommunityModules; SequencesExt itself is not re-exported)
SeqFold(Op(_, _), base, seq) == FoldLeft(Op, base, seq)
MaxOf(S) == IF S = {} THEN 0 ELSE CHOOSE x \in S : \A y \in S : y <= x
Slots(lgK) == 0..(2^lgK - 1)
SlotOf(c, lgK) == c[1] % (2^lgK)
\* the declarative definition: per-slot maximum of a coupon set
SlotMax(S, lgK) == [s \in Slots(lgK) |-> MaxOf({c[2] : c \in {d \in S : SlotOf(d, lgK) = s}})]
Zero(lgK) == [s \in Slots(lgK) |-> 0]

(* Sparse ghost (big = TRUE, used by trace specifications for lg_k > 16 where a dense register function of 2^lgK entries *)
(* is unaffordable): the coupon set fed is kept in every mode, top is not maintained (<<>>), and the registers are the  *)
(* declarative PairsOf(fed): the set of <<slot, value>> pairs of the non-zero slots.                                    *)
PairsOf(S, lgK) == {<<s, MaxOf({c[2] : c \in {d \in S : SlotOf(d, lgK) = s}})>> : s \in {SlotOf(c, lgK) : c \in S}}
\* near-linear test that a set L of <<slot, value>> pairs IS PairsOf(S, lgK): one pair per slot, every pair is attained by a
\* coupon, every coupon is dominated by the pair of its slot (MC_Hll checks the equivalence)
PairsMatch(L, S, lgK) ==
  LET W == {<<SlotOf(c, lgK), c[2]>> : c \in S} IN
  /\ Cardinality({p[1] : p \in L}) = Cardinality(L)
  /\ \A p \in L : p \in W
  /\ \A c \in S : \E v \in c[2]..63 : <<SlotOf(c, lgK), v>> \in L

Live == DOMAIN obj
Fresh(lgK, type, full, m, big) ==
  [lgK |-> lgK, type |-> type, full |-> full, mode |-> m, fed |-> {}, top |-> IF big THEN <<>> ELSE Zero(lgK), empty |-> TRUE,
   big |-> big]

\* the non-zero registers as <<slot, value>> pairs
NzPairs(o) == IF o.big THEN PairsOf(o.fed, o.lgK) ELSE {<<s, o.top[s]>> : s \in {x \in DOMAIN o.top : o.top[x] > 0}}
\* the logical content the API must expose
Content(o) == IF o.mode # HLL THEN o.fed ELSE IF o.big THEN NzPairs(o) ELSE o.top
NonZero(o) == IF o.big THEN Cardinality({SlotOf(c, o.lgK) : c \in o.fed}) ELSE Cardinality({s \in DOMAIN o.top : o.top[s] > 0})
SlotVal(o, s) == IF o.big THEN MaxOf({c[2] : c \in {d \in o.fed : SlotOf(d, o.lgK) = s}}) ELSE o.top[s]
\* admissible representation after a step
ModeOK(o, m) == m \in Modes /\ (o.mode = HLL => m = HLL)
Keep(o, m) == TrackFed \/ o.big \/ m # HLL

Feed(o, c, m) ==
  [o EXCEPT !.fed = IF Keep(o, m) THEN @ \cup {c} ELSE {},
            !.top = IF o.big THEN @ ELSE [@ EXCEPT ![SlotOf(c, o.lgK)] = Max2(@, c[2])],
            !.empty = FALSE,
            !.mode = m]

Init == obj = <<>>
New(i, lgK, type, full, m, big) == obj' = (i :> Fresh(lgK, type, full, m, big)) @@ obj
\* a sketch that has been offered exactly the coupons of the sequence cs, e.g. one rebuilt from a documented coupon-list image
\* written by hand (the only way to present coupon values >= 32): same ghosts as New followed by FeedMany
NewFed(i, lgK, type, full, cs, m, big) ==
  LET K == 2^lgK  f == Fresh(lgK, type, full, m, big) IN
  obj' = (i :> [f EXCEPT !.fed = IF Keep(f, m) THEN {cs[n] : n \in DOMAIN cs} ELSE {},
                          !.top = IF big THEN @ ELSE FoldLeft(LAMBDA g, c : [g EXCEPT ![c[1] % K] = Max2(@, c[2])], @, cs),
                          !.empty = cs = <<>>]) @@ obj
CouponUpdate(i, c, m) ==
  /\ i \in Live
  /\ ModeOK(obj[i], m)
  /\ obj' = [obj EXCEPT ![i] = Feed(@, c, m)]
\* the same item offered to several sketches (the driver's lock-step groups); ms[n] is the mode of ids[n] afterwards
UpdateAll(ids, c, ms) ==
  /\ \A n \in DOMAIN ids : ids[n] \in Live /\ ModeOK(obj[ids[n]], ms[n])
  /\ obj' = [j \in Live |-> IF \E n \in DOMAIN ids : ids[n] = j
                            THEN Feed(obj[j], c, ms[CHOOSE n \in DOMAIN ids : ids[n] = j])
                            ELSE obj[j]]
\* a batch of items offered to one sketch (bulk feeds of the union driver): the effect of CouponUpdate for every coupon of
\* the sequence cs in turn; only the representation after the last one is observed
FeedMany(i, cs, m) ==
  /\ i \in Live
  /\ ModeOK(obj[i], m)
  /\ cs # <<>>
  /\ LET o == obj[i]  K == 2^o.lgK IN
     obj' = [obj EXCEPT ![i] = [o EXCEPT !.fed = IF Keep(o, m) THEN @ \cup {cs[n] : n \in DOMAIN cs} ELSE {},
                                         !.top = IF o.big THEN @ ELSE FoldLeft(LAMBDA f, c : [f EXCEPT ![c[1] % K] = Max2(@, c[2])], @, cs),
                                         !.empty = FALSE,
                                         !.mode = m]]
\* update("") and update(nullptr, n) are ignored entirely
UpdateIgnored(i) == i \in Live /\ UNCHANGED obj
\* hll_sketch(const hll_sketch&, target_hll_type): same configuration except the type, same ghosts => same content
ConvertCopy(i, j, t, m) ==
  /\ i \in Live /\ t \in Types
  /\ ModeOK(obj[i], m)
  /\ obj' = (j :> [obj[i] EXCEPT !.type = t, !.mode = m, !.fed = IF Keep(obj[i], m) THEN @ ELSE {}]) @@ obj
Copy(i, j) == i \in Live /\ obj' = (j :> obj[i]) @@ obj
Reset(i, m) ==
  /\ i \in Live /\ m \in Modes
  /\ obj' = [obj EXCEPT ![i] = Fresh(@.lgK, @.type, @.full, m, @.big)]
\* an object rebuilt from a serialized image must be the value that was serialized (C09)
Restore(j, st) == obj' = (j :> st) @@ obj
Destroy(i) == i \in Live /\ obj' = [x \in Live \ {i} |-> obj[x]]

Next == \E i \in Ids :
          \/ \E lgK \in LgKs, t \in Types, full \in BOOLEAN, m \in Modes, big \in Bigs : New(i, lgK, t, full, m, big)
          \/ \E c \in Coupons, m \in Modes : CouponUpdate(i, c, m)
          \/ \E lgK \in LgKs, c1, c2 \in Coupons, m \in Modes, big \in Bigs : NewFed(i, lgK, 8, FALSE, <<c1, c2>>, m, big)
          \/ \E j \in Ids, c \in Coupons, m1, m2 \in Modes : i # j /\ UpdateAll(<<i, j>>, c, <<m1, m2>>)
          \/ \E c1, c2 \in Coupons, m \in Modes : FeedMany(i, <<c1, c2>>, m)
          \/ UpdateIgnored(i)
          \/ \E j \in Ids, t \in Types, m \in Modes : ConvertCopy(i, j, t, m)
          \/ \E j \in Ids : Copy(i, j)
          \/ \E m \in Modes : Reset(i, m)
          \/ Destroy(i)
Spec == Init /\ [][Next]_vars

\* invariants = the clauses of the property about the state
Inv == \A i \in Live : LET o == obj[i] IN
         /\ o.big => /\ o.top = <<>> /\ o.empty = (o.fed = {})
                     /\ PairsMatch(PairsOf(o.fed, o.lgK), o.fed, o.lgK)        \* the near-linear test accepts the definition
                     /\ \A c \in o.fed : ~PairsMatch(PairsOf(o.fed, o.lgK) \ {<<SlotOf(c, o.lgK), SlotVal(o, SlotOf(c, o.lgK))>>}, o.fed, o.lgK)
         /\ ~o.big => /\ o.empty = (o.fed = {} /\ o.top = Zero(o.lgK))
                      /\ (TrackFed \/ o.mode # HLL) => o.top = SlotMax(o.fed, o.lgK)      \* content is a function of the input SET
                      /\ (~TrackFed /\ o.mode = HLL) => o.fed = {}
\* objects with the same inputs and lgK have the same content whatever their type, mode history, lineage or ghost representation
SameContent == \A i, j \in Live :
         (obj[i].lgK = obj[j].lgK /\ obj[i].fed = obj[j].fed /\ obj[i].mode = HLL /\ obj[j].mode = HLL)
           => NzPairs(obj[i]) = NzPairs(obj[j])
====
