---- MODULE Hll ----
(***************************************************************************)
(* Tier A contract of hll_sketch (property C03), written from the property *)
(* statement and the public documentation only.                            *)
(*                                                                         *)
(* A coupon is a pair <<addr, val>>: addr = 26 low bits of the first hash  *)
(* word, val = min(leading zeros of the second word, 62) + 1 (1..63).  In  *)
(* a sketch of 2^lgK slots it falls into slot addr mod 2^lgK.              *)
(*                                                                         *)
(* State obj[i] of a live sketch i:                                        *)
(*   lgK, type (4|6|8 bits per slot), full (start_full_size)  configuration*)
(*   mode   LIST(0) | SET(1) | HLL(2): the mode bits of byte 7 of its image*)
(*   fed    ghost: the distinct coupons offered since construction/reset   *)
(*   top    ghost: per-slot maximum value of everything offered            *)
(*   empty  ghost: nothing was offered                                     *)
(* The observable content is NOT a free variable: the property fixes it as *)
(* a function of the ghosts and the mode (Content).  What the property     *)
(* leaves open - WHEN the representation changes - is the explicit         *)
(* parameter m of the actions (bound to the logged mode in trace specs).   *)
(* The only restriction on m: a sketch in HLL mode has forgotten the       *)
(* individual coupons and stays in HLL mode until it is reset.             *)
(*                                                                         *)
(* top is maintained incrementally; Inv states that it is the declarative  *)
(* per-slot maximum SlotMax(fed) (model-checked with TrackFed = TRUE).     *)
(* Trace specifications set TrackFed = FALSE: the coupon set is dropped    *)
(* once a sketch is in HLL mode, where only top is observable, so that     *)
(* validation stays linear for streams far beyond k.                       *)
(***************************************************************************)
EXTENDS Naturals, FiniteSets, Sequences, TLC
LOCAL INSTANCE SequencesExt
CONSTANTS Ids, LgKs, Coupons,  \* bounds used only by Next (model checking)
          TrackFed             \* TRUE: keep the full coupon ghost also in HLL mode
VARIABLE obj
vars == <<obj>>

LIST == 0
SET == 1
HLL == 2
Modes == {LIST, SET, HLL}
Types == {4, 6, 8}

Max2(a, b) == IF a >= b THEN a ELSE b
\* left fold over a sequence (iterative Java override of the CommunityModules; SequencesExt itself is not re-exported)
SeqFold(Op(_, _), base, seq) == FoldLeft(Op, base, seq)
MaxOf(S) == IF S = {} THEN 0 ELSE CHOOSE x \in S : \A y \in S : y <= x
Slots(lgK) == 0..(2^lgK - 1)
SlotOf(c, lgK) == c[1] % (2^lgK)
\* the declarative definition: per-slot maximum of a coupon set
SlotMax(S, lgK) == [s \in Slots(lgK) |-> MaxOf({c[2] : c \in {d \in S : SlotOf(d, lgK) = s}})]
Zero(lgK) == [s \in Slots(lgK) |-> 0]

Live == DOMAIN obj
Fresh(lgK, type, full, m) ==
  [lgK |-> lgK, type |-> type, full |-> full, mode |-> m, fed |-> {}, top |-> Zero(lgK), empty |-> TRUE]

\* the logical content the API must expose
Content(o) == IF o.mode = HLL THEN o.top ELSE o.fed
NonZero(o) == Cardinality({s \in DOMAIN o.top : o.top[s] > 0})
\* admissible representation after a step
ModeOK(o, m) == m \in Modes /\ (o.mode = HLL => m = HLL)
Keep(m) == TrackFed \/ m # HLL

Feed(o, c, m) ==
  [o EXCEPT !.fed = IF Keep(m) THEN @ \cup {c} ELSE {},
            !.top = [@ EXCEPT ![SlotOf(c, o.lgK)] = Max2(@, c[2])],
            !.empty = FALSE,
            !.mode = m]

Init == obj = <<>>
New(i, lgK, type, full, m) == obj' = (i :> Fresh(lgK, type, full, m)) @@ obj
CouponUpdate(i, c, m) ==
  /\ i \in Live
  /\ ModeOK(obj[i], m)
  /\ obj' = [obj EXCEPT ![i] = Feed(@, c, m)]
\* the same item offered to several sketches (the driver's lock-step groups); ms[n] is the mode of ids[n] afterwards
UpdateAll(ids, c, ms) ==
  /\ \A n \in DOMAIN ids : ids[n] \in Live /\ ModeOK(obj[ids[n]], ms[n])
  /\ obj' = [j \in Live |-> IF \E n \in DOMAIN ids : ids[n] = j
                            THEN Feed(obj[j], c, ms[CHOOSE n \in DOMAIN ids : ids[n] = j])
                            ELSE obj[j]]
\* a batch of items offered to one sketch (bulk feeds of the union driver): the effect of CouponUpdate for every coupon of
\* the sequence cs in turn; only the representation after the last one is observed
FeedMany(i, cs, m) ==
  /\ i \in Live
  /\ ModeOK(obj[i], m)
  /\ cs # <<>>
  /\ LET o == obj[i]  K == 2^o.lgK IN
     obj' = [obj EXCEPT ![i] = [o EXCEPT !.fed = IF Keep(m) THEN @ \cup {cs[n] : n \in DOMAIN cs} ELSE {},
                                         !.top = FoldLeft(LAMBDA f, c : [f EXCEPT ![c[1] % K] = Max2(@, c[2])], @, cs),
                                         !.empty = FALSE,
                                         !.mode = m]]
\* update("") and update(nullptr, n) are ignored entirely
UpdateIgnored(i) == i \in Live /\ UNCHANGED obj
\* hll_sketch(const hll_sketch&, target_hll_type): same configuration except the type, same ghosts => same content
ConvertCopy(i, j, t, m) ==
  /\ i \in Live /\ t \in Types
  /\ ModeOK(obj[i], m)
  /\ obj' = (j :> [obj[i] EXCEPT !.type = t, !.mode = m, !.fed = IF Keep(m) THEN @ ELSE {}]) @@ obj
Copy(i, j) == i \in Live /\ obj' = (j :> obj[i]) @@ obj
Reset(i, m) ==
  /\ i \in Live /\ m \in Modes
  /\ obj' = [obj EXCEPT ![i] = Fresh(@.lgK, @.type, @.full, m)]
\* an object rebuilt from a serialized image must be the value that was serialized (C09)
Restore(j, st) == obj' = (j :> st) @@ obj
Destroy(i) == i \in Live /\ obj' = [x \in Live \ {i} |-> obj[x]]

Next == \E i \in Ids :
          \/ \E lgK \in LgKs, t \in Types, full \in BOOLEAN, m \in Modes : New(i, lgK, t, full, m)
          \/ \E c \in Coupons, m \in Modes : CouponUpdate(i, c, m)
          \/ \E j \in Ids, c \in Coupons, m1, m2 \in Modes : i # j /\ UpdateAll(<<i, j>>, c, <<m1, m2>>)
          \/ \E c1, c2 \in Coupons, m \in Modes : FeedMany(i, <<c1, c2>>, m)
          \/ UpdateIgnored(i)
          \/ \E j \in Ids, t \in Types, m \in Modes : ConvertCopy(i, j, t, m)
          \/ \E j \in Ids : Copy(i, j)
          \/ \E m \in Modes : Reset(i, m)
          \/ Destroy(i)
Spec == Init /\ [][Next]_vars

\* invariants = the clauses of the property about the state
Inv == \A i \in Live : LET o == obj[i] IN
         /\ o.empty = (o.fed = {} /\ o.top = Zero(o.lgK))
         /\ (TrackFed \/ o.mode # HLL) => o.top = SlotMax(o.fed, o.lgK)      \* content is a function of the input SET
         /\ (~TrackFed /\ o.mode = HLL) => o.fed = {}
\* objects with the same inputs and lgK have the same content whatever their type, mode history or lineage
SameContent == \A i, j \in Live :
         (obj[i].lgK = obj[j].lgK /\ obj[i].fed = obj[j].fed /\ obj[i].mode = HLL /\ obj[j].mode = HLL)
           => Content(obj[i]) = Content(obj[j])
====
