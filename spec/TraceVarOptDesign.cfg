SPECIFICATION TSpec
CONSTANTS K = 0 MaxN = 0 Wts = {} Variant = 0
POSTCONDITION Accepted
CHECK_DEADLOCK FALSE
