\* NEGATIVE config (bin/selftest; not part of bin/check): the coin is adopted only by a state-0 compactor; a never-compacted compactor that first absorbs an even non-zero state and then an odd one compacts deterministically: EUnbiased must be violated
\* SecSizes: section sizes by generation (code k = 12: <<12, 8, 6, 4, 4>>), InitSec: initial number of sections (code: 3)
SPECIFICATION ESpec
CONSTANTS Ids = {1, 2, 3}
 Items = {1, 2}
 SecSizes <- Sec2
 InitSec = 1
 Hras = {TRUE}
 MaxN = 13
 MergeCoin = "adopt0"
INVARIANT EUnbiased ESchedule
CONSTRAINT ENBound EThree
CHECK_DEADLOCK FALSE
