\* exhaustive run of the t-digest contract, ONE sketch: values 1..6, a buffer of 4, at most Cap = 3 centroids,
\* EVERY contiguous coarsening with every admissible mean at every compress (explicit compress() at any time,
\* forced compress when the buffer is full), at most MaxN accepted values.  Checks weight conservation, exact
\* extremes, sortedness and the capacity bound under every grouping.
SPECIFICATION Spec
CONSTANTS Ids = {1}
 Vals = {1, 2, 3, 4, 5, 6}
 Ks = {10}
 Cap = 3
 BufCap = 4
 MaxN = 6
INVARIANT Inv
VIEW View
CHECK_DEADLOCK FALSE
