---- MODULE TraceEbpps ----
(***************************************************************************)
(* Trace validation of recorded executions of ebpps_sketch against the     *)
(* Ebpps contract (C18) and the Serde clauses of C09.  One successor per   *)
(* event.  Scalars on every event: n, k, cum = round(cumulative weight)    *)
(* with its residual in 1e-6 units, c10k = round(get_c() * 10^4).          *)
(***************************************************************************)
EXTENDS Ebpps, TraceCommon, Integers
VARIABLES blob
tvars == <<obj, l, blob>>

NoThrow(e) == Chk("no-throw", ~Has(e, "threw"))
\* a valid image that cannot be restored breaks C09 and the family's own property ("x serialization points"): both are named
NoThrowRestore(e) == IF ~Has(e, "threw") THEN TRUE
                     ELSE PrintT(<<"REJECT", "C09:restore-no-throw", l>>) /\ PrintT(<<"REJECT", "C18:serialization-point-restorable", l>>) /\ FALSE
Scal(e, o) == /\ Chk("n", e.n = o.n)
              /\ Chk("k", e.k = o.k)
              /\ Chk("cumulative-weight", e.cum = o.cumWt /\ e.cumRes = 0)
              /\ Chk("c=min(k,cumWt/wtMax)", COK(o, e.c10k))
              /\ Chk("is_empty", e.empty = (o.n = 0))

TBegin == IsEvent("Begin") /\ obj' = <<>> /\ blob' = <<>>
TNew == IsEvent("New") /\ LET e == Log[l] IN New(e.id, e.k) /\ Scal(e, obj'[e.id]) /\ UNCHANGED blob
TNewInvalid == IsEvent("NewInvalid") /\ LET e == Log[l] IN Chk("invalid-k-refused", e.refused) /\ Refused /\ UNCHANGED blob
TUpdate == IsEvent("Update") /\ LET e == Log[l] IN
  /\ NoThrow(e) /\ Update(e.id, e.x, e.w) /\ Scal(e, obj'[e.id]) /\ UNCHANGED blob
\* an update with weight 0 is ignored: nothing observable changes (UpdateIgnored of the contract)
TUpdateZero == IsEvent("UpdateZero") /\ LET e == Log[l] IN
  /\ NoThrow(e) /\ Scal(e, obj[e.id]) /\ UpdateIgnored(e.id) /\ UNCHANGED blob
TUpdateInvalid == IsEvent("UpdateInvalid") /\ LET e == Log[l] IN
  /\ Chk("invalid-weight-refused", e.refused) /\ Scal(e, obj[e.id]) /\ Refused /\ UNCHANGED blob
TGetResult == IsEvent("GetResult") /\ LET e == Log[l]  o == obj[e.id]  S == ToSet(e.items) IN
  /\ NoThrow(e)
  /\ Chk("items-distinct", Cardinality(S) = Len(e.items))
  /\ Chk("items-from-input", S \subseteq DOMAIN o.stream)
  /\ Chk("size-in-{floor(c),ceil(c)}", Len(e.items) \in {FloorC(o), CeilC(o)})
  /\ Chk("equal-weights-n<=k-all-kept", EqualWeights(o) /\ o.n <= o.k => S = DOMAIN o.stream)
  /\ GetResult(e.id, S)
  /\ Scal(e, o) /\ UNCHANGED blob
TMerge == IsEvent("Merge") /\ LET e == Log[l] IN
  /\ NoThrow(e)
  /\ Merge(e.dst, e.src)
  /\ LET o == obj'[e.dst] IN
       /\ Chk("merge-n-adds", e.n = o.n)
       /\ Chk("merge-k=min", e.k = o.k)
       /\ Chk("merge-cumulative-weight-adds", e.cum = o.cumWt /\ e.cumRes = 0)
       /\ Scal(e, o)
  /\ UNCHANGED blob
TCopy == IsEvent("Copy") /\ LET e == Log[l] IN Copy(e.src, e.dst) /\ Scal(e, obj'[e.dst]) /\ UNCHANGED blob
TReset == IsEvent("Reset") /\ LET e == Log[l] IN Reset(e.id) /\ Scal(e, obj'[e.id]) /\ UNCHANGED blob
TDrop == IsEvent("Drop") /\ LET e == Log[l] IN Destroy(e.id) /\ UNCHANGED blob

TSer == IsEvent("Ser") /\ LET e == Log[l] IN
  /\ NoThrow(e)
  /\ Chk("C09:bytes=stream", e.img = e.simg)
  /\ Chk("C09:advertised-size", e.size = e.advertised)
  /\ Chk("C09:header", e.total = e.hdr + e.size)
  /\ blob' = (e.blob :> [val |-> obj[e.id], img |-> e.img, size |-> e.size]) @@ blob
  /\ UNCHANGED obj
TDeser == IsEvent("Deser") /\ LET e == Log[l]  b == blob[e.blob] IN
  /\ NoThrowRestore(e)
  /\ Scal(e, b.val)
  /\ Chk("C09:consumed", e.consumed = b.size)
  /\ Chk("C09:reserialize", e.reimg = b.img)
  /\ obj' = (e.dst :> b.val) @@ obj /\ UNCHANGED blob

\* an image whose C is negative, or a truncated image, is refused (clause of C11 exercised by this driver)
TDeserBad == IsEvent("DeserBad") /\ Chk("C11:damaged-image-refused", Log[l].refused) /\ UNCHANGED <<obj, blob>>

\* ---- proportional inclusion: counts over T seeded runs of one fixed stream (Stats verdict) ----
\* P(item i in a result) = c * w_i / W = num_i / den with den = W * wmax, num_i = min(k * w_i * wmax, w_i * W).
\* Accept iff |count_i - T p_i| <= 6 sqrt(T p_i (1 - p_i)) + 1, in integers scaled by den:
\*   dev = |count_i * den - T * num_i|,  dev <= den  or  (dev - den)^2 <= 36 * T * num_i * (den - num_i).
RECURSIVE SumTo(_, _), MaxTo(_, _)
SumTo(s, i) == IF i = 0 THEN 0 ELSE s[i] + SumTo(s, i - 1)
MaxTo(s, i) == IF i = 0 THEN 0 ELSE Max(s[i], MaxTo(s, i - 1))
Abs(x) == IF x < 0 THEN 0 - x ELSE x
TStat == IsEvent("Stat") /\ LET e == Log[l]
                                m == Len(e.w)  W == SumTo(e.w, Len(e.w))  wmax == MaxTo(e.w, Len(e.w))
                                kk == IF e.what = "merge" THEN Min(e.k, e.k2) ELSE e.k
                                den == W * wmax
                                cnum == Min(kk * wmax, W)           \* c = cnum / wmax
                            IN
  /\ NoThrow(e)
  /\ Chk("stat-driver-range", W <= 40 /\ wmax <= 4 /\ e.T <= 2000 /\ Len(e.counts) = Len(e.idioms) /\ Len(e.sizes) = Len(e.idioms))
  \* every traversal idiom (get_result, iterator loop, range-for, copied iterators / std algorithms) separately
  /\ \A j \in 1..Len(e.idioms) :
       /\ Chk("stat-driver-range", Len(e.counts[j]) = m)
       /\ \A i \in 1..m :
            LET num == Min(kk * e.w[i] * wmax, e.w[i] * W)
                dev == Abs(e.counts[j][i] * den - e.T * num)
            IN /\ Chk("count-range", e.counts[j][i] >= 0 /\ e.counts[j][i] <= e.T)
               /\ Chk("inclusion-proportional-to-weight",
                      dev <= den \/ (dev - den <= 46340 /\ (dev - den) * (dev - den) <= 36 * e.T * num * (den - num)))
       \* mean sample size = c: sum of the sizes over T runs within 6 sigma (per-run variance <= 1/4) + 1 of T * c
       /\ LET sdev == Abs(e.sizes[j] * wmax - e.T * cnum) IN
            Chk("mean-sample-size=c", sdev <= wmax \/ (sdev - wmax) * (sdev - wmax) <= 9 * e.T * wmax * wmax)
  /\ UNCHANGED <<obj, blob>>

TInit == obj = <<>> /\ blob = <<>> /\ l = 1
TNext == TBegin \/ TNew \/ TNewInvalid \/ TUpdate \/ TUpdateZero \/ TUpdateInvalid \/ TGetResult \/ TMerge \/ TCopy \/ TReset \/ TDrop
         \/ TSer \/ TDeser \/ TDeserBad \/ TStat
TSpec == TInit /\ [][TNext]_tvars
====
