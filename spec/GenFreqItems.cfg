\* the code's real minimum sizes: LgMin = LG_MIN_MAP_SIZE = 3; lg_max 3 (purge at the 7th active item) or 4 (resize at the 7th,
\* purge at the 13th); items 1..14, weights 0..3; walks of Depth updates
SPECIFICATION GSpec
CONSTANTS Ids = {1}
 Items = {1, 2, 3, 4, 5, 6, 7, 8, 9, 10, 11, 12, 13, 14}
 NItems = 14
 Weights = {1, 2, 3}
 LgMaxs = {3, 4}
 MaxTotal = 0
 LgMin = 3
 EmptyTest = "weight"
 Depth = 60
CONSTRAINT Collect
CHECK_DEADLOCK FALSE
