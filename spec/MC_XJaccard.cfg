\* X04: all pairs of theta sketches over hashes 1..5 (thetas 2..6, 6 = maximum): the code's union / intersection route computes the
\* contract's sample counts; the estimate is symmetric, within [0,1], 1 for identical and 0 for disjoint samples
SPECIFICATION Spec
CONSTANTS MaxH = 5 KRule = "sum"
INVARIANT RouteIsContract
INVARIANT Theorems
CHECK_DEADLOCK FALSE
