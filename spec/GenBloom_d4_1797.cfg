\* quick tier: every (reachable model state, call) pair within Depth calls after initialize_by_size; 1 region, 3 slots, 3 items
SPECIFICATION GSpec
CONSTANTS FltIds = {1, 2, 3}
 MemIds = {1}
 Cfgs <- GenCfgs
 Items = {}
 MaxCalls = 0
 WriteDirtyThrough = TRUE
 QauKeepsDirty = TRUE
 RoCheckSetOps = TRUE
 RemarkWhenDirty = TRUE
 Depth = 4
VIEW NoHist
CONSTRAINT Collect
POSTCONDITION Post
CHECK_DEADLOCK FALSE
