SPECIFICATION Spec
CONSTANTS LgK = 1
 LgRf = 0
 MaxHash = 8
 StartTheta = 9
 MinLgK = 1
 RebuildPivot = 3
INVARIANT Sample CInv
PROPERTY Refines
CHECK_DEADLOCK FALSE
