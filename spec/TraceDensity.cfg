SPECIFICATION TSpec
CONSTANTS Ids = {} Points = {} Ks = {} MaxN = 0
INVARIANT Inv
POSTCONDITION Accepted
CHECK_DEADLOCK FALSE
