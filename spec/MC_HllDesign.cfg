\* HLL design model, 4 slots (lgK = 2), list of 2 then directly HLL (as the code does for lgK < 8), all three register widths
\* with conversions between them; values up to 18 so that exceptions (value - curMin >= 15), all reachable aux cases and
\* multi-step cur-min shifts occur.  Thresholds lowered: ListSize 2 (code 8).
SPECIFICATION Spec
CONSTANTS LgK = 2
 Full = FALSE
 Alphabet <- Alpha4
 ListSize = 2
 SetMinLgK = 8
 LgInitSet = 5
 SetLgDelta = 3
 AuxToken = 15
 ShiftBack = 14
INVARIANT ContentOK EmptyOK Rep Rep68 CInv
PROPERTY Refines
POSTCONDITION Covered
CHECK_DEADLOCK FALSE
